/-
  Model of the LAPACK-free part of `src/solver/core/cones/psdtrianglecone.rs` and of the
  svec/mat helpers of `src/algebra/dense/matrix_math.rs` (C13).

  * A vector of the cone is the scaled packed upper triangle ("svec") of a symmetric
    `n × n` matrix, an `Array α` of length `n(n+1)/2` in the order of the Rust loops
    `for col in 0..n { for row in 0..=col { … } }` (`packed`).
  * A dense matrix is its entry function `Nat → Nat → α` (`MatFn`); entries with an index
    `≥ n` are never read.  `matOf n a` reads a column-major `n × n` array (the layout of
    `Matrix<T>::data()`), `colMajor` materialises one.
  * Everything LAPACK produces (Cholesky factors, SVD, hence `R`, `R⁻¹`, `λ`) is an explicit
    input: `Cone` carries `λ`, `Λ^{-1/2}`, `R`, `R⁻¹` and the packed upper triangle of `Hs`;
    `assembleScaling` is the part of `update_scaling` after the LAPACK calls.
  * BLAS products (`gemm`, `syrk`, `syr2k`) are modelled entrywise as left folds in index
    order (`sumN`).  The BLAS kernels accumulate in a different order, so the channels of
    the functions that contain one compare with a relative tolerance; the BLAS-free
    functions (`svec_to_mat`, `mat_to_svec`, `skron`, `get_Hs`, `λ_inv_circ_op`,
    `affine_ds`) are bit-exact.
  * `T::FRAC_1_SQRT_2()` is `sqrt(1/2)` and `T::SQRT_2()` is `sqrt(2)` (both correctly rounded
    at `Float`, so the same bits as the Rust constants; checked by the exact channels).
-/
import ClarabelModel.Vec
import ClarabelModel.Cones.PsdIndex

namespace Clarabel
namespace PsdTri

open PsdIndex (triangularNumber triangularIndex)

variable {α : Type}

/-- entry function of a dense matrix -/
abbrev MatFn (α : Type) := Nat → Nat → α

/-- the packed upper triangle of an `n × n` array of entries, in the order of the Rust loops
`for col in 0..n { for row in 0..=col { … idx += 1 } }` -/
def packed {β : Type} (n : Nat) (e : Nat → Nat → β) : List β :=
  (List.range n).flatMap fun col => (List.range (col + 1)).map fun row => e row col

/-- `(row, col)` of a packed index: `p = triangular_number(col) + row`, `row ≤ col` -/
def unpackGo : Nat → Nat → Nat → Nat × Nat
  | 0, p, c => (p, c)
  | fuel + 1, p, c => if p ≤ c then (p, c) else unpackGo fuel (p - (c + 1)) (c + 1)

def unpack (p : Nat) : Nat × Nat := unpackGo p p 0

def sizeGuard (ok : Bool) : MErr Unit :=
  if ok then pure () else throw (.err "unmodelled-size")

/-- the scaling state of `PSDConeData` that the LAPACK-free functions read -/
structure Cone (α : Type) where
  n : Nat
  /-- `λ` (length `n`) -/
  lam : Array α
  /-- `Λisqrt` (length `n`) -/
  lamIsqrt : Array α
  /-- `R`, column-major `n × n` -/
  R : Array α
  /-- `Rinv`, column-major `n × n` -/
  Rinv : Array α
  /-- packed upper triangle of `Hs` (what `get_Hs` writes) -/
  Hs : Array α

section
variable [Add α] [Mul α] [Sub α] [Div α] [Neg α] [OfNat α 0] [OfNat α 1] [LT α] [DecidableLT α]
  [FloatLike α]

/-- `2.0` -/
@[inline] def two : α := 1 + 1
/-- `0.5` -/
@[inline] def half : α := 1 / (1 + 1)
/-- `T::FRAC_1_SQRT_2()` -/
@[inline] def isqrt2 : α := sqrt (1 / (1 + 1))
/-- `T::SQRT_2()` -/
@[inline] def sqrt2 : α := sqrt (1 + 1)

/-- `β == 0` of a BLAS routine (the output is then not read) -/
def isZero (x : α) : Bool := !(decide (x < 0)) && !(decide (0 < x))

/-- `Σ_{k<n} f k`, left fold in index order -/
def sumN (n : Nat) (f : Nat → α) : α := (List.range n).foldl (fun acc k => acc + f k) 0

/-- entry `(i,j)` of the column-major `n × n` array `a` -/
def matOf (n : Nat) (a : Array α) : MatFn α := fun i j => a.getD (i + n * j) 0

/-- column-major data of the leading `n × n` part of `M` -/
def colMajor (n : Nat) (M : MatFn α) : Array α :=
  ((List.range n).flatMap fun j => (List.range n).map fun i => M i j).toArray

/-- transpose view (`.t()`) -/
def tr (A : MatFn α) : MatFn α := fun i j => A j i

/-- `Symmetric` view of a matrix that holds its upper triangle (`.sym()`) -/
def symView (U : MatFn α) : MatFn α := fun i j => if i ≤ j then U i j else U j i

/-- `svec_to_mat`: `M[(r,c)] = M[(c,r)] = x[idx]·(1/√2)` off the diagonal, `x[idx]` on it -/
def svecToMat (x : Array α) : MatFn α := fun i j =>
  if i = j then x.getD (triangularNumber j + i) 0
  else if i < j then x.getD (triangularNumber j + i) 0 * isqrt2
  else x.getD (triangularNumber i + j) 0 * isqrt2

/-- `mat_to_svec`: `x[idx] = M[(r,c)]` on the diagonal, `(M[(r,c)] + M[(c,r)])·(1/√2)` off it -/
def matToSvec (n : Nat) (M : MatFn α) : Array α :=
  (packed n fun r c => if r = c then M r c else (M r c + M c r) * isqrt2).toArray

/-- plain product `A·B` (`gemm` with `α = 1`, `β = 0`) -/
def mm (n : Nat) (A B : MatFn α) : MatFn α := fun i j => sumN n fun k => A i k * B k j

/-- `C ← a·A·B + b·C` (`gemm`; `C` is not read when `b = 0`) -/
def gemm (n : Nat) (A B : MatFn α) (a b : α) (C : MatFn α) : MatFn α := fun i j =>
  let s := sumN n fun k => A i k * B k j
  if isZero b then a * s else a * s + b * C i j

/-- `mul_Wx_inner`: `y ← svec(a·(RxᵀXRx) + b·Y)` (shape `N`) or `svec(a·(RxXRxᵀ) + b·Y)`
(shape `T`), `X = mat(x)`, `Y = mat(y)` -/
def mulWxInner (t : Bool) (n : Nat) (Rx : MatFn α) (y x : Array α) (a b : α) : Array α :=
  let X := svecToMat x
  let Y := svecToMat y
  if t then
    -- tmp = X·Rxᵀ ; Y = a·Rx·tmp + b·Y
    let tmp := mm n X (tr Rx)
    matToSvec n (gemm n Rx tmp a b Y)
  else
    -- tmp = Rxᵀ·X ; Y = a·tmp·Rx + b·Y
    let tmp := mm n (tr Rx) X
    matToSvec n (gemm n tmp Rx a b Y)

/-- the length checks shared by `mul_W` / `mul_Winv` (slices of the cone's `numel`) -/
def mulWx (t : Bool) (n : Nat) (Rx : Array α) (y x : Array α) (a b : α) : MErr (Array α) := do
  sizeGuard (Rx.size == n * n && x.size == triangularNumber n && y.size == triangularNumber n)
  pure (mulWxInner t n (matOf n Rx) y x a b)

/-- `mul_W` -/
def mulW (K : Cone α) (t : Bool) (y x : Array α) (a b : α) : MErr (Array α) :=
  mulWx t K.n K.R y x a b

/-- `mul_Winv` -/
def mulWinv (K : Cone α) (t : Bool) (y x : Array α) (a b : α) : MErr (Array α) :=
  mulWx t K.n K.Rinv y x a b

/-- `mul_Hs`: `work = W x`, `y = Wᵀ work` -/
def mulHs (K : Cone α) (x : Array α) : MErr (Array α) := do
  let work ← mulW K false x x 1 0
  mulW K true work work 1 0

/-- `circ_op`: `X = ½(Y Zᵀ + Z Yᵀ)` (`syr2k`, upper triangle), then `mat_to_svec` of the
symmetric view -/
def circOpFn (n : Nat) (Y Z : MatFn α) : Array α :=
  let U : MatFn α := fun i j => half * (sumN n fun k => Y i k * Z j k + Z i k * Y j k)
  matToSvec n (symView U)

def circOp (n : Nat) (y z : Array α) : MErr (Array α) := do
  sizeGuard (y.size == triangularNumber n && z.size == triangularNumber n)
  pure (circOpFn n (svecToMat y) (svecToMat z))

/-- `inv_circ_op` is `unreachable!()` -/
def invCircOp (_n : Nat) (_y _z : Array α) : MErr (Array α) :=
  throw (.panic "unreachable")

/-- `λ_inv_circ_op`: `X[(i,j)] = 2 Z[(i,j)] / (λ[i] + λ[j])` -/
def lamInvCircOpFn (n : Nat) (lam : Array α) (z : Array α) : Array α :=
  let Z := svecToMat z
  matToSvec n fun i j => (two * Z i j) / (lam.getD i 0 + lam.getD j 0)

def lamInvCircOp (K : Cone α) (z : Array α) : MErr (Array α) := do
  sizeGuard (K.lam.size == K.n && z.size == triangularNumber K.n)
  pure (lamInvCircOpFn K.n K.lam z)

/-- `affine_ds`: zero, then `ds[triangular_index(k)] = λ[k]²` -/
def affineDs (K : Cone α) (dsLen : Nat) : MErr (Array α) := do
  sizeGuard (K.lam.size == K.n && dsLen == triangularNumber K.n)
  pure (packed K.n fun r c => if r = c then K.lam.getD c 0 * K.lam.getD c 0 else 0).toArray

/-- `_combined_ds_shift_symmetric` specialised to this cone; `(shift, step_z, step_s)` -/
def combinedDsShift (K : Cone α) (stepZ stepS : Array α) (sigmaMu : α) :
    MErr (Array α × Array α × Array α) := do
  let wz ← mulW K false stepZ stepZ 1 0
  let ws ← mulWinv K true stepS stepS 1 0
  let sh ← circOp K.n ws wz
  let sh ← PsdIndex.scaledUnitShift K.n sh (-sigmaMu)
  pure (sh, wz, ws)

/-- `_Δs_from_Δz_offset_symmetric`: `work = λ \ ds`, `out = Wᵀ work` -/
def dsFromDzOffset (K : Cone α) (ds : Array α) : MErr (Array α) := do
  let work ← lamInvCircOp K ds
  mulW K true work work 1 0

/-- one entry of `skron`: row pair `(i,j)`, column pair `(k,l)` (`i ≤ j`, `k ≤ l`) -/
def skronEntry (A : MatFn α) (i j k l : Nat) : α :=
  if i = j then
    if k = l then A j l * A j l else sqrt2 * A j l * A j k
  else
    if k = l then sqrt2 * A i l * A j k else A i k * A j l + A i l * A j k

/-- `skron(out, A)` followed by `pack_triu`: the packed upper triangle of `A ⊗ₛ A`, for a
`Symmetric` view `A` of order `n` -/
def skronPacked (n : Nat) (A : MatFn α) : Array α :=
  (packed (triangularNumber n) fun r c =>
    let (i, j) := unpack r
    let (k, l) := unpack c
    skronEntry A i j k l).toArray

/-- `get_Hs` (`pack_triu` asserts the block length) -/
def getHs (K : Cone α) (blockLen : Nat) : MErr (Array α) :=
  if blockLen ≠ triangularNumber (triangularNumber K.n) then
    throw (.panic "assert v.len() == numel")
  else pure K.Hs

/-- the part of `update_scaling` after the LAPACK calls: from the Cholesky factors `L1`, `L2`
(column-major, full squares) and the SVD `L2ᵀL1 = U·diag(σ)·Vt`, assemble `λ`, `Λisqrt`,
`R = L1·Vtᵀ·Λisqrt`, `Rinv = Λisqrt·Uᵀ·L2ᵀ`, `RRᵀ` (upper triangle) and `Hs`.
Returns the cone and the upper triangle of `RRᵀ` (column-major, zeros below). -/
def assembleScaling (n : Nat) (L1 L2 U Vt sig : Array α) : MErr (Cone α × Array α) := do
  sizeGuard (L1.size == n * n && L2.size == n * n && U.size == n * n && Vt.size == n * n
    && sig.size == n)
  let lamIsqrt := sig.map (fun v => 1 / sqrt v)
  let (l1, l2, u, vt) := (matOf n L1, matOf n L2, matOf n U, matOf n Vt)
  -- R = L1·Vtᵀ ; rscale
  let R := colMajor n fun i j => (sumN n fun k => l1 i k * vt j k) * lamIsqrt.getD j 0
  -- Rinv = Uᵀ·L2ᵀ ; lscale
  let Rinv := colMajor n fun i j => (sumN n fun k => u k i * l2 j k) * lamIsqrt.getD i 0
  let r := matOf n R
  let RRt := colMajor n fun i j => if i ≤ j then sumN n fun k => r i k * r j k else 0
  let Hs := skronPacked n (symView (matOf n RRt))
  pure (⟨n, sig, lamIsqrt, R, Rinv, Hs⟩, RRt)

/-- `set_identity_scaling` -/
def identityScaling (n : Nat) : Cone α :=
  let I : MatFn α := fun i j => if i = j then 1 else 0
  ⟨n, (List.replicate n (0 : α)).toArray, (List.replicate n (0 : α)).toArray,
    colMajor n I, colMajor n I,
    (packed (triangularNumber n) fun r c => if r = c then (1 : α) else 0).toArray⟩

/-- `set_identity_scaling` on an existing cone: `R = R⁻¹ = I`, `Hs = I`; `λ`, `Λisqrt` stay -/
def setIdentityScaling (K : Cone α) : Cone α :=
  let I := identityScaling (α := α) K.n
  { K with R := I.R, Rinv := I.Rinv, Hs := I.Hs }

/-- a symmetric packed upper-triangular block `h` of order `m` (the layout `get_Hs` writes
into the KKT matrix) applied to a vector: `yᵣ = Σ_c h[(min(r,c), max(r,c))]·x_c`.
Reference semantics of the block, used to state "same operator as `mul_Hs`". -/
def symPackedMulVec (m : Nat) (h x : Array α) : Array α :=
  ((List.range m).map fun r => sumN m fun c =>
    (if r ≤ c then h.getD (triangularNumber c + r) 0 else h.getD (triangularNumber r + c) 0)
      * x.getD c 0).toArray

end

end PsdTri
end Clarabel

/-! ### round 5: `update_scaling` as a whole, the LAPACK results (failures included) as a parameter -/
namespace Clarabel
namespace PsdTri

open PsdIndex (triangularNumber)

/-- what the three LAPACK calls of `update_scaling` report; `none` = the call returned `Err`
(`?potrf` / `?gesdd` with `info ≠ 0`) -/
structure LapackOut (α : Type) where
  /-- `f.chol1.factor(S)`: the factor `L1`, column-major `n × n` -/
  chol1 : Option (Array α)
  /-- `f.chol2.factor(Z)`: the factor `L2` -/
  chol2 : Option (Array α)
  /-- `f.SVD.factor(L2ᵀ·L1)`: `U`, `Vt`, `σ`; only reached when both Cholesky calls succeeded -/
  svd : Option (Array α × Array α × Array α)

section
variable {α : Type} [Add α] [Mul α] [Sub α] [Div α] [Neg α] [OfNat α 0] [OfNat α 1] [LT α]
  [DecidableLT α] [FloatLike α]

/-- `PSDTriangleCone::update_scaling(s, z, μ, strategy)` (μ and the strategy are not read):
returns `is_scaling_success` and the scaling state the cone is left with.

    if s.is_empty() { return true }
    svec_to_mat(S, s); svec_to_mat(Z, z);
    let c1 = chol1.factor(S); let c2 = chol2.factor(Z);      // both are always attempted
    if c1.is_err() || c2.is_err() { return false }
    tmp = L2ᵀ·L1;
    if SVD.factor(tmp).is_err() { return false }             // `.expect("SVD error")` before e0ffbac
    … assemble λ, Λisqrt, R, Rinv, Hs …                      // `assembleScaling`
    true

Every write to `λ, Λisqrt, R, Rinv, Hs` comes after the last LAPACK call, so a failed update
leaves the scaling state as it was (the work matrices and the engines' buffers, which are not
part of `Cone`, are overwritten).  `svec_to_mat` on vectors of the wrong length is outside the
model (`unmodelled-size`). -/
def updateScaling (K : Cone α) (s z : Array α) (lap : LapackOut α) : MErr (Bool × Cone α) := do
  if s.isEmpty then return (true, K)
  sizeGuard (s.size == triangularNumber K.n && z.size == triangularNumber K.n)
  match lap.chol1, lap.chol2 with
  | some L1, some L2 =>
    match lap.svd with
    | none => pure (false, K)
    | some (U, Vt, sig) =>
      let (K', _) ← assembleScaling K.n L1 L2 U Vt sig
      pure (true, K')
  | _, _ => pure (false, K)

end

end PsdTri
end Clarabel
