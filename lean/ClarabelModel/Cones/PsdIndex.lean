/-
  Index arithmetic of the scaled-triangle PSD cone (`psdtrianglecone.rs`,
  `scalarmath.rs`): the parts of C15 that need no LAPACK — `scaled_unit_shift` and
  `unit_initialization` add a multiple of the identity at the packed diagonal positions.
-/
import ClarabelModel.Vec

namespace Clarabel
namespace PsdIndex

variable {α : Type}

/-- `triangular_number(k) = k(k+1)/2` -/
def triangularNumber (k : Nat) : Nat := (k * (k + 1)) / 2

/-- `triangular_index(k) = k(k+3)/2`: packed position of the diagonal entry `(k,k)` -/
def triangularIndex (k : Nat) : Nat := (k * (k + 3)) / 2

/-- `scaled_unit_shift`: `z[triangular_index(k)] += α` for `k < n` (index panic when the
slice is too short) -/
def scaledUnitShift [Add α] (n : Nat) (z : Array α) (a : α) : MErr (Array α) :=
  (List.range n).foldlM (fun (acc : Array α) k => do
    let v ← getE acc (triangularIndex k) "z[triangular_index(k)]"
    setE acc (triangularIndex k) (v + a)) z

/-- `unit_initialization` : `(z, s)` -/
def unitInitialization [Add α] [OfNat α 0] [OfNat α 1] (n : Nat) (z s : Array α) :
    MErr (Array α × Array α) := do
  let s' ← scaledUnitShift n (s.map (fun _ => 0)) 1
  let z' ← scaledUnitShift n (z.map (fun _ => 0)) 1
  pure (z', s')

end PsdIndex
end Clarabel
