/-
  Model of `backtrack_search` (`src/solver/core/cones/nonsymmetric_common.rs`).

  The membership test is a parameter.  It receives the number of back-tracking steps made
  so far in addition to the candidate point, so that the driver can replay the exact
  accept/reject sequence observed on the implementation; a stateless predicate ignores
  the counter.  The Rust `loop` is unbounded; the model takes fuel and reports its
  exhaustion as an error (never reached under the guards of `C15.backtrack_terminates`).
-/
import ClarabelModel.Vec

namespace Clarabel
namespace Backtrack

variable {α : Type}

section
variable [Add α] [Mul α] [OfNat α 0] [OfNat α 1] [LT α] [DecidableLT α]

/-- `work = q + α·dq` (`work.waxpby(1, q, α, dq)`) -/
def candidate (q dq : Array α) (a : α) : Array α := Vec.waxpby 1 q a dq

/-- the loop; state = (steps made so far `k`, current `α`); returns `(α, k)` -/
def loop (q dq : Array α) (amin step : α) (P : Nat → Array α → Bool) :
    Nat → Nat → α → MErr (α × Nat)
  | 0, _, _ => throw (.err "fuel")
  | fuel + 1, k, a =>
    if P k (candidate q dq a) then pure (a, k)
    else
      let a' := a * step
      if a' < amin then pure (0, k) else loop q dq amin step P fuel (k + 1) a'

/-- `backtrack_search` (`waxpby` asserts equal lengths of `work`, `q`, `dq`) -/
def backtrackSearch (dq q : Array α) (ainit amin step : α) (P : Nat → Array α → Bool)
    (workLen fuel : Nat) : MErr (α × Nat) :=
  if workLen ≠ q.size ∨ workLen ≠ dq.size then throw (.panic "waxpby assert_eq length")
  else loop q dq amin step P fuel 0 ainit

end

end Backtrack
end Clarabel
