/-
  Model of `src/solver/core/cones/expcone.rs`.

  Primal cone  K  = cl{ s : s₃ ≥ s₂·exp(s₁/s₂), s₂ > 0 },
  dual cone    K* = cl{ z : z₃ ≥ -z₁·exp(z₂/z₁ - 1), z₁ < 0 }.
  Every stored quantity (`barrier_dual`, the entries of `grad` and of `H_dual`) is a plain
  scalar function of the three coordinates, in the operation order of the Rust code.
-/
import ClarabelModel.Cones.Nonsym

namespace Clarabel
namespace Exp
open Nonsym

variable {α : Type} [Add α] [Sub α] [Mul α] [Div α] [Neg α] [LT α] [LE α] [DecidableLT α]
  [DecidableLE α] [BEq α] [OfNat α 0] [OfNat α 1] [OfNat α 2] [OfNat α 3] [OfScientific α]
  [FloatLike α]

/-- `is_primal_feasible` -/
def isPrimalFeasible (s0 s1 s2 : α) : Bool :=
  if 0 < s2 && 0 < s1 then
    let res := s1 * logsafe (s2 / s1) - s0
    if 0 < res then true else false
  else false

/-- `is_dual_feasible` -/
def isDualFeasible (z0 z1 z2 : α) : Bool :=
  if 0 < z2 && z0 < 0 then
    let res := z1 - z0 - z0 * logsafe ((-z2) / z0)
    if 0 < res then true else false
  else false

/-- `barrier_dual`: `f*(z) = -log(-z₃z₁) - log(z₂ - z₁ - z₁ log(-z₃/z₁))` -/
def barrierDual (z0 z1 z2 : α) : α :=
  let l := logsafe ((-z2) / z0)
  let a := logsafe ((-z2) * z0)
  (-a) - logsafe (z1 - z0 - z0 * l)

-- `update_dual_grad_H`, entry by entry

def dualL (z0 z2 : α) : α := logsafe ((-z2) / z0)
def dualR (z0 z1 z2 : α) : α := (-z0) * dualL z0 z2 - z0 + z1

def grad0 (z0 z1 z2 : α) : α := recip (dualR z0 z1 z2) * dualL z0 z2 - recip z0
def grad1 (z0 z1 z2 : α) : α := -(recip (dualR z0 z1 z2))
def grad2 (z0 z1 z2 : α) : α := (recip (dualR z0 z1 z2) * z0 - 1) / z2

def h00 (z0 z1 z2 : α) : α :=
  let l := dualL z0 z2; let r := dualR z0 z1 z2
  (r * r - z0 * r + l * l * z0 * z0) / (r * z0 * z0 * r)
def h01 (z0 z1 z2 : α) : α :=
  let l := dualL z0 z2; let r := dualR z0 z1 z2
  (-l) / (r * r)
def h11 (z0 z1 z2 : α) : α :=
  let r := dualR z0 z1 z2
  recip (r * r)
def h02 (z0 z1 z2 : α) : α :=
  let r := dualR z0 z1 z2
  (z1 - z0) / (r * r * z2)
def h12 (z0 z1 z2 : α) : α :=
  let r := dualR z0 z1 z2
  (-z0) / (r * r * z2)
def h22 (z0 z1 z2 : α) : α :=
  let r := dualR z0 z1 z2
  (r * r - z0 * r + z0 * z0) / (r * r * z2 * z2)

def gradDual (z : V3 α) : V3 α :=
  (grad0 z.1 z.2.1 z.2.2, grad1 z.1 z.2.1 z.2.2, grad2 z.1 z.2.1 z.2.2)

def hessDual (z : V3 α) : Sym3 α :=
  ⟨h00 z.1 z.2.1 z.2.2, h01 z.1 z.2.1 z.2.2, h11 z.1 z.2.1 z.2.2,
   h02 z.1 z.2.1 z.2.2, h12 z.1 z.2.1 z.2.2, h22 z.1 z.2.1 z.2.2⟩

/-- `update_dual_grad_H` : `(grad, H_dual)` -/
def updateDualGradH (z : V3 α) : V3 α × Sym3 α := (gradDual z, hessDual z)

/-- `_wright_omega`: `ω(z)` with `ω + log ω = z`; panics for `z < 0`. -/
def wrightOmega (z : α) : MErr α :=
  if z < 0 then throw (.panic "argument not in supported range") else
  let ofN : Nat → α := FloatLike.ofNat
  let w0 : α :=
    if z < 1 + (3.141592653589793 : α) then
      let zm1 := z - 1
      let p := zm1
      let w := 1 + p * (0.5 : α)
      let p := p * zm1
      let w := w + p * ((1 : α) / ofN 16)
      let p := p * zm1
      let w := w - p * ((1 : α) / ofN 192)
      let p := p * zm1
      let w := w - p * ((1 : α) / ofN 3072)
      let p := p * zm1
      let w := w + p * (ofN 13 / ofN 61440)
      w
    else
      let logz := logsafe z
      let zinv := recip z
      let w := z - logz
      let q := logz * zinv
      let w := w + q
      let q := q * zinv
      let w := w + q * (logz / 2 - 1)
      let q := q * zinv
      let w := w + q * (logz * logz / 3 - logz * (1.5 : α) + 1)
      w
  let r0 := z - w0 - logsafe w0
  let step (wr : α × α) : α × α :=
    let w := wr.1; let r := wr.2
    let wp1 := w + 1
    let t := wp1 * (wp1 + (r * 2) / 3)
    let w := w * (1 + (r / wp1) * (t - r * (0.5 : α)) / (t - r))
    let r4 := r * r * r * r
    let wp16 := wp1 * wp1 * wp1 * wp1 * wp1 * wp1
    let r := (w * w * 2 - w * ofN 8 - 1) / (wp16 * ofN 72) * r4
    (w, r)
  pure (step (step (w0, r0))).1

/-- the argument of the Wright-omega call in `gradient_primal` / `barrier_primal` -/
def omegaArg (s0 s1 s2 : α) : α := 1 - s0 / s1 - logsafe (s1 / s2)

/-- `gradient_primal` given `ω` -/
def gradientPrimalOf (w : α) (_s0 s1 s2 : α) : V3 α :=
  let g0 := 1 / ((w - 1) * s1)
  let g1 := g0 + g0 * logsafe (w * s1 / s2) - 1 / s1
  let g2 := w / ((1 - w) * s2)
  (g0, g1, g2)

/-- `gradient_primal` -/
def gradientPrimal (s : V3 α) : MErr (V3 α) := do
  let w ← wrightOmega (omegaArg s.1 s.2.1 s.2.2)
  pure (gradientPrimalOf w s.1 s.2.1 s.2.2)

/-- `barrier_primal` -/
def barrierPrimal (s : V3 α) : MErr α := do
  let w ← wrightOmega (omegaArg s.1 s.2.1 s.2.2)
  let w := (w - 1) * (w - 1) / w
  pure (-(logsafe w) - (logsafe s.2.1) * 2 - logsafe s.2.2 - 3)

/-- the part of `higher_correction` after the solve `H u = ds`: `η` as a function of `z, u, v` -/
def higherCorrectionOf (z u v : V3 α) : V3 α :=
  let z0 := z.1; let z1 := z.2.1; let z2 := z.2.2
  let u0 := u.1; let u2 := u.2.2
  let v0 := v.1; let v2 := v.2.2
  let e1 : α := 1
  let e2 := (-z0) / z2
  let e0 := logsafe e2
  let η : V3 α := (e0, e1, e2)
  let ψ := z0 * e0 - z0 + z1
  let dotψu := Sym3.dot3 u η
  let dotψv := Sym3.dot3 v η
  let two : α := 2
  let coef := ((u0 * (v0 / z0 - v2 / z2) + u2 * (z0 * v2 / z2 - v0) / z2) * ψ
      - two * dotψu * dotψv) / (ψ * ψ * ψ)
  let e0 := e0 * coef
  let e1 := e1 * coef
  let e2 := e2 * coef
  let invψ2 := recip (ψ * ψ)
  let e0 := e0 + ((recip ψ - two / z0) * u0 * v0 / (z0 * z0)
      - u2 * v2 / (z2 * z2) / ψ
      + dotψu * invψ2 * (v0 / z0 - v2 / z2)
      + dotψv * invψ2 * (u0 / z0 - u2 / z2))
  let e2 := e2 + (two * (z0 / ψ - 1) * u2 * v2 / (z2 * z2 * z2)
      - (u2 * v0 + u0 * v2) / (z2 * z2) / ψ
      + dotψu * invψ2 * (z0 * v2 / (z2 * z2) - v0 / z2)
      + dotψv * invψ2 * (z0 * u2 / (z2 * z2) - u0 / z2))
  (e0 * (0.5 : α), e1 * (0.5 : α), e2 * (0.5 : α))

/-- `higher_correction` with the stored `H_dual` and `z`: `η` (zero when the Cholesky
factorisation of `H_dual` fails). -/
def higherCorrection (H : Sym3 α) (z ds v : V3 α) : V3 α :=
  let (ok, cholH) := Sym3.choleskyFactor H
  if !ok then (0, 0, 0) else
  higherCorrectionOf z (Sym3.choleskySolve cholH ds) v

/-- `unit_initialization`: `s = z =` the three constants -/
def unitInitialization : V3 α :=
  (-(1.051383945322714 : α), (0.556409619469370 : α), (1.258967884768947 : α))

/-- state after `update_scaling` -/
structure State (α : Type) where
  Hdual : Sym3 α
  Hs : Sym3 α
  grad : V3 α
  z : V3 α
  /-- (model-only) was the primal-dual branch taken? -/
  pd : Bool

/-- `update_scaling(s,z,μ,strategy)`; `dual = true` is `ScalingStrategy::Dual`. -/
def updateScaling (s z : V3 α) (mu : α) (dual : Bool) : MErr (State α) := do
  let (grad, H) := updateDualGradH z
  if dual then
    pure ⟨H, useDualScaling mu H, grad, z, false⟩
  else
    let zt ← gradientPrimal s
    let (pd, Hs) := usePrimalDualScaling H grad zt s z
    pure ⟨H, Hs, grad, z, pd⟩

/-- `compute_barrier` -/
def computeBarrier (z s dz ds : V3 α) (a : α) : MErr α := do
  let barrier : α := 0
  let cz : V3 α := (z.1 + a * dz.1, z.2.1 + a * dz.2.1, z.2.2 + a * dz.2.2)
  let cs : V3 α := (s.1 + a * ds.1, s.2.1 + a * ds.2.1, s.2.2 + a * ds.2.2)
  let barrier := barrier + barrierDual cz.1 cz.2.1 cz.2.2
  let bp ← barrierPrimal cs
  pure (barrier + bp)

def inPrimal (a : Array α) : Bool :=
  match v3ofArray? a with
  | some s => isPrimalFeasible s.1 s.2.1 s.2.2
  | none => false

def inDual (a : Array α) : Bool :=
  match v3ofArray? a with
  | some z => isDualFeasible z.1 z.2.1 z.2.2
  | none => false

/-- `step_length` : `(αz, αs)` -/
def stepLength (dz ds z s : V3 α) (step aMin aMax : α) (fuel : Nat) : MErr (α × α) := do
  let az ← backtrackSearch (v3toArray dz) (v3toArray z) aMax aMin step inDual fuel
  let as ← backtrackSearch (v3toArray ds) (v3toArray s) aMax aMin step inPrimal fuel
  pure (az, as)

/-- `combined_ds_shift`: `shift = grad·σμ - η` with `η = higher_correction(step_s, step_z)` (the
third-order correction is called with `ds := step_s`, `v := step_z`) -/
def combinedDsShift (H : Sym3 α) (grad z stepZ stepS : V3 α) (σμ : α) : V3 α :=
  let η := higherCorrection H z stepS stepZ
  (grad.1 * σμ - η.1, grad.2.1 * σμ - η.2.1, grad.2.2 * σμ - η.2.2)

end Exp
end Clarabel
