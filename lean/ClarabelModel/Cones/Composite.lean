/-
  Model of the step-length / margin / shift parts of
  `src/solver/core/cones/compositecone.rs` and of `_shift_to_cone_interior`
  (`src/solver/implementations/default/variables.rs`).

  `T::max_value()` ("no bound") is `none`.
-/
import ClarabelModel.Cones.Zero
import ClarabelModel.Cones.Nonneg
import ClarabelModel.Cones.Soc
import ClarabelModel.Cones.PsdIndex
import ClarabelModel.Cones.Backtrack

namespace Clarabel
namespace Composite

variable {α : Type}

/-- what the composite `step_length` needs from a constituent cone -/
structure ConeFn (α : Type) where
  symmetric : Bool
  /-- `cone.step_length(dz, ds, z, s, settings, αmax)` as a function of `αmax` -/
  stepLength : α → MErr (α × α)

section
variable [FloatLike α]

/-- the closure `innerfcn(α, symcond)`: cones with `is_symmetric() == symcond` are
*skipped* -/
def inner (cones : List (ConeFn α)) (symcond : Bool) (a : α) : MErr α :=
  cones.foldlM (fun a c =>
    if c.symmetric == symcond then pure a
    else do
      let (az, as) ← c.stepLength a
      pure (fmin a (fmin az as))) a

/-- `CompositeCone::step_length` -/
def stepLength (cones : List (ConeFn α)) (maxStepFraction amax : α) : MErr (α × α) := do
  let allSymmetric := cones.all (·.symmetric)
  -- "Force symmetric cones first": called with `true`, which skips the symmetric cones
  let a ← inner cones true amax
  let a := if !allSymmetric then fmin maxStepFraction a else a
  let a ← inner cones false a
  pure (a, a)

end

/-- cone types whose margins / shifts are modelled -/
inductive Spec where
  | zero (n : Nat)
  | nonneg (n : Nat)
  | soc (n : Nat)
  | psd (n : Nat)
  deriving Repr, BEq, DecidableEq

def Spec.numel : Spec → Nat
  | .zero n => n
  | .nonneg n => n
  | .soc n => n
  | .psd n => PsdIndex.triangularNumber n

def Spec.degree : Spec → Nat
  | .zero _ => 0
  | .nonneg n => n
  | .soc _ => 1
  | .psd n => n

/-- cut a vector (as a list) into the cones' ranges (`&z[rng]`; a range past the end
panics) -/
def cutL : List Spec → List α → MErr (List (Spec × Array α))
  | [], _ => pure []
  | sp :: rest, l =>
    if l.length < sp.numel then throw (.panic "range end index out of range")
    else do
      let tl ← cutL rest (l.drop sp.numel)
      pure ((sp, (l.take sp.numel).toArray) :: tl)

def cut (specs : List Spec) (z : Array α) : MErr (List (Spec × Array α)) := cutL specs z.toList

/-- total number of entries covered by the cones -/
def totalNumel (specs : List Spec) : Nat := (specs.map Spec.numel).sum

/-- glue the cones' blocks back together; entries past the last cone are untouched -/
def glue (specs : List Spec) (outs : List (Array α)) (z : Array α) : Array α :=
  ((outs.map Array.toList).flatten ++ z.toList.drop (totalNumel specs)).toArray

section
variable [Add α] [Mul α] [Sub α] [Div α] [Neg α] [OfNat α 0] [OfNat α 1] [LT α] [DecidableLT α]
  [FloatLike α]

/-- `min` of two optional bounds (`none` = `T::max_value()`) -/
def minOpt : Option α → Option α → Option α
  | none, b => b
  | a, none => a
  | some a, some b => some (fmin a b)

/-- margins of one cone -/
def margins1 : Spec → Array α → MErr (Option α × α)
  | .zero _, z => pure (Zero.margins z)
  | .nonneg _, z => pure (Nonneg.margins z)
  | .soc _, z => do let (a, b) ← Soc.margins z; pure (some a, b)
  | .psd _, _ => throw (.err "unmodelled-psd-eigenvalues")

/-- `CompositeCone::margins` -/
def margins (specs : List Spec) (z : Array α) : MErr (Option α × α) := do
  let parts ← cut specs z
  parts.foldlM (fun (acc : Option α × α) p => do
    let (ai, bi) ← margins1 p.1 p.2
    pure (minOpt acc.1 ai, acc.2 + bi)) (none, 0)

def shift1 (a : α) (primal : Bool) : Spec → Array α → MErr (Array α)
  | .zero _, z => pure (Zero.scaledUnitShift z a primal)
  | .nonneg _, z => pure (Nonneg.scaledUnitShift z a)
  | .soc _, z => Soc.scaledUnitShift z a
  | .psd n, z => PsdIndex.scaledUnitShift n z a

/-- `CompositeCone::scaled_unit_shift` -/
def scaledUnitShift (specs : List Spec) (z : Array α) (a : α) (primal : Bool) : MErr (Array α) := do
  let parts ← cut specs z
  let outs ← parts.mapM (fun p => shift1 a primal p.1 p.2)
  pure (glue specs outs z)

def unitInit1 : Spec → Array α → Array α → MErr (Array α × Array α)
  | .zero _, z, s => pure (Zero.unitInitialization z s)
  | .nonneg _, z, s => pure (Nonneg.unitInitialization z s)
  | .soc _, z, s => Soc.unitInitialization z s
  | .psd n, z, s => PsdIndex.unitInitialization n z s

/-- `CompositeCone::unit_initialization` : `(z, s)` -/
def unitInitialization (specs : List Spec) (z s : Array α) : MErr (Array α × Array α) := do
  let pz ← cut specs z
  let ps ← cut specs s
  let outs ← (pz.zip ps).mapM (fun p => unitInit1 p.1.1 p.1.2 p.2.2)
  pure (glue specs (outs.map (·.1)) z, glue specs (outs.map (·.2)) s)

/-- `_shift_to_cone_interior` -/
def shiftToConeInterior (specs : List Spec) (z : Array α) (primal : Bool) : MErr (Array α) := do
  let (minMargin, posMargin) ← margins specs z
  let degree := (specs.map Spec.degree).foldl (· + ·) 0
  let tenth : α := 1 / FloatLike.ofNat 10
  let target := fmax 1 ((posMargin * tenth) / FloatLike.ofNat degree)
  match minMargin with
  | none => scaledUnitShift specs z 0 primal
  | some m =>
    if ¬ (0 < m) then do
      -- at least some component is outside its cone; done in two stages
      let z1 ← scaledUnitShift specs z (-m) primal
      scaledUnitShift specs z1 target primal
    else if m < target then scaledUnitShift specs z (target - m) primal
    else scaledUnitShift specs z 0 primal

end

end Composite
end Clarabel
