/-
  Model of `src/solver/core/cones/powcone.rs` (3-dimensional power cone, exponent `a ∈ (0,1)`).

  Primal cone  K  = { s : s₁^a s₂^(1-a) ≥ |s₃|, s₁,s₂ ≥ 0 },
  dual cone    K* = { z : (z₁/a)^a (z₂/(1-a))^(1-a) ≥ |z₃|, z₁,z₂ ≥ 0 }.
  Stored quantities are plain scalar functions of `a` and the three coordinates, in the
  operation order of the Rust code.
-/
import ClarabelModel.Cones.Nonsym

namespace Clarabel
namespace Pow
open Nonsym

variable {α : Type} [Add α] [Sub α] [Mul α] [Div α] [Neg α] [LT α] [LE α] [DecidableLT α]
  [DecidableLE α] [BEq α] [OfNat α 0] [OfNat α 1] [OfNat α 2] [OfNat α 3] [OfNat α 4]
  [OfScientific α] [FloatLike α]

/-- `is_primal_feasible` -/
def isPrimalFeasible (a s0 s1 s2 : α) : Bool :=
  if 0 < s0 && 0 < s1 then
    let res := exp (2 * a * logsafe s0 + 2 * (1 - a) * logsafe s1) - s2 * s2
    if 0 < res then true else false
  else false

/-- `is_dual_feasible` -/
def isDualFeasible (a z0 z1 z2 : α) : Bool :=
  if 0 < z0 && 0 < z1 then
    let res := exp ((a * 2) * logsafe (z0 / a) + (1 - a) * logsafe (z1 / (1 - a)) * 2) - z2 * z2
    if 0 < res then true else false
  else false

/-- `phi = (z₁/a)^{2a} (z₂/(1-a))^{2-2a}` -/
def phiDual (a z0 z1 : α) : α := powf (z0 / a) (2 * a) * powf (z1 / (1 - a)) (2 - 2 * a)

/-- `ψ = phi - z₃²` -/
def psiDual (a z0 z1 z2 : α) : α := phiDual a z0 z1 - z2 * z2

/-- `barrier_dual` -/
def barrierDual (a z0 z1 z2 : α) : α :=
  let arg1 := psiDual a z0 z1 z2
  (-(logsafe arg1)) - (1 - a) * logsafe z0 - a * logsafe z1

-- `update_dual_grad_H`, entry by entry
def gpsi0 (a z0 z1 z2 : α) : α := 2 * a * phiDual a z0 z1 / (z0 * psiDual a z0 z1 z2)
def gpsi1 (a z0 z1 z2 : α) : α := 2 * (1 - a) * phiDual a z0 z1 / (z1 * psiDual a z0 z1 z2)
def gpsi2 (a z0 z1 z2 : α) : α := (-2) * z2 / psiDual a z0 z1 z2

def grad0 (a z0 z1 z2 : α) : α :=
  (-2) * a * phiDual a z0 z1 / (z0 * psiDual a z0 z1 z2) - (1 - a) / z0
def grad1 (a z0 z1 z2 : α) : α :=
  (-2) * (1 - a) * phiDual a z0 z1 / (z1 * psiDual a z0 z1 z2) - a / z1
def grad2 (a z0 z1 z2 : α) : α := 2 * z2 / psiDual a z0 z1 z2

def h00 (a z0 z1 z2 : α) : α :=
  gpsi0 a z0 z1 z2 * gpsi0 a z0 z1 z2
    - 2 * a * (2 * a - 1) * phiDual a z0 z1 / (z0 * z0 * psiDual a z0 z1 z2)
    + (1 - a) / (z0 * z0)
def h01 (a z0 z1 z2 : α) : α :=
  gpsi0 a z0 z1 z2 * gpsi1 a z0 z1 z2
    - 4 * a * (1 - a) * phiDual a z0 z1 / (z0 * z1 * psiDual a z0 z1 z2)
def h11 (a z0 z1 z2 : α) : α :=
  gpsi1 a z0 z1 z2 * gpsi1 a z0 z1 z2
    - 2 * (1 - a) * (1 - 2 * a) * phiDual a z0 z1 / (z1 * z1 * psiDual a z0 z1 z2)
    + a / (z1 * z1)
def h02 (a z0 z1 z2 : α) : α := gpsi0 a z0 z1 z2 * gpsi2 a z0 z1 z2
def h12 (a z0 z1 z2 : α) : α := gpsi1 a z0 z1 z2 * gpsi2 a z0 z1 z2
def h22 (a z0 z1 z2 : α) : α := gpsi2 a z0 z1 z2 * gpsi2 a z0 z1 z2 + 2 / psiDual a z0 z1 z2

def gradDual (a : α) (z : V3 α) : V3 α :=
  (grad0 a z.1 z.2.1 z.2.2, grad1 a z.1 z.2.1 z.2.2, grad2 a z.1 z.2.1 z.2.2)

def hessDual (a : α) (z : V3 α) : Sym3 α :=
  ⟨h00 a z.1 z.2.1 z.2.2, h01 a z.1 z.2.1 z.2.2, h11 a z.1 z.2.1 z.2.2,
   h02 a z.1 z.2.1 z.2.2, h12 a z.1 z.2.1 z.2.2, h22 a z.1 z.2.1 z.2.2⟩

/-- `update_dual_grad_H` : `(grad, H_dual)` -/
def updateDualGradH (a : α) (z : V3 α) : V3 α × Sym3 α := (gradDual a z, hessDual a z)

/-- **PRE-FIX** start of `_newton_raphson_powcone` (the code before /repo commit 54b486f): the
constants `2` and `3` of the symmetric case `a = ½`.  Kept only so that the finding
NR-START-RIGHT-OF-ROOT stays a theorem about the old code (`newtonRaphsonOld`, `gradientPrimalOld`). -/
def nrX0Old (s3 phi : α) : α :=
  (-(recip s3)) + (s3 * 2 + sqrt ((phi * phi) / (s3 * s3) + phi * 3)) / (phi - s3 * s3)

/-- `ψ = 1/(a² + (1-a)²)` -/
def nrPsi (a : α) : α := recip (a * a + (1 - a) * (1 - a))

/-- start of the Newton–Raphson iteration of `_newton_raphson_powcone` (since /repo 54b486f) -/
def nrX0 (a s3 phi : α) : α :=
  let ψ := nrPsi a
  (-(recip s3)) + (s3 * ψ + sqrt ((phi * phi) / (s3 * s3) + phi * (ψ * ψ - 1))) / (phi - s3 * s3)

def nrT0 (a : α) : α := (-2) * a * logsafe a - 2 * (1 - a) * logsafe (1 - a)

def nrF0 (s3 phi a : α) (x : α) : α :=
  let t1 := x * x
  let t2 := (x * 2) / s3
  2 * a * logsafe (2 * a * t1 + (1 + a) * t2)
    + 2 * (1 - a) * logsafe (2 * (1 - a) * t1 + (2 - a) * t2)
    - logsafe phi - logsafe (t1 + t2) - 2 * logsafe t2 + nrT0 a

def nrF1 (s3 a : α) (x : α) : α :=
  let t1 := x * x
  let t2 := (2 * x) / s3
  (a * a * 2) / (a * x + (1 + a) / s3)
    + ((1 - a) * 2) * (1 - a) / ((1 - a) * x + (2 - a) / s3)
    - ((x + recip s3) * 2) / (t1 + t2)

/-- `_newton_raphson_powcone` : (result, number of passes through the loop body) -/
def newtonRaphson (s3 phi a : α) : α × Nat :=
  newtonRaphsonOnesided (nrF0 s3 phi a) (nrF1 s3 a) 100 (nrX0 a s3 phi) 0

/-- **PRE-FIX** `_newton_raphson_powcone` (start `nrX0Old`) -/
def newtonRaphsonOld (s3 phi a : α) : α × Nat :=
  newtonRaphsonOnesided (nrF0 s3 phi a) (nrF1 s3 a) 100 (nrX0Old s3 phi) 0

/-- `gradient_primal` given the value of `g[2]` for `|s₃|` -/
def gradientPrimalOf (a : α) (x : α) (s0 s1 s2 : α) : V3 α :=
  let g2 := if s2 < 0 then -x else x
  let g0 := (-(a * g2 * s2 + 1 + a)) / s0
  let g1 := (-((1 - a) * g2 * s2 + 2 - a)) / s1
  (g0, g1, g2)

/-- `gradient_primal` -/
def gradientPrimal (a : α) (s : V3 α) : V3 α :=
  let s0 := s.1; let s1 := s.2.1; let s2 := s.2.2
  let phi := powf s0 (2 * a) * powf s1 (2 - a * 2)
  let abs_s := fabs s2
  if FloatLike.eps < abs_s then
    gradientPrimalOf a (newtonRaphson abs_s phi a).1 s0 s1 s2
  else
    ((-(1 + a)) / s0, (-(2 - a)) / s1, 0)

/-- **PRE-FIX** `gradient_primal` (uses `newtonRaphsonOld`) -/
def gradientPrimalOld (a : α) (s : V3 α) : V3 α :=
  let s0 := s.1; let s1 := s.2.1; let s2 := s.2.2
  let phi := powf s0 (2 * a) * powf s1 (2 - a * 2)
  let abs_s := fabs s2
  if FloatLike.eps < abs_s then
    gradientPrimalOf a (newtonRaphsonOld abs_s phi a).1 s0 s1 s2
  else
    ((-(1 + a)) / s0, (-(2 - a)) / s1, 0)

/-- `barrier_primal` -/
def barrierPrimal (a : α) (s : V3 α) : α :=
  let g := gradientPrimal a s
  let out : α := 0
  let out := out + logsafe (powf ((-g.1) / a) (2 * a) * powf ((-g.2.1) / (1 - a)) (2 - a * 2)
      - g.2.2 * g.2.2)
  let out := out + (1 - a) * logsafe (-g.1)
  let out := out + (a * logsafe (-g.2.1) - 3)
  out

/-- `higher_correction` with the stored `H_dual` and `z` -/
def higherCorrection (a : α) (H : Sym3 α) (z ds v : V3 α) : V3 α :=
  let (ok, cholH) := Sym3.choleskyFactor H
  if !ok then (0, 0, 0) else
  let u := Sym3.choleskySolve cholH ds
  let z0 := z.1; let z1 := z.2.1; let z2 := z.2.2
  let u0 := u.1; let u1 := u.2.1
  let v0 := v.1; let v1 := v.2.1
  let two : α := 2
  let four : α := 4
  let phi := powf (z0 / a) (two * a) * powf (z1 / (1 - a)) (two - two * a)
  let ψ := phi - z2 * z2
  let e0 := two * a * phi / z0
  let e1 := two * (1 - a) * phi / z1
  let e2 := (-two) * z2
  let η : V3 α := (e0, e1, e2)
  let Hψ : Sym3 α :=
    { d1 := four * a * (1 - a) * phi / (z0 * z1)
      d0 := two * a * (two * a - 1) * phi / (z0 * z0)
      d3 := 0
      d2 := two * (1 - a) * (1 - two * a) * phi / (z1 * z1)
      d4 := 0
      d5 := -two }
  let dotψu := Sym3.dot3 u η
  let dotψv := Sym3.dot3 v η
  let Hψv := Hψ.mul v
  let coef := (Sym3.dot3 u Hψv * ψ - two * dotψu * dotψv) / (ψ * ψ * ψ)
  let coef2 := four * a * (two * a - 1) * (1 - a) * phi * (u0 / z0 - u1 / z1) * (v0 / z0 - v1 / z1) / ψ
  let invψ2 := recip (ψ * ψ)
  let e0 := coef * e0 - two * (1 - a) * u0 * v0 / (z0 * z0 * z0) + coef2 / z0 + Hψv.1 * dotψu * invψ2
  let e1 := coef * e1 - two * a * u1 * v1 / (z1 * z1 * z1) - coef2 / z1 + Hψv.2.1 * dotψu * invψ2
  let e2 := coef * e2 + Hψv.2.2 * dotψu * invψ2
  let Hψu := Hψ.mul u
  let c := dotψv * invψ2
  -- η ← (c·Hψu + 1·η)·½
  let e0 := c * Hψu.1 + 1 * e0
  let e1 := c * Hψu.2.1 + 1 * e1
  let e2 := c * Hψu.2.2 + 1 * e2
  (e0 * (0.5 : α), e1 * (0.5 : α), e2 * (0.5 : α))

/-- `unit_initialization`: `s = z = (√(1+a), √(1+(1-a)), 0)` -/
def unitInitialization (a : α) : V3 α := (sqrt (1 + a), sqrt (1 + (1 - a)), 0)

structure State (α : Type) where
  Hdual : Sym3 α
  Hs : Sym3 α
  grad : V3 α
  z : V3 α
  pd : Bool

/-- `update_scaling(s,z,μ,strategy)` -/
def updateScaling (a : α) (s z : V3 α) (mu : α) (dual : Bool) : State α :=
  let (grad, H) := updateDualGradH a z
  if dual then ⟨H, useDualScaling mu H, grad, z, false⟩
  else
    let zt := gradientPrimal a s
    let (pd, Hs) := usePrimalDualScaling H grad zt s z
    ⟨H, Hs, grad, z, pd⟩

/-- `compute_barrier` -/
def computeBarrier (a : α) (z s dz ds : V3 α) (al : α) : α :=
  let barrier : α := 0
  let cz : V3 α := (z.1 + al * dz.1, z.2.1 + al * dz.2.1, z.2.2 + al * dz.2.2)
  let cs : V3 α := (s.1 + al * ds.1, s.2.1 + al * ds.2.1, s.2.2 + al * ds.2.2)
  let barrier := barrier + barrierDual a cz.1 cz.2.1 cz.2.2
  barrier + barrierPrimal a cs

def inPrimal (a : α) (x : Array α) : Bool :=
  match v3ofArray? x with
  | some s => isPrimalFeasible a s.1 s.2.1 s.2.2
  | none => false

def inDual (a : α) (x : Array α) : Bool :=
  match v3ofArray? x with
  | some z => isDualFeasible a z.1 z.2.1 z.2.2
  | none => false

/-- `step_length` : `(αz, αs)` -/
def stepLength (a : α) (dz ds z s : V3 α) (step aMin aMax : α) (fuel : Nat) : MErr (α × α) := do
  let az ← backtrackSearch (v3toArray dz) (v3toArray z) aMax aMin step (inDual a) fuel
  let as ← backtrackSearch (v3toArray ds) (v3toArray s) aMax aMin step (inPrimal a) fuel
  pure (az, as)

/-- the part of `higher_correction` after the solve `H u = ds`: `η` as a function of `z, u, v`
(same operations as the tail of `higherCorrection`) -/
def higherCorrectionOf (a : α) (z u v : V3 α) : V3 α :=
  let z0 := z.1; let z1 := z.2.1; let z2 := z.2.2
  let u0 := u.1; let u1 := u.2.1
  let v0 := v.1; let v1 := v.2.1
  let two : α := 2
  let four : α := 4
  let phi := powf (z0 / a) (two * a) * powf (z1 / (1 - a)) (two - two * a)
  let ψ := phi - z2 * z2
  let e0 := two * a * phi / z0
  let e1 := two * (1 - a) * phi / z1
  let e2 := (-two) * z2
  let η : V3 α := (e0, e1, e2)
  let Hψ : Sym3 α :=
    { d1 := four * a * (1 - a) * phi / (z0 * z1)
      d0 := two * a * (two * a - 1) * phi / (z0 * z0)
      d3 := 0
      d2 := two * (1 - a) * (1 - two * a) * phi / (z1 * z1)
      d4 := 0
      d5 := -two }
  let dotψu := Sym3.dot3 u η
  let dotψv := Sym3.dot3 v η
  let Hψv := Hψ.mul v
  let coef := (Sym3.dot3 u Hψv * ψ - two * dotψu * dotψv) / (ψ * ψ * ψ)
  let coef2 := four * a * (two * a - 1) * (1 - a) * phi * (u0 / z0 - u1 / z1) * (v0 / z0 - v1 / z1) / ψ
  let invψ2 := recip (ψ * ψ)
  let e0 := coef * e0 - two * (1 - a) * u0 * v0 / (z0 * z0 * z0) + coef2 / z0 + Hψv.1 * dotψu * invψ2
  let e1 := coef * e1 - two * a * u1 * v1 / (z1 * z1 * z1) - coef2 / z1 + Hψv.2.1 * dotψu * invψ2
  let e2 := coef * e2 + Hψv.2.2 * dotψu * invψ2
  let Hψu := Hψ.mul u
  let c := dotψv * invψ2
  let e0 := c * Hψu.1 + 1 * e0
  let e1 := c * Hψu.2.1 + 1 * e1
  let e2 := c * Hψu.2.2 + 1 * e2
  (e0 * (0.5 : α), e1 * (0.5 : α), e2 * (0.5 : α))

/-- `combined_ds_shift`: `shift = grad·σμ - η` with `η = higher_correction(step_s, step_z)` -/
def combinedDsShift (a : α) (H : Sym3 α) (grad z stepZ stepS : V3 α) (σμ : α) : V3 α :=
  let η := higherCorrection a H z stepS stepZ
  (grad.1 * σμ - η.1, grad.2.1 * σμ - η.2.1, grad.2.2 * σμ - η.2.2)

end Pow
end Clarabel
