/-
  Model of the step-length / margin part of `src/solver/core/cones/psdtrianglecone.rs`
  (C15): `step_length_psd_component`, `PSDTriangleCone::step_length`, `margins`, and of the
  composite `margins` / `_shift_to_cone_interior` on lists that contain PSD blocks.

  LAPACK (`EigEngine::eigvals`, `dsyevr`) is not modelled: the eigenvalues it returns are an
  explicit input — `γ : Option α` (least eigenvalue; `none` = `eigvals(..).is_err()`) for
  the step length, `eigs : Option (Array α)` (all eigenvalues, the content of `Eig.λ`) for
  `margins`.  What the model fixes is (a) the matrix handed to LAPACK, entry by entry
  (`scaledDir` = `svec_to_mat` followed by `lrscale(Λisqrt, Λisqrt)`; `svecToMat z` for the
  margins) and (b) everything computed from the returned eigenvalues.  The theorems assume
  the *spectral contract* — the supplied value is the least eigenvalue of that matrix (in
  Rayleigh form) — which the harness checks with its own Jacobi eigenvalue routine.
-/
import ClarabelModel.Cones.PsdTriangle
import ClarabelModel.Cones.Composite

namespace Clarabel
namespace PsdStep
open PsdTri
open PsdIndex (triangularNumber)

variable {α : Type}

section
variable [Add α] [Mul α] [Sub α] [Div α] [Neg α] [OfNat α 0] [OfNat α 1] [LT α] [DecidableLT α]
  [FloatLike α]

/-- the matrix whose eigenvalues `step_length_psd_component` asks for:
`svec_to_mat(workΔ, d); workΔ.lrscale(Λisqrt, Λisqrt)`, i.e. `M[(i,j)] *= l[i] * r[j]` -/
def scaledDir (d lisqrt : Array α) : MatFn α := fun i j =>
  svecToMat d i j * (lisqrt.getD i 0 * lisqrt.getD j 0)

/-- column-major data of `workΔ` right before the `eigvals` call -/
def scaledDirData (n : Nat) (d lisqrt : Array α) : Array α := colMajor n (scaledDir d lisqrt)

/-- `step_length_psd_component` given the least eigenvalue `γ` of `scaledDir d Λisqrt`
(`none`: the eigenvalue solver failed — the repaired code reports a zero step).  For an
empty `d`, `γ = T::max_value()` and the result is `αmax`. -/
def stepLengthPsdComponent (d : Array α) (γ : Option α) (amax : α) : α :=
  if d.size = 0 then amax
  else match γ with
    | none => 0
    | some g => if g < 0 then fmin (-(1 / g)) amax else amax

/-- `PSDTriangleCone::step_length`: `d = W Δz` (`mul_Wx_inner(N, …, R)`), then
`d = W⁻ᵀ Δs` (`mul_Wx_inner(T, …, Rinv)`); `γz`, `γs` are the two LAPACK answers. -/
def stepLength (K : Cone α) (dz ds : Array α) (γz γs : Option α) (amax : α) : MErr (α × α) := do
  let dzW ← mulWx false K.n K.R dz dz 1 0
  let az := stepLengthPsdComponent dzW γz amax
  let dsW ← mulWx true K.n K.Rinv ds ds 1 0
  let as := stepLengthPsdComponent dsW γs amax
  pure (az, as)

/-- `PSDTriangleCone::margins` given the eigenvalues `eigs` of `svecToMat z` (`Eig.λ`);
`none` = LAPACK failure (`expect("Eigval error")`).  First component `none` =
`T::max_value()` (empty cone). -/
def margins (z : Array α) (eigs : Option (Array α)) : MErr (Option α × α) :=
  if z.size = 0 then pure (none, 0)
  else match eigs with
    | none => throw (.panic "Eigval error")
    | some e => pure (Vec.minimum? e, e.toList.foldl (fun s x => s + fmax x 0) 0)

end

end PsdStep

namespace Composite
variable {α : Type}

section
variable [Add α] [Mul α] [Sub α] [Div α] [Neg α] [OfNat α 0] [OfNat α 1] [LT α] [DecidableLT α]
  [FloatLike α]

/-- margins of one cone; a PSD cone uses the supplied eigenvalues -/
def margins1E (sp : Spec) (z : Array α) (eigs : Option (Array α)) : MErr (Option α × α) :=
  match sp with
  | .psd _ => PsdStep.margins z eigs
  | sp => margins1 sp z

/-- `CompositeCone::margins` with one eigenvalue entry per cone (ignored by the cones that
are not PSD) -/
def marginsE (specs : List Spec) (z : Array α) (eigs : List (Option (Array α))) :
    MErr (Option α × α) := do
  if eigs.length ≠ specs.length then throw (.err "eigenvalue-list-length")
  let parts ← cut specs z
  (parts.zip eigs).foldlM (fun (acc : Option α × α) p => do
    let (ai, bi) ← margins1E p.1.1 p.1.2 p.2
    pure (minOpt acc.1 ai, acc.2 + bi)) (none, 0)

/-- `_shift_to_cone_interior` on any list of zero / NN / SOC / PSD cones -/
def shiftToConeInteriorE (specs : List Spec) (z : Array α) (primal : Bool)
    (eigs : List (Option (Array α))) : MErr (Array α) := do
  let (minMargin, posMargin) ← marginsE specs z eigs
  let degree := (specs.map Spec.degree).foldl (· + ·) 0
  let tenth : α := 1 / FloatLike.ofNat 10
  let target := fmax 1 ((posMargin * tenth) / FloatLike.ofNat degree)
  match minMargin with
  | none => scaledUnitShift specs z 0 primal
  | some m =>
    if ¬ (0 < m) then do
      let z1 ← scaledUnitShift specs z (-m) primal
      scaledUnitShift specs z1 target primal
    else if m < target then scaledUnitShift specs z (target - m) primal
    else scaledUnitShift specs z 0 primal

/-- the variant of `CompositeCone::step_length` that the source comments describe
("force symmetric cones first … asymmetric cones last"): the two passes in the other
order.  Not what the code does (the closure *skips* the cones with
`is_symmetric() == symcond`); used to state the order-of-processing observation. -/
def stepLengthSymFirst (cones : List (ConeFn α)) (maxStepFraction amax : α) : MErr (α × α) := do
  let allSymmetric := cones.all (·.symmetric)
  let a ← inner cones false amax
  let a := if !allSymmetric then fmin maxStepFraction a else a
  let a ← inner cones true a
  pure (a, a)

end

end Composite
end Clarabel
