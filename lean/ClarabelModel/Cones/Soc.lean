/-
  Model of `src/solver/core/cones/socone.rs`.

  A vector of the cone is handled as `(x₀, x₁)` = (first entry, list of the remaining
  entries), mirroring the Rust code's `x[0]` / `x[1..]`.  The "core" functions work on
  that form (they are the subject of the theorems, for lists of arbitrary length); the
  `Array` wrappers split the argument exactly where the Rust code would index
  (`x[0]`, `x[1..]` on an empty slice panic).

  Reductions are `Vec.dot` / `Vec.norm` / `Vec.sumsq` (left folds in index order), the
  element-wise kernels (`scale`, `axpby`, `waxpby`) are written out per element in the
  operation order of `src/algebra/vecmath.rs`.  `T::infinity()` for a discarded root is
  `none`.
-/
import ClarabelModel.Vec

namespace Clarabel
namespace Soc

variable {α : Type}

structure Sparse (α : Type) where
  u : Array α
  v : Array α
  d : α

structure Cone (α : Type) where
  dim : Nat
  w : Array α
  lam : Array α
  eta : α
  sparse : Option (Sparse α)

/-- `SOC_NO_EXPANSION_MAX_SIZE` -/
def noExpansionMaxSize : Nat := 4

def zeros [OfNat α 0] (n : Nat) : Array α := (List.replicate n (0 : α)).toArray

/-- `SecondOrderCone::new` (`assert!(dim >= 2)`) -/
def new [OfNat α 0] [OfNat α 1] (dim : Nat) : MErr (Cone α) :=
  if dim < 2 then throw (.panic "assert dim >= 2")
  else pure ⟨dim, zeros dim, zeros dim, 0,
    if dim > noExpansionMaxSize then some ⟨zeros dim, zeros dim, 1⟩ else none⟩

/-- `x[0]`, `x[1..]` -/
def split (x : Array α) : MErr (α × List α) :=
  match x.toList with
  | [] => throw (.panic "index 0 / range 1.. out of range")
  | x0 :: x1 => pure (x0, x1)

def join (x0 : α) (x1 : List α) : Array α := (x0 :: x1).toArray

def sizeGuard (ok : Bool) : MErr Unit :=
  if ok then pure () else throw (.err "unmodelled-size")

section
variable [Add α] [Mul α] [Sub α] [Div α] [Neg α] [OfNat α 0] [OfNat α 1] [LT α] [DecidableLT α]
  [FloatLike α]

/-- `2.0` -/
@[inline] def two : α := 1 + 1
/-- `0.5` -/
@[inline] def half : α := 1 / (1 + 1)
/-- `4.0` -/
@[inline] def four : α := (1 + 1) * (1 + 1)

def dotL (x y : List α) : α := Vec.dot x.toArray y.toArray
def sumsqL (x : List α) : α := Vec.sumsq x.toArray
def normL (x : List α) : α := Vec.norm x.toArray

/-- `is_zero` on a value that is never NaN -/
def isZero (x : α) : Bool := !(decide (x < 0)) && !(decide (0 < x))

/-- `_soc_residual`: `(z₀ − ‖z₁‖)(z₀ + ‖z₁‖)` -/
def socResidual (z0 : α) (z1 : List α) : α :=
  let n := normL z1
  (z0 - n) * (z0 + n)

/-- `_sqrt_soc_residual` -/
def sqrtSocResidual (z0 : α) (z1 : List α) : α :=
  let res := socResidual z0 z1
  if 0 < res then sqrt res else 0

/-- `_circ_op`: `x₀ = ⟨y,z⟩`, `x₁ = y₀ z₁ + z₀ y₁` -/
def circOpCore (y0 : α) (y1 : List α) (z0 : α) (z1 : List α) : α × List α :=
  (Vec.dot (join y0 y1) (join z0 z1),
   List.zipWith (fun zi yi => y0 * zi + z0 * yi) z1 y1)

/-- `_inv_circ_op` -/
def invCircOpCore (y0 : α) (y1 : List α) (z0 : α) (z1 : List α) : α × List α :=
  let p := socResidual y0 y1
  let pinv := 1 / p
  let v := dotL y1 z1
  let x0 := (y0 * z0 - v) * pinv
  let c1 := pinv * (v / y0 - z0)
  let c2 := 1 / y0
  (x0, List.zipWith (fun yi zi => c1 * yi + c2 * zi) y1 z1)

/-- `_soc_mul_W_inner` -/
def mulWCore (y0 : α) (y1 : List α) (x0 : α) (x1 : List α) (a b : α)
    (w0 : α) (w1 : List α) (eta : α) : α × List α :=
  let ζ := dotL w1 x1
  let c := x0 + ζ / (1 + w0)
  let r0 := (a * eta) * (w0 * x0 + ζ) + b * y0
  -- y[1..].axpby(α·η·c, w[1..], β)
  let t := List.zipWith (fun yi wi => a * eta * c * wi + b * yi) y1 w1
  -- y[1..].axpby(α·η, x[1..], 1)
  (r0, List.zipWith (fun ti xi => a * eta * xi + 1 * ti) t x1)

/-- `_soc_mul_Winv_inner` -/
def mulWinvCore (y0 : α) (y1 : List α) (x0 : α) (x1 : List α) (a b : α)
    (w0 : α) (w1 : List α) (eta : α) : α × List α :=
  let ζ := dotL w1 x1
  let c := -x0 + ζ / (1 + w0)
  let r0 := (a / eta) * (w0 * x0 - ζ) + b * y0
  let t := List.zipWith (fun yi wi => a / eta * c * wi + b * yi) y1 w1
  (r0, List.zipWith (fun ti xi => a / eta * xi + 1 * ti) t x1)

/-- `mul_Hs`: `η²(2ww' − J)x` -/
def mulHsCore (x0 : α) (x1 : List α) (w0 : α) (w1 : List α) (eta : α) : α × List α :=
  let c := Vec.dot (join w0 w1) (join x0 x1) * two
  let e2 := eta * eta
  ((c * w0 + 1 * (-x0)) * e2,
   List.zipWith (fun xi wi => (c * wi + 1 * xi) * e2) x1 w1)

/-- the normalised scaling point `w` (before the sparse data): returns
`(w₀, w₁, wscale)`; `none` when `w` is not interior -/
def scalingW (s0 : α) (s1 : List α) (z0 : α) (z1 : List α) (sscale zscale : α) :
    Option (α × List α × α) :=
  -- w.copy_from(s); w.scale(sscale.recip())
  let rs := 1 / sscale
  let wa0 := s0 * rs
  let wa1 := s1.map (fun si => si * rs)
  -- w[0] += z[0]/zscale ; w[1..].axpby(-zscale.recip(), z[1..], 1)
  let wb0 := wa0 + z0 / zscale
  let nrz := -(1 / zscale)
  let wb1 := List.zipWith (fun wi zi => nrz * zi + 1 * wi) wa1 z1
  let wscale := sqrtSocResidual wb0 wb1
  if isZero wscale then none else
  let rw := 1 / wscale
  let wc1 := wb1.map (fun wi => wi * rw)
  -- try to force badly scaled w to come out normalized
  let w1sq := sumsqL wc1
  some (sqrt (1 + w1sq), wc1, wscale)

/-- the scaling point `λ` -/
def scalingLam (s0 : α) (s1 : List α) (z0 : α) (z1 : List α) (sscale zscale wscale : α) :
    α × List α :=
  let γ := half * wscale
  let ca := (γ + z0 / zscale) / sscale
  let cb := (γ + s0 / sscale) / zscale
  let l1 := List.zipWith (fun si zi => ca * si + cb * zi) s1 z1
  let r := 1 / (s0 / sscale + z0 / zscale + two * γ)
  let l1 := l1.map (fun li => li * r)
  let sc := sqrt (sscale * zscale)
  (γ * sc, l1.map (fun li => li * sc))

/-- sparse expansion terms `(u, v, d)` from the normalised `w` -/
def scalingSparse (w0 : α) (w1 : List α) : Sparse α :=
  let a := two * w0
  let w1sq := sumsqL w1
  let wsq := w0 * w0 + w1sq
  let wsqinv := 1 / wsq
  let d := half * wsqinv
  let u0 := sqrt (wsq - d)
  let u1 := a / u0
  let v1 := sqrt (two * (two + wsqinv) / (two * wsq - wsqinv))
  ⟨join u0 (w1.map (fun wi => u1 * wi + 0 * 0)),
   join 0 (w1.map (fun wi => v1 * wi + 0 * 0)), d⟩

/-- `update_scaling` on split vectors; the flag is the Rust return value, the cone is the
state left behind (partially updated on the second failure exit, as in the Rust code). -/
def updateScalingCore (K : Cone α) (s0 : α) (s1 : List α) (z0 : α) (z1 : List α) :
    Bool × Cone α :=
  let zscale := sqrtSocResidual z0 z1
  let sscale := sqrtSocResidual s0 s1
  if isZero zscale || isZero sscale then (false, K) else
  let eta := sqrt (sscale / zscale)
  match scalingW s0 s1 z0 z1 sscale zscale with
  | none =>
    -- state at the early exit: η set, w un-normalised
    let rs := 1 / sscale
    let nrz := -(1 / zscale)
    (false, { K with eta := eta,
                     w := join (s0 * rs + z0 / zscale)
                            (List.zipWith (fun wi zi => nrz * zi + 1 * wi)
                              (s1.map (fun si => si * rs)) z1) })
  | some (w0, w1, wscale) =>
    let (l0, l1) := scalingLam s0 s1 z0 z1 sscale zscale wscale
    (true, { K with eta := eta, w := join w0 w1, lam := join l0 l1,
                    sparse := match K.sparse with
                      | none => none
                      | some _ => some (scalingSparse w0 w1) })

/-- `update_scaling` -/
def updateScaling (K : Cone α) (s z : Array α) : MErr (Bool × Cone α) := do
  let (z0, z1) ← split z
  let (s0, s1) ← split s
  if s.size ≠ K.dim then throw (.panic "copy_from_slice length")
  if z.size ≠ K.dim then throw (.panic "axpby assert_eq length")
  pure (updateScalingCore K s0 s1 z0 z1)

/-- `get_Hs` (dense packed-triu form, or the diagonal part of the sparse form) -/
def getHs (K : Cone α) : MErr (Array α) := do
  let e2 := K.eta * K.eta
  match K.sparse with
  | some sp =>
    -- Hsblock.fill(η²); Hsblock[0] *= d
    match K.dim with
    | 0 => throw (.panic "Hsblock[0]")
    | n + 1 => pure (join (e2 * sp.d) (List.replicate n e2))
  | none =>
    let (w0, _) ← split K.w
    let s2 : α := sqrt two
    let h0 := (s2 * w0 - 1) * (s2 * w0 + 1)
    let mut H : Array α := #[h0]
    for col in [1:K.dim] do
      let wcol ← getE K.w col "w[col]"
      for row in [0:col+1] do
        let wrow ← getE K.w row "w[row]"
        let v := two * wrow * wcol
        H := H.push (if row = col then v + 1 else v)
    pure (H.map (fun h => h * e2))

/-- `mul_Hs` -/
def mulHs (K : Cone α) (x : Array α) : MErr (Array α) := do
  let (x0, x1) ← split x
  let (w0, w1) ← split K.w
  if x.size ≠ K.dim then throw (.panic "copy_from_slice length")
  let (r0, r1) := mulHsCore x0 x1 w0 w1 K.eta
  pure (join r0 r1)

def circOp (y z : Array α) : MErr (Array α) := do
  let (y0, y1) ← split y
  let (z0, z1) ← split z
  if y.size ≠ z.size then throw (.panic "waxpby assert_eq length")
  let (r0, r1) := circOpCore y0 y1 z0 z1
  pure (join r0 r1)

def invCircOp (y z : Array α) : MErr (Array α) := do
  let (y0, y1) ← split y
  let (z0, z1) ← split z
  if y.size ≠ z.size then throw (.panic "waxpby assert_eq length")
  let (r0, r1) := invCircOpCore y0 y1 z0 z1
  pure (join r0 r1)

def lamInvCircOp (K : Cone α) (z : Array α) : MErr (Array α) := invCircOp K.lam z

/-- `affine_ds = λ ∘ λ` -/
def affineDs (K : Cone α) : MErr (Array α) := circOp K.lam K.lam

/-- `mul_W` (symmetric: the shape is ignored) -/
def mulW (K : Cone α) (y x : Array α) (a b : α) : MErr (Array α) := do
  let (w0, w1) ← split K.w
  let (x0, x1) ← split x
  let (y0, y1) ← split y
  if y.size ≠ K.dim ∨ x.size ≠ K.dim then throw (.panic "axpby assert_eq length")
  let (r0, r1) := mulWCore y0 y1 x0 x1 a b w0 w1 K.eta
  pure (join r0 r1)

def mulWinv (K : Cone α) (y x : Array α) (a b : α) : MErr (Array α) := do
  let (w0, w1) ← split K.w
  let (x0, x1) ← split x
  let (y0, y1) ← split y
  if y.size ≠ K.dim ∨ x.size ≠ K.dim then throw (.panic "axpby assert_eq length")
  let (r0, r1) := mulWinvCore y0 y1 x0 x1 a b w0 w1 K.eta
  pure (join r0 r1)

/-- `scaled_unit_shift`: `z[0] += α` -/
def scaledUnitShift (z : Array α) (a : α) : MErr (Array α) := do
  let (z0, z1) ← split z
  pure (join (z0 + a) z1)

/-- `_combined_ds_shift_symmetric`; returns `(shift, step_z, step_s)` -/
def combinedDsShift (K : Cone α) (stepZ stepS : Array α) (sigmaMu : α) :
    MErr (Array α × Array α × Array α) := do
  let wz ← mulW K stepZ stepZ 1 0
  let ws ← mulWinv K stepS stepS 1 0
  let sh ← circOp ws wz
  let sh ← scaledUnitShift sh (-sigmaMu)
  pure (sh, wz, ws)

/-- the "more stable" `Δs_from_Δz_offset` -/
def dsFromDzOffsetCore (ds0 : α) (ds1 : List α) (z0 : α) (z1 : List α)
    (l0 : α) (l1 : List α) (w0 : α) (w1 : List α) (eta : α) : α × List α :=
  let resz := socResidual z0 z1
  let l1ds1 := dotL l1 ds1
  let w1ds1 := dotL w1 ds1
  let c := l0 * ds0 - l1ds1
  let k := c / resz
  let o0 := z0 * k + eta * w1ds1
  let o1 := List.zipWith (fun zi (p : α × α) =>
      (-zi) * k + eta * (p.1 + w1ds1 / (1 + w0) * p.2)) z1 (ds1.zip w1)
  let rl := 1 / l0
  (o0 * rl, o1.map (fun oi => oi * rl))

def dsFromDzOffset (K : Cone α) (ds z : Array α) : MErr (Array α) := do
  let (z0, z1) ← split z
  let (l0, l1) ← split K.lam
  let (ds0, ds1) ← split ds
  let (w0, w1) ← split K.w
  sizeGuard (ds.size == K.dim && z.size == K.dim)
  let (r0, r1) := dsFromDzOffsetCore ds0 ds1 z0 z1 l0 l1 w0 w1 K.eta
  pure (join r0 r1)

/-- `margins`: `α = z₀ − ‖z₁‖`, `β = max(0, α)` -/
def margins (z : Array α) : MErr (α × α) := do
  let (z0, z1) ← split z
  let a := z0 - normL z1
  pure (a, fmax 0 a)

/-- `unit_initialization` : `(z, s)` -/
def unitInitialization (z s : Array α) : MErr (Array α × Array α) := do
  let s' ← scaledUnitShift (s.map (fun _ => 0)) 1
  let z' ← scaledUnitShift (z.map (fun _ => 0)) 1
  pure (z', s')

/-- minimum of `αmax` and two optional roots (`none` = discarded = `+∞`) -/
def minRoots (amax : α) (r1 r2 : Option α) : α :=
  match r1, r2 with
  | none, none => amax
  | some a, none => fmin amax a
  | none, some b => fmin amax b
  | some a, some b => fmin amax (fmin a b)

/-- the branch logic of `_step_length_soc_component` on the scalars
`a = res(y)`, `b = 2(x₀y₀ − ⟨x₁,y₁⟩)`, `c = max(0, res(x))`; `amax` is already capped by
the scalar part. -/
def stepLengthQuad (a b c amax : α) : MErr α :=
  let d := b * b - four * a * c
  if c < 0 then throw (.panic "starting point of line search not in SOC")
  else if (0 < a ∧ 0 < b) ∨ d < 0 then pure amax
  else if isZero a then pure (if b < 0 then fmin amax (-c / b) else amax)
  else if isZero c then pure (if a < 0 then 0 else amax)
  else
    let t := if b < 0 then -b + sqrt d else -b - sqrt d
    let r1 := (two * c) / t
    let r2 := t / (two * a)
    let r1 := if r1 < 0 then none else some r1
    let r2 := if r2 < 0 then none else some r2
    pure (minRoots amax r1 r2)

/-- the cap by the scalar part: `x₀ ≥ 0 ∧ y₀ < 0 ⇒ αmax ← min(αmax, −x₀/y₀)` -/
def capScalar (x0 y0 amax : α) : α :=
  if ¬ (x0 < 0) ∧ y0 < 0 then fmin amax (-x0 / y0) else amax

/-- `_step_length_soc_component` -/
def stepLengthComponentCore (x0 : α) (x1 : List α) (y0 : α) (y1 : List α) (amax : α) : MErr α :=
  let amax := capScalar x0 y0 amax
  let a := socResidual y0 y1
  let b := two * (x0 * y0 - dotL x1 y1)
  let c := fmax 0 (socResidual x0 x1)
  stepLengthQuad a b c amax

def stepLengthComponent (x y : Array α) (amax : α) : MErr α := do
  let (x0, x1) ← split x
  let (y0, y1) ← split y
  stepLengthComponentCore x0 x1 y0 y1 amax

/-- `step_length` : `(αz, αs)` -/
def stepLength (dz ds z s : Array α) (amax : α) : MErr (α × α) := do
  let az ← stepLengthComponent z dz amax
  let as ← stepLengthComponent s ds amax
  pure (az, as)

end

/-! ## added in round 3 (C13): `set_identity_scaling` and operation histories on one cone -/
section
variable [Add α] [Mul α] [Sub α] [Div α] [Neg α] [OfNat α 0] [OfNat α 1] [LT α] [DecidableLT α]
  [FloatLike α]

/-- `set_identity_scaling`: `w = e₀`, `η = 1`, and for a sparse-expanded cone `d = ½`,
`u = (1/√2)·e₀`, `v = 0` (`λ` is left as it is).  `w[0]` / `u[0]` on an empty vector panic. -/
def setIdentityScaling (K : Cone α) : MErr (Cone α) := do
  let w ← setE (K.w.map (fun _ => (0 : α))) 0 1 "w[0]"
  let sp ← match K.sparse with
    | none => pure none
    | some sp => do
      let u ← setE (sp.u.map (fun _ => (0 : α))) 0 (sqrt (1 / (1 + 1))) "u[0]"
      pure (some ⟨u, sp.v.map (fun _ => (0 : α)), half⟩)
  pure { K with w := w, eta := 1, sparse := sp }

/-- one operation on a cone object -/
inductive Op (α : Type) where
  | update (s z : Array α)
  | identity

/-- what can be read off the cone after an operation: the flag returned by the operation
(`true` for `set_identity_scaling`), `w`, `η`, the sparse data, `get_Hs`, and `mul_Hs x` -/
structure Snapshot (α : Type) where
  ok : Bool
  w : Array α
  eta : α
  sparse : Option (Sparse α)
  hs : Array α
  y : Array α

def applyOp (K : Cone α) : Op α → MErr (Bool × Cone α)
  | .update s z => updateScaling K s z
  | .identity => do let K' ← setIdentityScaling K; pure (true, K')

/-- run a history of operations on one cone object, taking a snapshot after each -/
def runHistory (K : Cone α) (x : Array α) : List (Op α) → MErr (List (Snapshot α))
  | [] => pure []
  | op :: rest => do
    let (ok, K') ← applyOp K op
    let hs ← getHs K'
    let y ← mulHs K' x
    let tail ← runHistory K' x rest
    pure (⟨ok, K'.w, K'.eta, K'.sparse, hs, y⟩ :: tail)

end

end Soc
end Clarabel
