/-
  Model of `src/solver/core/cones/nonsymmetric_common.rs` (+ `logsafe` of
  `src/algebra/scalarmath.rs`): the operations shared by the exponential, power and
  generalised power cones.
-/
import ClarabelModel.Vec
import ClarabelModel.Cones.Dense3

namespace Clarabel
namespace Nonsym

variable {α : Type} [Add α] [Sub α] [Mul α] [Div α] [Neg α] [LT α] [LE α] [DecidableLT α]
  [DecidableLE α] [BEq α] [OfNat α 0] [OfNat α 1] [OfNat α 2] [OfNat α 3] [FloatLike α]

/-- `-T::infinity()`; at `Float` this is `-(1/0) = -∞`. -/
def negInf : α := -((1 : α) / 0)

/-- `logsafe`: `-∞` for a non-positive argument, `ln` otherwise -/
def logsafe (x : α) : α := if x ≤ 0 then negInf else log x

/-- `T::recip` -/
@[inline] def recip (x : α) : α := 1 / x

def v3toArray (x : V3 α) : Array α := #[x.1, x.2.1, x.2.2]

def v3ofArray? (a : Array α) : Option (V3 α) :=
  match a.toList with
  | [a0, a1, a2] => some (a0, a1, a2)
  | _ => none

/-- `backtrack_search`: largest `α = α_init·stepᵏ` with `q + α dq` in the cone, `0` once
`α < α_min`.  The Rust loop is unbounded (it does not terminate for `step ≥ 1` on a
direction that never enters the cone); the model takes fuel and reports exhaustion as a
panic. -/
def backtrackSearch (dq q : Array α) (aInit aMin step : α) (inCone : Array α → Bool) :
    Nat → MErr α
  | 0 => throw (.panic "backtrack_search: fuel")
  | fuel + 1 =>
    let work := Vec.waxpby 1 q aInit dq
    if inCone work then pure aInit
    else
      let a := aInit * step
      if a < aMin then pure 0 else backtrackSearch dq q a aMin step inCone fuel

/-- `newton_raphson_onesided`: at most 100 iterations; returns the iterate and the number
of passes through the loop body. -/
def newtonRaphsonOnesided (f0 f1 : α → α) : Nat → α → Nat → α × Nat
  | 0, x, it => (x, it)
  | fuel + 1, x, it =>
    let dfdx := f1 x
    let dx := -(f0 x) / dfdx
    if dx < FloatLike.eps || fabs (dx / x) < sqrt FloatLike.eps || fabs dfdx < FloatLike.eps then
      (x, it + 1)
    else newtonRaphsonOnesided f0 f1 fuel (x + dx) (it + 1)

/-- `use_dual_scaling`: `Hs = μ·H_dual` -/
def useDualScaling (mu : α) (Hd : Sym3 α) : Sym3 α := Sym3.scaledFrom mu Hd

/-- The quantities of `use_primal_dual_scaling` that decide the branch. -/
structure PdQuantities (α : Type) where
  dotSz : α
  mu : α
  muT : α
  ds : V3 α
  dz : V3 α
  dotDsz : α
  de1 : α
  de2 : α

def pdQuantities (Hd : Sym3 α) (st zt s z : V3 α) : PdQuantities α :=
  let three : α := 3
  let dotSz := Sym3.dot3 s z
  let mu := dotSz / three
  let muT := Sym3.dot3 st zt / three
  let ds : V3 α := (s.1 + mu * st.1, s.2.1 + mu * st.2.1, s.2.2 + mu * st.2.2)
  let dz : V3 α := (z.1 + mu * zt.1, z.2.1 + mu * zt.2.1, z.2.2 + mu * zt.2.2)
  let dotDsz := Sym3.dot3 ds dz
  let de1 := mu * muT - 1
  let de2 := Hd.quadForm zt zt - three * muT * muT
  ⟨dotSz, mu, muT, ds, dz, dotDsz, de1, de2⟩

/-- the test of `use_primal_dual_scaling` -/
def pdCondition (Q : PdQuantities α) : Bool :=
  sqrt FloatLike.eps < fabs Q.de1 && FloatLike.eps < fabs Q.de2 && 0 < Q.dotSz && 0 < Q.dotDsz

/-- `normalize` of a 3-vector -/
def normalize3 (a : V3 α) : V3 α :=
  let norm := sqrt (Sym3.dot3 a a)
  if norm == 0 then a
  else
    let c := recip norm
    (a.1 * c, a.2.1 * c, a.2.2 * c)

/-- cross product `z × zt` as written in the code -/
def cross3 (z zt : V3 α) : V3 α :=
  (z.2.1 * zt.2.2 - z.2.2 * zt.2.1, z.2.2 * zt.1 - z.1 * zt.2.2, z.1 * zt.2.1 - z.2.1 * zt.1)

/-- the primal–dual branch: `Hs = ss'/⟨s,z⟩ + δsδs'/⟨δs,δz⟩ + t·aa'` -/
def pdHs (Hd : Sym3 α) (st zt s z : V3 α) (Q : PdQuantities α) : Sym3 α :=
  let three : α := 3
  let tmp0 := Hd.mul zt
  let tmp : V3 α := (Q.muT * st.1 - tmp0.1, Q.muT * st.2.1 - tmp0.2.1, Q.muT * st.2.2 - tmp0.2.2)
  -- Hs as workspace
  let W : Sym3 α :=
    ⟨Hd.d0 - (st.1 * st.1 / three + tmp.1 * tmp.1 / Q.de2),
     Hd.d1 - (st.1 * st.2.1 / three + tmp.1 * tmp.2.1 / Q.de2),
     Hd.d2 - (st.2.1 * st.2.1 / three + tmp.2.1 * tmp.2.1 / Q.de2),
     Hd.d3 - (st.1 * st.2.2 / three + tmp.1 * tmp.2.2 / Q.de2),
     Hd.d4 - (st.2.1 * st.2.2 / three + tmp.2.1 * tmp.2.2 / Q.de2),
     Hd.d5 - (st.2.2 * st.2.2 / three + tmp.2.2 * tmp.2.2 / Q.de2)⟩
  let t := Q.mu * W.normFro
  let a := normalize3 (cross3 z zt)
  let e (si sj dsi dsj ai aj : α) : α := si * sj / Q.dotSz + dsi * dsj / Q.dotDsz + t * ai * aj
  ⟨e s.1 s.1 Q.ds.1 Q.ds.1 a.1 a.1,
   e s.1 s.2.1 Q.ds.1 Q.ds.2.1 a.1 a.2.1,
   e s.2.1 s.2.1 Q.ds.2.1 Q.ds.2.1 a.2.1 a.2.1,
   e s.1 s.2.2 Q.ds.1 Q.ds.2.2 a.1 a.2.2,
   e s.2.1 s.2.2 Q.ds.2.1 Q.ds.2.2 a.2.1 a.2.2,
   e s.2.2 s.2.2 Q.ds.2.2 Q.ds.2.2 a.2.2 a.2.2⟩

/-- `use_primal_dual_scaling` given the primal gradient `zt = gradient_primal(s)` and the
stored dual gradient `st = grad`; returns (primal-dual branch taken?, Hs). -/
def usePrimalDualScaling (Hd : Sym3 α) (st zt s z : V3 α) : Bool × Sym3 α :=
  let Q := pdQuantities Hd st zt s z
  if pdCondition Q then (true, pdHs Hd st zt s z Q)
  else (false, useDualScaling Q.mu Hd)

end Nonsym
end Clarabel
