/-
  Model of the barrier part of `src/solver/core/cones/psdtrianglecone.rs` (C15):
  the private `PSDTriangleCone::logdet_barrier` and its caller `compute_barrier`.

  LAPACK (`CholeskyEngine::factor`, `?potrf`) is not modelled: the factor it returns is an
  explicit input — `fac : Option (Array α)`, `some L` = column-major `n × n` data of
  `chol1.L` after a successful `factor`, `none` = `factor(..).is_err()`.  What the model
  fixes is (a) the matrix handed to the Cholesky engine, entry by entry (`barrierMat` =
  `q.waxpby(1, x, α, dx); svec_to_mat(Q, q)`) and (b) everything computed from the returned
  factor (`CholeskyEngine::logdet`: `ld = Σ ln L[(i,i)]`, left fold from `0`, result
  `ld + ld`; `+∞` on failure; `barrier -= …` twice from `0`).
-/
import ClarabelModel.Cones.PsdTriangle

namespace Clarabel
namespace PsdBarrier
open PsdTri
open PsdIndex (triangularNumber)

variable {α : Type}

section
variable [Add α] [Mul α] [Sub α] [Div α] [Neg α] [OfNat α 0] [OfNat α 1] [LT α] [DecidableLT α]
  [FloatLike α]

/-- `T::infinity()`, obtained as `1 / 0` (IEEE: `+∞`; the scalar class has no constant) -/
def inf : α := 1 / 0

/-- `q.waxpby(T::one(), x, α, dx)`: `q[i] = 1·x[i] + α·dx[i]` -/
def barrierArg (x dx : Array α) (a : α) : Array α := Vec.waxpby 1 x a dx

/-- the matrix `Q` handed to `chol1.factor`: `svec_to_mat(Q, q)` -/
def barrierMat (x dx : Array α) (a : α) : MatFn α := svecToMat (barrierArg x dx a)

/-- column-major data of `workmat1` right before the `factor` call -/
def barrierMatData (n : Nat) (x dx : Array α) (a : α) : Array α := colMajor n (barrierMat x dx a)

/-- `CholeskyEngine::logdet` on the column-major `n × n` factor `L`:
`ld = Σ ln(L[(i,i)])` (left fold from `0`), returns `ld + ld` -/
def cholLogdet (n : Nat) (L : Array α) : α :=
  let ld := (List.range n).foldl (fun (acc : α) i => acc + log (matOf n L i i)) 0
  ld + ld

set_option linter.unusedVariables false in
/-- `PSDTriangleCone::logdet_barrier` given the LAPACK answer `fac` for `barrierMat`.
The two asserts of `waxpby` (`workvec.len() = numel`) are kept; a factor of the wrong
size cannot come out of the engine (`err`). -/
def logdetBarrier (n : Nat) (x dx : Array α) (a : α) (fac : Option (Array α)) : MErr α := do
  if x.size != triangularNumber n then throw (.panic "waxpby: assert_eq len x")
  if dx.size != triangularNumber n then throw (.panic "waxpby: assert_eq len y")
  match fac with
  | none => pure inf
  | some L =>
    if L.size != n * n then throw (.err "chol factor size")
    pure (cholLogdet n L)

/-- `PSDTriangleCone::compute_barrier`: `barrier = 0; barrier -= logdet_barrier(z, dz, α);
barrier -= logdet_barrier(s, ds, α)` -/
def computeBarrier (n : Nat) (z s dz ds : Array α) (a : α) (facz facs : Option (Array α)) :
    MErr α := do
  let lz ← logdetBarrier n z dz a facz
  let ls ← logdetBarrier n s ds a facs
  pure ((0 - lz) - ls)

end

end PsdBarrier
end Clarabel
