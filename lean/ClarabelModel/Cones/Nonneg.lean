/-
  Model of `src/solver/core/cones/nonnegativecone.rs`.

  Element-wise kernels are `zipWith`s, reductions are left folds in index order (as the
  Rust iterators / index loops evaluate them).  `assert_eq!` sites are `.panic`; the zips
  that Rust silently truncates are only modelled for equal lengths (`.err
  "unmodelled-size"` otherwise — the solver never calls them with unequal lengths).
-/
import ClarabelModel.Vec

namespace Clarabel
namespace Nonneg

variable {α : Type}

structure Cone (α : Type) where
  w : Array α
  lam : Array α

def new [OfNat α 0] (dim : Nat) : Cone α :=
  ⟨(List.replicate dim (0 : α)).toArray, (List.replicate dim (0 : α)).toArray⟩

def sizeGuard (ok : Bool) : MErr Unit :=
  if ok then pure () else throw (.err "unmodelled-size")

section
variable [Add α] [Mul α] [Sub α] [Div α] [Neg α] [OfNat α 0] [OfNat α 1] [LT α] [DecidableLT α]
  [FloatLike α]

/-- `margins`: `(z.minimum(), Σ max(zᵢ,0))`; `none` is the `+∞` of the empty fold -/
def margins (z : Array α) : Option α × α :=
  (Vec.minimum? z, z.toList.foldl (fun b zi => b + fmax zi 0) 0)

/-- `scaled_unit_shift`: `z.translate(α)` -/
def scaledUnitShift (z : Array α) (a : α) : Array α := Vec.translate z a

/-- `unit_initialization` : `(z, s)` all ones -/
def unitInitialization (z s : Array α) : Array α × Array α :=
  (z.map (fun _ => 1), s.map (fun _ => 1))

/-- `update_scaling`: `λ = √(s·z)`, `w = √(s/z)` (always succeeds) -/
def updateScaling (K : Cone α) (s z : Array α) : MErr (Cone α) := do
  sizeGuard (s.size == K.w.size && z.size == K.w.size && K.lam.size == K.w.size)
  pure ⟨Array.zipWith (fun si zi => sqrt (si / zi)) s z,
        Array.zipWith (fun si zi => sqrt (si * zi)) s z⟩

/-- `get_Hs`: diagonal `w²` -/
def getHs (K : Cone α) (blockLen : Nat) : MErr (Array α) :=
  if K.w.size ≠ blockLen then throw (.panic "assert_eq w.len Hsblock.len")
  else pure (K.w.map (fun wi => wi * wi))

/-- `mul_Hs`: `yᵢ = wᵢ·(wᵢ·xᵢ)` -/
def mulHs (K : Cone α) (x : Array α) : MErr (Array α) := do
  sizeGuard (x.size == K.w.size)
  pure (Array.zipWith (fun wi xi => wi * (wi * xi)) K.w x)

/-- `affine_ds`: `λ∘λ` -/
def affineDs (K : Cone α) (dsLen : Nat) : MErr (Array α) :=
  if K.lam.size ≠ dsLen then throw (.panic "assert_eq lam.len ds.len")
  else pure (K.lam.map (fun li => li * li))

/-- `_circ_op` -/
def circOp (y z : Array α) : MErr (Array α) := do
  sizeGuard (y.size == z.size)
  pure (Array.zipWith (fun yi zi => yi * zi) y z)

/-- `_inv_circ_op`: `x = z / y` -/
def invCircOp (y z : Array α) : MErr (Array α) := do
  sizeGuard (y.size == z.size)
  pure (Array.zipWith (fun yi zi => zi / yi) y z)

def lamInvCircOp (K : Cone α) (z : Array α) : MErr (Array α) := invCircOp K.lam z

/-- `mul_W` (either shape): `yᵢ = a·(xᵢ·wᵢ) + b·yᵢ` -/
def mulW (K : Cone α) (y x : Array α) (a b : α) : MErr (Array α) :=
  if y.size ≠ x.size then throw (.panic "assert_eq y.len x.len")
  else if y.size ≠ K.w.size then throw (.panic "assert_eq y.len w.len")
  else pure (Array.zipWith (fun p yi => a * p + b * yi)
              (Array.zipWith (fun xi wi => xi * wi) x K.w) y)

/-- `mul_Winv`: `yᵢ = a·(xᵢ/wᵢ) + b·yᵢ` -/
def mulWinv (K : Cone α) (y x : Array α) (a b : α) : MErr (Array α) :=
  if y.size ≠ x.size then throw (.panic "assert_eq y.len x.len")
  else if y.size ≠ K.w.size then throw (.panic "assert_eq y.len w.len")
  else pure (Array.zipWith (fun p yi => a * p + b * yi)
              (Array.zipWith (fun xi wi => xi / wi) x K.w) y)

/-- `_combined_ds_shift_symmetric` specialised to this cone; returns
`(shift, step_z, step_s)` as left in the three buffers. -/
def combinedDsShift (K : Cone α) (stepZ stepS : Array α) (sigmaMu : α) :
    MErr (Array α × Array α × Array α) := do
  -- tmp.copy_from(step_z); step_z ← W tmp   (β = 0 multiplies the old step_z)
  let wz ← mulW K stepZ stepZ 1 0
  let ws ← mulWinv K stepS stepS 1 0
  let sh ← circOp ws wz
  pure (scaledUnitShift sh (-sigmaMu), wz, ws)

/-- `Δs_from_Δz_offset`: `out = ds / z` -/
def dsFromDzOffset (ds z : Array α) : MErr (Array α) := do
  sizeGuard (ds.size == z.size)
  pure (Array.zipWith (fun dsi zi => dsi / zi) ds z)

/-- one coordinate of the ratio test -/
def ratio (a : α) (zi dzi : α) : α := if dzi < 0 then fmin a (-zi / dzi) else a

/-- the ratio test over one pair of vectors (left fold in index order) -/
def stepComponent (amax : α) (z dz : List α) : α :=
  (z.zip dz).foldl (fun a p => ratio a p.1 p.2) amax

/-- `step_length` : `(αz, αs)` -/
def stepLength (dz ds z s : Array α) (amax : α) : MErr (α × α) :=
  if z.size ≠ s.size then throw (.panic "assert_eq z.len s.len")
  else if dz.size ≠ z.size then throw (.panic "assert_eq dz.len z.len")
  else if ds.size ≠ s.size then throw (.panic "assert_eq ds.len s.len")
  else pure (stepComponent amax z.toList dz.toList, stepComponent amax s.toList ds.toList)

end

/-! ## added in round 3 (C13): `set_identity_scaling` and operation histories on one cone -/
section
variable [Add α] [Mul α] [Sub α] [Div α] [Neg α] [OfNat α 0] [OfNat α 1] [LT α] [DecidableLT α]
  [FloatLike α]

/-- `set_identity_scaling`: `w.fill(1)` (`λ` is left as it is) -/
def setIdentityScaling (K : Cone α) : Cone α := { K with w := K.w.map (fun _ => 1) }

inductive Op (α : Type) where
  | update (s z : Array α)
  | identity

def applyOp (K : Cone α) : Op α → MErr (Cone α)
  | .update s z => updateScaling K s z
  | .identity => pure (setIdentityScaling K)

/-- run a history of operations on one cone object; after each: `(w, get_Hs, mul_Hs x)` -/
def runHistory (K : Cone α) (x : Array α) : List (Op α) → MErr (List (Array α × Array α × Array α))
  | [] => pure []
  | op :: rest => do
    let K' ← applyOp K op
    let hs ← getHs K' K'.w.size
    let y ← mulHs K' x
    let tail ← runHistory K' x rest
    pure ((K'.w, hs, y) :: tail)

end

end Nonneg
end Clarabel
