/-
  Model of `src/solver/core/cones/zerocone.rs` (the parts used by C13/C15).
  `T::max_value()` ("no bound") is `none`.
-/
import ClarabelModel.Vec

namespace Clarabel
namespace Zero

variable {α : Type}

/-- `margins`: infinite minimum margin (`none`), zero total margin -/
def margins [OfNat α 0] (_z : Array α) : Option α × α := (none, 0)

/-- `scaled_unit_shift`: the primal cone is forced to zero, the dual is untouched -/
def scaledUnitShift [OfNat α 0] (z : Array α) (_a : α) (primal : Bool) : Array α :=
  if primal then z.map (fun _ => 0) else z

/-- `unit_initialization` : `(z, s)` -/
def unitInitialization [OfNat α 0] (z s : Array α) : Array α × Array α :=
  (z.map (fun _ => 0), s.map (fun _ => 0))

/-- `step_length`: equality constraints allow arbitrary step length -/
def stepLength (amax : α) : α × α := (amax, amax)

def getHs [OfNat α 0] (n : Nat) : Array α := (List.replicate n (0 : α)).toArray
def mulHs [OfNat α 0] (y : Array α) : Array α := y.map (fun _ => 0)
def affineDs [OfNat α 0] (ds : Array α) : Array α := ds.map (fun _ => 0)
def combinedDsShift [OfNat α 0] (shift : Array α) : Array α := shift.map (fun _ => 0)
def dsFromDzOffset [OfNat α 0] (out : Array α) : Array α := out.map (fun _ => 0)

end Zero
end Clarabel
