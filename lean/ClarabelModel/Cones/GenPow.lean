/-
  Model of `src/solver/core/cones/genpowcone.rs` (generalised power cone).

  `al` = exponents (length `dim1`, positive, summing to one); a point is `(u, w)` with
  `u` of length `dim1` and `w` of length `dim2`.
  Primal cone  K  = { (u,w) : Π uᵢ^{alᵢ} ≥ ‖w‖, u ≥ 0 },
  dual cone    K* = { (u,w) : Π (uᵢ/alᵢ)^{alᵢ} ≥ ‖w‖, u ≥ 0 }.
-/
import ClarabelModel.Cones.Nonsym

namespace Clarabel
namespace GenPow
open Nonsym

variable {α : Type} [Add α] [Sub α] [Mul α] [Div α] [Neg α] [LT α] [LE α] [DecidableLT α]
  [DecidableLE α] [BEq α] [OfNat α 0] [OfNat α 1] [OfNat α 2] [OfNat α 3]
  [OfScientific α] [FloatLike α]

/-- `x[..d1]` / `x[d1..]` (Rust slices panic when `d1 > len`) -/
def split (x : Array α) (d1 : Nat) : MErr (Array α × Array α) :=
  if d1 ≤ x.size then pure (x.extract 0 d1, x.extract d1 x.size)
  else throw (.panic "slice index out of range")

/-- `GenPowerConeData::new`: the two assertions and `ψ = 1/Σ alᵢ²` -/
def new (al : Array α) : MErr α :=
  if !(al.toList.all (fun r => 0 < r)) then throw (.panic "assert: powers > 0")
  else if !(fabs (1 - Vec.sum al) < FloatLike.eps * FloatLike.ofNat al.size * (0.5 : α)) then
    throw (.panic "assert: powers sum to 1")
  else pure (1 / Vec.sumsq al)

/-- `Σ 2 alᵢ log uᵢ` (left fold from 0) -/
def logPhiPrimal (al u : Array α) : α :=
  (al.toList.zip u.toList).foldl (fun res p => res + 2 * p.1 * logsafe p.2) 0

/-- `Σ 2 alᵢ log (uᵢ/alᵢ)` (left fold from 0) -/
def logPhiDual (al u : Array α) : α :=
  (al.toList.zip u.toList).foldl (fun res p => res + 2 * p.1 * logsafe (p.2 / p.1)) 0

/-- `is_primal_feasible` -/
def isPrimalFeasible (al : Array α) (s : Array α) : MErr Bool := do
  let (u, w) ← split s al.size
  if u.toList.all (fun x => 0 < x) then
    let res := exp (logPhiPrimal al u) - Vec.sumsq w
    pure (if 0 < res then true else false)
  else pure false

/-- `is_dual_feasible` -/
def isDualFeasible (al : Array α) (z : Array α) : MErr Bool := do
  let (u, w) ← split z al.size
  if u.toList.all (fun x => 0 < x) then
    let res := exp (logPhiDual al u) - Vec.sumsq w
    pure (if 0 < res then true else false)
  else pure false

/-- `barrier_dual` -/
def barrierDual (al : Array α) (z : Array α) : MErr α := do
  let (u, w) ← split z al.size
  let res := exp (logPhiDual al u) - Vec.sumsq w
  let barrier : α := -(logsafe res)
  pure ((u.toList.zip al.toList).foldl (fun b p => b - logsafe p.1 * (1 - p.2)) barrier)

/-- data written by `update_dual_grad_H` -/
structure Data (α : Type) where
  grad : Array α
  p : Array α
  q : Array α
  r : Array α
  d1 : Array α
  d2 : α

/-- `phi = Π (zᵢ/alᵢ)^{2 alᵢ}` (left fold from 1) -/
def phiDual (al z : Array α) : α :=
  (al.toList.zip z.toList).foldl (fun phi p => phi * powf (p.2 / p.1) (2 * p.1)) 1

/-- `update_dual_grad_H` -/
def updateDualGradH (al : Array α) (z : Array α) : MErr (Data α) := do
  let (u, w) ← split z al.size
  let phi := phiDual al z
  let norm2w := Vec.sumsq w
  let ζ := phi - norm2w
  if !(0 < ζ) then throw (.panic "assert: zeta > 0") else
  let au := al.toList.zip u.toList
  let τ : List α := au.map (fun p => 2 * p.1 / p.2)
  let gradU : List α := au.map (fun p => (-(2 * p.1 / p.2)) * phi / ζ - (1 - p.1) / p.2)
  let gradW : List α := w.toList.map (fun zj => (2 / ζ) * zj)
  let p0 := sqrt (phi * (phi + norm2w) / 2)
  let p1 := (-2) * phi / p0
  let q0 := sqrt (ζ * phi / 2)
  let r1 := 2 * sqrt (ζ / (phi + norm2w))
  let d1 : List α := au.map (fun p => (2 * p.1 / p.2) * phi / (ζ * p.2) + (1 - p.1) / (p.2 * p.2))
  let d2 := 2 / ζ
  let pU : List α := τ.map (fun t => (p0 / ζ) * t)
  let pW : List α := w.toList.map (fun zj => (p1 / ζ) * zj)
  let q : List α := τ.map (fun t => t * (q0 / ζ))
  let r : List α := w.toList.map (fun zj => (r1 / ζ) * zj)
  pure ⟨(gradU ++ gradW).toArray, (pU ++ pW).toArray, q.toArray, r.toArray, d1.toArray, d2⟩

def nrX0 (normr phi ψ : α) : α :=
  (-(recip normr)) + (ψ * normr + sqrt ((phi / normr / normr + ψ * ψ - 1) * phi)) / (phi - normr * normr)

def nrF0 (normr : α) (p al : Array α) (x : α) : α :=
  let finit := -(logsafe (2 * x / normr + x * x))
  (al.toList.zip p.toList).foldl
    (fun f q => f + 2 * q.1 * (logsafe (x * normr + (1 + q.1) / q.1) - logsafe q.2)) finit

def nrF1 (normr : α) (al : Array α) (x : α) : α :=
  let finit := (-(2 * x + 2 / normr)) / (x * x + 2 * x / normr)
  al.toList.foldl (fun f ai => f + 2 * ai * normr / (normr * x + (1 + ai) / ai)) finit

/-- `_newton_raphson_genpowcone` : (result, passes) -/
def newtonRaphson (normr : α) (p : Array α) (phi : α) (al : Array α) (ψ : α) : α × Nat :=
  newtonRaphsonOnesided (nrF0 normr p al) (nrF1 normr al) 100 (nrX0 normr phi ψ) 0

/-- `gradient_primal` (uses the tail of `s`, *not* stored state) -/
def gradientPrimal (al : Array α) (ψ : α) (s : Array α) : MErr (Array α) := do
  let (p, r) ← split s al.size
  let phi := (p.toList.zip al.toList).foldl (fun phi q => phi * powf q.1 (2 * q.2)) 1
  let normr := Vec.norm r
  if FloatLike.eps < normr then
    let g1 := (newtonRaphson normr p phi al ψ).1
    let gr := r.toList.map (fun rj => (g1 / normr) * rj)
    let gp := (al.toList.zip p.toList).map (fun q => (-(1 + q.1 + q.1 * g1 * normr)) / q.2)
    pure (gp ++ gr).toArray
  else
    let gr := r.toList.map (fun _ => (0 : α))
    let gp := (al.toList.zip p.toList).map (fun q => (-(1 + q.1)) / q.2)
    pure (gp ++ gr).toArray

/-- `barrier_primal` -/
def barrierPrimal (al : Array α) (ψ : α) (s : Array α) : MErr α := do
  let g ← gradientPrimal al ψ s
  let bd ← barrierDual al (Vec.negate g)
  pure ((-bd) - FloatLike.ofNat (al.size + 1))

/-- `unit_initialization` -/
def unitInitialization (al : Array α) (dim2 : Nat) : Array α :=
  (al.toList.map (fun ai => sqrt (1 + ai)) ++ List.replicate dim2 (0 : α)).toArray

/-- `get_Hs`: the diagonal block `μ·[d1; d2]` -/
def getHs (D : Data α) (mu : α) (dim2 : Nat) : Array α :=
  (D.d1.toList.map (fun d => mu * d) ++ List.replicate dim2 (mu * D.d2)).toArray

/-- `mul_Hs`: `y = μ (D + pp' - qq' - rr') x` -/
def mulHs (D : Data α) (mu : α) (dim1 : Nat) (x : Array α) : MErr (Array α) := do
  let (x1, x2) ← split x dim1
  let coefP := Vec.dot D.p x
  let coefQ := Vec.dot D.q x1
  let coefR := Vec.dot D.r x2
  let y1 := ((x1.toList.zip D.d1.toList).zip D.q.toList).map (fun t => t.1.2 * t.1.1 - coefQ * t.2)
  let y2 := (x2.toList.zip D.r.toList).map (fun t => D.d2 * t.1 - coefR * t.2)
  let y := (y1 ++ y2).toArray
  if y.size != D.p.size then throw (.panic "assert_eq: axpby lengths") else
  let y := Vec.axpby coefP D.p 1 y
  pure (Vec.scale y mu)

/-- the cone object's mutable data -/
structure State (α : Type) where
  D : Data α
  mu : α
  z : Array α

/-- `GenPowerConeData::new`: all work vectors zero, `μ = 1` -/
def State.init (dim1 dim2 : Nat) : State α :=
  let zeros (n : Nat) : Array α := (List.replicate n (0 : α)).toArray
  ⟨⟨zeros (dim1 + dim2), zeros (dim1 + dim2), zeros dim1, zeros dim2, zeros dim1, 0⟩, 1, zeros (dim1 + dim2)⟩

/-- `update_scaling`: `ζ = Π(zᵢ/alᵢ)^{2alᵢ} - ‖w‖²` is tested first; when `!(ζ > 0)` the update
is refused (`false`) and the state is left unchanged, otherwise gradient/Hessian data, `μ` and
`z` are stored. -/
def updateScaling (al : Array α) (st : State α) (z : Array α) (mu : α) : MErr (Bool × State α) := do
  let (_, w) ← split z al.size
  let ζ := phiDual al z - Vec.sumsq w
  if !(0 < ζ) then pure (false, st)
  else
    let D ← updateDualGradH al z
    pure (true, ⟨D, mu, z⟩)

/-- `compute_barrier` (primal part first, as in the code) -/
def computeBarrier (al : Array α) (ψ : α) (z s dz ds : Array α) (a : α) : MErr α := do
  let barrier : α := 0
  let work := Vec.waxpby 1 s a ds
  let bp ← barrierPrimal al ψ work
  let barrier := barrier + bp
  let work := Vec.waxpby 1 z a dz
  let bd ← barrierDual al work
  pure (barrier + bd)

def inPrimal (al : Array α) (x : Array α) : Bool :=
  match isPrimalFeasible al x with
  | .ok b => b
  | .error _ => false

def inDual (al : Array α) (x : Array α) : Bool :=
  match isDualFeasible al x with
  | .ok b => b
  | .error _ => false

/-- `step_length` -/
def stepLength (al : Array α) (dz ds z s : Array α) (step aMin aMax : α) (fuel : Nat) : MErr (α × α) := do
  let az ← backtrackSearch dz z aMax aMin step (inDual al) fuel
  let as ← backtrackSearch ds s aMax aMin step (inPrimal al) fuel
  pure (az, as)

/-- `combined_ds_shift`: `shift = grad·σμ` — the generalised power cone has no third-order
correction (`higher_correction` is `unimplemented!()` and is never called); the step directions
are ignored. -/
def combinedDsShift (D : Data α) (_stepZ _stepS : Array α) (σμ : α) : Array α :=
  D.grad.map (fun g => g * σμ)

end GenPow
end Clarabel
