/-
  Model of `src/algebra/densesym3x3/mod.rs`: the packed symmetric 3×3 matrix type used by
  the exponential and power cones.

  `data = [ (0,0), (0,1), (1,1), (0,2), (1,2), (2,2) ]` (packed upper triangle, reads of the
  lower triangle go through `index_linear`, i.e. the indices are swapped).
  3-vectors are plain triples so that every entry is a plain scalar expression.
-/
import ClarabelModel.Scalar

namespace Clarabel

/-- a 3-vector `[T;3]` -/
abbrev V3 (α : Type) := α × α × α

structure Sym3 (α : Type) where
  d0 : α
  d1 : α
  d2 : α
  d3 : α
  d4 : α
  d5 : α

namespace Sym3

/-- `index_linear((r,c))` : `r + c(c+1)/2` for `r < c`, else `c + r(r+1)/2` -/
def indexLinear (r c : Nat) : Nat :=
  if r < c then r + (c * (c + 1)) / 2 else c + (r * (r + 1)) / 2

variable {α : Type} [Add α] [Sub α] [Mul α] [Div α] [LE α] [DecidableLE α]
  [OfNat α 0] [OfNat α 1] [OfNat α 2] [FloatLike α]

def zeros : Sym3 α := ⟨0, 0, 0, 0, 0, 0⟩

def toArray (H : Sym3 α) : Array α := #[H.d0, H.d1, H.d2, H.d3, H.d4, H.d5]

def ofArray? (a : Array α) : Option (Sym3 α) :=
  match a.toList with
  | [a0, a1, a2, a3, a4, a5] => some ⟨a0, a1, a2, a3, a4, a5⟩
  | _ => none

/-- `dot` of two 3-vectors: the left fold `((0 + x₀y₀) + x₁y₁) + x₂y₂` -/
def dot3 (x y : V3 α) : α := 0 + x.1 * y.1 + x.2.1 * y.2.1 + x.2.2 * y.2.2

/-- `mul`: `y = H x` -/
def mul (H : Sym3 α) (x : V3 α) : V3 α :=
  ( (H.d0 * x.1) + (H.d1 * x.2.1) + (H.d3 * x.2.2),
    (H.d1 * x.1) + (H.d2 * x.2.1) + (H.d4 * x.2.2),
    (H.d3 * x.1) + (H.d4 * x.2.1) + (H.d5 * x.2.2) )

/-- `scaled_from` -/
def scaledFrom (c : α) (B : Sym3 α) : Sym3 α :=
  ⟨c * B.d0, c * B.d1, c * B.d2, c * B.d3, c * B.d4, c * B.d5⟩

/-- `norm_fro` -/
def normFro (H : Sym3 α) : α :=
  let sumsq : α := 0
  let sumsq := sumsq + (H.d0 * H.d0 + H.d2 * H.d2 + H.d5 * H.d5)
  let sumsq := sumsq + (H.d1 * H.d1 + H.d3 * H.d3 + H.d4 * H.d4) * 2
  sqrt sumsq

/-- `quad_form`: `y' H x` -/
def quadForm (H : Sym3 α) (y x : V3 α) : α :=
  let out : α := 0
  let out := out + y.1 * (H.d0 * x.1 + H.d1 * x.2.1 + H.d3 * x.2.2)
  let out := out + y.2.1 * (H.d1 * x.1 + H.d2 * x.2.1 + H.d4 * x.2.2)
  let out := out + y.2.2 * (H.d3 * x.1 + H.d4 * x.2.1 + H.d5 * x.2.2)
  out

/-- `cholesky_3x3_explicit_factor`: `(success, L)`; on a non-positive pivot the routine
returns `false` and leaves `L` partially written (as the Rust code does). -/
def choleskyFactor (A : Sym3 α) : Bool × Sym3 α :=
  let L : Sym3 α := zeros
  let t := A.d0
  if t ≤ 0 then (false, L) else
  let L := { L with d0 := sqrt t }
  let L := { L with d1 := A.d1 / L.d0 }
  let t := A.d2 - L.d1 * L.d1
  if t ≤ 0 then (false, L) else
  let L := { L with d2 := sqrt t }
  let L := { L with d3 := A.d3 / L.d0 }
  let L := { L with d4 := (A.d4 - L.d1 * L.d3) / L.d2 }
  let t := A.d5 - L.d3 * L.d3 - L.d4 * L.d4
  if t ≤ 0 then (false, L) else
  let L := { L with d5 := sqrt t }
  (true, L)

/-- `cholesky_3x3_explicit_solve` -/
def choleskySolve (L : Sym3 α) (b : V3 α) : V3 α :=
  let b0 := b.1; let b1 := b.2.1; let b2 := b.2.2
  let l00 := L.d0; let l10 := L.d1; let l11 := L.d2; let l20 := L.d3; let l21 := L.d4; let l22 := L.d5
  let c1 := b0 / l00
  let c2 := (b1 * l00 - b0 * l10) / (l00 * l11)
  let c3 := (b2 * l00 * l11 - b1 * l00 * l21 + b0 * l10 * l21 - b0 * l11 * l20) / (l00 * l11 * l22)
  let x0 := (c1 * l11 * l22 - c2 * l10 * l22 + c3 * l10 * l21 - c3 * l11 * l20) / (l00 * l11 * l22)
  let x1 := (c2 * l22 - c3 * l21) / (l11 * l22)
  let x2 := c3 / l22
  (x0, x1, x2)

end Sym3
end Clarabel
