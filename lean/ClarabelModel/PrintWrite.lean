/-
  `impl Write for PrintTarget` (src/io/mod.rs) with the underlying sinks made explicit.

  `ClarabelModel/Print.lean` treats a print call as "the whole slice reaches the sink".  Here
  the path to that statement is modelled: `write!`/`writeln!` call `Write::write_all` for each
  piece of the format string; `write_all` (the std default — `PrintTarget` does not override
  it) loops over `PrintTarget::write`, which forwards *one* `write` call to the sink of the
  selected variant.  A sink may accept fewer bytes than offered (`Ok(k)`, `k ≤ len`), may
  answer `Interrupted` (retried by `write_all`), may fail, or may answer `Ok(0)`
  (`write_all` gives up with `WriteZero`).

  A device `Dev` answers the next `write` calls from a script (any finite behaviour of a
  stdout / file / user stream) and accepts everything once the script is used up.

  Imports only `ClarabelModel.Print`.
-/
import ClarabelModel.Print

namespace Clarabel
namespace Print

/-- the answer of an underlying sink to one `write(buf)` call -/
inductive WriteRes where
  /-- `Ok(min k buf.len())` -/
  | ok (k : Nat)
  /-- `Err(e)` with `e.kind() == Interrupted` -/
  | interrupted
  /-- any other `Err` -/
  | err
  deriving Repr, DecidableEq

inductive IoErr where
  | interrupted
  | other
  /-- `write_all`: "failed to write whole buffer" -/
  | writeZero
  /-- the model ran out of fuel (never happens with the fuel `writeAll` supplies) -/
  | fuel
  deriving Repr, DecidableEq

/-- an underlying sink: what it has accepted, how it answers the next calls, and a trace of the
calls it has seen -/
structure Dev where
  got : Bytes := []
  script : List WriteRes := []
  /-- the length offered in every `write` call so far -/
  calls : List Nat := []
  flushes : Nat := 0
  deriving Repr, DecidableEq

/-- one `write(buf)` on the sink -/
def Dev.write (d : Dev) (buf : Bytes) : Except IoErr Nat × Dev :=
  match d.script with
  | [] => (.ok buf.length, { d with got := d.got ++ buf, calls := d.calls ++ [buf.length] })
  | .ok k :: s =>
    (.ok (min k buf.length),
      { d with got := d.got ++ buf.take k, script := s, calls := d.calls ++ [buf.length] })
  | .interrupted :: s => (.error .interrupted, { d with script := s, calls := d.calls ++ [buf.length] })
  | .err :: s => (.error .other, { d with script := s, calls := d.calls ++ [buf.length] })

def Dev.flush (d : Dev) : Dev := { d with flushes := d.flushes + 1 }

/-- `io::PrintTarget` with explicit sinks -/
inductive Target where
  | stdout (d : Dev)
  | file (d : Dev)
  | buffer (b : Bytes)
  | stream (d : Dev)
  | sink
  deriving Repr, DecidableEq

/-- `PrintTarget::write`: one forwarding call per variant; a buffer takes everything, a sink
reports everything as written -/
def Target.write : Target → Bytes → Except IoErr Nat × Target
  | .stdout d, buf => ((d.write buf).1, .stdout (d.write buf).2)
  | .file d, buf => ((d.write buf).1, .file (d.write buf).2)
  | .buffer b, buf => (.ok buf.length, .buffer (b ++ buf))
  | .stream d, buf => ((d.write buf).1, .stream (d.write buf).2)
  | .sink, buf => (.ok buf.length, .sink)

/-- `PrintTarget::flush` -/
def Target.flush : Target → Target
  | .stdout d => .stdout d.flush
  | .file d => .file d.flush
  | .buffer b => .buffer b
  | .stream d => .stream d.flush
  | .sink => .sink

/-- bytes the sink of the target has accepted -/
def Target.delivered : Target → Bytes
  | .stdout d | .file d | .stream d => d.got
  | .buffer b => b
  | .sink => []

/-- scripted answers still pending -/
def Target.pending : Target → List WriteRes
  | .stdout d | .file d | .stream d => d.script
  | .buffer _ | .sink => []

/-- the trace of `write` calls seen by the sink -/
def Target.calls : Target → List Nat
  | .stdout d | .file d | .stream d => d.calls
  | .buffer _ | .sink => []

def Target.flushes : Target → Nat
  | .stdout d | .file d | .stream d => d.flushes
  | .buffer _ | .sink => 0

/-- forget the sink: the coarse target of `Print.lean` -/
def Target.abs : Target → PrintTarget
  | .stdout d => .stdout d.got
  | .file d => .file d.got
  | .buffer b => .buffer b
  | .stream d => .stream d.got
  | .sink => .sink

/-- the loop of `Write::write_all`:
```
while !buf.is_empty() {
    match self.write(buf) {
        Ok(0) => return Err(WriteZero),
        Ok(n) => buf = &buf[n..],
        Err(ref e) if e.is_interrupted() => {}
        Err(e) => return Err(e),
    }
}
```
-/
def Target.writeAllFuel : Nat → Target → Bytes → Except IoErr Unit × Target
  | 0, t, buf => if buf.isEmpty then (.ok (), t) else (.error .fuel, t)
  | fuel + 1, t, buf =>
    if buf.isEmpty then (.ok (), t) else
    match t.write buf with
    | (.ok 0, t') => (.error .writeZero, t')
    | (.ok n, t') => Target.writeAllFuel fuel t' (buf.drop n)
    | (.error .interrupted, t') => Target.writeAllFuel fuel t' buf
    | (.error e, t') => (.error e, t')

/-- every iteration uses up a scripted answer or, once the script is empty, the whole rest of
the buffer: `pending + 1` iterations suffice -/
def Target.writeAll (t : Target) (buf : Bytes) : Except IoErr Unit × Target :=
  Target.writeAllFuel (t.pending.length + 1) t buf

/-- a print function: `write_all` for every piece, `?` after each -/
def Target.writePieces : Target → List Bytes → Except IoErr Unit × Target
  | t, [] => (.ok (), t)
  | t, p :: ps =>
    match t.writeAll p with
    | (.ok (), t') => Target.writePieces t' ps
    | (.error e, t') => (.error e, t')

/-- what an override of `write_all` that forwards a single `write` and drops the count would do
(the shape of seeded defect C20-c) -/
def Target.writeOnce (t : Target) (buf : Bytes) : Except IoErr Unit × Target :=
  match t.write buf with
  | (.ok _, t') => (.ok (), t')
  | (.error e, t') => (.error e, t')

/-- a script that can neither fail nor stall: short writes of at least one byte and
`Interrupted` only -/
def WellBehaved (s : List WriteRes) : Prop := ∀ r ∈ s, r ≠ .err ∧ r ≠ .ok 0

instance (s : List WriteRes) : Decidable (WellBehaved s) := by
  unfold WellBehaved; exact inferInstance

/-! ### operations of the harness channel -/

inductive Op where
  | write (buf : Bytes)
  | writeAll (buf : Bytes)
  | flush

inductive OpRes where
  | wrote (k : Nat)
  | done
  | failed (e : IoErr)
  deriving Repr, DecidableEq

def Target.step (t : Target) : Op → OpRes × Target
  | .write buf =>
    match t.write buf with
    | (.ok k, t') => (.wrote k, t')
    | (.error e, t') => (.failed e, t')
  | .writeAll buf =>
    match t.writeAll buf with
    | (.ok (), t') => (.done, t')
    | (.error e, t') => (.failed e, t')
  | .flush => (.done, t.flush)

def Target.run : Target → List Op → List OpRes × Target
  | t, [] => ([], t)
  | t, o :: os =>
    let (r, t') := t.step o
    let (rs, t'') := Target.run t' os
    (r :: rs, t'')

/-- `impl Debug for PrintTarget` -/
def Target.debugName : Target → String
  | .stdout _ => "PrintTarget::Stdout"
  | .file _ => "PrintTarget::File"
  | .buffer _ => "PrintTarget::Buffer"
  | .stream _ => "PrintTarget::Stream"
  | .sink => "PrintTarget::Sink"

/-- `impl Clone for PrintTarget`: stdout and a file handle are shared with the original, a
buffer is copied, an arbitrary stream cannot be cloned and becomes a sink -/
def Target.clone : Target → Target
  | .stream _ => .sink
  | t => t

end Print
end Clarabel
