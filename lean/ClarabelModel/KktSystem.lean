/-
  Model of `src/solver/implementations/default/kktsystem.rs :: DefaultKKTSystem::solve`
  (the assembly of the step from the two reduced linear solves, including the elimination
  of Δτ with the `P` quadratic-form terms) and of `_csc_quad_form`
  (`src/algebra/csc/matrix_math.rs`).

  The linear solver is *not* part of this model: its two results `(x1,z1)` (variable rhs)
  and `(x2,z2)` (constant rhs) are inputs, exactly as `solve` sees them.
  Imports only model files.
-/
import ClarabelModel.Vec
import ClarabelModel.Csc
import ClarabelModel.Step

namespace Clarabel
namespace KktSystem

open Step

variable {α : Type}

section
variable [Add α] [Sub α] [Mul α] [Div α] [Neg α] [OfNat α 0] [OfNat α 1]

/-- `_csc_quad_form(M, y, x)` for an upper-triangular `M`: `yᵀ (M + Mᵀ − diag M) x`.
Panics on an entry below the diagonal and on out-of-range reads. -/
def quadForm (M : Csc α) (y x : Array α) : MErr α := do
  if M.n ≠ M.m ∨ x.size ≠ M.n ∨ y.size ≠ M.n ∨ M.colptr.size ≠ M.n + 1
      ∨ M.nzval.size ≠ M.rowval.size then
    throw (.panic "quad_form:assert")
  let mut out : α := 0
  for col in [0:M.n] do
    let first ← getE M.colptr col "quad_form:colptr"
    let last ← getE M.colptr (col + 1) "quad_form:colptr"
    let xc ← getE x col "quad_form:x"
    let yc ← getE y col "quad_form:y"
    let mut tmp1 : α := 0
    let mut tmp2 : α := 0
    for k in [first:last] do
      let mv ← getE M.nzval k "quad_form:nzval"
      let row ← getE M.rowval k "quad_form:rowval"
      if row < col then
        let xr ← getE x row "quad_form:x"
        let yr ← getE y row "quad_form:y"
        tmp1 := tmp1 + mv * xr
        tmp2 := tmp2 + mv * yr
      else if row = col then
        out := out + mv * xc * yc
      else
        throw (.panic "quad_form:not-triu")
    out := out + (tmp1 * yc + tmp2 * xc)
  return out

/-- numerator of Δτ: `rhs.τ − rhs.κ/τ + q·x1 + b·z1 + 2·ξᵀP x1` -/
def tauNum (rhsτ rhsκ τ qx1 bz1 ξPx1 : α) : α :=
  rhsτ - rhsκ / τ + qx1 + bz1 + (1 + 1 : α) * ξPx1

/-- denominator of Δτ: `κ/τ − q·x2 − b·z2`, then `+= (ξ−x2)ᵀP(ξ−x2) − x2ᵀP x2` -/
def tauDen (κ τ qx2 bz2 qfξm qfx2 : α) : α :=
  (κ / τ - qx2 - bz2) + (qfξm - qfx2)

/-- `lhs.κ = −(rhs.κ + κ·Δτ)/τ` -/
def deltaKappa (rhsκ κ τ dτ : α) : α := -(rhsκ + κ * dτ) / τ

/-- The assembly part of `DefaultKKTSystem::solve`, with the quadratic form of `P` and the
cone operator `mul_Hs` as parameters.

* `dsConst` is `Δs_const_term` (`variables.s` in the affine case,
  `Δs_from_Δz_offset(rhs.s, variables.z)` in the combined case);
* `(x1,z1)` is the linear-solve result for the rhs `(rhs.x, dsConst − rhs.z)`;
* `(x2,z2)` the one for `(−q, b)`.

Returns the step `lhs` and the rhs `(workx, workz)` that was handed to the linear solver. -/
def solveAssemble (qf : Array α → Array α → MErr α) (mulHs : Array α → Array α)
    (q b : Array α) (vars rhs : Vars α) (dsConst x1 z1 x2 z2 : Array α) :
    MErr (Vars α × Array α × Array α) := do
  let workx := rhs.x
  -- workz = 1·dsConst + (−1)·rhs.z
  let workz := Vec.waxpby (1 : α) dsConst (-(1 : α)) rhs.z
  -- ξ = (1/τ)·x + 0·workx
  let ξ := Vec.axpby ((1 : α) / vars.τ) vars.x 0 workx
  let ξPx1 ← qf ξ x1
  let tn := tauNum rhs.τ rhs.κ vars.τ (Vec.dot q x1) (Vec.dot b z1) ξPx1
  -- ξ − x2 = (−1)·x2 + 1·ξ
  let ξm := Vec.axpby (-(1 : α)) x2 1 ξ
  let qfξm ← qf ξm ξm
  let qfx2 ← qf x2 x2
  let td := tauDen vars.κ vars.τ (Vec.dot q x2) (Vec.dot b z2) qfξm qfx2
  let dτ := tn / td
  let dx := Vec.waxpby (1 : α) x1 dτ x2
  let dz := Vec.waxpby (1 : α) z1 dτ z2
  -- lhs.s = mul_Hs(lhs.z);  lhs.s = (−1)·dsConst + (−1)·lhs.s
  let ds := Vec.axpby (-(1 : α)) dsConst (-(1 : α)) (mulHs dz)
  let dκ := deltaKappa rhs.κ vars.κ vars.τ dτ
  return ({ x := dx, s := ds, z := dz, τ := dτ, κ := dκ }, workx, workz)

end

section
variable [Add α] [Sub α] [Mul α] [Div α] [Neg α] [OfNat α 0] [OfNat α 1]
  [LT α] [DecidableLT α] [FloatLike α]

/-- `solve` for a product of zero and nonnegative cones with scaling `w`:
`affine = true` is `StepDirection::Affine`. -/
def solveNN (P : Csc α) (mask : List Bool) (w : Array α) (q b : Array α) (vars rhs : Vars α)
    (affine : Bool) (x1 z1 x2 z2 : Array α) : MErr (Vars α × Array α × Array α) :=
  let dsConst := if affine then vars.s else dsFromDzOffset mask rhs.s vars.z
  solveAssemble (quadForm P) (mulHs mask w) q b vars rhs dsConst x1 z1 x2 z2

end

end KktSystem
end Clarabel
