/-
  Model of `src/algebra/csc/utils.rs`: the low-level utilities that count and fill entries
  of a block-partitioned sparse matrix (used only by the KKT assembly).

  While a matrix is being assembled its `colptr` array is (ab)used as a vector of
  per-column *counters*: first "number of entries of the column" (`colcount_*`), then — after
  `colcount_to_colptr` — "next free slot of the column" (`fill_*`), and finally
  `backshift_colptrs` turns it into a real `colptr`.

  Every `fill_*` function of the Rust code is a loop whose body is the same four lines

      dest = colptr[col]; rowval[dest] = row; nzval[dest] = v; colptr[col] += 1; map[k] = dest

  which is `place` below; the loops differ only in the *schedule* `(col,row,v,k)` they run
  through.  The model makes that explicit: each `fill_*` is `placeAll` over its schedule.
  Index panics of the Rust code are `throw (.panic …)`.
-/
import ClarabelModel.Csc

namespace Clarabel

/-- `MatrixTriangle` -/
inductive MatrixTriangle where
  | triu | tril
  deriving Repr, BEq, DecidableEq, Inhabited

/-- `MatrixShape` -/
inductive MatrixShape where
  | N | T
  deriving Repr, BEq, DecidableEq, Inhabited

namespace Csc
variable {α : Type}

/-- `xs[i] += c` with Rust's index panic -/
def addAt (xs : Array Nat) (i c : Nat) (site : String := "colptr index") : MErr (Array Nat) := do
  let v ← getE xs i site
  setE xs i (v + c) site

/-- `xs[lo .. lo+len]` exists (Rust slice-range check, performed before any write) -/
def checkRange (xs : Array Nat) (lo len : Nat) (site : String) : MErr Unit :=
  if lo + len ≤ xs.size then pure () else throw (.panic site)

-- ------------------------------------------------------------------ colcount_*

/-- `colcount_dense_triangle`: column `initcol+k` gets `k+1` (triu) / `blockcols-k` (tril) -/
def colcountDenseTriangle (K : Csc α) (initcol blockcols : Nat) (shape : MatrixTriangle) :
    MErr (Csc α) := do
  checkRange K.colptr initcol blockcols "colcount_dense_triangle: range"
  let colptr ← (List.range blockcols).foldlM (fun (cp : Array Nat) k =>
    addAt cp (initcol + k) (match shape with
      | .triu => k + 1
      | .tril => blockcols - k)) K.colptr
  pure { K with colptr }

/-- `colcount_diag` -/
def colcountDiag (K : Csc α) (initcol blockcols : Nat) : MErr (Csc α) := do
  checkRange K.colptr initcol blockcols "colcount_diag: range"
  let colptr ← (List.range blockcols).foldlM (fun (cp : Array Nat) k => addAt cp (initcol + k) 1) K.colptr
  pure { K with colptr }

/-- the test shared by `colcount_missing_diag` / `fill_missing_diag` /
`count_diagonal_entries(Triu)`: column `i` of the (triu) matrix `M` is empty or its last
entry is not on the diagonal. -/
def missingDiagAt (M : Csc α) (i : Nat) : MErr Bool := do
  let lo ← getE M.colptr i "missing_diag: colptr"
  let hi ← getE M.colptr (i + 1) "missing_diag: colptr"
  if lo == hi then pure true
  else if hi == 0 then throw (.panic "missing_diag: colptr[i+1]-1 underflows")
  else
    let r ← getE M.rowval (hi - 1) "missing_diag: rowval"
    pure (r != i)

/-- `colcount_missing_diag` -/
def colcountMissingDiag (K : Csc α) (M : Csc α) (initcol : Nat) : MErr (Csc α) := do
  if M.colptr.size != M.n + 1 then throw (.panic "colcount_missing_diag: assert_eq colptr.len")
  if K.colptr.size < M.n + initcol then throw (.panic "colcount_missing_diag: assert colptr.len")
  let colptr ← (List.range M.n).foldlM (fun (cp : Array Nat) i => do
    if (← missingDiagAt M i) then addAt cp (i + initcol) 1 else pure cp) K.colptr
  pure { K with colptr }

/-- `colcount_colvec` -/
def colcountColvec (K : Csc α) (n _firstrow firstcol : Nat) : MErr (Csc α) := do
  let colptr ← addAt K.colptr firstcol n
  pure { K with colptr }

/-- `colcount_rowvec` -/
def colcountRowvec (K : Csc α) (n _firstrow firstcol : Nat) : MErr (Csc α) := do
  checkRange K.colptr firstcol n "colcount_rowvec: range"
  let colptr ← (List.range n).foldlM (fun (cp : Array Nat) k => addAt cp (firstcol + k) 1) K.colptr
  pure { K with colptr }

/-- `colcount_block` -/
def colcountBlock (K : Csc α) (M : Csc α) (initcol : Nat) (shape : MatrixShape) : MErr (Csc α) := do
  let colptr ← match shape with
    | .T => M.rowval.toList.foldlM (fun (cp : Array Nat) row => addAt cp (initcol + row) 1) K.colptr
    | .N => (List.range M.n).foldlM (fun (cp : Array Nat) i => do
        let lo ← getE M.colptr i "colcount_block: M.colptr"
        let hi ← getE M.colptr (i + 1) "colcount_block: M.colptr"
        if hi < lo then throw (.panic "colcount_block: subtraction underflows")
        addAt cp (initcol + i) (hi - lo)) K.colptr
  pure { K with colptr }

-- ------------------------------------------------------------------ the fill step

/-- One scheduled write: value `v` goes to `(row, readCol)`; the counter of `incCol` is
advanced (`incCol = readCol` everywhere except in `fill_missing_diag`, see there); the
destination is recorded at position `k` of the index map (`none`: not recorded). -/
structure Entry (α : Type) where
  readCol : Nat
  incCol : Nat
  row : Nat
  val : α
  k : Option Nat
  deriving Repr, Inhabited

def Entry.mk' (col row : Nat) (v : α) (k : Nat) : Entry α := ⟨col, col, row, v, some k⟩

/-- `dest = colptr[col]; rowval[dest] = row; nzval[dest] = v; colptr[col] += 1; map[k] = dest` -/
def place (st : Csc α × Array Nat) (e : Entry α) : MErr (Csc α × Array Nat) := do
  let K := st.1
  let dest ← getE K.colptr e.readCol "fill: colptr"
  let rowval ← setE K.rowval dest e.row "fill: rowval"
  let nzval ← setE K.nzval dest e.val "fill: nzval"
  let colptr ← addAt K.colptr e.incCol 1 "fill: colptr"
  let map ← match e.k with
    | some k => setE st.2 k dest "fill: index map"
    | none => pure st.2
  pure ({ K with colptr, rowval, nzval }, map)

/-- run a whole schedule -/
def placeAll (K : Csc α) (map : Array Nat) (sched : List (Entry α)) : MErr (Csc α × Array Nat) :=
  sched.foldlM place (K, map)

-- ------------------------------------------------------------------ schedules

variable [OfNat α 0]

/-- `fill_colvec`: a partial column of zeros -/
def colvecSchedule (len initrow initcol : Nat) : List (Entry α) :=
  (List.range len).map (fun i => Entry.mk' initcol (initrow + i) 0 i)

/-- `fill_rowvec`: a partial row of zeros -/
def rowvecSchedule (len initrow initcol : Nat) : List (Entry α) :=
  (List.range len).map (fun i => Entry.mk' (initcol + i) initrow 0 i)

/-- `fill_block`: the entries of `M`, column by column, in storage order -/
def blockSchedule (M : Csc α) (initrow initcol : Nat) (shape : MatrixShape) : MErr (List (Entry α)) := do
  let cols ← (List.range M.n).mapM (fun i => do
    let start ← getE M.colptr i "fill_block: M.colptr"
    let stop ← getE M.colptr (i + 1) "fill_block: M.colptr"
    (List.range' start (stop - start)).mapM (fun j => do
      let r ← getE M.rowval j "fill_block: M.rowval"
      let v ← getE M.nzval j "fill_block: M.nzval"
      pure (match shape with
        | .T => Entry.mk' (r + initcol) (i + initrow) v j
        | .N => Entry.mk' (i + initcol) (r + initrow) v j)))
  pure cols.flatten

/-- `_fill_dense_triangle_triu`: column by column, rows `offset..=col` -/
def denseTriuSchedule (offset blockdim : Nat) : List (Entry α) :=
  let cells := (List.range blockdim).flatMap (fun c => (List.range (c + 1)).map (fun r => (offset + c, offset + r)))
  cells.zipIdx.map (fun p => Entry.mk' p.1.1 p.1.2 0 p.2)

/-- `_fill_dense_triangle_tril`: row by row, columns `offset..=row` (the block is supplied
as packed triu data, so this is the transposed enumeration) -/
def denseTrilSchedule (offset blockdim : Nat) : List (Entry α) :=
  let cells := (List.range blockdim).flatMap (fun r => (List.range (r + 1)).map (fun c => (offset + c, offset + r)))
  cells.zipIdx.map (fun p => Entry.mk' p.1.1 p.1.2 0 p.2)

/-- `fill_diag` -/
def diagSchedule (offset blockdim : Nat) : List (Entry α) :=
  (List.range blockdim).map (fun i => Entry.mk' (offset + i) (offset + i) 0 i)

/-- `fill_missing_diag`.  NB the Rust code reads `colptr[i + initcol]` but increments
`colptr[i]`; the two coincide for `initcol = 0`, the only value it is called with. -/
def missingDiagSchedule (M : Csc α) (initcol : Nat) : MErr (List (Entry α)) := do
  let es ← (List.range M.n).mapM (fun i => do
    if (← missingDiagAt M i) then
      pure [({ readCol := i + initcol, incCol := i, row := i + initcol, val := 0, k := none } : Entry α)]
    else pure [])
  pure es.flatten

-- ------------------------------------------------------------------ fill_*

def fillColvec (K : Csc α) (vtoKKT : Array Nat) (initrow initcol : Nat) : MErr (Csc α × Array Nat) :=
  placeAll K vtoKKT (colvecSchedule vtoKKT.size initrow initcol)

def fillRowvec (K : Csc α) (vtoKKT : Array Nat) (initrow initcol : Nat) : MErr (Csc α × Array Nat) :=
  placeAll K vtoKKT (rowvecSchedule vtoKKT.size initrow initcol)

/-- `fill_block`.  (The Rust loop interleaves reads of `M` and writes to `K`; since `M`
and `K` are distinct objects, reading the whole schedule first is equivalent up to *which*
panic fires.) -/
def fillBlock (K : Csc α) (M : Csc α) (MtoKKT : Array Nat) (initrow initcol : Nat) (shape : MatrixShape) :
    MErr (Csc α × Array Nat) := do
  placeAll K MtoKKT (← blockSchedule M initrow initcol shape)

def fillDenseTriangle (K : Csc α) (blocktoKKT : Array Nat) (offset blockdim : Nat) (shape : MatrixTriangle) :
    MErr (Csc α × Array Nat) :=
  placeAll K blocktoKKT (match shape with
    | .triu => denseTriuSchedule offset blockdim
    | .tril => denseTrilSchedule offset blockdim)

def fillDiag (K : Csc α) (diagtoKKT : Array Nat) (offset blockdim : Nat) : MErr (Csc α × Array Nat) :=
  placeAll K diagtoKKT (diagSchedule offset blockdim)

def fillMissingDiag (K : Csc α) (M : Csc α) (initcol : Nat) : MErr (Csc α) := do
  let r ← placeAll K #[] (← missingDiagSchedule M initcol)
  pure r.1

-- ------------------------------------------------------------------ colptr conversions

/-- exclusive prefix sums -/
def exclusiveCumsum (xs : List Nat) : List Nat :=
  (xs.foldl (fun (st : Nat × List Nat) c => (st.1 + c, st.1 :: st.2)) (0, [])).2.reverse

/-- `colcount_to_colptr` -/
def colcountToColptr (K : Csc α) : Csc α :=
  { K with colptr := (exclusiveCumsum K.colptr.toList).toArray }

/-- `colptr_to_colcount` -/
def colptrToColcount (K : Csc α) : MErr (Csc α) := do
  let colptr ← (List.range K.n).foldlM (fun (cp : Array Nat) i => do
    let lo ← getE cp i "colptr_to_colcount"
    let hi ← getE cp (i + 1) "colptr_to_colcount"
    if hi < lo then throw (.panic "colptr_to_colcount: subtraction underflows")
    setE cp i (hi - lo)) K.colptr
  let colptr ← setE colptr K.n 0 "colptr_to_colcount"
  pure { K with colptr }

/-- `backshift_colptrs`: `rotate_right(1); colptr[0] = 0` -/
def backshiftColptrs (K : Csc α) : MErr (Csc α) :=
  match K.colptr.toList with
  | [] => throw (.panic "backshift_colptrs: empty colptr")
  | l => pure { K with colptr := (0 :: l.dropLast).toArray }

/-- `count_diagonal_entries` -/
def countDiagonalEntries (M : Csc α) (shape : MatrixTriangle) : MErr Nat :=
  (List.range M.n).foldlM (fun (count : Nat) i => do
    let hi ← getE M.colptr (i + 1) "count_diagonal_entries: colptr"
    let lo ← getE M.colptr i "count_diagonal_entries: colptr"
    if hi == lo then pure count
    else match shape with
      | .triu =>
        if hi == 0 then throw (.panic "count_diagonal_entries: underflow")
        let r ← getE M.rowval (hi - 1) "count_diagonal_entries: rowval"
        pure (if r == i then count + 1 else count)
      | .tril =>
        let r ← getE M.rowval lo "count_diagonal_entries: rowval"
        pure (if r == i then count + 1 else count)) 0

end Csc
end Clarabel
