/-
  Model of the step machinery of the interior point loop:

  * `src/solver/implementations/default/variables.rs`
      `calc_mu`, `affine_step_rhs`, `combined_step_rhs`, `calc_step_length`, `add_step`,
      `symmetric_initialization` / `_shift_to_cone_interior`
  * `src/solver/core/solver.rs`            `centering_parameter`, the Mehrotra damping `m`
  * `src/solver/core/cones/{zerocone,nonnegativecone,compositecone,symmetric_common}.rs`
      the cone callbacks those functions use, for products of zero and nonnegative cones
  * the read/write skeleton of `solve()` (used by C05.solve_is_function_of_data)

  Polymorphic over the scalar; same floating-point operation order as the Rust code.
  Imports only model files.
-/
import ClarabelModel.Vec

namespace Clarabel
namespace Step

variable {α : Type}

/-- `DefaultVariables` -/
structure Vars (α : Type) where
  x : Array α
  s : Array α
  z : Array α
  τ : α
  κ : α
  deriving Inhabited

/-- the two cone kinds this model covers (`ZeroConeT(n)`, `NonnegativeConeT(n)`) -/
inductive ConeK where
  | zero (dim : Nat)
  | nn (dim : Nat)
  deriving Repr, BEq, DecidableEq, Inhabited

def ConeK.dim : ConeK → Nat
  | .zero d => d
  | .nn d => d

/-- `Cone::degree` (zero cones have degree 0) -/
def ConeK.degree : ConeK → Nat
  | .zero _ => 0
  | .nn d => d

def numel (cones : List ConeK) : Nat := cones.foldl (fun a c => a + c.dim) 0
def degree (cones : List ConeK) : Nat := cones.foldl (fun a c => a + c.degree) 0

/-- per-row flag "row belongs to a nonnegative cone" (rows in `rng_cones` order) -/
def nnMask (cones : List ConeK) : List Bool :=
  cones.flatMap (fun c => match c with
    | .zero d => List.replicate d false
    | .nn d => List.replicate d true)

/-- the rows of `v` cut into the cone ranges `rng_cones` -/
def slices (cones : List ConeK) (v : List α) : List (ConeK × List α) :=
  match cones with
  | [] => []
  | c :: cs => (c, v.take c.dim) :: slices cs (v.drop c.dim)

section scalar
variable [Add α] [Sub α] [Mul α] [Div α] [Neg α] [OfNat α 0] [OfNat α 1]

/-- `calc_mu`: `(dot_sz + τ κ) / (degree + 1)` -/
def calcMu [FloatLike α] (dotSz τ κ : α) (deg : Nat) : α :=
  (dotSz + τ * κ) / FloatLike.ofNat (deg + 1)

/-- `centering_parameter`: `powi(1 - α, 3)`; `powi` multiplies `a·(a·a)` (compiler-rt
`__powidf2`; bitwise the same as `(a·a)·a`). -/
def centeringParameter (a : α) : α :=
  let t := (1 : α) - a
  t * (t * t)

/-- first-iteration Mehrotra damping: `m = if iter > 1 {1} else {α}` -/
def mehrotraM (iter : Nat) (a : α) : α := if iter > 1 then 1 else a

/-- `add_step` on a scalar: `τ += α * step.τ` -/
def addScalar (v a d : α) : α := v + a * d

end scalar

/-! ### nonnegative / zero cone callbacks (row-wise, selected by the mask) -/

section cones
variable [Add α] [Sub α] [Mul α] [Div α] [Neg α] [OfNat α 0] [OfNat α 1]
  [LT α] [DecidableLT α] [FloatLike α]

/-- `NonnegativeCone::update_scaling`: `λ = sqrt(s z)`, `w = sqrt(s / z)`; the zero cone
keeps nothing (rows rendered as 0). -/
def updateScaling (mask : List Bool) (s z : Array α) : Array α × Array α :=
  let rows := mask.zip (s.toList.zip z.toList)
  ((rows.map fun (nn, si, zi) => if nn then sqrt (si * zi) else 0).toArray,
   (rows.map fun (nn, si, zi) => if nn then sqrt (si / zi) else 0).toArray)

/-- `affine_ds`: `λ ∘ λ` on nonnegative rows, `0` on zero-cone rows -/
def affineDs (mask : List Bool) (lam : Array α) : Array α :=
  ((mask.zip lam.toList).map fun (nn, l) => if nn then l * l else 0).toArray

/-- `mul_Hs`: `w (w x)` on nonnegative rows, `0` on zero-cone rows -/
def mulHs (mask : List Bool) (w x : Array α) : Array α :=
  ((mask.zip (w.toList.zip x.toList)).map fun (nn, wi, xi) => if nn then wi * (wi * xi) else 0).toArray

/-- `Δs_from_Δz_offset`: `ds / z` on nonnegative rows, `0` on zero-cone rows -/
def dsFromDzOffset (mask : List Bool) (ds z : Array α) : Array α :=
  ((mask.zip (ds.toList.zip z.toList)).map fun (nn, d, zi) => if nn then d / zi else 0).toArray

/-- `combined_ds_shift` (via `_combined_ds_shift_symmetric`): returns
`(shift, step_z', step_s')` with `step_z' = W Δz`, `step_s' = W⁻¹ Δs` (computed by `mul_W`,
`mul_Winv` as `1·(x·w) + 0·y`) and `shift = step_s' ∘ step_z' − σμ`; zero-cone rows give
shift `0` and leave the steps alone. -/
def combinedDsShift (mask : List Bool) (w stepz steps : Array α) (σμ : α) :
    Array α × Array α × Array α :=
  let rows := mask.zip (w.toList.zip (stepz.toList.zip steps.toList))
  let z' := rows.map fun (nn, wi, dz, _) => if nn then (1 : α) * (dz * wi) + (0 : α) * dz else dz
  let s' := rows.map fun (nn, wi, _, ds) => if nn then (1 : α) * (ds / wi) + (0 : α) * ds else ds
  let sh := (mask.zip (s'.zip z')).map fun (nn, a, b) => if nn then a * b + (-σμ) else 0
  (sh.toArray, z'.toArray, s'.toArray)

/-- `NonnegativeCone::step_length` applied to the nonnegative rows in order (the running
minimum is threaded through the cones by `CompositeCone::step_length`; zero cones return
`αmax` unchanged).  Returns the common value `α` of `(αz, αs)` after
`α = min(α, min(αz, αs))` per cone. -/
def stepLengthCones (cones : List ConeK) (dz ds z s : List α) (αmax : α) : α :=
  match cones with
  | [] => αmax
  | c :: cs =>
    let d := c.dim
    let a := match c with
      | .zero _ => fmin αmax (fmin αmax αmax)
      | .nn _ =>
        let rows := (dz.take d).zip ((ds.take d).zip ((z.take d).zip (s.take d)))
        let az := rows.foldl (fun acc (dzi, _, zi, _) => if dzi < 0 then fmin acc (-zi / dzi) else acc) αmax
        let as := rows.foldl (fun acc (_, dsi, _, si) => if dsi < 0 then fmin acc (-si / dsi) else acc) αmax
        fmin αmax (fmin az as)
    stepLengthCones cs (dz.drop d) (ds.drop d) (z.drop d) (s.drop d) a

/-- `calc_step_length` (symmetric cones only): `T::max_value()` is passed in as `big`. -/
def calcStepLength (cones : List ConeK) (vars step : Vars α) (big maxStepFraction : α)
    (combined : Bool) : α :=
  let ατ := if step.τ < 0 then -vars.τ / step.τ else big
  let ακ := if step.κ < 0 then -vars.κ / step.κ else big
  -- `[ατ, ακ, 1].minimum()` = fold(min) from +∞: min(min(min(∞,ατ),ακ),1)
  let a0 := fmin (fmin ατ ακ) 1
  let a := stepLengthCones cones step.z.toList step.s.toList vars.z.toList vars.s.toList a0
  let a := fmin a a
  if combined then a * maxStepFraction else a

/-- `margins` of one cone: nn: `(minimum, Σ max(zᵢ,0))`; zero: `(max_value, 0)`.
`none` stands for `+∞` (minimum of an empty slice). -/
def marginsCone (big : α) (c : ConeK) (v : List α) : Option α × α :=
  match c with
  | .zero _ => (some big, 0)
  | .nn _ => (Vec.minimum? v.toArray, v.foldl (fun β zi => β + fmax zi 0) 0)

/-- `CompositeCone::margins`: `α = min(α, αᵢ)` from `max_value`, `β += βᵢ` from 0 -/
def margins (big : α) (cones : List ConeK) (v : List α) : α × α :=
  (slices cones v).foldl (fun (a, b) (c, vi) =>
    let (ai, bi) := marginsCone big c vi
    ((match ai with | some ai => fmin a ai | none => a), b + bi)) (big, 0)

/-- `scaled_unit_shift`: nn: translate; zero: primal → fill 0, dual → unchanged -/
def scaledUnitShift (mask : List Bool) (v : Array α) (a : α) (primal : Bool) : Array α :=
  ((mask.zip v.toList).map fun (nn, vi) => if nn then vi + a else if primal then 0 else vi).toArray

/-- `_shift_to_cone_interior` -/
def shiftToConeInterior (big tenth : α) (cones : List ConeK) (v : Array α) (primal : Bool) : Array α :=
  let mask := nnMask cones
  let (minMargin, posMargin) := margins big cones v.toList
  let target := fmax 1 ((posMargin * tenth) / FloatLike.ofNat (degree cones))
  if minMargin < 0 ∨ ¬ (0 < minMargin) ∧ ¬ (minMargin < 0) ∧ ¬ FloatLike.isNaN minMargin then
    -- `min_margin <= 0`
    scaledUnitShift mask (scaledUnitShift mask v (-minMargin) primal) target primal
  else if minMargin < target then
    scaledUnitShift mask v (target - minMargin) primal
  else
    scaledUnitShift mask v 0 primal

/-- `symmetric_initialization` -/
def symmetricInitialization (big tenth : α) (cones : List ConeK) (v : Vars α) : Vars α :=
  { v with s := shiftToConeInterior big tenth cones v.s true,
           z := shiftToConeInterior big tenth cones v.z false,
           τ := 1, κ := 1 }

end cones

/-! ### right-hand sides and the step update -/

section rhs
variable [Add α] [Sub α] [Mul α] [Div α] [Neg α] [OfNat α 0] [OfNat α 1]
  [LT α] [DecidableLT α] [FloatLike α]

/-- `affine_step_rhs`: `(rx, rz, affine_ds, rτ, τ κ)` -/
def affineStepRhs (mask : List Bool) (rx rz : Array α) (rτ : α) (lam : Array α) (vars : Vars α) :
    Vars α :=
  { x := rx, z := rz, s := affineDs mask lam, τ := rτ, κ := vars.τ * vars.κ }

/-- `combined_step_rhs`.  `self` is the rhs left by `affine_step_rhs` (only its `s` is read),
`step` the affine step.  Returns the new rhs and the (overwritten) step. -/
def combinedStepRhs (mask : List Bool) (w : Array α) (self : Vars α) (rx rz : Array α) (rτ : α)
    (vars step : Vars α) (σ μ m : α) : Vars α × Vars α :=
  let dotσμ := σ * μ
  let one_m_σ := (1 : α) - σ
  let x' := Vec.axpby one_m_σ rx 0 self.x
  let τ' := one_m_σ * rτ
  let κ' := -dotσμ + m * step.τ * step.κ + vars.τ * vars.κ
  -- `if m != 1 { step.z.scale(m) }`
  let stepz := if m < 1 ∨ 1 < m ∨ FloatLike.isNaN m then Vec.scale step.z m else step.z
  let (shift, stepz', steps') := combinedDsShift mask w stepz step.s dotσμ
  -- self.s = 1·shift + 1·self.s
  let s' := Vec.axpby 1 shift 1 self.s
  -- self.z = (1-σ)·rz + 0·shift
  let z' := Vec.axpby one_m_σ rz 0 shift
  ({ x := x', s := s', z := z', τ := τ', κ := κ' },
   { step with z := stepz', s := steps' })

/-- `add_step` -/
def addStep (v step : Vars α) (a : α) : Vars α :=
  { x := Vec.axpby a step.x 1 v.x,
    s := Vec.axpby a step.s 1 v.s,
    z := Vec.axpby a step.z 1 v.z,
    τ := addScalar v.τ a step.τ,
    κ := addScalar v.κ a step.κ }

end rhs

/-! ### read/write skeleton of `solve()` (for `C05.solve_is_function_of_data`)

State components of the solver object.  `data`, `settings`, `kktStructure` (sparsity
pattern, maps, permutation, symbolic factorisation, cone types/dimensions and the cached
`normq/normb`, which are functions of the data) are construction-time; everything else is
mutable solve state.  A step of `solve()` is described by the components it reads, the
components it reads only when `iter > 1` (the `prev_*` scalars and `prev_vars`, guarded by
`iter > 1` in `check_termination` and reachable in the insufficient-progress checkpoint
only through that guard), the components it (over)writes, and whether it increments `iter`. -/
inductive Comp where
  | data | settings | kktStructure          -- construction time
  | vars | residuals | stepLhs | stepRhs | prevVars
  | conesScaling | kktValues | ldlWork | kktX2Z2 | kktX1Z1 | kktWork
  | infoScalars | infoPrev | infoStatus | iterCount | alphaSigma | mu | scalingStrategy
  | solution
  deriving Repr, BEq, DecidableEq, Inhabited

def Comp.isConstruction : Comp → Bool
  | .data | .settings | .kktStructure => true
  | _ => false

open Comp in
def Comp.all : List Comp :=
  [data, settings, kktStructure, vars, residuals, stepLhs, stepRhs, prevVars, conesScaling,
   kktValues, ldlWork, kktX2Z2, kktX1Z1, kktWork, infoScalars, infoPrev, infoStatus,
   iterCount, alphaSigma, mu, scalingStrategy, solution]

structure RW where
  name : String
  reads : List Comp
  readsIfIterGt1 : List Comp := []
  writes : List Comp
  incIter : Bool := false
  deriving Repr, Inhabited

open Comp in
/-- `solve()` before the loop, symmetric cones (`default_start` factorises and solves) -/
def prologueSym : List RW := [
  { name := "locals iter=0 σ=1 α=0", reads := [], writes := [iterCount, alphaSigma] },
  { name := "info.reset", reads := [], writes := [infoStatus] },
  { name := "default_start: set_identity_scaling", reads := [], writes := [conesScaling] },
  { name := "default_start: kktsystem.update (refactor, constant-rhs solve)",
    reads := [data, settings, kktStructure, conesScaling],
    writes := [kktValues, ldlWork, kktWork, kktX2Z2] },
  { name := "default_start: solve_initial_point",
    reads := [data, settings, kktStructure, kktValues, ldlWork], writes := [kktWork, vars] },
  { name := "default_start: symmetric_initialization", reads := [vars, kktStructure], writes := [vars] },
  { name := "initial scaling strategy", reads := [kktStructure], writes := [scalingStrategy] } ]

open Comp in
/-- `solve()` before the loop, a nonsymmetric cone present (`unit_initialization`) -/
def prologueNonsym : List RW := [
  { name := "locals iter=0 σ=1 α=0", reads := [], writes := [iterCount, alphaSigma] },
  { name := "info.reset", reads := [], writes := [infoStatus] },
  { name := "default_start: unit_initialization", reads := [kktStructure], writes := [vars] },
  { name := "initial scaling strategy", reads := [kktStructure], writes := [scalingStrategy] } ]

open Comp in
/-- the steps of one pass of the main loop, in program order -/
def solvePass : List RW := [
  /- 0 -/ { name := "residuals.update", reads := [vars, data], writes := [residuals] },
  /- 1 -/ { name := "calc_mu", reads := [residuals, vars, kktStructure], writes := [mu] },
  /- 2 -/ { name := "info.save_scalars", reads := [mu, alphaSigma, iterCount], writes := [infoScalars] },
  /- 3 -/ { name := "info.update (+ print_status)", reads := [data, vars, residuals, infoScalars],
            writes := [infoScalars] },
  /- 4 -/ { name := "info.check_termination",
            reads := [infoScalars, residuals, settings, iterCount], readsIfIterGt1 := [infoPrev],
            writes := [infoStatus] },
  /- 5 -/ { name := "strategy_checkpoint_insufficient_progress",
            reads := [infoStatus, scalingStrategy, settings, kktStructure],
            readsIfIterGt1 := [prevVars, infoPrev],
            writes := [vars, infoScalars, infoStatus, scalingStrategy] },
  /- 6 -/ { name := "scale_cones (+ checkpoint)", reads := [vars, mu, scalingStrategy],
            writes := [conesScaling, infoStatus] },
  /- 7 -/ { name := "iter += 1", reads := [iterCount], writes := [iterCount], incIter := true },
  /- 8 -/ { name := "kktsystem.update", reads := [data, settings, kktStructure, conesScaling],
            writes := [kktValues, ldlWork, kktWork, kktX2Z2] },
  /- 9 -/ { name := "affine_step_rhs", reads := [residuals, vars, conesScaling], writes := [stepRhs] },
  /- 10 -/ { name := "kktsystem.solve affine",
             reads := [stepRhs, data, vars, conesScaling, settings, kktStructure, kktValues, ldlWork, kktX2Z2],
             writes := [kktWork, kktX1Z1, stepLhs] },
  /- 11 -/ { name := "get_step_length affine + centering_parameter",
             reads := [vars, stepLhs, conesScaling, settings], writes := [alphaSigma] },
  /- 12 -/ { name := "combined_step_rhs",
             reads := [residuals, vars, conesScaling, stepLhs, stepRhs, alphaSigma, mu, iterCount],
             writes := [stepRhs, stepLhs, conesScaling] },
  /- 13 -/ { name := "kktsystem.solve combined",
             reads := [stepRhs, stepLhs, data, vars, conesScaling, settings, kktStructure, kktValues,
                       ldlWork, kktX2Z2],
             writes := [kktWork, kktX1Z1, stepLhs] },
  /- 14 -/ { name := "strategy_checkpoint_numerical_error",
             reads := [scalingStrategy, kktStructure], writes := [alphaSigma, scalingStrategy, infoStatus] },
  /- 15 -/ { name := "get_step_length combined (+ backtrack)",
             reads := [vars, stepLhs, conesScaling, settings, scalingStrategy, mu, kktStructure],
             writes := [alphaSigma] },
  /- 16 -/ { name := "strategy_checkpoint_small_step",
             reads := [alphaSigma, scalingStrategy, settings, kktStructure],
             writes := [alphaSigma, scalingStrategy, infoStatus] },
  /- 17 -/ { name := "info.save_prev_iterate", reads := [vars, infoScalars], writes := [prevVars, infoPrev] },
  /- 18 -/ { name := "variables.add_step", reads := [vars, stepLhs, alphaSigma], writes := [vars] } ]

open Comp in
/-- `solve()` after the loop -/
def solveEpilogue : List RW := [
  { name := "final save_scalars (if α = 0)", reads := [mu, alphaSigma, iterCount], writes := [infoScalars] },
  { name := "info.post_process", reads := [infoStatus, infoScalars, residuals, settings], writes := [infoStatus] },
  { name := "solution.post_process", reads := [data, vars, infoStatus, infoScalars, settings],
    writes := [vars, solution] },
  { name := "solution.finalize", reads := [infoScalars, infoStatus], writes := [solution] } ]

/-- the steps `idx` of a pass -/
def passSteps (idx : List Nat) : List RW := idx.filterMap (fun i => solvePass[i]?)

/-- position of a component in `Comp.all` (bit index of the written-set) -/
def Comp.idx (c : Comp) : Nat := Comp.all.idxOf c

/-- bit mask of a list of components -/
def maskOf (cs : List Comp) : Nat := cs.foldl (fun m c => m ||| (1 <<< c.idx)) 0

/-- Abstract solver state: the set of components written so far in this `solve()` (a bit
mask over `Comp.all`), `iter` capped at 2 (only `iter > 1` is ever tested), and whether the
single possible strategy switch has been used. -/
structure St where
  written : Nat
  iter : Nat
  contUsed : Bool
  deriving Repr, DecidableEq, Inhabited

def St.init : St := { written := 0, iter := 0, contUsed := false }

def St.has (s : St) (c : Comp) : Bool := s.written.testBit c.idx

/-- execute one step; `none` = it reads a component that is neither construction-time data
nor written earlier in this `solve()` -/
def stepRW (st : RW) (s : St) : Option St :=
  let need := st.reads ++ (if s.iter ≥ 2 then st.readsIfIterGt1 else [])
  if need.all (fun c => c.isConstruction || s.has c) then
    some { s with written := s.written ||| maskOf st.writes,
                  iter := if st.incIter then min 2 (s.iter + 1) else s.iter }
  else none

def runRW : List RW → St → Option St
  | [], s => some s
  | st :: rest, s => (stepRW st s).bind (runRW rest)

/-- The ways one pass of the loop can run and come back to the top (`continue` happens only
on a strategy switch `PrimalDual → Dual`, possible once per solve). -/
inductive Move where
  | full
  | contInsufficient       -- isdone, InsufficientProgress, strategy switch
  | contNumericalUpdate    -- kktsystem.update failed
  | contNumericalAffine    -- affine solve failed
  | contNumericalCombined  -- combined solve failed
  | contSmallStep
  deriving Repr, DecidableEq, Inhabited

def Move.isCont : Move → Bool
  | .full => false
  | _ => true

def Move.all : List Move :=
  [.full, .contInsufficient, .contNumericalUpdate, .contNumericalAffine, .contNumericalCombined,
   .contSmallStep]

def Move.steps : Move → List RW
  | .full => solvePass
  | .contInsufficient => passSteps [0, 1, 2, 3, 4, 5]
  | .contNumericalUpdate => passSteps [0, 1, 2, 3, 4, 5, 6, 7, 8, 9, 14]
  | .contNumericalAffine => passSteps [0, 1, 2, 3, 4, 5, 6, 7, 8, 9, 10, 14]
  | .contNumericalCombined => passSteps [0, 1, 2, 3, 4, 5, 6, 7, 8, 9, 10, 11, 12, 13, 14]
  | .contSmallStep => passSteps [0, 1, 2, 3, 4, 5, 6, 7, 8, 9, 10, 11, 12, 13, 14, 15, 16]

/-- the last pass (ends in `break`) -/
inductive Exit where
  | atTermination | atScaling | atNumericalUpdate | atNumericalAffine | atNumericalCombined
  | atSmallStep
  deriving Repr, DecidableEq, Inhabited

def Exit.all : List Exit :=
  [.atTermination, .atScaling, .atNumericalUpdate, .atNumericalAffine, .atNumericalCombined,
   .atSmallStep]

def Exit.steps : Exit → List RW
  | .atTermination => passSteps [0, 1, 2, 3, 4, 5]
  | .atScaling => passSteps [0, 1, 2, 3, 4, 5, 6]
  | .atNumericalUpdate => passSteps [0, 1, 2, 3, 4, 5, 6, 7, 8, 9, 14]
  | .atNumericalAffine => passSteps [0, 1, 2, 3, 4, 5, 6, 7, 8, 9, 10, 14]
  | .atNumericalCombined => passSteps [0, 1, 2, 3, 4, 5, 6, 7, 8, 9, 10, 11, 12, 13, 14]
  | .atSmallStep => passSteps [0, 1, 2, 3, 4, 5, 6, 7, 8, 9, 10, 11, 12, 13, 14, 15, 16]

/-- one pass that returns to the top of the loop; a second strategy switch is impossible -/
def runMove (mv : Move) (s : St) : Option St :=
  if mv.isCont && s.contUsed then none
  else (runRW mv.steps s).map (fun s' => if mv.isCont then { s' with contUsed := true } else s')

def runMoves : List Move → St → Option St
  | [], s => some s
  | mv :: rest, s => (runMove mv s).bind (runMoves rest)

/-- a whole `solve()`: prologue, any number of passes, the breaking pass, epilogue -/
def runSolve (sym : Bool) (moves : List Move) (ex : Exit) : Option St :=
  (runRW (if sym then prologueSym else prologueNonsym) St.init).bind fun s0 =>
  (runMoves moves s0).bind fun s1 =>
  (runRW ex.steps s1).bind (runRW solveEpilogue)

end Step
end Clarabel
