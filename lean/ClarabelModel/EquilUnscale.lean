/-
  The change of variables between a user point `(x, s, z)` and its internal (equilibrated,
  homogeneous) representative, with the scalings `equilibrate` leaves in
  `DefaultEquilibrationData`, and the way back through `DefaultVariables::unscale`
  (`ClarabelModel/Unscale.lean`).  Operation order as in the harness channel
  `equil.unscale_roundtrip`: `hadamard` first, `scale` second (the order `unscale` itself uses).
-/
import ClarabelModel.Equil
import ClarabelModel.Unscale

namespace Clarabel
namespace Equil
open Residuals

variable {α : Type}

/-- the equilibration record in the shape `unscale` reads -/
def infoEquil (eq : EquilData α) : Info.Equil α :=
  { d := eq.d, dinv := eq.dinv, e := eq.e, einv := eq.einv, c := eq.c }

/-- the internal representative of a user point:
`x̂ = (x∘dinv)·τ`, `ŝ = (s∘e)·τ`, `ẑ = (z∘einv)·(τ·c)` -/
def scaleVars [Mul α] (eq : EquilData α) (x s z : Array α) (τ κ : α) : Vars α :=
  { x := Vec.scale (Unscale.hadamardInPlace x eq.dinv) τ
    s := Vec.scale (Unscale.hadamardInPlace s eq.e) τ
    z := Vec.scale (Unscale.hadamardInPlace z eq.einv) (τ * eq.c)
    τ := τ, κ := κ }

/-- scale a user point and un-scale it again (`is_infeasible = false`: normalised by `τ`) -/
def unscaleRoundtrip [Mul α] [Div α] [OfNat α 1] (eq : EquilData α) (x s z : Array α) (τ κ : α) : Vars α :=
  Unscale.unscale (scaleVars eq x s z τ κ) (infoEquil eq) false

end Equil
end Clarabel
