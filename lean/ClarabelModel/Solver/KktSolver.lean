/-
  Whole-solver model, part 2: `DirectLDLKKTSolver`
  (`src/solver/core/kktsolvers/direct/quasidef/directldlkktsolver.rs`) on top of the QDLDL
  engine (`ldlsolvers/qdldl.rs` → `src/qdldl/qdldl.rs`).

  Reused component models: `Kkt.assembleKktMatrix`, `Kkt.fillSigns`, `Kkt.updateValuesKKT`,
  `Kkt.scaleValuesKKT`, `Kkt.regularizeAndRestore` (C11), `Qdldl.new / updateValues /
  scaleValues / refactor / solve` (C12), `Residuals.symv` (`_csc_symv_unsafe`).
  Modelled here: `new`, `update`, `regularize_and_refactor` (sequencing of the two copies of
  the matrix), `setrhs`, `solve`, `getlhs`, `iterative_refinement`, `_get_refine_error`.

  External input: the fill-reducing ordering `perm` the `amd` crate returned for the KKT
  pattern (`QDLDLFactorisation::new` with `opts.perm = None`).  The model only uses it as a
  permutation (`Qdldl.new` inverts it with `_invperm`, which rejects non-permutations).
-/
import ClarabelModel.Solver.Cones
import ClarabelModel.Qdldl
import ClarabelModel.Residuals

namespace Clarabel
namespace Solver

variable {α : Type}

/-- the `CoreSettings` fields read by the linear-solver layer -/
structure LinSettings (α : Type) where
  staticRegEnable : Bool
  staticRegConstant : α
  staticRegProportional : α
  dynRegEps : α
  dynRegDelta : α
  irEnable : Bool
  irReltol : α
  irAbstol : α
  irMaxIter : Nat
  irStopRatio : α
  deriving Inhabited

/-- `DirectLDLKKTSolver<T>` with the QDLDL engine -/
structure KktSolver (α : Type) where
  m : Nat
  n : Nat
  p : Nat
  x : Array α
  b : Array α
  work1 : Array α
  work2 : Array α
  map : Kkt.LDLDataMap
  dsigns : Array Int
  Hsblocks : Array α
  KKT : Csc α
  ldl : Qdldl.Factorisation α
  diagonalRegularizer : α

/-- `Result::unwrap()` on a QDLDL error is a panic -/
def unwrapQdldl {β : Type} (site : String) : MErr β → MErr β
  | .ok v => .ok v
  | .error (.err k) => .error (.panic (site ++ ": unwrap on " ++ k))
  | .error e => .error e

section
variable [Add α] [Sub α] [Mul α] [Div α] [Neg α] [OfNat α 0] [OfNat α 1] [LT α] [DecidableLT α]
  [BEq α] [FloatLike α]

/-- `DirectLDLKKTSolver::new` with `direct_solve_method = "qdldl"`:
`assemble_kkt_matrix` (triu), `_fill_signs`, `allocate_kkt_Hsblocks`, then
`QDLDLDirectLDLSolver::new` = a *logical* factorisation with `Dsigns`, dynamic
regularisation always enabled (`regularize_enable(true)` is hard-wired there) and the AMD
ordering `perm`. -/
def KktSolver.new (P A : Csc α) (cones : List (ConeSt α)) (m n : Nat) (st : LinSettings α)
    (perm : Array Nat) : MErr (KktSolver α) := do
  let specs := cones.map ConeSt.kktSpec
  let (KKT, map) ← Kkt.assembleKktMatrix P A specs .triu
  let p := Kkt.pdimAll map.sparse_maps
  let zeros : Array α := Array.replicate (n + m + p) 0
  let dsigns ← Kkt.fillSigns m n map.sparse_maps
  let Hsblocks : Array α := Array.replicate (Kkt.hsblocksLen specs) 0
  -- `assert!(KKT.is_square())`
  if KKT.m != KKT.n then throw (.panic "KKT matrix is not square")
  let ldl ← unwrapQdldl "QDLDLFactorisation::new"
    (Qdldl.new KKT perm (some dsigns) true st.dynRegEps st.dynRegDelta true)
  pure { m, n, p, x := zeros, b := zeros, work1 := zeros, work2 := zeros, map, dsigns, Hsblocks,
         KKT, ldl, diagonalRegularizer := 0 }

/-- `_update_values`: the solver's own matrix and the engine's permuted copy -/
def KktSolver.updateValues (K : KktSolver α) (index : Array Nat) (values : Array α) :
    MErr (KktSolver α) := do
  let nz ← Kkt.updateValuesKKT K.KKT.nzval index values
  let ldl ← Qdldl.updateValues K.ldl index values
  pure { K with KKT := { K.KKT with nzval := nz }, ldl }

/-- `_scale_values` -/
def KktSolver.scaleValues (K : KktSolver α) (index : Array Nat) (scale : α) : MErr (KktSolver α) := do
  let nz ← Kkt.scaleValuesKKT K.KKT.nzval index scale
  let ldl ← Qdldl.scaleValues K.ldl index scale
  pure { K with KKT := { K.KKT with nzval := nz }, ldl }

/-- `csc_update_sparsecone` of a sparse second-order cone -/
def KktSolver.updateSparseSoc (K : KktSolver α) (mp : Kkt.SparseMap) (c : Soc.Cone α) :
    MErr (KktSolver α) :=
  match mp, c.sparse with
  | .soc mu mv mD, some sp => do
    let η2 := c.eta * c.eta
    let K ← K.updateValues mu sp.u
    let K ← K.updateValues mv sp.v
    let K ← K.scaleValues mu (-η2)
    let K ← K.scaleValues mv (-η2)
    K.updateValues mD #[-η2, η2]
  | _, _ => throw (.panic "recover_map / sparse_data.unwrap()")

/-- `regularize_and_refactor`.  The two diagonal writes to the solver's own matrix are
`Kkt.regularizeAndRestore` (C11); the engine's copy receives the shifted diagonal and is
refactored (`refactor().unwrap()`, then `Dinv.is_finite()`). -/
def KktSolver.regularizeAndRefactor (K : KktSolver α) (st : LinSettings α) :
    MErr (Bool × KktSolver α) := do
  if st.staticRegEnable then
    let (r, _) ← Kkt.regularizeAndRestore K.KKT.nzval K.map.diag_full K.dsigns true
      st.staticRegConstant st.staticRegProportional
    -- `zip(&mut work1, &map.diag_full)` / `copy_from`: the work vectors have the length of the diagonal
    if K.work1.size != r.diagKkt.size || K.work2.size != r.diagShifted.size then
      throw (.panic "regularize_and_refactor: work vector length")
    let ldl ← Qdldl.updateValues K.ldl K.map.diag_full r.diagShifted
    let ldl ← unwrapQdldl "refactor" (Qdldl.refactor ldl)
    let ok := ldl.Dinv.all (fun v => FloatLike.isFinite v)
    pure (ok, { K with KKT := { K.KKT with nzval := r.nzval }, ldl, work1 := r.diagKkt,
                       work2 := r.diagShifted, diagonalRegularizer := r.eps })
  else
    let ldl ← unwrapQdldl "refactor" (Qdldl.refactor K.ldl)
    let ok := ldl.Dinv.all (fun v => FloatLike.isFinite v)
    pure (ok, { K with ldl })

/-- `KKTSolver::update(cones, settings)` -/
def KktSolver.update (K : KktSolver α) (cones : List (ConeSt α)) (st : LinSettings α) :
    MErr (Bool × KktSolver α) := do
  -- cones.get_Hs(&mut self.Hsblocks); values.negate()
  let hs ← getHs cones
  if hs.size != K.Hsblocks.size then throw (.panic "get_Hs: Hsblock range")
  let values := Vec.negate hs
  let K := { K with Hsblocks := values }
  let K ← K.updateValues K.map.Hsblocks values
  let r ← cones.foldlM (fun (st : KktSolver α × Nat) c =>
    match c with
    | .soc sc =>
      if sc.sparse.isSome then do
        let thismap ← getE st.1.map.sparse_maps st.2 "sparse_map_iter.next().unwrap()"
        let K ← st.1.updateSparseSoc thismap sc
        pure (K, st.2 + 1)
      else pure st
    | _ => pure st) (K, 0)
  r.1.regularizeAndRefactor st

/-- `setrhs` -/
def KktSolver.setrhs (K : KktSolver α) (rhsx rhsz : Array α) : MErr (KktSolver α) := do
  if rhsx.size != K.n then throw (.panic "setrhs: copy_from rhsx")
  if rhsz.size != K.m then throw (.panic "setrhs: copy_from rhsz")
  if K.b.size != K.n + K.m + K.p then throw (.panic "setrhs: b range")
  pure { K with b := rhsx ++ rhsz ++ Array.replicate K.p 0 }

/-- `_get_refine_error(e, b, K, ξ)`: `e = b − Kξ`, returns `(‖e‖∞, e)` -/
def refineError (b : Array α) (KKT : Csc α) (ξ : Array α) : MErr (α × Array α) := do
  let e ← Residuals.symv KKT b ξ (-1) 1
  pure (Vec.normInf e, e)

/-- `x.is_finite()` of a norm -/
def finite (v : α) : Bool := FloatLike.isFinite v

/-- state of the refinement loop -/
structure IRState (α : Type) where
  x : Array α
  dx : Array α
  e : Array α
  norme : α

/-- the `for _ in 0..maxiter` loop of `iterative_refinement`; the flag is `false` on the
`return false` exit (non-finite error norm) -/
def irLoop [LE α] [DecidableLE α] (ldl : Qdldl.Factorisation α) (KKT : Csc α) (b : Array α) (normb : α)
    (st : LinSettings α) : Nat → IRState α → MErr (Bool × IRState α)
  | 0, s => pure (true, s)
  | k + 1, s =>
    if s.norme ≤ st.irAbstol + st.irReltol * normb then pure (true, s) else do
    let lastnorme := s.norme
    -- self.ldlsolver.solve(K, dx, e); dx.axpby(1, x, 1)
    let dx ← Qdldl.solve ldl s.e
    if dx.size != s.x.size then throw (.panic "iterative_refinement: axpby length")
    let dx := Vec.axpby 1 s.x 1 dx
    let (norme, e) ← refineError b KKT dx
    if !finite norme then pure (false, { s with dx, e, norme }) else
    let improvedRatio := lastnorme / norme
    if improvedRatio < st.irStopRatio then
      if 1 < improvedRatio then pure (true, { x := dx, dx := s.x, e, norme })
      else pure (true, { s with dx, e, norme })
    else irLoop ldl KKT b normb st k { x := dx, dx := s.x, e, norme }

/-- `iterative_refinement`: `(is_success, solver afterwards)`; `e` lives in `work1`, `dx`
in `work2` (`std::mem::swap(x, dx)` exchanges the two vectors) -/
def KktSolver.iterativeRefinement [LE α] [DecidableLE α] (K : KktSolver α) (st : LinSettings α) :
    MErr (Bool × KktSolver α) := do
  let normb := Vec.normInf K.b
  let (norme, e) ← refineError K.b K.KKT K.x
  if !finite norme then pure (false, { K with work1 := e }) else
  let (ok, s) ← irLoop K.ldl K.KKT K.b normb st st.irMaxIter { x := K.x, dx := K.work2, e, norme }
  pure (ok, { K with x := s.x, work2 := s.dx, work1 := s.e })

/-- `getlhs`: the `(x, z)` parts of the solution vector -/
def KktSolver.getlhs (K : KktSolver α) : Array α × Array α :=
  (K.x.extract 0 K.n, K.x.extract K.n (K.n + K.m))

/-- `KKTSolver::solve(lhsx, lhsz, settings)`: `(is_success, (x, z) parts if successful, solver)`.
The caller copies the parts into the `Some(_)` targets (`copy_from` on slices of length
`n` / `m`). -/
def KktSolver.solve [LE α] [DecidableLE α] (K : KktSolver α) (st : LinSettings α) :
    MErr (Bool × Array α × Array α × KktSolver α) := do
  -- self.ldlsolver.solve(&self.KKT, &mut self.x, &self.b): x.copy_from(b); factors.solve(x)
  if K.x.size != K.b.size then throw (.panic "solve: copy_from length")
  let x ← Qdldl.solve K.ldl K.b
  let K := { K with x }
  let (ok, K) ←
    if st.irEnable then K.iterativeRefinement st
    else pure (K.x.all (fun v => FloatLike.isFinite v), K)
  if K.x.size < K.n + K.m then throw (.panic "getlhs: range")
  let (lx, lz) := K.getlhs
  pure (ok, lx, lz, K)

end

end Solver
end Clarabel
