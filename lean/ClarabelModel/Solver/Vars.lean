/-
  Whole-solver model, part 4: `DefaultVariables`
  (`src/solver/implementations/default/variables.rs`) for a composite of zero / nonnegative
  / second-order cones: `new`, `affine_step_rhs`, `combined_step_rhs`, `calc_step_length`,
  `add_step`, `symmetric_initialization`, `scale_cones`, `copy_from`.

  Reused: `Step.centeringParameter`, `Step.mehrotraM` (C06), `Loop.Step.alphaMax` (C07),
  `Composite.shiftToConeInterior` (C15), the cone glue of `Solver/Cones.lean`.
-/
import ClarabelModel.Solver.KktSys
import ClarabelModel.Step
import ClarabelModel.Loop

namespace Clarabel
namespace Solver

open Residuals (Vars Resid)

variable {α : Type}

section
variable [Add α] [Sub α] [Mul α] [Div α] [Neg α] [OfNat α 0] [OfNat α 1] [LT α] [DecidableLT α]
  [LE α] [DecidableLE α] [BEq α] [FloatLike α]

/-- `DefaultVariables::new(n, m)` -/
def varsNew (n m : Nat) : Vars α :=
  { x := Array.replicate n 0, s := Array.replicate m 0, z := Array.replicate m 0, τ := 1, κ := 1 }

/-- `DefaultVariables::copy_from` -/
def varsCopyFrom (dst src : Vars α) : MErr (Vars α) := do
  let x ← copyInto dst.x src.x "x"
  let s ← copyInto dst.s src.s "s"
  let z ← copyInto dst.z src.z "z"
  pure { x, s, z, τ := src.τ, κ := src.κ }

/-- `affine_step_rhs(residuals, variables, cones)` applied to `self` -/
def affineStepRhs (self : Vars α) (r : Resid α) (vars : Vars α) (cones : List (ConeSt α)) :
    MErr (Vars α) := do
  let x ← copyInto self.x r.rx "rhs.x"
  let z ← copyInto self.z r.rz "rhs.z"
  let _ ← cutE cones vars.s "affine_ds s"
  let s ← affineDs cones self.s
  pure { x, z, s, τ := r.rτ, κ := vars.τ * vars.κ }

/-- `combined_step_rhs(residuals, variables, cones, step, σ, μ, m)` applied to `self`;
returns `(self, step)` -/
def combinedStepRhs (self : Vars α) (r : Resid α) (vars : Vars α) (cones : List (ConeSt α))
    (step : Vars α) (σ μ m : α) : MErr (Vars α × Vars α) := do
  let dotσμ := σ * μ
  let x ← axpbyE ((1 : α) - σ) r.rx 0 self.x "rhs.x"
  let τ := ((1 : α) - σ) * r.rτ
  let κ := -dotσμ + m * step.τ * step.κ + vars.τ * vars.κ
  -- `if m != 1 { step.z.scale(m) }`
  let stepz := if m < 1 ∨ 1 < m ∨ FloatLike.isNaN m then Vec.scale step.z m else step.z
  let (shift, stepz, steps) ← combinedDsShift cones self.z stepz step.s dotσμ
  -- self.s = 1·self.z + 1·self.s   (self.z holds the shift)
  let s ← axpbyE 1 shift 1 self.s "rhs.s"
  -- self.z = (1−σ)·rz + 0·self.z
  let z ← axpbyE ((1 : α) - σ) r.rz 0 shift "rhs.z"
  pure ({ x, s, z, τ, κ }, { step with z := stepz, s := steps })

/-- `calc_step_length(step, cones, settings, step_direction)`; `maxValue` is
`T::max_value()` -/
def calcStepLength (vars step : Vars α) (cones : List (ConeSt α)) (maxValue maxStepFraction : α)
    (dir : StepDirection) : MErr α := do
  let amax := Loop.Step.alphaMax vars.τ vars.κ step.τ step.κ maxValue
  let (az, as) ← stepLength cones step.z step.s vars.z vars.s maxStepFraction amax
  let a := fmin az as
  pure (if dir == .combined then a * maxStepFraction else a)

/-- `add_step(step, α)` -/
def addStep (v step : Vars α) (a : α) : MErr (Vars α) := do
  let x ← axpbyE a step.x 1 v.x "x"
  let s ← axpbyE a step.s 1 v.s "s"
  let z ← axpbyE a step.z 1 v.z "z"
  pure { x, s, z, τ := v.τ + a * step.τ, κ := v.κ + a * step.κ }

/-- `symmetric_initialization(cones)` -/
def symmetricInitialization (v : Vars α) (cones : List (ConeSt α)) : MErr (Vars α) := do
  let specs := cones.map ConeSt.compSpec
  let s ← Composite.shiftToConeInterior specs v.s true
  let z ← Composite.shiftToConeInterior specs v.z false
  pure { v with s, z, τ := 1, κ := 1 }

/-- `scale_cones(cones, μ, scaling_strategy)` (symmetric cones ignore `μ` and the strategy) -/
def scaleCones (v : Vars α) (cones : List (ConeSt α)) : MErr (Bool × List (ConeSt α)) :=
  updateScaling cones v.s v.z

end

end Solver
end Clarabel
