/-
  Whole-solver model, part 5: `DefaultSolver::new` (`implementations/default/solver.rs`) and
  `solve()` (`core/solver.rs`, followed line by line) for problems with zero / nonnegative /
  second-order cones and the QDLDL backend.

  Composition of the component models:
    `Loop.checkDimensions` (C04) → `ProblemData.new` (C09: collapse, presolve, cap of `b`)
    → `makeCones` → `Equil.equilibrate` (C10) → `KktSys.new` (C11 assembly, C12 symbolic LDL)
    → `default_start` → the loop: `Residuals.update` / `Residuals.calcMu` (C01), `Info.update`,
    `Info.checkTermination` (C03/C04), cone scaling (C13), KKT update / solves (C11, C12, C06),
    step lengths (C07, C15), `Info.savePrev`, `add_step` → `Info.postProcess`,
    `Unscale.postProcess` (C02: un-equilibration, reverse presolve).

  External inputs: the AMD ordering `perm` of the KKT pattern, and the clock (these runs
  have `time_limit = ∞`, so `solve_time > time_limit` is constantly `false`).

  The model records the whole trajectory (`PassRec` per pass of the loop), which is what the
  correspondence channel `solve.full` compares bit-for-bit with the observer of the
  implementation.
-/
import ClarabelModel.Solver.Vars
import ClarabelModel.Equil
import ClarabelModel.Info
import ClarabelModel.Unscale

namespace Clarabel
namespace Solver

open Residuals (Vars Resid)
open Info (InfoS SolverStatus)

variable {α : Type}

/-- the `DefaultSettings` fields the modelled path reads -/
structure Settings (α : Type) where
  /-- tolerances and `max_iter` (`Info.Settings`) -/
  info : Info.Settings α
  maxStepFraction : α
  minTerminateStepLength : α
  equil : Equil.Settings α
  lin : LinSettings α
  presolveEnable : Bool
  /-- `get_infinity()` at construction -/
  infbound : α
  /-- `T::max_value()` -/
  maxValue : α
  deriving Inhabited

/-- `DefaultSolver<T>` (timers, print target and `linsolver` info omitted) -/
structure SolverSt (α : Type) where
  data : ProblemData α
  variables : Vars α
  residuals : Resid α
  kktsystem : KktSys α
  cones : List (ConeSt α)
  stepLhs : Vars α
  stepRhs : Vars α
  prevVars : Vars α
  info : InfoS α
  /-- `info.μ`, `info.sigma`, `info.step_length` (`info.iterations` lives in `InfoS`) -/
  infoMu : α
  infoSigma : α
  infoStepLength : α
  solution : Unscale.Solution α

/-- what the observer hook records in one pass of the loop -/
structure PassRec (α : Type) where
  vars : Vars α
  mu : α
  sigma : α
  stepLength : α
  info : InfoS α
  dotBz : α
  dotQx : α
  /-- `(isdone, status)` after `check_termination` -/
  isdone : Bool
  status : SolverStatus
  /-- `is_scaling_success` (when reached) -/
  scalingSuccess : Option Bool := none
  /-- `is_kkt_solve_success` handed to `strategy_checkpoint_numerical_error` -/
  kktSuccess : Option Bool := none
  alphaAff : Option α := none
  sigmaNew : Option α := none
  alpha : Option α := none

section
variable [Add α] [Sub α] [Mul α] [Div α] [Neg α] [OfNat α 0] [OfNat α 1] [OfNat α 2]
  [OfNat α 100] [OfNat α 1000] [LT α] [DecidableLT α] [LE α] [DecidableLE α] [BEq α] [FloatLike α]

/-- `DefaultInfo::new()` (`Default`) -/
def infoNew : InfoS α :=
  { cost_primal := 0, cost_dual := 0, res_primal := 0, res_dual := 0, res_primal_inf := 0,
    res_dual_inf := 0, gap_abs := 0, gap_rel := 0, ktratio := 0, prev_cost_primal := 0,
    prev_cost_dual := 0, prev_res_primal := 0, prev_res_dual := 0, prev_gap_abs := 0,
    prev_gap_rel := 0, iterations := 0, status := .unsolved }

/-- `DefaultResiduals::new(n, m)` -/
def residNew (n m : Nat) : Resid α :=
  { rx := Array.replicate n 0, rz := Array.replicate m 0, rτ := 1,
    rx_inf := Array.replicate n 0, rz_inf := Array.replicate m 0,
    dot_qx := 0, dot_bz := 0, dot_sz := 0, dot_xPx := 0, Px := Array.replicate n 0 }

/-- `DefaultSolver::new(P, q, A, b, cones, settings)`; `perm` is the AMD ordering of the
assembled KKT matrix. -/
def SolverSt.new (P : Csc α) (q : Array α) (A : Csc α) (b : Array α) (cones : List (ConeT α))
    (st : Settings α) (perm : Array Nat) : MErr (SolverSt α) := do
  Loop.checkDimensions P.m P.n q.size A.m A.n b.size (cones.map ConeT.nvars)
  let solution := Unscale.Solution.new A.n A.m
  let data ← ProblemData.new P q A b cones st.presolveEnable false st.infbound
  let K ← makeCones data.cones
  if numelAll K != data.m then throw (.panic "assert_eq!(cones.numel, data.m)")
  let variables := varsNew data.n data.m
  let residuals := residNew data.n data.m
  let data ← Equil.equilibrate data data.cones st.equil
  let kktsystem ← KktSys.new data K st.lin perm
  pure { data, variables, residuals, kktsystem, cones := K,
         stepLhs := varsNew data.n data.m, stepRhs := varsNew data.n data.m,
         prevVars := varsNew data.n data.m, info := infoNew,
         infoMu := 0, infoSigma := 0, infoStepLength := 0, solution }

/-- `default_start()` on the symmetric path (the results of the two KKT calls are not
checked by the Rust code either) -/
def SolverSt.defaultStart (S : SolverSt α) (st : Settings α) : MErr (SolverSt α) := do
  let cones := setIdentityScaling S.cones
  let (_, kktsystem) ← S.kktsystem.update S.data cones st.lin
  let (_, variables, kktsystem) ← kktsystem.solveInitialPoint S.variables S.data st.lin
  let variables ← symmetricInitialization variables cones
  pure { S with cones, kktsystem, variables }

/-- view of the equilibration data for `Info.update` / `Unscale` -/
def equilView (e : EquilData α) : Info.Equil α :=
  { d := e.d, dinv := e.dinv, e := e.e, einv := e.einv, c := e.c }

/-- loop-carried locals of `solve()` together with the solver object -/
structure LoopSt (α : Type) where
  S : SolverSt α
  iter : Nat
  sigma : α
  alpha : α
  mu : α
  /-- passes so far, oldest first -/
  traj : List (PassRec α)

/-- one pass of `loop { … }`: `(true, _)` = fell through to the next pass, `(false, _)` = `break` -/
def pass (st : Settings α) (L : LoopSt α) : MErr (Bool × LoopSt α) := do
  let S := L.S
  let data := S.data
  -- residuals.update, calc_mu, save_scalars, info.update
  let residuals ← Residuals.update S.residuals S.variables
    { P := data.P, q := data.q, A := data.A, b := data.b }
  let mu := Residuals.calcMu residuals S.variables (degreeAll S.cones)
  let info0 := { S.info with iterations := L.iter }
  let eq := equilView data.equilibration
  let normq ← Info.getNormq data.normq data.q eq.dinv eq.c
  let normb ← Info.getNormb data.normb data.b eq.einv
  let info1 ← Info.update info0 eq normq normb S.variables residuals
  -- check_termination (time_limit = ∞)
  let (info2, isdone) := Info.checkTermination info1 residuals.dot_bz residuals.dot_qx st.info L.iter false
  let rec0 : PassRec α :=
    { vars := S.variables, mu, sigma := L.sigma, stepLength := L.alpha, info := info1,
      dotBz := residuals.dot_bz, dotQx := residuals.dot_qx, isdone, status := info2.status }
  let S := { S with residuals, info := info2, infoMu := mu, infoSigma := L.sigma,
                    infoStepLength := L.alpha }
  let L := { L with S, mu }
  if isdone then
    -- strategy_checkpoint_insufficient_progress (all cones symmetric: NoUpdate or Fail)
    if info2.status != .insufficientProgress then
      pure (false, { L with traj := L.traj ++ [rec0] })
    else
      let variables ← varsCopyFrom S.variables S.prevVars
      let S := { S with info := Info.resetToPrev info2, variables }
      pure (false, { L with S, traj := L.traj ++ [rec0] })
  else
  -- scale_cones / strategy_checkpoint_is_scaling_success
  let (scaleOk, cones) ← (scaleCones S.variables S.cones : MErr (Bool × List (ConeSt α)))
  let S := { S with cones }
  let rec1 := { rec0 with scalingSuccess := some scaleOk }
  if !scaleOk then
    let S := { S with info := { S.info with status := .numericalError } }
    pure (false, { L with S, traj := L.traj ++ [rec1] })
  else
  let iter := L.iter + 1
  -- kktsystem.update, affine rhs, affine solve
  let (updOk, kktsystem) ← S.kktsystem.update data cones st.lin
  let stepRhs ← affineStepRhs S.stepRhs residuals S.variables cones
  let (affOk, stepLhs, kktsystem) ←
    if updOk then kktsystem.solve S.stepLhs stepRhs data S.variables cones .affine st.lin
    else pure (false, S.stepLhs, kktsystem)
  let S := { S with kktsystem, stepRhs, stepLhs }
  -- combined step only on affine step success
  let (ok, S, sigma, rec2) ← (do
    if affOk then
      let aAff ← calcStepLength S.variables S.stepLhs cones st.maxValue st.maxStepFraction .affine
      let sigma := Step.centeringParameter aAff
      let m := Step.mehrotraM iter aAff
      let (stepRhs, stepLhs) ← combinedStepRhs S.stepRhs residuals S.variables cones S.stepLhs sigma mu m
      let (combOk, stepLhs, kktsystem) ←
        S.kktsystem.solve stepLhs stepRhs data S.variables cones .combined st.lin
      pure (combOk, { S with kktsystem, stepRhs, stepLhs }, sigma,
            { rec1 with alphaAff := some aAff, sigmaNew := some sigma })
    else pure (false, S, L.sigma, rec1) : MErr (Bool × SolverSt α × α × PassRec α))
  let rec3 := { rec2 with kktSuccess := some ok }
  -- strategy_checkpoint_numerical_error
  if !ok then
    let S := { S with info := { S.info with status := .numericalError } }
    pure (false, { L with S, iter, sigma, alpha := 0, traj := L.traj ++ [rec3] })
  else
  let a ← calcStepLength S.variables S.stepLhs cones st.maxValue st.maxStepFraction .combined
  let rec4 := { rec3 with alpha := some a }
  -- strategy_checkpoint_small_step
  if a ≤ fmax 0 st.minTerminateStepLength then
    let S := { S with info := { S.info with status := .insufficientProgress } }
    pure (false, { L with S, iter, sigma, alpha := 0, traj := L.traj ++ [rec4] })
  else
  -- save_prev_iterate, add_step
  let prevVars ← varsCopyFrom S.prevVars S.variables
  let variables ← addStep S.variables S.stepLhs a
  let S := { S with info := Info.savePrev S.info, prevVars, variables }
  pure (true, { L with S, iter, sigma, alpha := a, traj := L.traj ++ [rec4] })

/-- the `loop { … }` with a pass budget (`max_iter + 2` is never exhausted, C04) -/
def runLoop (st : Settings α) : Nat → LoopSt α → MErr (LoopSt α)
  | 0, _ => throw (.panic "model: pass budget exhausted")
  | fuel + 1, L => do
    let (cont, L') ← pass st L
    if cont then runLoop st fuel L' else pure L'

/-- everything after the loop -/
def finish (st : Settings α) (L : LoopSt α) : MErr (SolverSt α) := do
  let S := L.S
  -- `if α == 0 { save_scalars(μ, α, σ, iter) }`
  let S := if L.alpha == 0 then
      { S with info := { S.info with iterations := L.iter }, infoMu := L.mu, infoSigma := L.sigma,
               infoStepLength := L.alpha }
    else S
  let info := Info.postProcess S.info S.residuals.dot_bz S.residuals.dot_qx st.info
  let presolver : Option (Unscale.PresolveMap α) :=
    match S.data.presolver with
    | some p => p.keep.map (fun keep => { keep, infbound := p.infbound })
    | none => none
  let (solution, variables) ← Unscale.postProcess S.solution (equilView S.data.equilibration)
    presolver S.variables info
  pure { S with info, solution, variables }

/-- result of a whole `solve()` -/
structure SolveResult (α : Type) where
  S : SolverSt α
  traj : List (PassRec α)
  passes : Nat

/-- `solve()` -/
def SolverSt.solve (S : SolverSt α) (st : Settings α) : MErr (SolveResult α) := do
  -- info.reset
  let S := { S with info := { S.info with status := .unsolved, iterations := 0 } }
  let S ← S.defaultStart st
  let L ← runLoop st (st.info.max_iter + 2)
    { S, iter := 0, sigma := 1, alpha := 0, mu := 0, traj := [] }
  let S ← finish st L
  pure { S, traj := L.traj, passes := L.traj.length }

end

end Solver
end Clarabel
