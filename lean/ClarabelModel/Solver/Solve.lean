/-
  Whole-solver model, part 5: `DefaultSolver::new` (`implementations/default/solver.rs`) and
  `solve()` (`core/solver.rs`, followed line by line) for problems with zero / nonnegative /
  second-order cones and the QDLDL backend.

  Composition of the component models:
    `Loop.checkDimensions` (C04) → `ProblemData.new` (C09: collapse, presolve, cap of `b`)
    → `makeCones` → `Equil.equilibrate` (C10) → `KktSys.new` (C11 assembly, C12 symbolic LDL)
    → `default_start` → the loop: `Residuals.update` / `Residuals.calcMu` (C01), `Info.update`,
    `Info.checkTermination` (C03/C04), cone scaling (C13), KKT update / solves (C11, C12, C06),
    step lengths (C07, C15), `Info.savePrev`, `add_step` → `Info.postProcess`,
    `Unscale.postProcess` (C02: un-equilibration, reverse presolve).

  External inputs: the AMD ordering `perm` of the KKT pattern, and the clock (these runs
  have `time_limit = ∞`, so `solve_time > time_limit` is constantly `false`).

  The model records the whole trajectory (`PassRec` per pass of the loop), which is what the
  correspondence channel `solve.full` compares bit-for-bit with the observer of the
  implementation.
-/
import ClarabelModel.Solver.Vars
import ClarabelModel.Equil
import ClarabelModel.Info
import ClarabelModel.Unscale

namespace Clarabel
namespace Solver

open Residuals (Vars Resid)
open Info (InfoS SolverStatus)

variable {α : Type}

/-- the `DefaultSettings` fields the modelled path reads -/
structure Settings (α : Type) where
  /-- tolerances and `max_iter` (`Info.Settings`) -/
  info : Info.Settings α
  maxStepFraction : α
  minTerminateStepLength : α
  equil : Equil.Settings α
  lin : LinSettings α
  presolveEnable : Bool
  /-- `get_infinity()` at construction -/
  infbound : α
  /-- `T::max_value()` -/
  maxValue : α
  deriving Inhabited

/-- `DefaultSolver<T>` without `solution` (timers, print target and `linsolver` info omitted):
everything `default_start()` and the loop of `solve()` read or write.  `solution` is only
touched by `solution.post_process` after the loop and is kept next to it in `Solver`. -/
structure SolverSt (α : Type) where
  data : ProblemData α
  variables : Vars α
  residuals : Resid α
  kktsystem : KktSys α
  cones : List (ConeSt α)
  stepLhs : Vars α
  stepRhs : Vars α
  prevVars : Vars α
  info : InfoS α
  /-- `info.μ`, `info.sigma`, `info.step_length` (`info.iterations` lives in `InfoS`) -/
  infoMu : α
  infoSigma : α
  infoStepLength : α

/-- `DefaultSolver<T>` -/
structure Solver (α : Type) where
  st : SolverSt α
  solution : Unscale.Solution α

/-- what the observer hook records in one pass of the loop -/
structure PassRec (α : Type) where
  vars : Vars α
  mu : α
  sigma : α
  stepLength : α
  info : InfoS α
  dotBz : α
  dotQx : α
  /-- `(isdone, status)` after `check_termination` -/
  isdone : Bool
  status : SolverStatus
  /-- `is_scaling_success` (when reached) -/
  scalingSuccess : Option Bool := none
  /-- `is_kkt_solve_success` handed to `strategy_checkpoint_numerical_error` -/
  kktSuccess : Option Bool := none
  alphaAff : Option α := none
  sigmaNew : Option α := none
  alpha : Option α := none

section
variable [Add α] [Sub α] [Mul α] [Div α] [Neg α] [OfNat α 0] [OfNat α 1] [OfNat α 2]
  [OfNat α 100] [OfNat α 1000] [LT α] [DecidableLT α] [LE α] [DecidableLE α] [BEq α] [FloatLike α]

/-- `DefaultInfo::new()` (`Default`) -/
def infoNew : InfoS α :=
  { cost_primal := 0, cost_dual := 0, res_primal := 0, res_dual := 0, res_primal_inf := 0,
    res_dual_inf := 0, gap_abs := 0, gap_rel := 0, ktratio := 0, prev_cost_primal := 0,
    prev_cost_dual := 0, prev_res_primal := 0, prev_res_dual := 0, prev_gap_abs := 0,
    prev_gap_rel := 0, iterations := 0, status := .unsolved }

/-- `DefaultResiduals::new(n, m)` -/
def residNew (n m : Nat) : Resid α :=
  { rx := Array.replicate n 0, rz := Array.replicate m 0, rτ := 1,
    rx_inf := Array.replicate n 0, rz_inf := Array.replicate m 0,
    dot_qx := 0, dot_bz := 0, dot_sz := 0, dot_xPx := 0, Px := Array.replicate n 0 }

/-- the internal problem data of `DefaultSolver::new`: `DefaultProblemData::new` (collapse,
presolve, cap) followed by `equilibrate` on the cones of the internal problem -/
def internalData (P : Csc α) (q : Array α) (A : Csc α) (b : Array α) (cones : List (ConeT α))
    (st : Settings α) : MErr (ProblemData α) := do
  let data ← ProblemData.new P q A b cones st.presolveEnable false st.infbound
  let K ← makeCones data.cones
  if numelAll K != data.m then throw (.panic "assert_eq!(cones.numel, data.m)")
  Equil.equilibrate data data.cones st.equil

/-- everything of `DefaultSolver::new` except `solution` -/
def SolverSt.new (P : Csc α) (q : Array α) (A : Csc α) (b : Array α) (cones : List (ConeT α))
    (st : Settings α) (perm : Array Nat) : MErr (SolverSt α) := do
  let data ← internalData P q A b cones st
  let K ← makeCones data.cones
  let kktsystem ← KktSys.new data K st.lin perm
  pure { data, variables := varsNew data.n data.m, residuals := residNew data.n data.m,
         kktsystem, cones := K,
         stepLhs := varsNew data.n data.m, stepRhs := varsNew data.n data.m,
         prevVars := varsNew data.n data.m, info := infoNew,
         infoMu := 0, infoSigma := 0, infoStepLength := 0 }

/-- `DefaultSolver::new(P, q, A, b, cones, settings)`; `perm` is the AMD ordering of the
assembled KKT matrix.  (`_check_dimensions`, `DefaultSolution::new(A.n, A.m)`, data,
cones, variables, residuals, equilibration, KKT system, work variables.) -/
def Solver.new (P : Csc α) (q : Array α) (A : Csc α) (b : Array α) (cones : List (ConeT α))
    (st : Settings α) (perm : Array Nat) : MErr (Solver α) := do
  Loop.checkDimensions P.m P.n q.size A.m A.n b.size (cones.map ConeT.nvars)
  let S ← SolverSt.new P q A b cones st perm
  pure { st := S, solution := Unscale.Solution.new A.n A.m }

/-- `default_start()` on the symmetric path (the results of the two KKT calls are not
checked by the Rust code either) -/
def SolverSt.defaultStart (S : SolverSt α) (st : Settings α) : MErr (SolverSt α) := do
  let cones := setIdentityScaling S.cones
  let (_, kktsystem) ← S.kktsystem.update S.data cones st.lin
  let (_, variables, kktsystem) ← kktsystem.solveInitialPoint S.variables S.data st.lin
  let variables ← symmetricInitialization variables cones
  pure { S with cones, kktsystem, variables }

/-- view of the equilibration data for `Info.update` / `Unscale` -/
def equilView (e : EquilData α) : Info.Equil α :=
  { d := e.d, dinv := e.dinv, e := e.e, einv := e.einv, c := e.c }

/-- loop-carried locals of `solve()` together with the solver object -/
structure LoopSt (α : Type) where
  S : SolverSt α
  iter : Nat
  sigma : α
  alpha : α
  mu : α
  /-- passes so far, oldest first -/
  traj : List (PassRec α)

/-- the numerics at the top of a pass: `residuals.update`, `calc_mu`, `info.save_scalars`
(`iterations`), `info.update` → `(residuals, μ, info)` -/
def topNumerics (S : SolverSt α) (iter : Nat) : MErr (Resid α × α × InfoS α) := do
  let data := S.data
  let residuals ← Residuals.update S.residuals S.variables
    { P := data.P, q := data.q, A := data.A, b := data.b }
  let mu := Residuals.calcMu residuals S.variables (degreeAll S.cones)
  let eq := equilView data.equilibration
  let normq ← Info.getNormq data.normq data.q eq.dinv eq.c
  let normb ← Info.getNormb data.normb data.b eq.einv
  let info1 ← Info.update { S.info with iterations := iter } eq normq normb S.variables residuals
  pure (residuals, mu, info1)

/-- what the KKT stage of a pass produces -/
structure KktOut (α : Type) where
  S : SolverSt α
  /-- `is_kkt_solve_success` after the combined solve (or the failed update / affine solve) -/
  ok : Bool
  /-- `(α_aff, σ)` when the affine step succeeded -/
  aff : Option (α × α)

/-- the numerics between `iter += 1` and `strategy_checkpoint_numerical_error`:
`kktsystem.update`, `affine_step_rhs`, the affine solve and — only on its success — the
affine step length, `σ`, the Mehrotra factor `m`, `combined_step_rhs`, the combined solve -/
def kktNumerics (st : Settings α) (S : SolverSt α) (cones : List (ConeSt α)) (mu : α) (iter : Nat) :
    MErr (KktOut α) := do
  let data := S.data
  let (updOk, kktsystem) ← S.kktsystem.update data cones st.lin
  let stepRhs ← affineStepRhs S.stepRhs S.residuals S.variables cones
  let (affOk, stepLhs, kktsystem) ←
    if updOk then kktsystem.solve S.stepLhs stepRhs data S.variables cones .affine st.lin
    else pure (false, S.stepLhs, kktsystem)
  let S := { S with kktsystem, stepRhs, stepLhs }
  if affOk then
    let aAff ← calcStepLength S.variables S.stepLhs cones st.maxValue st.maxStepFraction .affine
    let sigma := Step.centeringParameter aAff
    let m := Step.mehrotraM iter aAff
    let (stepRhs, stepLhs) ← combinedStepRhs S.stepRhs S.residuals S.variables cones S.stepLhs sigma mu m
    let (combOk, stepLhs, kktsystem) ←
      S.kktsystem.solve stepLhs stepRhs data S.variables cones .combined st.lin
    pure { S := { S with kktsystem, stepRhs, stepLhs }, ok := combOk, aff := some (aAff, sigma) }
  else pure { S, ok := false, aff := none }

/-- `save_prev_iterate` (variables half) and `add_step` -/
def stepVars (S : SolverSt α) (a : α) : MErr (Vars α × Vars α) := do
  let prevVars ← varsCopyFrom S.prevVars S.variables
  let variables ← addStep S.variables S.stepLhs a
  pure (prevVars, variables)

/-- one pass of `loop { … }`: `(true, _)` = fell through to the next pass, `(false, _)` = `break` -/
def pass (st : Settings α) (L : LoopSt α) : MErr (Bool × LoopSt α) := do
  -- residuals.update, calc_mu, save_scalars, info.update
  let (residuals, mu, info1) ← topNumerics L.S L.iter
  -- check_termination (time_limit = ∞)
  let ct := Info.checkTermination info1 residuals.dot_bz residuals.dot_qx st.info L.iter false
  let rec0 : PassRec α :=
    { vars := L.S.variables, mu, sigma := L.sigma, stepLength := L.alpha, info := info1,
      dotBz := residuals.dot_bz, dotQx := residuals.dot_qx, isdone := ct.2, status := ct.1.status }
  let S : SolverSt α := { L.S with residuals, info := ct.1, infoMu := mu, infoSigma := L.sigma,
                                   infoStepLength := L.alpha }
  if ct.2 then
    -- strategy_checkpoint_insufficient_progress (all cones symmetric: NoUpdate or Fail)
    if ct.1.status != .insufficientProgress then
      pure (false, { L with S, mu, traj := L.traj ++ [rec0] })
    else
      let variables ← varsCopyFrom S.variables S.prevVars
      pure (false, { L with S := { S with info := Info.resetToPrev ct.1, variables }, mu,
                            traj := L.traj ++ [rec0] })
  else
  -- scale_cones / strategy_checkpoint_is_scaling_success
  let sc ← scaleCones S.variables S.cones
  let S := { S with cones := sc.2 }
  if !sc.1 then
    pure (false, { L with S := { S with info := { S.info with status := .numericalError } }, mu,
                          traj := L.traj ++ [{ rec0 with scalingSuccess := some false }] })
  else
  -- iter += 1; kktsystem.update, affine and combined solves
  let k ← kktNumerics st S sc.2 mu (L.iter + 1)
  let sigma := match k.aff with
    | some p => p.2
    | none => L.sigma
  let rec3 : PassRec α :=
    { rec0 with scalingSuccess := some true, kktSuccess := some k.ok,
                alphaAff := k.aff.map (·.1), sigmaNew := k.aff.map (·.2) }
  -- strategy_checkpoint_numerical_error
  if !k.ok then
    pure (false, { S := { k.S with info := { k.S.info with status := .numericalError } },
                   iter := L.iter + 1, sigma, alpha := 0, mu, traj := L.traj ++ [rec3] })
  else
  let a ← calcStepLength k.S.variables k.S.stepLhs sc.2 st.maxValue st.maxStepFraction .combined
  let rec4 := { rec3 with alpha := some a }
  -- strategy_checkpoint_small_step
  if a ≤ fmax 0 st.minTerminateStepLength then
    pure (false, { S := { k.S with info := { k.S.info with status := .insufficientProgress } },
                   iter := L.iter + 1, sigma, alpha := 0, mu, traj := L.traj ++ [rec4] })
  else
  -- save_prev_iterate, add_step
  let pv ← stepVars k.S a
  pure (true, { S := { k.S with info := Info.savePrev k.S.info, prevVars := pv.1, variables := pv.2 },
                iter := L.iter + 1, sigma, alpha := a, mu, traj := L.traj ++ [rec4] })

/-- the `loop { … }` with a pass budget (`max_iter + 2` is never exhausted, C04) -/
def runLoop (st : Settings α) : Nat → LoopSt α → MErr (LoopSt α)
  | 0, _ => throw (.panic "model: pass budget exhausted")
  | fuel + 1, L => do
    let r ← pass st L
    if r.1 then runLoop st fuel r.2 else pure r.2

/-- `info.reset`, `default_start()` and the loop -/
def SolverSt.runSolve (S : SolverSt α) (st : Settings α) : MErr (LoopSt α) := do
  -- info.reset
  let S := { S with info := { S.info with status := .unsolved, iterations := 0 } }
  let S ← S.defaultStart st
  runLoop st (st.info.max_iter + 2) { S, iter := 0, sigma := 1, alpha := 0, mu := 0, traj := [] }

/-- the final `save_scalars` (`if α == 0`) and `info.post_process` -/
def finishInfo (st : Settings α) (L : LoopSt α) : SolverSt α :=
  let S := L.S
  let S := if L.alpha == 0 then
      { S with info := { S.info with iterations := L.iter }, infoMu := L.mu, infoSigma := L.sigma,
               infoStepLength := L.alpha }
    else S
  { S with info := Info.postProcess S.info S.residuals.dot_bz S.residuals.dot_qx st.info }

/-- the presolver row map as `solution.post_process` uses it -/
def presolveMap (d : ProblemData α) : Option (Unscale.PresolveMap α) :=
  match d.presolver with
  | some p => p.keep.map (fun keep => { keep, infbound := p.infbound })
  | none => none

/-- everything after the loop: `(solver state, solution)` -/
def finish (st : Settings α) (L : LoopSt α) (sol : Unscale.Solution α) :
    MErr (SolverSt α × Unscale.Solution α) := do
  let S := finishInfo st L
  let r ← Unscale.postProcess sol (equilView S.data.equilibration) (presolveMap S.data) S.variables S.info
  pure ({ S with variables := r.2 }, r.1)

/-- result of a whole `solve()` -/
structure SolveResult (α : Type) where
  S : Solver α
  traj : List (PassRec α)

def SolveResult.passes (r : SolveResult α) : Nat := r.traj.length

/-- `get_normq(); get_normb()` on the problem data (`DefaultProblemData::get_normq / get_normb`,
`problemdata.rs`): the value returned is CACHED — a cache that is `None` is filled with the norm
computed from the current `q` (`b`) and the equilibration, a cache that is `Some(v)` is left as it is
(possibly STALE after a rejected partial `update_q` / `update_b`). -/
def fillNorms (d : ProblemData α) : MErr (ProblemData α) := do
  let nq ← Info.getNormq d.normq d.q d.equilibration.dinv d.equilibration.c
  let nb ← Info.getNormb d.normb d.b d.equilibration.einv
  pure { d with normq := some nq, normb := some nb }

/-- `solve()`.

THE NORM CACHES.  `DefaultInfo::update` calls `data.get_normq()` / `data.get_normb()` at the top of
EVERY pass, and these FILL the caches `data.normq` / `data.normb` when they are `None`; the loop makes
at least one pass, so after every `solve()` that returned both caches of the solver object are
`Some(_)`.  Within one `solve()` nothing else writes the problem data, and `get_norm*` on a filled
cache returns the cached value, so the values read in every pass are those `topNumerics` computes
from the caches AT ENTRY; the caches of the RETURNED object are stored here, once, after the loop
(`fillNorms`).  That this is the same function as the one that stores them in the pass, at
`Info.update`, where the code does it (`Solver.solveC`, `ClarabelModel/Solver/SolveC.lean`), is
`Solver.solveC_eq_solve` (`ClarabelProofs/Lemmas/SolverNormCaches.lean`). -/
def Solver.solve (S : Solver α) (st : Settings α) : MErr (SolveResult α) := do
  let L ← S.st.runSolve st
  let r ← finish st L S.solution
  -- the caches `Info.update` filled (`get_normq` / `get_normb`)
  let data ← fillNorms r.1.data
  pure { S := { st := { r.1 with data := data }, solution := r.2 }, traj := L.traj }

end

end Solver
end Clarabel
