/-
  Whole-solver model, part 1: the live `CompositeCone` of a problem with zero / nonnegative /
  second-order cones (`src/solver/core/cones/compositecone.rs`, `supportedcone.rs::make_cone`).

  This file is glue only: the state of every constituent cone is the component model's own
  structure (`Nonneg.Cone`, `Soc.Cone`), every per-cone operation is the component model's
  function (`Zero.*`, `Nonneg.*`, `Soc.*`, C13/C15), and the composite versions cut the
  vectors into `rng_cones` and dispatch cone by cone in list order, as the Rust `zip(&cones,
  &rng_cones)` loops do.  Margins, shifts and the composite step length are the C15 model
  (`Composite.*`) applied to the specs / closures built here.
-/
import ClarabelModel.Collapse
import ClarabelModel.Kkt
import ClarabelModel.Cones.Composite

namespace Clarabel
namespace Solver

variable {α : Type}

/-- live state of one constituent cone (`SupportedCone<T>` restricted to the three
symmetric cone types this model covers) -/
inductive ConeSt (α : Type) where
  | zero (dim : Nat)
  | nonneg (K : Nonneg.Cone α)
  | soc (K : Soc.Cone α)

namespace ConeSt

/-- `numel` -/
def numel : ConeSt α → Nat
  | .zero d => d
  | .nonneg K => K.w.size
  | .soc K => K.dim

/-- `degree` -/
def degree : ConeSt α → Nat
  | .zero _ => 0
  | .nonneg K => K.w.size
  | .soc _ => 1

/-- what the KKT assembly needs to know (`Kkt.ConeSpec`, C11) -/
def kktSpec : ConeSt α → Kkt.ConeSpec
  | .zero d => .zero d
  | .nonneg K => .nonneg K.w.size
  | .soc K => .soc K.dim

/-- what margins / shifts need to know (`Composite.Spec`, C15) -/
def compSpec : ConeSt α → Composite.Spec
  | .zero d => .zero d
  | .nonneg K => .nonneg K.w.size
  | .soc K => .soc K.dim

/-- `is_sparse_expandable` -/
def isSparseExpandable : ConeSt α → Bool
  | .soc K => K.sparse.isSome
  | _ => false

end ConeSt

section
variable [Add α] [Mul α] [Sub α] [Div α] [Neg α] [OfNat α 0] [OfNat α 1] [LT α] [DecidableLT α]
  [FloatLike α]

/-- `make_cone` for the supported cone types; everything else is outside this model -/
def makeCone : ConeT α → MErr (ConeSt α)
  | .zero n => pure (.zero n)
  | .nonneg n => pure (.nonneg (Nonneg.new n))
  | .soc n => do pure (.soc (← Soc.new n))
  | c => throw (.err ("cone-not-modelled:" ++ c.tag))

/-- `CompositeCone::new` (the cones; `numel`, `degree`, `rng_cones`, `rng_blocks` are
functions of the list) -/
def makeCones (types : List (ConeT α)) : MErr (List (ConeSt α)) := types.mapM makeCone

def numelAll (cones : List (ConeSt α)) : Nat := (cones.map ConeSt.numel).foldl (· + ·) 0
def degreeAll (cones : List (ConeSt α)) : Nat := (cones.map ConeSt.degree).foldl (· + ·) 0

/-- cut `v` into the cones' ranges `rng_cones` (`&v[rng]`: a range past the end panics) -/
def cutE (cones : List (ConeSt α)) (v : Array α) (site : String) : MErr (List (Array α)) :=
  let rec go : List (ConeSt α) → Nat → MErr (List (Array α))
    | [], _ => pure []
    | c :: rest, start =>
      if start + c.numel > v.size then throw (.panic ("range end index out of range: " ++ site))
      else do
        let tl ← go rest (start + c.numel)
        pure (v.extract start (start + c.numel) :: tl)
  go cones 0

/-- write the per-cone results back over `v[rng_cones]`; entries past the last cone keep
their old value -/
def pasteBack (cones : List (ConeSt α)) (v : Array α) (parts : List (Array α)) : Array α :=
  parts.foldl (· ++ ·) #[] ++ v.extract (numelAll cones) v.size

/-- `set_identity_scaling` of one cone (`λ` is left as it is).
`T::FRAC_1_SQRT_2()` is the double nearest to `1/√2` = `sqrt(0.5)` correctly rounded
(same reading as `Kkt.identityScaling`, C11). -/
def setIdentityScaling1 : ConeSt α → ConeSt α
  | .zero d => .zero d
  | .nonneg K => .nonneg { K with w := K.w.map (fun _ => 1) }
  | .soc K =>
    let e0 : Array α := (K.w.map (fun _ => (0 : α))).setIfInBounds 0 1
    let half : α := 1 / (1 + 1)
    .soc { K with w := e0, eta := 1,
                  sparse := K.sparse.map (fun sp =>
                    { d := half, u := (sp.u.map (fun _ => (0 : α))).setIfInBounds 0 (sqrt half),
                      v := sp.v.map (fun _ => (0 : α)) }) }

/-- `CompositeCone::set_identity_scaling` -/
def setIdentityScaling (cones : List (ConeSt α)) : List (ConeSt α) := cones.map setIdentityScaling1

/-- `update_scaling` of one cone on its slices: `(is_scaling_success, cone afterwards)` -/
def updateScaling1 (c : ConeSt α) (s z : Array α) : MErr (Bool × ConeSt α) :=
  match c with
  | .zero d => pure (true, .zero d)
  | .nonneg K => do
    let K' ← Nonneg.updateScaling K s z
    pure (true, .nonneg K')
  | .soc K => do
    let (ok, K') ← Soc.updateScaling K s z
    pure (ok, .soc K')

/-- `CompositeCone::update_scaling`: cone by cone, returning at the first failure (the
remaining cones keep their old scaling) -/
def updateScaling (cones : List (ConeSt α)) (s z : Array α) : MErr (Bool × List (ConeSt α)) := do
  let ss ← cutE cones s "update_scaling s"
  let zs ← cutE cones z "update_scaling z"
  let rec go : List (ConeSt α) → List (Array α) → List (Array α) → MErr (Bool × List (ConeSt α))
    | c :: cs, si :: ss, zi :: zs => do
      let (ok, c') ← updateScaling1 c si zi
      if !ok then pure (false, c' :: cs)
      else do
        let (ok', cs') ← go cs ss zs
        pure (ok', c' :: cs')
    | cs, _, _ => pure (true, cs)
  go cones ss zs

/-- `get_Hs` of one cone (block of length `rng_blocks[i].len()`) -/
def getHs1 : ConeSt α → MErr (Array α)
  | .zero d => pure (Zero.getHs d)
  | .nonneg K => Nonneg.getHs K K.w.size
  | .soc K => Soc.getHs K

/-- `CompositeCone::get_Hs` (the concatenated blocks) -/
def getHs (cones : List (ConeSt α)) : MErr (Array α) := do
  let blocks ← cones.mapM getHs1
  pure (blocks.foldl (· ++ ·) #[])

/-- per-cone map over the slices of one vector, pasted back -/
def mapCones (cones : List (ConeSt α)) (v : Array α) (site : String)
    (f : ConeSt α → Array α → MErr (Array α)) : MErr (Array α) := do
  let parts ← cutE cones v site
  let outs ← (cones.zip parts).mapM (fun p => f p.1 p.2)
  pure (pasteBack cones v outs)

/-- `CompositeCone::mul_Hs(y, x, work)`; `y` is the previous content of the output -/
def mulHs (cones : List (ConeSt α)) (y x : Array α) : MErr (Array α) := do
  let xs ← cutE cones x "mul_Hs x"
  let _ ← cutE cones y "mul_Hs y"
  let outs ← (cones.zip xs).mapM (fun p =>
    match p.1 with
    | .zero _ => pure (Zero.mulHs p.2)
    | .nonneg K => Nonneg.mulHs K p.2
    | .soc K => Soc.mulHs K p.2)
  pure (pasteBack cones y outs)

/-- `CompositeCone::affine_ds(ds, s)` -/
def affineDs (cones : List (ConeSt α)) (ds : Array α) : MErr (Array α) :=
  mapCones cones ds "affine_ds" (fun c dsi =>
    match c with
    | .zero _ => pure (Zero.affineDs dsi)
    | .nonneg K => Nonneg.affineDs K dsi.size
    | .soc K => do
      let r ← Soc.affineDs K
      if r.size != dsi.size then throw (.panic "affine_ds: length") else pure r)

/-- `CompositeCone::combined_ds_shift(shift, step_z, step_s, σμ)` → `(shift, step_z, step_s)` -/
def combinedDsShift (cones : List (ConeSt α)) (shift stepZ stepS : Array α) (σμ : α) :
    MErr (Array α × Array α × Array α) := do
  let shs ← cutE cones shift "combined_ds_shift shift"
  let zs ← cutE cones stepZ "combined_ds_shift step_z"
  let ss ← cutE cones stepS "combined_ds_shift step_s"
  let outs ← (cones.zip (shs.zip (zs.zip ss))).mapM (fun p =>
    match p.1 with
    | .zero _ => pure (Zero.combinedDsShift p.2.1, p.2.2.1, p.2.2.2)
    | .nonneg K => Nonneg.combinedDsShift K p.2.2.1 p.2.2.2 σμ
    | .soc K => Soc.combinedDsShift K p.2.2.1 p.2.2.2 σμ)
  pure (pasteBack cones shift (outs.map (·.1)),
        pasteBack cones stepZ (outs.map (·.2.1)),
        pasteBack cones stepS (outs.map (·.2.2)))

/-- `CompositeCone::Δs_from_Δz_offset(out, ds, work, z)` -/
def dsFromDzOffset (cones : List (ConeSt α)) (out ds z : Array α) : MErr (Array α) := do
  let os ← cutE cones out "Δs_from_Δz_offset out"
  let dss ← cutE cones ds "Δs_from_Δz_offset ds"
  let zs ← cutE cones z "Δs_from_Δz_offset z"
  let outs ← (cones.zip (os.zip (dss.zip zs))).mapM (fun p =>
    match p.1 with
    | .zero _ => pure (Zero.dsFromDzOffset p.2.1)
    | .nonneg _ => Nonneg.dsFromDzOffset p.2.2.1 p.2.2.2
    | .soc K => Soc.dsFromDzOffset K p.2.2.1 p.2.2.2)
  pure (pasteBack cones out outs)

/-- the closures `Composite.stepLength` (C15) consumes -/
def stepFns (cones : List (ConeSt α)) (dz ds z s : Array α) : MErr (List (Composite.ConeFn α)) := do
  let dzs ← cutE cones dz "step_length dz"
  let dss ← cutE cones ds "step_length ds"
  let zs ← cutE cones z "step_length z"
  let ss ← cutE cones s "step_length s"
  pure ((cones.zip (dzs.zip (dss.zip (zs.zip ss)))).map (fun p =>
    { symmetric := true,
      stepLength := fun amax =>
        match p.1 with
        | .zero _ => pure (Zero.stepLength amax)
        | .nonneg _ => Nonneg.stepLength p.2.1 p.2.2.1 p.2.2.2.1 p.2.2.2.2 amax
        | .soc _ => Soc.stepLength p.2.1 p.2.2.1 p.2.2.2.1 p.2.2.2.2 amax }))

/-- `CompositeCone::step_length(dz, ds, z, s, settings, αmax)` -/
def stepLength (cones : List (ConeSt α)) (dz ds z s : Array α) (maxStepFraction amax : α) :
    MErr (α × α) := do
  let fns ← stepFns cones dz ds z s
  Composite.stepLength fns maxStepFraction amax

end

end Solver
end Clarabel
