/-
  Whole-solver model, part 3: `DefaultKKTSystem`
  (`src/solver/implementations/default/kktsystem.rs`): `new`, `update`
  (+ `solve_constant_rhs`), `solve`, `solve_initial_point`.

  Reused: `KktSystem.quadForm`, `KktSystem.tauNum`, `KktSystem.tauDen`,
  `KktSystem.deltaKappa` (C06 model of the Δτ elimination), the composite cone glue of
  `Solver/Cones.lean`, the linear solver of `Solver/KktSolver.lean`.
-/
import ClarabelModel.Solver.KktSolver
import ClarabelModel.KktSystem
import ClarabelModel.ProblemData

namespace Clarabel
namespace Solver

open Residuals (Vars)

variable {α : Type}

/-- `DefaultKKTSystem<T>` -/
structure KktSys (α : Type) where
  kktsolver : KktSolver α
  x1 : Array α
  z1 : Array α
  x2 : Array α
  z2 : Array α
  workx : Array α
  workz : Array α
  workConic : Array α

/-- `StepDirection` -/
inductive StepDirection where
  | affine | combined
  deriving Repr, BEq, DecidableEq, Inhabited

section
variable [Add α] [Sub α] [Mul α] [Div α] [Neg α] [OfNat α 0] [OfNat α 1] [LT α] [DecidableLT α]
  [LE α] [DecidableLE α] [BEq α] [FloatLike α]

/-- `DefaultKKTSystem::new(data, cones, settings)` -/
def KktSys.new (data : ProblemData α) (cones : List (ConeSt α)) (st : LinSettings α)
    (perm : Array Nat) : MErr (KktSys α) := do
  let (m, n) := (data.m, data.n)
  let kktsolver ← KktSolver.new data.P data.A cones m n st perm
  let zx : Array α := Array.replicate n 0
  let zz : Array α := Array.replicate m 0
  pure { kktsolver, x1 := zx, z1 := zz, x2 := zx, z2 := zz, workx := zx, workz := zz, workConic := zz }

/-- `copy_from` into a destination of the given length -/
def copyInto (dst src : Array α) (site : String) : MErr (Array α) :=
  if dst.size != src.size then throw (.panic ("copy_from: length " ++ site)) else pure src

/-- `[T]::axpby` with its `assert_eq!` -/
def axpbyE (a : α) (x : Array α) (b : α) (y : Array α) (site : String) : MErr (Array α) :=
  if y.size != x.size then throw (.panic ("axpby: length " ++ site)) else pure (Vec.axpby a x b y)

/-- `[T]::waxpby` into a destination of length `len` with its two `assert_eq!`s -/
def waxpbyE (len : Nat) (a : α) (x : Array α) (b : α) (y : Array α) (site : String) : MErr (Array α) :=
  if len != x.size || len != y.size then throw (.panic ("waxpby: length " ++ site))
  else pure (Vec.waxpby a x b y)

/-- `solve_constant_rhs`: `workx = −q` (`workx.scalarop_from(|q| -q, &data.q)` since /repo 1706c1f —
a `zip` without length assert; before it was `−1·q + 0·workx`, which read the stale `workx`),
rhs `(workx, b)` → `(x2, z2)` -/
def KktSys.solveConstantRhs (S : KktSys α) (data : ProblemData α) (st : LinSettings α) :
    MErr (Bool × KktSys α) := do
  let workx := Vec.scalaropFrom S.workx (fun q => -q) data.q
  let K ← S.kktsolver.setrhs workx data.b
  let (ok, lx, lz, K) ← K.solve st
  let S := { S with workx, kktsolver := K }
  if ok then
    let x2 ← copyInto S.x2 lx "x2"
    let z2 ← copyInto S.z2 lz "z2"
    pure (true, { S with x2, z2 })
  else pure (false, S)

/-- `KKTSystem::update(data, cones, settings)` -/
def KktSys.update (S : KktSys α) (data : ProblemData α) (cones : List (ConeSt α))
    (st : LinSettings α) : MErr (Bool × KktSys α) := do
  let (ok, K) ← S.kktsolver.update cones st
  let S := { S with kktsolver := K }
  if !ok then pure (false, S) else S.solveConstantRhs data st

/-- `KKTSystem::solve(lhs, rhs, data, variables, cones, step_direction, settings)`:
`(is_success, lhs afterwards, system afterwards)`.  On failure of the linear solve `lhs`
is returned unchanged. -/
def KktSys.solve (S : KktSys α) (lhs rhs : Vars α) (data : ProblemData α) (vars : Vars α)
    (cones : List (ConeSt α)) (dir : StepDirection) (st : LinSettings α) :
    MErr (Bool × Vars α × KktSys α) := do
  let workx ← copyInto S.workx rhs.x "workx"
  -- Δs_const_term (work_conic)
  let dsConst ← match dir with
    | .affine => copyInto S.workConic vars.s "work_conic"
    | .combined => dsFromDzOffset cones S.workConic rhs.s vars.z
  let workz ← waxpbyE S.workz.size 1 dsConst (-(1 : α)) rhs.z "workz"
  let K ← S.kktsolver.setrhs workx workz
  let (ok, lx, lz, K) ← K.solve st
  let S := { S with workx, workz, workConic := dsConst, kktsolver := K }
  if !ok then pure (false, lhs, S) else
  let x1 ← copyInto S.x1 lx "x1"
  let z1 ← copyInto S.z1 lz "z1"
  let (x2, z2) := (S.x2, S.z2)
  -- ξ = (1/τ)·x + 0·workx
  let ξ ← axpbyE ((1 : α) / vars.τ) vars.x 0 workx "ξ"
  let ξPx1 ← KktSystem.quadForm data.P ξ x1
  let tauNum := KktSystem.tauNum rhs.τ rhs.κ vars.τ (Vec.dot data.q x1) (Vec.dot data.b z1) ξPx1
  -- ξ − x2 = (−1)·x2 + 1·ξ
  let ξm ← axpbyE (-(1 : α)) x2 1 ξ "ξ_minus_x2"
  let qfξm ← KktSystem.quadForm data.P ξm ξm
  let qfx2 ← KktSystem.quadForm data.P x2 x2
  let tauDen := KktSystem.tauDen vars.κ vars.τ (Vec.dot data.q x2) (Vec.dot data.b z2) qfξm qfx2
  let dτ := tauNum / tauDen
  let dx ← waxpbyE lhs.x.size 1 x1 dτ x2 "lhs.x"
  let dz ← waxpbyE lhs.z.size 1 z1 dτ z2 "lhs.z"
  -- cones.mul_Hs(&mut lhs.s, &lhs.z, workz); lhs.s = −(lhs.s + Δs_const_term)
  let hs ← mulHs cones lhs.s dz
  let ds ← axpbyE (-(1 : α)) dsConst (-(1 : α)) hs "lhs.s"
  let dκ := KktSystem.deltaKappa rhs.κ vars.κ vars.τ dτ
  pure (true, { x := dx, s := ds, z := dz, τ := dτ, κ := dκ },
        { S with x1, z1, workx := ξm })

/-- `solve_initial_point(variables, data, settings)`: `(is_success, variables, system)`.
`variables.x/s/z` are zero-filled first (a failed linear solve leaves its outputs untouched),
so the incoming contents of the three vectors are never read — only their lengths. -/
def KktSys.solveInitialPoint (S : KktSys α) (vars : Vars α) (data : ProblemData α)
    (st : LinSettings α) : MErr (Bool × Vars α × KktSys α) := do
  let vars := { vars with x := vars.x.map (fun _ => (0 : α)), s := vars.s.map (fun _ => (0 : α)),
                          z := vars.z.map (fun _ => (0 : α)) }
  if data.P.nnz == 0 then
    -- LP initialization: rhs [0; b] → (x, −s)
    let workx := S.workx.map (fun _ => (0 : α))
    let workz ← copyInto S.workz data.b "workz"
    let K ← S.kktsolver.setrhs workx workz
    let (ok, lx, lz, K) ← K.solve st
    let (x, s) ← if ok then do
        let x ← copyInto vars.x lx "variables.x"
        let s ← copyInto vars.s lz "variables.s"
        pure (x, s)
      else pure (vars.x, vars.s)
    let s := Vec.negate s
    let vars := { vars with x, s }
    let S := { S with workx, workz, kktsolver := K }
    if !ok then pure (false, vars, S) else
    -- rhs [−q; 0] → z
    let workx := Vec.scalaropFrom S.workx (fun q => -q) data.q
    let workz := S.workz.map (fun _ => (0 : α))
    let K ← S.kktsolver.setrhs workx workz
    let (ok, _, lz, K) ← K.solve st
    let z ← if ok then copyInto vars.z lz "variables.z" else pure vars.z
    pure (ok, { vars with z }, { S with workx, workz, kktsolver := K })
  else
    -- QP initialization: rhs [−q; b] → (x, z), s = −z
    if S.workx.size != data.q.size then throw (.panic "scalarop_from: length")
    let workx := Vec.negate data.q
    let workz ← copyInto S.workz data.b "workz"
    let K ← S.kktsolver.setrhs workx workz
    let (ok, lx, lz, K) ← K.solve st
    let (x, z) ← if ok then do
        let x ← copyInto vars.x lx "variables.x"
        let z ← copyInto vars.z lz "variables.z"
        pure (x, z)
      else pure (vars.x, vars.z)
    if vars.s.size != z.size then throw (.panic "scalarop_from: length")
    pure (ok, { vars with x, z, s := Vec.negate z }, { S with workx, workz, kktsolver := K })

end

end Solver
end Clarabel
