/-
  Model of `src/algebra/vecmath.rs` / `scalarmath.rs` (dense vector kernels).

  Every reduction is a left fold in index order, exactly as the Rust iterators evaluate
  them, so that the `Float` instance reproduces the same roundings.
-/
import ClarabelModel.Scalar

namespace Clarabel
namespace Vec

variable {α : Type}

section
variable [Add α] [Mul α] [OfNat α 0]

/-- `dot`: `zip(self,y).fold(0, |acc,(x,y)| acc + x*y)` (truncates to the shorter length) -/
def dot (x y : Array α) : α :=
  (x.toList.zip y.toList).foldl (fun acc p => acc + p.1 * p.2) 0

def sumsq (x : Array α) : α := dot x x

/-- `sum` -/
def sum (x : Array α) : α := x.toList.foldl (fun acc v => acc + v) 0

/-- `norm_scaled`-style accumulation: Σ (xᵢ·vᵢ)² -/
def sumsqScaled (x v : Array α) : α :=
  (x.toList.zip v.toList).foldl (fun acc p => let prod := p.1 * p.2; acc + prod * prod) 0

/-- `dot_shifted(z,s,dz,ds,α) = Σ (sᵢ+α dsᵢ)(zᵢ+α dzᵢ)` -/
def dotShifted (z s dz ds : Array α) (a : α) : α :=
  (List.range z.size).foldl (fun acc i =>
    match s[i]?, ds[i]?, z[i]?, dz[i]? with
    | some si, some dsi, some zi, some dzi => acc + (si + a * dsi) * (zi + a * dzi)
    | _, _, _, _ => acc) 0

/-- `axpby`: `y ← a·x + b·y` -/
def axpby (a : α) (x : Array α) (b : α) (y : Array α) : Array α :=
  (y.toList.zip x.toList).map (fun p => a * p.2 + b * p.1) |>.toArray

/-- `waxpby`: `w = a·x + b·y` -/
def waxpby (a : α) (x : Array α) (b : α) (y : Array α) : Array α :=
  (x.toList.zip y.toList).map (fun p => a * p.1 + b * p.2) |>.toArray

def scale (x : Array α) (c : α) : Array α := x.map (· * c)
def translate (x : Array α) (c : α) : Array α := x.map (· + c)
def hadamard (x y : Array α) : Array α :=
  (x.toList.zip y.toList).map (fun p => p.1 * p.2) |>.toArray
end

def negate [Neg α] (x : Array α) : Array α := x.map (fun v => -v)

/-- `select` -/
def select (x : Array α) (idx : Array Bool) : Array α :=
  ((x.toList.zip idx.toList).filter (·.2)).map (·.1) |>.toArray

section
variable [Add α] [Mul α] [Sub α] [Div α] [OfNat α 0] [OfNat α 1] [LT α] [DecidableLT α] [FloatLike α]

def norm (x : Array α) : α := sqrt (sumsq x)

/-- `norm_inf` (NaN-propagating, as in the Rust code) -/
def normInf (x : Array α) : α :=
  x.toList.foldl (fun acc v =>
    if FloatLike.isNaN acc then acc
    else if FloatLike.isNaN v then v else fmax acc (fabs v)) 0

def normOne (x : Array α) : α := x.toList.foldl (fun acc v => acc + fabs v) 0

def normScaled (x v : Array α) : α := sqrt (sumsqScaled x v)

def normInfScaled (x v : Array α) : α :=
  (x.toList.zip v.toList).foldl (fun acc p => fmax acc (fabs (p.1 * p.2))) 0

/-- `mean` -/
def mean (x : Array α) : α :=
  if x.size = 0 then 0 else sum x / FloatLike.ofNat x.size

/-- `ScalarMath::clip` -/
def clip (v lo hi : α) : α := if v < lo then lo else if hi < v then hi else v

def recip (x : Array α) : Array α := x.map (fun v => 1 / v)
def vsqrt (x : Array α) : Array α := x.map sqrt
def rsqrt (x : Array α) : Array α := x.map (fun v => 1 / sqrt v)

/-- `minimum` of a non-empty slice (`none` stands for `+∞` of the empty fold;
`f64::min(+∞, NaN) = +∞`, so a NaN met while the accumulator is still `+∞` is skipped —
checked against `VectorMath::minimum` by the C16 channel `vec.minimum`) -/
def minimum? (x : Array α) : Option α :=
  x.toList.foldl (fun acc v => match acc with
    | none => if FloatLike.isNaN v then none else some v
    | some r => some (fmin r v)) none

/-- `maximum` (`none` stands for `-∞`; a NaN met while the accumulator is still `-∞` is
skipped, as `f64::max(-∞, NaN) = -∞`) -/
def maximum? (x : Array α) : Option α :=
  x.toList.foldl (fun acc v => match acc with
    | none => if FloatLike.isNaN v then none else some v
    | some r => some (fmax r v)) none
end

end Vec
end Clarabel
