/-
  Model of `src/algebra/vecmath.rs` / `scalarmath.rs` (dense vector kernels).

  Every reduction is a left fold in index order, exactly as the Rust iterators evaluate
  them, so that the `Float` instance reproduces the same roundings.
-/
import ClarabelModel.Scalar

namespace Clarabel
namespace Vec

variable {α : Type}

section
variable [Add α] [Mul α] [OfNat α 0]

/-- `dot`: `zip(self,y).fold(0, |acc,(x,y)| acc + x*y)` (truncates to the shorter length) -/
def dot (x y : Array α) : α :=
  (x.toList.zip y.toList).foldl (fun acc p => acc + p.1 * p.2) 0

def sumsq (x : Array α) : α := dot x x

/-- `sum` -/
def sum (x : Array α) : α := x.toList.foldl (fun acc v => acc + v) 0

/-- `norm_scaled`-style accumulation: Σ (xᵢ·vᵢ)² -/
def sumsqScaled (x v : Array α) : α :=
  (x.toList.zip v.toList).foldl (fun acc p => let prod := p.1 * p.2; acc + prod * prod) 0

/-- `dot_shifted(z,s,dz,ds,α) = Σ (sᵢ+α dsᵢ)(zᵢ+α dzᵢ)` -/
def dotShifted (z s dz ds : Array α) (a : α) : α :=
  (List.range z.size).foldl (fun acc i =>
    match s[i]?, ds[i]?, z[i]?, dz[i]? with
    | some si, some dsi, some zi, some dzi => acc + (si + a * dsi) * (zi + a * dzi)
    | _, _, _, _ => acc) 0

/-- `axpby`: `y ← a·x + b·y` -/
def axpby (a : α) (x : Array α) (b : α) (y : Array α) : Array α :=
  (y.toList.zip x.toList).map (fun p => a * p.2 + b * p.1) |>.toArray

/-- `waxpby`: `w = a·x + b·y` -/
def waxpby (a : α) (x : Array α) (b : α) (y : Array α) : Array α :=
  (x.toList.zip y.toList).map (fun p => a * p.1 + b * p.2) |>.toArray

def scale (x : Array α) (c : α) : Array α := x.map (· * c)
def translate (x : Array α) (c : α) : Array α := x.map (· + c)
def hadamard (x y : Array α) : Array α :=
  (x.toList.zip y.toList).map (fun p => p.1 * p.2) |>.toArray
end

def negate [Neg α] (x : Array α) : Array α := x.map (fun v => -v)

/-- `select` -/
def select (x : Array α) (idx : Array Bool) : Array α :=
  ((x.toList.zip idx.toList).filter (·.2)).map (·.1) |>.toArray

section
variable [Add α] [Mul α] [Sub α] [Div α] [OfNat α 0] [OfNat α 1] [LT α] [DecidableLT α] [FloatLike α]

def norm (x : Array α) : α := sqrt (sumsq x)

/-- `norm_inf` (NaN-propagating, as in the Rust code) -/
def normInf (x : Array α) : α :=
  x.toList.foldl (fun acc v =>
    if FloatLike.isNaN acc then acc
    else if FloatLike.isNaN v then v else fmax acc (fabs v)) 0

def normOne (x : Array α) : α := x.toList.foldl (fun acc v => acc + fabs v) 0

def normScaled (x v : Array α) : α := sqrt (sumsqScaled x v)

def normInfScaled (x v : Array α) : α :=
  (x.toList.zip v.toList).foldl (fun acc p => fmax acc (fabs (p.1 * p.2))) 0

/-- `mean` -/
def mean (x : Array α) : α :=
  if x.size = 0 then 0 else sum x / FloatLike.ofNat x.size

/-- `ScalarMath::clip` -/
def clip (v lo hi : α) : α := if v < lo then lo else if hi < v then hi else v

def recip (x : Array α) : Array α := x.map (fun v => 1 / v)
def vsqrt (x : Array α) : Array α := x.map sqrt
def rsqrt (x : Array α) : Array α := x.map (fun v => 1 / sqrt v)

/-- `minimum` of a non-empty slice (`none` stands for `+∞` of the empty fold;
`f64::min(+∞, NaN) = +∞`, so a NaN met while the accumulator is still `+∞` is skipped —
checked against `VectorMath::minimum` by the C16 channel `vec.minimum`) -/
def minimum? (x : Array α) : Option α :=
  x.toList.foldl (fun acc v => match acc with
    | none => if FloatLike.isNaN v then none else some v
    | some r => some (fmin r v)) none

/-- `maximum` (`none` stands for `-∞`; a NaN met while the accumulator is still `-∞` is
skipped, as `f64::max(-∞, NaN) = -∞`) -/
def maximum? (x : Array α) : Option α :=
  x.toList.foldl (fun acc v => match acc with
    | none => if FloatLike.isNaN v then none else some v
    | some r => some (fmax r v)) none
end

end Vec
end Clarabel


/-! ### Round 3 additions (C16): the remaining kernels of `VectorMath`

Everything below is new (nothing above is changed).  The `…E` variants add the Rust
`assert_eq!` length checks of the kernels whose totalised versions above silently
truncate; `hadamardFull` / `scalaropFrom` keep the unwritten tail of `self` exactly as the
Rust `zip(&mut *self, …)` loops do. -/

namespace Clarabel
namespace Vec

variable {α : Type}

/-- `copy_from` (`copy_from_slice` panics on a length mismatch) -/
def copyFrom (dst src : Array α) : MErr (Array α) :=
  if dst.size != src.size then throw (.panic "copy_from_slice: length mismatch") else pure src

/-- `scalarop`: `for x in self { *x = op(*x) }` -/
def scalarop (x : Array α) (op : α → α) : Array α := x.map op

/-- `scalarop_from`: `for (x, v) in zip(self, v) { *x = op(*v) }` — only the first
`min(self.len, v.len)` entries of `self` are written -/
def scalaropFrom (x : Array α) (op : α → α) (v : Array α) : Array α :=
  ((v.toList.take x.size).map op ++ x.toList.drop v.size).toArray

/-- `set` (all entries become `c`) -/
def setAll (x : Array α) (c : α) : Array α := scalarop x (fun _ => c)

/-- `hadamard` as the Rust loop runs it: `zip(self, y).for_each(|(x,y)| *x *= *y)`; entries of
`self` beyond `y.len()` are left alone (`hadamard` above drops them) -/
def hadamardFull [Mul α] (x y : Array α) : Array α :=
  ((x.toList.zip y.toList).map (fun p => p.1 * p.2) ++ x.toList.drop y.size).toArray

/-- `select` with its `assert_eq!(self.len(), index.len())` -/
def selectE (x : Array α) (idx : Array Bool) : MErr (Array α) :=
  if x.size != idx.size then throw (.panic "select: assert_eq len") else pure (select x idx)

section
variable [Add α] [Mul α] [OfNat α 0]

/-- `axpby` with its `assert_eq!(self.len(), x.len())` -/
def axpbyE (a : α) (x : Array α) (b : α) (y : Array α) : MErr (Array α) :=
  if y.size != x.size then throw (.panic "axpby: assert_eq len") else pure (axpby a x b y)

/-- `waxpby` with its two asserts (`w` is the receiver; only its length matters) -/
def waxpbyE (wlen : Nat) (a : α) (x : Array α) (b : α) (y : Array α) : MErr (Array α) :=
  if wlen != x.size then throw (.panic "waxpby: assert_eq len x")
  else if wlen != y.size then throw (.panic "waxpby: assert_eq len y")
  else pure (waxpby a x b y)

/-- `dot_shifted` with its three asserts -/
def dotShiftedE (z s dz ds : Array α) (a : α) : MErr α :=
  if z.size != s.size then throw (.panic "dot_shifted: assert_eq z s")
  else if z.size != dz.size then throw (.panic "dot_shifted: assert_eq z dz")
  else if s.size != ds.size then throw (.panic "dot_shifted: assert_eq s ds")
  else pure (dotShifted z s dz ds a)

end

/-- elementwise `clip` (`VectorMath::clip`) -/
def vclip [LT α] [DecidableLT α] (x : Array α) (lo hi : α) : Array α :=
  scalarop x (fun v => clip v lo hi)

section
variable [Add α] [Sub α] [Mul α] [Div α] [OfNat α 0] [OfNat α 1] [FloatLike α]

/-- `dist`: `sqrt(Σ powi(xᵢ - yᵢ, 2))`; `powi(d, 2)` is the single product `d * d` -/
def dist (x y : Array α) : α :=
  sqrt ((x.toList.zip y.toList).foldl (fun acc p => acc + (p.1 - p.2) * (p.1 - p.2)) 0)

/-- `norm_one_scaled` -/
def normOneScaled (x v : Array α) : α :=
  (x.toList.zip v.toList).foldl (fun acc p => acc + fabs (p.1 * p.2)) 0

/-- `norm_inf_diff` -/
def normInfDiff (x b : Array α) : α :=
  (x.toList.zip b.toList).foldl (fun acc p => fmax acc (fabs (p.1 - p.2))) 0

/-- `norm_scaled` with its `assert_eq!` -/
def normScaledE (x v : Array α) : MErr α :=
  if x.size != v.size then throw (.panic "norm_scaled: assert_eq len") else pure (normScaled x v)

/-- `norm_inf_scaled` with its `assert_eq!` -/
def normInfScaledE (x v : Array α) : MErr α :=
  if x.size != v.size then throw (.panic "norm_inf_scaled: assert_eq len") else pure (normInfScaled x v)

/-- `is_finite` -/
def isFinite (x : Array α) : Bool := x.toList.all FloatLike.isFinite

/-- `normalize`: returns the norm and the scaled vector; a vector whose norm compares
equal to zero is returned untouched together with `0` (`norm.recip()` is `1 / norm`) -/
def normalize [BEq α] (x : Array α) : α × Array α :=
  let nrm := norm x
  if nrm == 0 then (0, x) else (nrm, scale x (1 / nrm))

end

end Vec
end Clarabel
