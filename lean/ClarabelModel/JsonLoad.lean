/-
  Model of the post-parse logic of `load_from_file` and of the record `save_to_file` writes
  (`src/solver/implementations/default/json.rs`, `settings.rs::validate`,
  `supportedcone.rs::nvars`).

  serde_json turns the file into a `JsonProblemData` value (`Record` below: `P, A` as raw
  CSC field arrays, `q, b`, the cone list, the settings); everything after that point is
  followed line by line:

      desanitize_settings(&mut json_data.settings);
      let settings = settings.unwrap_or(json_data.settings);
      P.check_format()?;  A.check_format()?;                       // InvalidData "invalid matrix P/A: …"
      if P.colptr.first() != Some(&0) || A.colptr.first() != Some(&0) { Err }   // dead since 190e6c4
      settings.validate()?;                                        // the two option strings
      for GenPowerConeT(α,_) in cones { same test as GenPowerCone::new's asserts }
      let p = cones.iter().try_fold(0usize, |acc, c| checked_nvars(c).and_then(|k| acc.checked_add(k)));
      if !P.is_square() || P.ncols() != q.len() || A.ncols() != q.len()
         || A.nrows() != b.len() || p != Some(b.len()) { Err }
      DefaultSolver::new(&P, &q, &A, &b, &cones, settings)

  `usize` arithmetic: the harness (and every release build) compiles with wrapping integer
  arithmetic, so `SupportedConeT::nvars` — `α.len() + dim2`, `(k*(k+1)) >> 1` — wraps modulo
  `2^64` (`nvarsU`; in a debug build each wrap is an `attempt to add/multiply with overflow`
  panic instead).  Since /repo fb4bc53 the validation computes each cone's size with checked
  arithmetic (`checkedNvars`) before the checked sum; before that fix it summed the wrapping
  `nvars()` (`Lemmas/JsonLoad.lean: checkedSumOld`), and a file whose wrapped cone size
  matched `|b|` reached the cone constructors (finding, `C19.load_wrapped_cone_size_before_fix`).
  `DefaultSolver::new` itself still uses the wrapping `nvars` (`wrappingSum`, `effectiveCones`).

  Natural numbers of a `Record` are `usize` values (`Record.Fits`): serde rejects anything
  larger at parse time.
-/
import ClarabelModel.Json
import ClarabelModel.Collapse
import ClarabelModel.ProblemData
import ClarabelModel.Loop

namespace Clarabel
namespace JsonLoad
open Json

variable {α γ : Type}

/-! ### `usize` -/

/-- `usize::MAX + 1` on the 64-bit targets the crate is built for -/
def usizeMod : Nat := 18446744073709551616

/-- wrapping `usize` arithmetic of a release build -/
def wrap (x : Nat) : Nat := x % usizeMod

/-- `SupportedConeT::nvars` as compiled (wrapping): `α.len() + dim2` and
`triangular_number(k) = (k * (k + 1)) >> 1` -/
def nvarsU : ConeT α → Nat
  | .zero n => n
  | .nonneg n => n
  | .soc n => n
  | .exp => 3
  | .pow _ => 3
  | .genpow αs dim2 => wrap (αs.size + dim2)
  | .psd n => wrap (n * wrap (n + 1)) / 2

/-- `checked_nvars` of `load_from_file` (since /repo fb4bc53): the size of a cone, or `None`
when it does not fit a `usize` — `α.len().checked_add(dim2)` resp.
`dim.checked_add(1).and_then(|d1| dim.checked_mul(d1)).map(|t| t >> 1)`; the other cones
have no arithmetic (`Some(cone.nvars())`) -/
def checkedNvars : ConeT α → Option Nat
  | .zero n => some n
  | .nonneg n => some n
  | .soc n => some n
  | .exp => some 3
  | .pow _ => some 3
  | .genpow αs dim2 => if αs.size + dim2 < usizeMod then some (αs.size + dim2) else none
  | .psd n =>
    if n + 1 < usizeMod then
      if n * (n + 1) < usizeMod then some (n * (n + 1) / 2) else none
    else none

/-- `cones.iter().try_fold(0usize, |acc, cone| checked_nvars(cone).and_then(|k| acc.checked_add(k)))` -/
def checkedSum (cones : List (ConeT α)) : Option Nat :=
  cones.foldl (fun acc c => acc.bind (fun a => (checkedNvars c).bind (fun k =>
    if a + k < usizeMod then some (a + k) else none))) (some 0)

/-- `cone_types.iter().fold(0, |acc, cone| acc + cone.nvars())` of `_check_dimensions`
(wrapping) -/
def wrappingSum (cones : List (ConeT α)) : Nat :=
  cones.foldl (fun acc c => wrap (acc + nvarsU c)) 0

/-! ### settings: the part `load_from_file` and `DefaultSolver::new` look at -/

/-- the fields of `DefaultSettings` other than `time_limit` that matter here; `other`
carries all remaining fields (never touched) -/
structure Opts (γ : Type) where
  directSolveMethod : String
  mergeMethod : String
  presolveEnable : Bool
  chordalEnable : Bool
  other : γ
  deriving Repr, BEq, DecidableEq, Inhabited

/-- `DefaultSettings` -/
abbrev LSettings (α γ : Type) := Settings α (Opts γ)

/-- cargo features that change what `validate` accepts -/
structure Features where
  /-- `faer-sparse`: `"faer"` is a valid `direct_solve_method` -/
  faer : Bool
  /-- `sdp`: `chordal_decomposition_merge_method` exists and is validated -/
  sdp : Bool
  deriving Repr, BEq, DecidableEq, Inhabited

/-- which option string `validate` complained about -/
inductive SettingsField where
  | directSolveMethod
  | mergeMethod
  deriving Repr, BEq, DecidableEq, Inhabited

/-- `validate_direct_solve_method` -/
def validDirectSolveMethod (ft : Features) (s : String) : Bool :=
  s == "auto" || s == "qdldl" || (ft.faer && s == "faer")

/-- `validate_chordal_decomposition_merge_method` -/
def validMergeMethod (s : String) : Bool :=
  s == "none" || s == "parent_child" || s == "clique_graph"

/-- `DefaultSettings::validate` -/
def validateSettings (ft : Features) (s : LSettings α γ) : Except SettingsField Unit :=
  if !validDirectSolveMethod ft s.rest.directSolveMethod then .error .directSolveMethod
  else if ft.sdp && !validMergeMethod s.rest.mergeMethod then .error .mergeMethod
  else .ok ()

/-! ### the record and the verdict -/

/-- `JsonProblemData<T>` as deserialised (no invariant holds yet) -/
structure Record (α γ : Type) where
  P : Csc α
  q : Array α
  A : Csc α
  b : Array α
  cones : List (ConeT α)
  settings : LSettings α γ

/-- the arguments of the call `DefaultSolver::new(&P, &q, &A, &b, &cones, settings)` -/
structure SolverInput (α γ : Type) where
  P : Csc α
  q : Array α
  A : Csc α
  b : Array α
  cones : List (ConeT α)
  settings : LSettings α γ

/-- the `io::ErrorKind::InvalidData` errors of `load_from_file` after a successful parse -/
inductive LoadError where
  /-- `"invalid matrix P: {e}"` -/
  | invalidP (e : Csc.FormatError)
  /-- `"invalid matrix A: {e}"` -/
  | invalidA (e : Csc.FormatError)
  /-- `"invalid matrix column pointers"` (cannot be reached since `check_format` itself
  tests `colptr[0]`, /repo 190e6c4) -/
  | colptr
  /-- `settings.validate()` -/
  | settings (f : SettingsField)
  /-- `"invalid GenPowerConeT exponents"` -/
  | genpow
  /-- `"inconsistent problem dimensions"` -/
  | dimensions
  deriving Repr, BEq, DecidableEq, Inhabited

def LoadError.toString : LoadError → String
  | .invalidP e => "err:P:" ++ e.toString
  | .invalidA e => "err:A:" ++ e.toString
  | .colptr => "err:colptr"
  | .settings .directSolveMethod => "err:settings:direct_solve_method"
  | .settings .mergeMethod => "err:settings:chordal_decomposition_merge_method"
  | .genpow => "err:genpow"
  | .dimensions => "err:dimensions"

section genpow
variable [Add α] [Sub α] [Mul α] [LT α] [DecidableLT α] [OfNat α 0] [OfNat α 1] [OfScientific α]
  [FloatLike α]

/-- the exponent test of `load_from_file` ("same test as the assertions in
`GenPowerCone::new`"): all `αᵢ > 0` and `|1 - Σα| < ε·len·0.5` -/
def genpowOk (αs : Array α) : Bool :=
  αs.toList.all (fun r => 0 < r) &&
    decide (fabs (1 - Vec.sum αs) < FloatLike.eps * FloatLike.ofNat αs.size * (0.5 : α))

/-- does the cone fail the exponent test? (only `GenPowerConeT` is looked at) -/
def badGenpow : ConeT α → Bool
  | .genpow αs _ => !genpowOk αs
  | _ => false

/-- **`load_from_file` after the parse**: `desanitize`, the settings argument, the
validation in the order of the code, and the arguments handed to `DefaultSolver::new`. -/
def loadRecord (ft : Features) (d : Record α γ) (arg : Option (LSettings α γ)) :
    Except LoadError (SolverInput α γ) :=
  let settings := loadSettings d.settings arg
  match d.P.checkFormat with
  | .error e => .error (.invalidP e)
  | .ok () =>
    match d.A.checkFormat with
    | .error e => .error (.invalidA e)
    | .ok () =>
      if d.P.colptr[0]? != some 0 || d.A.colptr[0]? != some 0 then .error .colptr
      else match validateSettings ft settings with
      | .error f => .error (.settings f)
      | .ok () =>
        if d.cones.any badGenpow then .error .genpow
        else if !d.P.isSquare || d.P.n != d.q.size || d.A.n != d.q.size || d.A.m != d.b.size
            || checkedSum d.cones != some d.b.size then .error .dimensions
        else .ok { P := d.P, q := d.q, A := d.A, b := d.b, cones := d.cones, settings := settings }

end genpow

/-! ### the call to `DefaultSolver::new` -/

/-- the `usize` arithmetic of `nvars` does not wrap for this cone: `α.len() + dim2` resp.
`k * (k + 1)` fit a `usize` (for every other cone there is no arithmetic) -/
def noWrap : ConeT α → Bool
  | .genpow αs dim2 => decide (αs.size + dim2 < usizeMod)
  | .psd n => decide (n * (n + 1) < usizeMod)
  | _ => true

/-- a cone whose size arithmetic wrapped -/
def sizeOverflow (c : ConeT α) : Bool := !noWrap c

/-- the cones that survive the `nvars() != 0` tests of `new_collapsed` as compiled -/
def effectiveCones (cones : List (ConeT α)) : List (ConeT α) :=
  cones.filter (fun c => nvarsU c != 0)

section build
variable [Add α] [Sub α] [Mul α] [Div α] [OfNat α 0] [OfNat α 1] [LT α] [DecidableLT α] [FloatLike α]

/-- `DefaultSolver::new` up to the internal problem data: `_check_dimensions` (wrapping sum),
then `DefaultProblemData::new` (C09 model: collapse, upper triangle, presolve, cap) and the
cone constructors.  A cone whose size wrapped but is not dropped as "empty" reaches its
constructor with a size `≥ 2^64` in one of its allocations: that is a panic (`capacity
overflow`) — a site `C19.load_validated_implies_new_preconditions` proves unreachable from
an accepted record (since /repo fb4bc53). -/
def buildFromInput (inp : SolverInput α γ) (infbound : α) : MErr (ProblemData α) := do
  Loop.checkDimensions inp.P.m inp.P.n inp.q.size inp.A.m inp.A.n inp.b.size [wrappingSum inp.cones]
  let cs := effectiveCones inp.cones
  if cs.any sizeOverflow then throw (.panic "cone constructor: capacity overflow (size wrapped)")
  ProblemData.new inp.P inp.q inp.A inp.b cs inp.settings.rest.presolveEnable
    inp.settings.rest.chordalEnable infbound

end build

/-! ### the record `save_to_file` writes -/

/-- what `save_to_file` reads of the solver: `self.data` (internal `P q A b` with the
equilibration vectors — `Update.State`), `self.data.cones`, `self.settings` -/
structure SaveState (α γ : Type) where
  st : Update.State α
  cones : List (ConeT α)
  settings : LSettings α γ

/-- **`save_to_file` before the text layer**: patterns copied, values with the equilibration
divided out (`Json.saveData`), cones copied, settings sanitised. -/
def saveRecord [Mul α] [Div α] [OfNat α 0] [OfNat α 1] (s : SaveState α γ) : Record α γ :=
  let u := saveData s.st
  { P := { s.st.P with nzval := u.P }, q := u.q, A := { s.st.A with nzval := u.A }, b := u.b,
    cones := s.cones, settings := sanitize s.settings }

end JsonLoad
end Clarabel
