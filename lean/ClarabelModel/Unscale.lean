/-
  Model of `DefaultVariables::unscale` (variables.rs), `Presolver::reverse_presolve`
  (presolver.rs) and `DefaultSolution::post_process` (solution.rs).

  `NaN` objective values are `none` (the ordered-field instance has no NaN; the driver
  prints `none` as `xnan`).  Chordal decomposition reversal is not modelled here (C18); the
  channels only exercise data without a decomposition.
-/
import ClarabelModel.Scalar
import ClarabelModel.Vec
import ClarabelModel.Residuals
import ClarabelModel.Info

namespace Clarabel
namespace Unscale
open Residuals Info

variable {α : Type}

/-- `[T]::hadamard`: `zip(&mut self, y)` — entries of `x` beyond `y.len()` stay untouched -/
def hadamardInPlace [Mul α] (x y : Array α) : Array α :=
  (List.range x.size).filterMap (fun i =>
    match x[i]?, y[i]? with
    | some xi, some yi => some (xi * yi)
    | some xi, none => some xi
    | none, _ => none) |>.toArray

section unscale
variable [Mul α] [Div α] [OfNat α 1]

/-- `DefaultVariables::unscale` -/
def unscale (v : Vars α) (eq : Equil α) (isInfeasible : Bool) : Vars α :=
  let scaleinv := if isInfeasible then 1 / v.κ else 1 / v.τ
  let cinv := 1 / eq.c
  { x := Vec.scale (hadamardInPlace v.x eq.d) scaleinv
    z := Vec.scale (hadamardInPlace v.z eq.e) (scaleinv * cinv)
    s := Vec.scale (hadamardInPlace v.s eq.einv) scaleinv
    τ := v.τ * scaleinv
    κ := v.κ * scaleinv }
end unscale

/-- `DefaultSolution` (without `solve_time`) -/
structure Solution (α : Type) where
  x : Array α
  z : Array α
  s : Array α
  status : SolverStatus
  obj_val : Option α
  obj_val_dual : Option α
  iterations : Nat
  r_prim : Option α
  r_dual : Option α
  deriving Repr, Inhabited

/-- `DefaultSolution::new` -/
def Solution.new [OfNat α 0] (n m : Nat) : Solution α :=
  { x := Array.replicate n 0, z := Array.replicate m 0, s := Array.replicate m 0,
    status := .unsolved, obj_val := none, obj_val_dual := none, iterations := 0,
    r_prim := none, r_dual := none }

/-- the presolver state read by `reverse_presolve` -/
structure PresolveMap (α : Type) where
  keep : Array Bool
  infbound : α
  deriving Repr, Inhabited

/-- the `for (idx,&keep) in keep_logical.iter().enumerate()` loop of `reverse_presolve` -/
def reverseLoop [OfNat α 0] (infbound : α) (vs vz : Array α) :
    List Bool → Nat → Nat → Array α → Array α → MErr (Array α × Array α)
  | [], _, _, s, z => pure (s, z)
  | keep :: rest, idx, ctr, s, z =>
    if keep then do
      let sv ← getE vs ctr "reverse_presolve: variables.s"
      let s ← setE s idx sv "reverse_presolve: solution.s"
      let zv ← getE vz ctr "reverse_presolve: variables.z"
      let z ← setE z idx zv "reverse_presolve: solution.z"
      reverseLoop infbound vs vz rest (idx + 1) (ctr + 1) s z
    else do
      let s ← setE s idx infbound "reverse_presolve: solution.s"
      let z ← setE z idx 0 "reverse_presolve: solution.z"
      reverseLoop infbound vs vz rest (idx + 1) ctr s z

/-- `copy_from_slice` -/
def copyFrom (dst src : Array α) : MErr (Array α) :=
  if dst.size != src.size then throw (.panic "copy_from: length") else pure src

/-- `Presolver::reverse_presolve` -/
def reversePresolve [OfNat α 0] (p : PresolveMap α) (sol : Solution α) (v : Vars α) :
    MErr (Solution α) := do
  let x ← copyFrom sol.x v.x
  let (s, z) ← reverseLoop p.infbound v.s v.z p.keep.toList 0 0 sol.s sol.z
  pure { sol with x, s, z }

section post
variable [Mul α] [Div α] [OfNat α 0] [OfNat α 1]

/-- `DefaultSolution::post_process` (no chordal decomposition).  Returns the solution and
the un-scaled variables (the Rust code un-scales `variables` in place). -/
def postProcess (sol : Solution α) (eq : Equil α) (presolver : Option (PresolveMap α))
    (v : Vars α) (i : InfoS α) : MErr (Solution α × Vars α) := do
  let isInf := i.status.isInfeasible
  let sol := { sol with
    status := i.status
    obj_val := if isInf then none else some i.cost_primal
    obj_val_dual := if isInf then none else some i.cost_dual
    iterations := i.iterations
    r_prim := some i.res_primal
    r_dual := some i.res_dual }
  let v := unscale v eq isInf
  match presolver with
  | some p => do
    let sol ← reversePresolve p sol v
    pure (sol, v)
  | none => do
    let x ← copyFrom sol.x v.x
    let z ← copyFrom sol.z v.z
    let s ← copyFrom sol.s v.s
    pure ({ sol with x, z, s }, v)
end post

end Unscale
end Clarabel
