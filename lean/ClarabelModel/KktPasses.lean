/-
  The KKT solver's own value array over SEVERAL passes of the interior-point loop:
  every pass calls `DirectLDLKKTSolver::update` (`Kkt.updateValues` with the scaling data of that
  pass, then `regularize_and_refactor` = `Kkt.regularizeAndRestore`, which hands the `± ε` diagonal
  to the LDL engine and afterwards puts the solver's own copy back).  Nothing else writes
  `KKT.nzval` between two passes (`src/solver/core/kktsolvers/direct/quasidef/directldlkktsolver.rs`,
  `update` lines 133-157, `regularize_and_refactor` lines 218-263).
-/
import ClarabelModel.Kkt

namespace Clarabel
namespace Kkt

variable {α : Type} [Add α] [Sub α] [Mul α] [Div α] [Neg α] [OfNat α 0] [OfNat α 1] [LT α]
  [DecidableLT α] [FloatLike α]

/-- what one call of `update` leaves behind / hands to the LDL engine -/
structure PassOut (α : Type) where
  /-- `KKT.nzval` after `update` returned (the refinement copy) -/
  nzval : Array α
  /-- the values the LDL engine factorised in this pass -/
  nzFactor : Array α
  /-- `diagonal_regularizer` -/
  eps : α

/-- one call of `DirectLDLKKTSolver::update` on the current `KKT.nzval` -/
def updatePass (nz : Array α) (map : LDLDataMap) (dsigns : Array Int) (enable : Bool)
    (const prop : α) (scal : List (ConeScaling α)) : MErr (PassOut α) := do
  let nz' ← updateValues nz map scal
  let (reg, nzFactor) ← regularizeAndRestore nz' map.diag_full dsigns enable const prop
  pure { nzval := reg.nzval, nzFactor, eps := reg.eps }

/-- a sequence of calls of `update`, one per entry of `hist` (the scaling data of the successive
passes), starting from the value array `nz`: the outputs of all passes, in order -/
def runPasses (map : LDLDataMap) (dsigns : Array Int) (enable : Bool) (const prop : α) :
    Array α → List (List (ConeScaling α)) → MErr (List (PassOut α))
  | _, [] => pure []
  | nz, scal :: rest => do
    let o ← updatePass nz map dsigns enable const prop scal
    let os ← runPasses map dsigns enable const prop o.nzval rest
    pure (o :: os)

end Kkt
end Clarabel
