/-
  Whole-solver model, part 6 (property C08): `update_P / update_q / update_A / update_b /
  update_data` of `src/solver/implementations/default/data_updating.rs` ON the solver object of
  `ClarabelModel/Solver/Solve.lean` (`Solver α`: internal data with equilibration and norm
  caches, the `DirectLDLKKTSolver` with its KKT matrix, maps and QDLDL's permuted copy, the
  iterate, work vectors, `info`, `solution`), and histories of updates interleaved with `solve()`.

  Reused: the argument forms and the arithmetic of `update_matrix` / `update_vector` of
  `ClarabelModel/Update.lean` (`MatArg`, `VecArg`, `updateMatrix`, `updateVector`: tied by channel
  `upd.seq`), `Solver.KktSolver.updateValues` (= `_update_values`: `_update_values_KKT` on the
  solver's own matrix, then `ldlsolver.update_values` on QDLDL's permuted copy) and `Solver.solve`.

  `kktsystem.update_P(&self.data.P)` → `kktsolver.update_P(P)` → `_update_values(ldlsolver, KKT,
  &map.P, &P.nzval)`; likewise `update_A` with `map.A`.  `update_q / update_b` touch the data and
  the norm cache only.

  Chordal decomposition is outside the whole-solver model (`ProblemData.new` answers
  `err:chordal-not-modelled` where it would be active), so `check_data_update_allowed` reduces to
  `is_presolved()`.

  The arithmetic core of `updateMatrix` / `updateVector` reads the scaling vectors with `getD`;
  `dataWf` (the index facts of `Update.State.WfB` about the data) is evaluated first and a
  violation answers `panic`, so no silent default is reachable (every object built by
  `DefaultSolver::new` satisfies it: `ClarabelProofs/Lemmas/UpdateSolverModel.lean`).
-/
import ClarabelModel.Update
import ClarabelModel.Solver.Solve

namespace Clarabel
namespace Solver

open Update (MatArg VecArg Res FmtRes DataUpdateError updateMatrix updateVector)

variable {α : Type}

/-- `check_data_update_allowed` (no chordal decomposition in this model) -/
def checkDataUpdateAllowed (d : ProblemData α) : Res :=
  if d.presolver.isSome then .error .presolveIsActive else .ok ()

/-- the index facts about the internal data under which none of the reads of `update_matrix` /
`update_vector` (`lscale[row]`, `rscale[col]`, `index_to_coord`, `lrscale`, `hadamard`) can panic -/
def dataWf (d : ProblemData α) : Bool :=
  d.P.rowval.size == d.P.nzval.size && d.A.rowval.size == d.A.nzval.size
  && d.equilibration.d.size == d.q.size && d.equilibration.e.size == d.b.size
  && d.P.n == d.q.size && d.A.n == d.q.size && d.A.m == d.b.size
  && d.P.colptr.size == d.P.n + 1 && d.A.colptr.size == d.A.n + 1
  && d.P.colptr.getD 0 1 == 0 && d.A.colptr.getD 0 1 == 0
  && d.P.colptr.getD d.P.n 0 == d.P.nzval.size && d.A.colptr.getD d.A.n 0 == d.A.nzval.size
  && d.P.rowval.all (fun r => decide (r < d.q.size))
  && d.A.rowval.all (fun r => decide (r < d.b.size))

/-- operations of a history on the solver object -/
inductive UOp (α : Type) where
  | updateP (a : MatArg α)
  | updateQ (a : VecArg α)
  | updateA (a : MatArg α)
  | updateB (a : VecArg α)
  | updateData (p : MatArg α) (q : VecArg α) (a : MatArg α) (b : VecArg α)
  /-- `solve()` -/
  | solve
  deriving Inhabited

/-- replace the problem data of the solver object -/
def Solver.setData (S : Solver α) (d : ProblemData α) : Solver α :=
  { S with st := { S.st with data := d } }

/-- replace the linear-solver object of the solver object -/
def Solver.setKktSolver (S : Solver α) (K : KktSolver α) : Solver α :=
  { S with st := { S.st with kktsystem := { S.st.kktsystem with kktsolver := K } } }

section
variable [Add α] [Sub α] [Mul α] [Div α] [Neg α] [OfNat α 0] [OfNat α 1] [LT α] [DecidableLT α]
  [BEq α] [FloatLike α]

/-- the guard shared by the four operations: index facts, then `check_data_update_allowed` -/
def updGuard (S : Solver α) : MErr Res :=
  if !dataWf S.st.data then throw (.panic "update: ill-formed problem data")
  else pure (checkDataUpdateAllowed S.st.data)

/-- `update_P`: `update_matrix(&mut data.P, d, d, Some(c))?; kktsystem.update_P(&data.P)`.
A rejected `(index,value)` form has already overwritten the pairs before the bad index in
`data.P`, and returns BEFORE the KKT copy is refreshed. -/
def Solver.updateP (S : Solver α) (arg : MatArg α) : MErr (Solver α × Res) := do
  match ← updGuard S with
  | .error e => pure (S, .error e)
  | .ok () =>
    let d := S.st.data
    let eq := d.equilibration
    match updateMatrix arg d.P eq.d eq.d (some eq.c) with
    | (P', .error e) => pure (S.setData { d with P := P' }, .error (.badFormat e))
    | (P', .ok ()) =>
      let K := S.st.kktsystem.kktsolver
      let K ← K.updateValues K.map.P P'.nzval
      pure ((S.setData { d with P := P' }).setKktSolver K, .ok ())

/-- `update_A`: `update_matrix(&mut data.A, e, d, None)?; kktsystem.update_A(&data.A)` -/
def Solver.updateA (S : Solver α) (arg : MatArg α) : MErr (Solver α × Res) := do
  match ← updGuard S with
  | .error e => pure (S, .error e)
  | .ok () =>
    let d := S.st.data
    let eq := d.equilibration
    match updateMatrix arg d.A eq.e eq.d none with
    | (A', .error e) => pure (S.setData { d with A := A' }, .error (.badFormat e))
    | (A', .ok ()) =>
      let K := S.st.kktsystem.kktsolver
      let K ← K.updateValues K.map.A A'.nzval
      pure ((S.setData { d with A := A' }).setKktSolver K, .ok ())

/-- `update_q`: `update_vector(&mut data.q, d, Some(c))?; data.clear_normq()` -/
def Solver.updateQ (S : Solver α) (arg : VecArg α) : MErr (Solver α × Res) := do
  match ← updGuard S with
  | .error e => pure (S, .error e)
  | .ok () =>
    let d := S.st.data
    let eq := d.equilibration
    match updateVector arg d.q eq.d (some eq.c) with
    | (q', .error e) => pure (S.setData { d with q := q' }, .error (.badFormat e))
    | (q', .ok ()) => pure (S.setData { d with q := q', normq := none }, .ok ())

/-- `update_b`: `update_vector(&mut data.b, e, None)?; data.clear_normb()` -/
def Solver.updateB (S : Solver α) (arg : VecArg α) : MErr (Solver α × Res) := do
  match ← updGuard S with
  | .error e => pure (S, .error e)
  | .ok () =>
    let d := S.st.data
    let eq := d.equilibration
    match updateVector arg d.b eq.e none with
    | (b', .error e) => pure (S.setData { d with b := b' }, .error (.badFormat e))
    | (b', .ok ()) => pure (S.setData { d with b := b', normb := none }, .ok ())

/-- `update_data`: `update_P(P)?; update_q(q)?; update_A(A)?; update_b(b)?` — the components
before the first rejected one HAVE been applied (data, KKT copy, norm-cache flush). -/
def Solver.updateData (S : Solver α) (p : MatArg α) (q : VecArg α) (a : MatArg α) (b : VecArg α) :
    MErr (Solver α × Res) := do
  match ← S.updateP p with
  | (S1, .error e) => pure (S1, .error e)
  | (S1, .ok ()) =>
    match ← S1.updateQ q with
    | (S2, .error e) => pure (S2, .error e)
    | (S2, .ok ()) =>
      match ← S2.updateA a with
      | (S3, .error e) => pure (S3, .error e)
      | (S3, .ok ()) => S3.updateB b

end

section
variable [Add α] [Sub α] [Mul α] [Div α] [Neg α] [OfNat α 0] [OfNat α 1] [OfNat α 2]
  [OfNat α 100] [OfNat α 1000] [LT α] [DecidableLT α] [LE α] [DecidableLE α] [BEq α] [FloatLike α]

/-- what one operation of a history shows: the `Result` of an update, or the whole record of a
`solve()` -/
inductive UOut (α : Type) where
  | res (r : Res)
  | solved (r : SolveResult α)

/-- `solve()` as an operation of a history.  Until round 8 the shared model `Solver.solve` left the
norm caches of the problem data unchanged and this was `Solver.solve` followed by `fillNorms`; now
`Solver.solve` itself returns the object with the caches `Info.update` filled
(`ClarabelModel/Solver/Solve.lean`), and `solveU` is `solve` (`Solver.solveU_eq_solve`). -/
def Solver.solveU (S : Solver α) (st : Settings α) : MErr (SolveResult α) := S.solve st

/-- one operation of a history on the solver object (the settings are those the solver was
constructed with) -/
def Solver.stepU (st : Settings α) (S : Solver α) : UOp α → MErr (Solver α × UOut α)
  | .updateP a => do let r ← S.updateP a; pure (r.1, .res r.2)
  | .updateQ a => do let r ← S.updateQ a; pure (r.1, .res r.2)
  | .updateA a => do let r ← S.updateA a; pure (r.1, .res r.2)
  | .updateB a => do let r ← S.updateB a; pure (r.1, .res r.2)
  | .updateData p q a b => do let r ← S.updateData p q a b; pure (r.1, .res r.2)
  | .solve => do let r ← S.solveU st; pure (r.S, .solved r)

/-- a whole history; the outputs are collected in order -/
def Solver.runU (st : Settings α) : Solver α → List (UOp α) → MErr (Solver α × List (UOut α))
  | S, [] => pure (S, [])
  | S, op :: rest => do
    let r ← S.stepU st op
    let r2 ← Solver.runU st r.1 rest
    pure (r2.1, r.2 :: r2.2)

/-- everything of `DefaultSolver::new` after the internal data has been computed: the cone
objects, the KKT system (`assemble_kkt_matrix`, `QDLDLFactorisation::new`), fresh variables,
residuals, work vectors and `info`.  `SolverSt.new = internalData >>= SolverSt.ofData`. -/
def SolverSt.ofData (data : ProblemData α) (st : Settings α) (perm : Array Nat) : MErr (SolverSt α) := do
  let K ← makeCones data.cones
  let kktsystem ← KktSys.new data K st.lin perm
  pure { data, variables := varsNew data.n data.m, residuals := residNew data.n data.m,
         kktsystem, cones := K,
         stepLhs := varsNew data.n data.m, stepRhs := varsNew data.n data.m,
         prevVars := varsNew data.n data.m, info := infoNew,
         infoMu := 0, infoSigma := 0, infoStepLength := 0 }

/-- **the rebuilt solver object**: what `DefaultSolver::new` builds when handed the internal
data `data` (its equilibration vectors FROZEN as they are, no new Ruiz pass) and a `solution`
object for a problem with `ns` rows.  With `kkt := data` this is "the solver constructed from
the final data with the frozen equilibration"; `dataK` (the data whose `P`, `A` the KKT system
is assembled from) differs from `data` only after a REJECTED partial update. -/
def Solver.rebuiltWith (data dataK : ProblemData α) (st : Settings α) (perm : Array Nat)
    (sol : Unscale.Solution α) : MErr (Solver α) := do
  let S ← SolverSt.ofData dataK st perm
  pure { st := { S with data := data }, solution := sol }

/-- the rebuilt object for consistent data -/
def Solver.rebuilt (data : ProblemData α) (st : Settings α) (perm : Array Nat)
    (sol : Unscale.Solution α) : MErr (Solver α) :=
  Solver.rebuiltWith data data st perm sol

end

end Solver
end Clarabel
