/-
  Index ranges of a composite cone: `make_rng_cones`, `make_rng_blocks`
  (src/solver/core/cones/compositecone.rs), the iterator `rng_cones_iter`
  (src/solver/core/cones/supportedcone.rs) and the length `allocate_kkt_Hsblocks`
  (kkt_assembly.rs) reads off the last block range.  The assembly model (`Kkt.lean`) uses
  the start offsets only (`rngConesStart`, `rngBlocksStart`); here the ranges are built
  as the Rust loops build them (running `start`, `stop = start + len`, push `start..stop`).
-/
import ClarabelModel.Kkt

namespace Clarabel
namespace Kkt

/-- the common loop of `make_rng_cones` / `make_rng_blocks` / `RangeSupportedConesIterator::next`:
`stop = start + len; push (start..stop); start = stop` -/
def makeRangesFrom : Nat → List Nat → List (Nat × Nat)
  | _, [] => []
  | start, l :: ls => (start, start + l) :: makeRangesFrom (start + l) ls

/-- `make_rng_cones`: `(start, stop)` of every cone in the stacked variable vector -/
def makeRngCones (cones : List ConeSpec) : List (Nat × Nat) :=
  makeRangesFrom 0 (cones.map ConeSpec.numel)

/-- `make_rng_blocks`: `(start, stop)` of every cone's `Hs` block (`numel` entries for a diagonal
block, `triangular_number(numel)` otherwise: `ConeSpec.blockLen`) -/
def makeRngBlocks (cones : List ConeSpec) : List (Nat × Nat) :=
  makeRangesFrom 0 (cones.map ConeSpec.blockLen)

/-- `[SupportedConeT]::rng_cones_iter()` collected (`nvars` of a `SupportedConeT` is the `numel`
of the cone made from it) -/
def rngConesIter (cones : List ConeSpec) : List (Nat × Nat) :=
  makeRangesFrom 0 (cones.map ConeSpec.numel)

/-- `allocate_kkt_Hsblocks`: `nnz = rng_blocks.last().end` (0 for no cones); the vector is
`vec![0; nnz]` -/
def allocateKktHsblocksLen (cones : List ConeSpec) : Nat :=
  match (makeRngBlocks cones).getLast? with
  | some r => r.2
  | none => 0

end Kkt
end Clarabel
