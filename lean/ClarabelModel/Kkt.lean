/-
  Model of the KKT assembly
    `src/solver/core/kktsolvers/direct/quasidef/{kkt_assembly, datamaps, directldlkktsolver}.rs`
  and of the structural part of `cones/compositecone.rs` (`rng_cones`, `rng_blocks`) and of the
  sparse-expansion hooks of `cones/socone.rs`, `cones/genpowcone.rs`.
-/
import ClarabelModel.CscBlocks
import ClarabelModel.Vec

namespace Clarabel
namespace Kkt

/-- What the assembly needs to know about one cone (`SupportedCone`). -/
inductive ConeSpec where
  | zero (dim : Nat)
  | nonneg (dim : Nat)
  | soc (dim : Nat)
  | exp
  | pow
  | genpow (dim1 dim2 : Nat)
  | psd (n : Nat)
  deriving Repr, BEq, DecidableEq, Inhabited

/-- `SOC_NO_EXPANSION_MAX_SIZE` -/
def socNoExpansionMaxSize : Nat := 4

namespace ConeSpec

/-- `numel` -/
def numel : ConeSpec → Nat
  | zero d | nonneg d | soc d => d
  | exp | pow => 3
  | genpow a b => a + b
  | psd n => n * (n + 1) / 2      -- `triangular_number`

/-- `is_sparse_expandable` -/
def isSparseExpandable : ConeSpec → Bool
  | soc d => decide (d > socNoExpansionMaxSize)
  | genpow _ _ => true
  | _ => false

/-- `Hs_is_diagonal` -/
def hsIsDiagonal : ConeSpec → Bool
  | zero _ | nonneg _ => true
  | soc d => decide (d > socNoExpansionMaxSize)
  | genpow _ _ => true
  | exp | pow | psd _ => false

/-- number of entries of the cone's `Hs` block (`make_rng_blocks`) -/
def blockLen (c : ConeSpec) : Nat :=
  if c.hsIsDiagonal then c.numel else c.numel * (c.numel + 1) / 2

end ConeSpec

/-- start offsets of consecutive ranges of the given lengths (`make_rng_cones`,
`make_rng_blocks`: the range of item `i` is `starts[i] .. starts[i] + len i`) -/
def rangeStarts (lens : List Nat) : List Nat := Csc.exclusiveCumsum lens

def rngConesStart (cones : List ConeSpec) : List Nat := rangeStarts (cones.map ConeSpec.numel)
def rngBlocksStart (cones : List ConeSpec) : List Nat := rangeStarts (cones.map ConeSpec.blockLen)

/-- `SparseExpansionMap` -/
inductive SparseMap where
  | soc (u v : Array Nat) (D : Array Nat)
  | genpow (p q r : Array Nat) (D : Array Nat)
  deriving Repr, BEq, Inhabited

namespace SparseMap
def pdim : SparseMap → Nat
  | soc .. => 2
  | genpow .. => 3
def nnzVec : SparseMap → Nat
  | soc _ v _ => 2 * v.size
  | genpow p q r _ => p.size + q.size + r.size
def dsigns : SparseMap → List Int
  | soc .. => [-1, 1]
  | genpow .. => [-1, -1, 1]
end SparseMap

/-- `expansion_map` of a sparse-expandable cone -/
def expansionMap : ConeSpec → Option SparseMap
  | .soc d => if d > socNoExpansionMaxSize then
      some (.soc (Array.replicate d 0) (Array.replicate d 0) (Array.replicate 2 0)) else none
  | .genpow a b =>
      some (.genpow (Array.replicate (a + b) 0) (Array.replicate a 0) (Array.replicate b 0) (Array.replicate 3 0))
  | _ => none

/-- `LDLDataMap` -/
structure LDLDataMap where
  P : Array Nat
  A : Array Nat
  Hsblocks : Array Nat
  sparse_maps : Array SparseMap
  diagP : Array Nat
  diag_full : Array Nat
  deriving Repr, BEq, Inhabited

def pdimAll (maps : Array SparseMap) : Nat := maps.toList.foldl (fun acc mp => acc + mp.pdim) 0
def nnzVecAll (maps : Array SparseMap) : Nat := maps.toList.foldl (fun acc mp => acc + mp.nnzVec) 0

/-- `allocate_kkt_Hsblocks` (length only) -/
def hsblocksLen (cones : List ConeSpec) : Nat := (cones.map ConeSpec.blockLen).foldl (· + ·) 0

variable {α : Type}

/-- `LDLDataMap::new` -/
def LDLDataMap.new (P A : Csc α) (cones : List ConeSpec) : LDLDataMap :=
  let sparse_maps := (cones.filterMap expansionMap).toArray
  { P := Array.replicate P.nnz 0
    A := Array.replicate A.nnz 0
    Hsblocks := Array.replicate (hsblocksLen cones) 0
    sparse_maps
    diagP := Array.replicate P.m 0
    diag_full := Array.replicate (A.m + P.m + pdimAll sparse_maps) 0 }

open Csc

/-- `csc_colcount_sparsecone` -/
def colcountSparsecone (c : ConeSpec) (K : Csc α) (row col : Nat) (shape : MatrixTriangle) : MErr (Csc α) :=
  match c with
  | .soc nvars => do
    let K ← match shape with
      | .triu => do
        let K ← colcountColvec K nvars row col
        colcountColvec K nvars row (col + 1)
      | .tril => do
        let K ← colcountRowvec K nvars col row
        colcountRowvec K nvars (col + 1) row
    colcountDiag K col 2
  | .genpow dim1 dim2 => do
    let nvars := dim1 + dim2
    let K ← match shape with
      | .triu => do
        let K ← colcountColvec K dim1 row col
        let K ← colcountColvec K dim2 (row + dim1) (col + 1)
        colcountColvec K nvars row (col + 2)
      | .tril => do
        let K ← colcountRowvec K dim1 col row
        let K ← colcountRowvec K dim2 (col + 1) (row + dim1)
        colcountRowvec K nvars (col + 2) row
    colcountDiag K col 3
  | _ => throw (.panic "to_sparse_expansion().unwrap()")

/-- `_kkt_assemble_colcounts` -/
def kktAssembleColcounts (K : Csc α) (P A : Csc α) (cones : List ConeSpec) (shape : MatrixTriangle) :
    MErr (Csc α) := do
  let (m, n) := (A.m, A.n)
  let K : Csc α := { K with colptr := Array.replicate K.colptr.size 0 }
  let K ← match shape with
    | .triu => do
      let K ← colcountBlock K P 0 .N
      let K ← colcountMissingDiag K P 0
      colcountBlock K A n .T
    | .tril => do
      let K ← colcountMissingDiag K P 0
      let K ← colcountBlock K P 0 .T
      colcountBlock K A 0 .N
  let r ← (cones.zip (rngConesStart cones)).foldlM (fun (st : Csc α × Nat) cs => do
    let (K, pcol) := st
    let (cone, start) := cs
    let row := start + n
    let blockdim := cone.numel
    let K ← if cone.hsIsDiagonal then colcountDiag K row blockdim
            else colcountDenseTriangle K row blockdim shape
    if cone.isSparseExpandable then
      let K ← colcountSparsecone cone K row pcol shape
      pure (K, pcol + (if let .soc _ := cone then 2 else 3))
    else pure (K, pcol)) (K, m + n)
  pure r.1

variable [OfNat α 0]

/-- `csc_fill_sparsecone` -/
def fillSparsecone (mp : SparseMap) (dim1 : Nat) (K : Csc α) (row col : Nat) (shape : MatrixTriangle) :
    MErr (Csc α × SparseMap) :=
  match mp with
  | .soc u v D => do
    -- note v is the first extra row/column, u is second
    let (K, v, u) ← match shape with
      | .triu => do
        let (K, v) ← fillColvec K v row col
        let (K, u) ← fillColvec K u row (col + 1)
        pure (K, v, u)
      | .tril => do
        let (K, v) ← fillRowvec K v col row
        let (K, u) ← fillRowvec K u (col + 1) row
        pure (K, v, u)
    let (K, D) ← fillDiag K D col 2
    pure (K, .soc u v D)
  | .genpow p q r D => do
    let (K, q, r, p) ← match shape with
      | .triu => do
        let (K, q) ← fillColvec K q row col
        let (K, r) ← fillColvec K r (row + dim1) (col + 1)
        let (K, p) ← fillColvec K p row (col + 2)
        pure (K, q, r, p)
      | .tril => do
        let (K, q) ← fillRowvec K q col row
        let (K, r) ← fillRowvec K r (col + 1) (row + dim1)
        let (K, p) ← fillRowvec K p (col + 2) row
        pure (K, q, r, p)
    let (K, D) ← fillDiag K D col 3
    pure (K, .genpow p q r D)

/-- write `block` back into `xs[start ..]` -/
def spliceAt (xs : Array Nat) (start : Nat) (block : Array Nat) : Array Nat :=
  (block.toList.zipIdx).foldl (fun (acc : Array Nat) p => acc.set! (start + p.2) p.1) xs

structure FillState (α : Type) where
  K : Csc α
  Hsblocks : Array Nat
  maps : Array SparseMap
  pcol : Nat
  nextSparse : Nat

/-- `_kkt_assemble_fill` -/
def kktAssembleFill (K : Csc α) (P A : Csc α) (cones : List ConeSpec) (map : LDLDataMap)
    (shape : MatrixTriangle) : MErr (Csc α × LDLDataMap) := do
  let (m, n) := (A.m, A.n)
  let K := colcountToColptr K
  let (K, mapP, mapA) ← match shape with
    | .triu => do
      let (K, mapP) ← fillBlock K P map.P 0 0 .N
      let K ← fillMissingDiag K P 0
      let (K, mapA) ← fillBlock K A map.A 0 n .T
      pure (K, mapP, mapA)
    | .tril => do
      let K ← fillMissingDiag K P 0
      let (K, mapP) ← fillBlock K P map.P 0 0 .T
      let (K, mapA) ← fillBlock K A map.A n 0 .N
      pure (K, mapP, mapA)
  let st ← (cones.zip ((rngConesStart cones).zip (rngBlocksStart cones))).foldlM
    (fun (st : FillState α) cs => do
      let (cone, start, bstart) := cs
      let row := start + n
      let blockdim := cone.numel
      let block := st.Hsblocks.extract bstart (bstart + cone.blockLen)
      let (K, block) ← if cone.hsIsDiagonal then fillDiag st.K block row blockdim
                       else fillDenseTriangle st.K block row blockdim shape
      let Hsblocks := spliceAt st.Hsblocks bstart block
      if cone.isSparseExpandable then
        let thismap ← getE st.maps st.nextSparse "sparse_map_iter.next().unwrap()"
        let dim1 := match cone with
          | .genpow a _ => a
          | _ => 0
        let (K, newmap) ← fillSparsecone thismap dim1 K row st.pcol shape
        let maps ← setE st.maps st.nextSparse newmap
        pure { K, Hsblocks, maps, pcol := st.pcol + thismap.pdim, nextSparse := st.nextSparse + 1 }
      else pure { st with K, Hsblocks })
    { K, Hsblocks := map.Hsblocks, maps := map.sparse_maps, pcol := m + n, nextSparse := 0 }
  let K ← backshiftColptrs st.K
  -- the index of the full diagonal
  let cp := K.colptr.toList
  let (diag_full, diagP) ← match shape with
    | .triu => do
      -- matrix is triu, so the diagonal is last in each column
      let src := cp.drop 1
      if src.length != map.diag_full.size then throw (.panic "copy_from_slice: diag_full length")
      if src.any (· == 0) then throw (.panic "diag_full: subtraction underflows")
      let srcP := (cp.drop 1).take n
      if srcP.length != n || n != map.diagP.size then throw (.panic "copy_from_slice: diagP length")
      pure ((src.map (· - 1)).toArray, (srcP.map (· - 1)).toArray)
    | .tril => do
      -- matrix is tril, so the diagonal is first in each column
      let src := cp.dropLast
      if src.length != map.diag_full.size then throw (.panic "copy_from_slice: diag_full length")
      let srcP := cp.take n
      if srcP.length != n || n != map.diagP.size then throw (.panic "copy_from_slice: diagP length")
      pure (src.toArray, srcP.toArray)
  pure (K, { P := mapP, A := mapA, Hsblocks := st.Hsblocks, sparse_maps := st.maps, diagP, diag_full })

/-- closed form used for the allocation in `assemble_kkt_matrix` -/
def nnzKKT (P A : Csc α) (cones : List ConeSpec) (nnzDiagP : Nat) : Nat :=
  let maps := (cones.filterMap expansionMap).toArray
  P.nnz + A.n - nnzDiagP + A.nnz + hsblocksLen cones + nnzVecAll maps + pdimAll maps

/-- `assemble_kkt_matrix` -/
def assembleKktMatrix (P A : Csc α) (cones : List ConeSpec) (shape : MatrixTriangle) :
    MErr (Csc α × LDLDataMap) := do
  let map := LDLDataMap.new P A cones
  let (m, n) := (A.m, A.n)
  let p := pdimAll map.sparse_maps
  -- NB: user provided P is always triu regardless of the target shape
  let nnzDiagP ← P.countDiagonalEntries .triu
  let _ ← getE P.colptr P.n "P.nnz()"
  let _ ← getE A.colptr A.n "A.nnz()"
  if P.nnz + n < nnzDiagP then throw (.panic "nnzKKT: subtraction underflows")
  let K : Csc α := spalloc (m + n + p) (m + n + p) (nnzKKT P A cones nnzDiagP)
  let K ← kktAssembleColcounts K P A cones shape
  kktAssembleFill K P A cones map shape

/-- `_fill_signs` applied to `vec![1; n+m+p]` -/
def fillSigns (m n : Nat) (maps : Array SparseMap) : MErr (Array Int) := do
  let p := pdimAll maps
  let signs : Array Int := Array.replicate (n + m + p) 1
  -- signs[n..(n+m)] *= -1
  let signs := (List.range m).foldl (fun (s : Array Int) i => s.set! (n + i) (-(s.getD (n + i) 0))) signs
  let r ← maps.toList.foldlM (fun (st : Array Int × Nat) mp => do
    let (s, p) := st
    if p + mp.pdim > s.size then throw (.panic "_fill_signs: range")
    let s := (mp.dsigns.zipIdx).foldl (fun (s : Array Int) q => s.set! (p + q.2) q.1) s
    pure (s, p + mp.pdim)) (signs, m + n)
  pure r.1

-- ------------------------------------------------------------------------------------
-- values: `update`, `regularize_and_refactor`

/-- The scaling data of one cone as held by the implementation after `update_scaling`
(inputs of the model; how they are computed from `(s,z)` is the business of C13/C14). -/
inductive ConeScaling (α : Type) where
  | zero (dim : Nat)
  | nonneg (w : Array α)
  | socDense (w : Array α) (η : α)
  | socSparse (dim : Nat) (η : α) (u v : Array α) (d : α)
  /-- exponential / power / PSD cones: the packed-triu `Hs` as the cone reports it -/
  | dense (Hs : Array α)
  | genpow (μ : α) (p q r d1 : Array α) (d2 : α)
  deriving Inhabited

section values
variable [Add α] [Sub α] [Mul α] [Div α] [Neg α] [OfNat α 1] [LT α] [DecidableLT α] [FloatLike α]

/-- `get_Hs` of one cone -/
def getHs : ConeScaling α → MErr (Array α)
  | .zero dim => pure (Array.replicate dim 0)
  | .nonneg w => pure (w.map (fun wi => wi * wi))
  | .socDense w η => do
    let two : α := 1 + 1
    let sqrt2 : α := sqrt two
    let w0 ← getE w 0 "socone get_Hs: w[0]"
    let h0 := (sqrt2 * w0 - 1) * (sqrt2 * w0 + 1)
    let cols := (List.range (w.size - 1)).map (fun c =>
      let col := c + 1
      let wcol := w.getD col 0
      (List.range (col + 1)).map (fun row =>
        let e := two * w.getD row 0 * wcol
        if row == col then e + 1 else e))
    let H := (h0 :: cols.flatten).toArray
    let η2 := η * η
    pure (H.map (· * η2))
  | .socSparse dim η _ _ d =>
    let η2 := η * η
    let H := Array.replicate dim η2
    if dim == 0 then throw (.panic "socone get_Hs: Hsblock[0]")
    else pure (H.set! 0 (η2 * d))
  | .dense Hs => pure Hs
  | .genpow μ _ _ r d1 d2 =>
    -- `Hsblock[..dim1] = μ·d1`, `Hsblock[dim1..] = μ·d2` (`dim2 = r.len()`)
    pure (d1.map (fun d => μ * d) ++ Array.replicate r.size (μ * d2))

/-- `set_identity_scaling` of the symmetric cones the model covers (zero, nonnegative,
second-order): the scaling data the cone holds afterwards, whatever it held before.
`T::FRAC_1_SQRT_2()` is the double nearest to `1/√2`, which is `sqrt(1/2)` correctly rounded. -/
def identityScaling : ConeSpec → Option (ConeScaling α)
  | .zero d => some (.zero d)
  | .nonneg d => some (.nonneg (Array.replicate d 1))
  | .soc d =>
    if d > socNoExpansionMaxSize then
      let half : α := 1 / (1 + 1)
      some (.socSparse d 1 ((Array.replicate d 0).set! 0 (sqrt half)) (Array.replicate d 0) half)
    else
      some (.socDense ((Array.replicate d 0).set! 0 1) 1)
  | _ => none

/-- `_update_values_KKT` (`zip` truncates; the index panics) -/
def updateValuesKKT (nz : Array α) (index : Array Nat) (values : Array α) : MErr (Array α) :=
  (index.toList.zip values.toList).foldlM (fun (a : Array α) p => setE a p.1 p.2 "KKT.nzval[idx]") nz

/-- `_scale_values_KKT` -/
def scaleValuesKKT (nz : Array α) (index : Array Nat) (scale : α) : MErr (Array α) :=
  index.toList.foldlM (fun (a : Array α) i => do
    let v ← getE a i "KKT.nzval[idx]"
    setE a i (v * scale)) nz

/-- `csc_update_sparsecone` -/
def updateSparsecone (nz : Array α) (mp : SparseMap) (c : ConeScaling α) : MErr (Array α) :=
  match mp, c with
  | .soc mu mv mD, .socSparse _ η u v _ => do
    let η2 := η * η
    let nz ← updateValuesKKT nz mu u
    let nz ← updateValuesKKT nz mv v
    let nz ← scaleValuesKKT nz mu (-η2)
    let nz ← scaleValuesKKT nz mv (-η2)
    updateValuesKKT nz mD #[-η2, η2]
  | .genpow mp mq mr mD, .genpow μ p q r _ _ => do
    let sqrtμ := sqrt μ
    let nz ← updateValuesKKT nz mq q
    let nz ← updateValuesKKT nz mr r
    let nz ← updateValuesKKT nz mp p
    let nz ← scaleValuesKKT nz mq (-sqrtμ)
    let nz ← scaleValuesKKT nz mr (-sqrtμ)
    let nz ← scaleValuesKKT nz mp (-sqrtμ)
    updateValuesKKT nz mD #[-1, -1, 1]
  | _, _ => throw (.panic "recover_map")

def ConeScaling.isSparse : ConeScaling α → Bool
  | .socSparse .. | .genpow .. => true
  | _ => false

/-- `DirectLDLKKTSolver::update` up to (not including) `regularize_and_refactor`:
the new values of the solver's own KKT matrix. -/
def updateValues (nz : Array α) (map : LDLDataMap) (cones : List (ConeScaling α)) : MErr (Array α) := do
  -- cones.get_Hs(&mut self.Hsblocks); values.negate()
  let blocks ← cones.mapM getHs
  let values := (blocks.map Array.toList).flatten.toArray.map (fun v => -v)
  let nz ← updateValuesKKT nz map.Hsblocks values
  let r ← cones.foldlM (fun (st : Array α × Nat) c => do
    if c.isSparse then
      let thismap ← getE map.sparse_maps st.2 "sparse_map_iter.next().unwrap()"
      let nz ← updateSparsecone st.1 thismap c
      pure (nz, st.2 + 1)
    else pure st) (nz, 0)
  pure r.1

structure Regularized (α : Type) where
  /-- the solver's own KKT values after `regularize_and_refactor` -/
  nzval : Array α
  /-- the values handed to the LDL engine for the diagonal (`work2`) -/
  diagShifted : Array α
  /-- the true diagonal (`work1`) -/
  diagKkt : Array α
  eps : α

/-- `_compute_regularizer` -/
def computeRegularizer (diagKkt : Array α) (const prop : α) : α :=
  const + prop * Vec.normInf diagKkt

/-- the two writes of `regularize_and_refactor` around the (opaque) refactorisation:
returns also the KKT values *during* the factorisation (`nzFactor`). -/
def regularizeAndRestore (nz : Array α) (diagFull : Array Nat) (dsigns : Array Int)
    (enable : Bool) (const prop : α) : MErr (Regularized α × Array α) := do
  if !enable then
    pure ({ nzval := nz, diagShifted := #[], diagKkt := #[], eps := 0 }, nz)
  else
    -- diag_kkt .= KKT.nzval[map.diag_full]
    let diagKkt ← diagFull.toList.mapM (fun i => getE nz i "KKT.nzval[diag_full]")
    let diagKkt := diagKkt.toArray
    let eps := computeRegularizer diagKkt const prop
    let shifted := (diagKkt.toList.zipIdx).map (fun p =>
      match dsigns[p.2]? with
      | some s => if s == 1 then p.1 + eps else p.1 - eps
      | none => p.1)
    let shifted := shifted.toArray
    let nzFactor ← updateValuesKKT nz diagFull shifted
    -- refactor happens here on the LDL engine's own copy
    let nzval ← updateValuesKKT nzFactor diagFull diagKkt
    pure ({ nzval, diagShifted := shifted, diagKkt, eps }, nzFactor)

end values

end Kkt
end Clarabel
