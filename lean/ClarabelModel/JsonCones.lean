/-
  Model of the serde representation of `SupportedConeT<T>`
  (`src/solver/core/cones/supportedcone.rs`, `#[derive(Serialize, Deserialize)]` on an enum
  with tuple variants → serde's *externally tagged* form), as a pure encoder / decoder on a
  minimal JSON value type.  Read off files written by `save_to_file`:

      ZeroConeT(3)                      {"ZeroConeT":3}
      NonnegativeConeT(3)               {"NonnegativeConeT":3}
      SecondOrderConeT(3)               {"SecondOrderConeT":3}
      ExponentialConeT()                {"ExponentialConeT":[]}
      PowerConeT(0.5)                   {"PowerConeT":0.5}
      GenPowerConeT(vec![0.3,0.7], 2)   {"GenPowerConeT":[[0.3,0.7],2]}
      PSDTriangleConeT(3)               {"PSDTriangleConeT":3}          (feature `sdp`)

  and a cone list is the JSON array of these objects.

  Numbers stay opaque tokens (`JVal.num` carries the token text): `usize` payloads are
  decimal digit strings (`Nat.repr` / `String.toNat?`, range-checked against `usize::MAX`),
  float payloads go through the parameters `ftok : α → String` / `fparse : String → Option α`
  (serde_json's float printer and its `float_roundtrip` parser — library code).

  Domain of the decoder: what serde accepts for these shapes, except that an *integer* token
  in a float position (`{"PowerConeT":1}`, accepted by serde as `1.0`) is whatever `fparse`
  makes of it.
-/
import ClarabelModel.Collapse

namespace Clarabel
namespace JsonCones

/-- minimal JSON values; numbers are opaque tokens -/
inductive JVal where
  | null
  | bool (b : Bool)
  | num (tok : String)
  | str (s : String)
  | arr (xs : List JVal)
  | obj (kvs : List (String × JVal))
  deriving Inhabited

variable {α : Type}

/-- `usize::MAX + 1` -/
def usizeMod : Nat := 18446744073709551616

/-- a `usize` payload -/
def natTok (n : Nat) : JVal := .num (Nat.repr n)

/-- serde's `usize` from a JSON number: a plain digit string within range -/
def natOf : JVal → Option Nat
  | .num t =>
    match t.toNat? with
    | some n => if n < usizeMod then some n else none
    | none => none
  | _ => none

section enc
variable (ftok : α → String)

/-- `Serialize for SupportedConeT<T>` -/
def encodeCone : ConeT α → JVal
  | .zero n => .obj [("ZeroConeT", natTok n)]
  | .nonneg n => .obj [("NonnegativeConeT", natTok n)]
  | .soc n => .obj [("SecondOrderConeT", natTok n)]
  | .exp => .obj [("ExponentialConeT", .arr [])]
  | .pow a => .obj [("PowerConeT", .num (ftok a))]
  | .genpow αs dim2 =>
    .obj [("GenPowerConeT", .arr [.arr (αs.toList.map (fun a => .num (ftok a))), natTok dim2])]
  | .psd n => .obj [("PSDTriangleConeT", natTok n)]

/-- `Serialize for Vec<SupportedConeT<T>>` -/
def encodeCones (cs : List (ConeT α)) : JVal := .arr (cs.map (encodeCone ftok))

end enc

section dec
variable (fparse : String → Option α)

/-- a float payload -/
def floatOf : JVal → Option α
  | .num t => fparse t
  | _ => none

/-- payload of `GenPowerConeT`: a two-element sequence `[[α…], dim2]` -/
def genpowOf : JVal → Option (ConeT α)
  | .arr [.arr as, d] =>
    match as.mapM (floatOf fparse), natOf d with
    | some αs, some dim2 => some (.genpow αs.toArray dim2)
    | _, _ => none
  | _ => none

/-- payload of `ExponentialConeT`: the empty sequence -/
def expOf : JVal → Option (ConeT α)
  | .arr [] => some .exp
  | _ => none

/-- `Deserialize for SupportedConeT<T>`: a single-key object whose key is the variant name
(`sdp`: is `PSDTriangleConeT` a known variant?) -/
def decodeCone (sdp : Bool) : JVal → Option (ConeT α)
  | .obj [(tag, v)] =>
    if tag == "ZeroConeT" then (natOf v).map .zero
    else if tag == "NonnegativeConeT" then (natOf v).map .nonneg
    else if tag == "SecondOrderConeT" then (natOf v).map .soc
    else if tag == "ExponentialConeT" then expOf v
    else if tag == "PowerConeT" then (floatOf fparse v).map .pow
    else if tag == "GenPowerConeT" then genpowOf fparse v
    else if sdp && tag == "PSDTriangleConeT" then (natOf v).map .psd
    else none
  | _ => none

/-- `Deserialize for Vec<SupportedConeT<T>>` -/
def decodeCones (sdp : Bool) : JVal → Option (List (ConeT α))
  | .arr xs => xs.mapM (decodeCone fparse sdp)
  | _ => none

end dec

/-- the natural-number payloads of a cone are `usize` values -/
def coneFits : ConeT α → Bool
  | .zero n => decide (n < usizeMod)
  | .nonneg n => decide (n < usizeMod)
  | .soc n => decide (n < usizeMod)
  | .exp => true
  | .pow _ => true
  | .genpow _ dim2 => decide (dim2 < usizeMod)
  | .psd n => decide (n < usizeMod)

end JsonCones
end Clarabel
