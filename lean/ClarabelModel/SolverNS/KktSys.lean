/-
  Whole-solver model with nonsymmetric cones, part 3: `DefaultKKTSystem`
  (`src/solver/implementations/default/kktsystem.rs`): `new`, `update`, `solve` over the
  composite cone of `SolverNS/Cones.lean`.

  The object, `solve_constant_rhs` and `solve_initial_point` do not look at the cones and are
  the definitions of `ClarabelModel/Solver/KktSys.lean`, reused unchanged; `solve` is the same
  sequence of operations as `Solver.KktSys.solve` with this file's `Δs_from_Δz_offset` /
  `mul_Hs` (for the nonsymmetric cones `Hs = μ·H(z)` or the primal–dual scaling matrix).
-/
import ClarabelModel.SolverNS.KktSolver
import ClarabelModel.Solver.KktSys

namespace Clarabel
namespace SolverNS

open Residuals (Vars)
open Solver (KktSys LinSettings StepDirection copyInto axpbyE waxpbyE)

variable {α : Type}

section
variable [Add α] [Sub α] [Mul α] [Div α] [Neg α] [LT α] [LE α] [DecidableLT α] [DecidableLE α]
  [BEq α] [OfNat α 0] [OfNat α 1] [OfNat α 2] [OfNat α 3] [OfNat α 4] [OfScientific α] [FloatLike α]

/-- `DefaultKKTSystem::new(data, cones, settings)` -/
def kktSysNew (data : ProblemData α) (cones : List (ConeSt α)) (st : LinSettings α)
    (perm : Array Nat) : MErr (KktSys α) := do
  let (m, n) := (data.m, data.n)
  let kktsolver ← kktSolverNew data.P data.A cones m n st perm
  let zx : Array α := Array.replicate n 0
  let zz : Array α := Array.replicate m 0
  pure { kktsolver, x1 := zx, z1 := zz, x2 := zx, z2 := zz, workx := zx, workz := zz, workConic := zz }

/-- `KKTSystem::update(data, cones, settings)` -/
def kktSysUpdate (S : KktSys α) (data : ProblemData α) (cones : List (ConeSt α))
    (st : LinSettings α) : MErr (Bool × KktSys α) := do
  let (ok, K) ← kktSolverUpdate S.kktsolver cones st
  let S := { S with kktsolver := K }
  if !ok then pure (false, S) else S.solveConstantRhs data st

/-- `KKTSystem::solve(lhs, rhs, data, variables, cones, step_direction, settings)`:
`(is_success, lhs afterwards, system afterwards)`.  On failure of the linear solve `lhs`
is returned unchanged. -/
def kktSysSolve (S : KktSys α) (lhs rhs : Vars α) (data : ProblemData α) (vars : Vars α)
    (cones : List (ConeSt α)) (dir : StepDirection) (st : LinSettings α) :
    MErr (Bool × Vars α × KktSys α) := do
  let workx ← copyInto S.workx rhs.x "workx"
  -- Δs_const_term (work_conic)
  let dsConst ← match dir with
    | .affine => copyInto S.workConic vars.s "work_conic"
    | .combined => dsFromDzOffset cones S.workConic rhs.s vars.z
  let workz ← waxpbyE S.workz.size 1 dsConst (-(1 : α)) rhs.z "workz"
  let K ← S.kktsolver.setrhs workx workz
  let (ok, lx, lz, K) ← K.solve st
  let S := { S with workx, workz, workConic := dsConst, kktsolver := K }
  if !ok then pure (false, lhs, S) else
  let x1 ← copyInto S.x1 lx "x1"
  let z1 ← copyInto S.z1 lz "z1"
  let (x2, z2) := (S.x2, S.z2)
  -- ξ = (1/τ)·x + 0·workx
  let ξ ← axpbyE ((1 : α) / vars.τ) vars.x 0 workx "ξ"
  let ξPx1 ← KktSystem.quadForm data.P ξ x1
  let tauNum := KktSystem.tauNum rhs.τ rhs.κ vars.τ (Vec.dot data.q x1) (Vec.dot data.b z1) ξPx1
  -- ξ − x2 = (−1)·x2 + 1·ξ
  let ξm ← axpbyE (-(1 : α)) x2 1 ξ "ξ_minus_x2"
  let qfξm ← KktSystem.quadForm data.P ξm ξm
  let qfx2 ← KktSystem.quadForm data.P x2 x2
  let tauDen := KktSystem.tauDen vars.κ vars.τ (Vec.dot data.q x2) (Vec.dot data.b z2) qfξm qfx2
  let dτ := tauNum / tauDen
  let dx ← waxpbyE lhs.x.size 1 x1 dτ x2 "lhs.x"
  let dz ← waxpbyE lhs.z.size 1 z1 dτ z2 "lhs.z"
  -- cones.mul_Hs(&mut lhs.s, &lhs.z, workz); lhs.s = −(lhs.s + Δs_const_term)
  let hs ← mulHs cones lhs.s dz
  let ds ← axpbyE (-(1 : α)) dsConst (-(1 : α)) hs "lhs.s"
  let dκ := KktSystem.deltaKappa rhs.κ vars.κ vars.τ dτ
  pure (true, { x := dx, s := ds, z := dz, τ := dτ, κ := dκ },
        { S with x1, z1, workx := ξm })

end

end SolverNS
end Clarabel
