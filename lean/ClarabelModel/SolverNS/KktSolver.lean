/-
  Whole-solver model with nonsymmetric cones, part 2: `DirectLDLKKTSolver`
  (`src/solver/core/kktsolvers/direct/quasidef/directldlkktsolver.rs`) for a composite that
  may contain exponential / power / generalised power cones.

  The solver object, `_update_values`, `_scale_values`, `regularize_and_refactor`, `setrhs`,
  `solve`, `iterative_refinement` do not look at the cones: they are the definitions of
  `ClarabelModel/Solver/KktSolver.lean`, reused unchanged.  Modelled here are the two places
  that do: `new` (assembly with dense 3×3 blocks and the generalised-power sparse expansion,
  `Kkt.assembleKktMatrix`, C11) and `update` (`get_Hs` of every cone, `csc_update_sparsecone`
  of the sparse second-order and of the generalised power cones).
-/
import ClarabelModel.SolverNS.Cones
import ClarabelModel.Solver.KktSolver

namespace Clarabel
namespace SolverNS

open Solver (KktSolver LinSettings unwrapQdldl)

variable {α : Type}

section
variable [Add α] [Sub α] [Mul α] [Div α] [Neg α] [LT α] [LE α] [DecidableLT α] [DecidableLE α]
  [BEq α] [OfNat α 0] [OfNat α 1] [OfNat α 2] [OfNat α 3] [OfNat α 4] [OfScientific α] [FloatLike α]

/-- `DirectLDLKKTSolver::new` with `direct_solve_method = "qdldl"` (same steps as
`Solver.KktSolver.new`, on the cone specs of this model) -/
def kktSolverNew (P A : Csc α) (cones : List (ConeSt α)) (m n : Nat) (st : LinSettings α)
    (perm : Array Nat) : MErr (KktSolver α) := do
  let specs := cones.map ConeSt.kktSpec
  let (KKT, map) ← Kkt.assembleKktMatrix P A specs .triu
  let p := Kkt.pdimAll map.sparse_maps
  let zeros : Array α := Array.replicate (n + m + p) 0
  let dsigns ← Kkt.fillSigns m n map.sparse_maps
  let Hsblocks : Array α := Array.replicate (Kkt.hsblocksLen specs) 0
  -- `assert!(KKT.is_square())`
  if KKT.m != KKT.n then throw (.panic "KKT matrix is not square")
  let ldl ← unwrapQdldl "QDLDLFactorisation::new"
    (Qdldl.new KKT perm (some dsigns) true st.dynRegEps st.dynRegDelta true)
  pure { m, n, p, x := zeros, b := zeros, work1 := zeros, work2 := zeros, map, dsigns, Hsblocks,
         KKT, ldl, diagonalRegularizer := 0 }

/-- `csc_update_sparsecone` of a generalised power cone: the three dense columns `q, r, p`
scaled by `−√μ`, the diagonal of the expansion set to `(−1, −1, 1)` -/
def updateSparseGenpow (K : KktSolver α) (mp : Kkt.SparseMap) (c : GenPow.State α) :
    MErr (KktSolver α) :=
  match mp with
  | .genpow mpp mq mr mD => do
    let sqrtμ := sqrt c.mu
    let K ← K.updateValues mq c.D.q
    let K ← K.updateValues mr c.D.r
    let K ← K.updateValues mpp c.D.p
    let K ← K.scaleValues mq (-sqrtμ)
    let K ← K.scaleValues mr (-sqrtμ)
    let K ← K.scaleValues mpp (-sqrtμ)
    K.updateValues mD #[-1, -1, 1]
  | _ => throw (.panic "recover_map")

/-- `KKTSolver::update(cones, settings)` -/
def kktSolverUpdate (K : KktSolver α) (cones : List (ConeSt α)) (st : LinSettings α) :
    MErr (Bool × KktSolver α) := do
  -- cones.get_Hs(&mut self.Hsblocks); values.negate()
  let hs ← getHs cones
  if hs.size != K.Hsblocks.size then throw (.panic "get_Hs: Hsblock range")
  let values := Vec.negate hs
  let K := { K with Hsblocks := values }
  let K ← K.updateValues K.map.Hsblocks values
  let r ← cones.foldlM (fun (st : KktSolver α × Nat) c =>
    match c with
    | .sym (.soc sc) =>
      if sc.sparse.isSome then do
        let thismap ← getE st.1.map.sparse_maps st.2 "sparse_map_iter.next().unwrap()"
        let K ← st.1.updateSparseSoc thismap sc
        pure (K, st.2 + 1)
      else pure st
    | .genpow _ _ _ gc => do
      let thismap ← getE st.1.map.sparse_maps st.2 "sparse_map_iter.next().unwrap()"
      let K ← updateSparseGenpow st.1 thismap gc
      pure (K, st.2 + 1)
    | _ => pure st) (K, 0)
  r.1.regularizeAndRefactor st

end

end SolverNS
end Clarabel
