/-
  Whole-solver model with nonsymmetric cones, part 1: the live `CompositeCone` of a problem
  with zero / nonnegative / second-order / exponential / power / generalised power cones
  (`src/solver/core/cones/compositecone.rs`, `supportedcone.rs::make_cone`).

  Extension of `ClarabelModel/Solver/Cones.lean` (which is left untouched): a constituent
  cone is either one of the symmetric cones of that file (`.sym`, with that file's per-cone
  functions) or a nonsymmetric cone whose state is the component model's own structure
  (`Exp.State`, `Pow.State`, `GenPow.State`) and whose operations are the component model's
  functions (`Exp.*`, `Pow.*`, `GenPow.*`, C14/C15).  The composite versions cut the vectors
  into `rng_cones` and dispatch cone by cone in list order, as the Rust `zip(&cones,
  &rng_cones)` loops do.

  New here (not modelled before): `compute_barrier` of the zero, nonnegative and second-order
  cones (`zerocone.rs`, `nonnegativecone.rs`, `socone.rs::_soc_residual_shifted`) and the
  composite `compute_barrier`, `unit_initialization`, `is_symmetric`,
  `allows_primal_dual_scaling`.
-/
import ClarabelModel.Solver.Cones
import ClarabelModel.Cones.Exp
import ClarabelModel.Cones.Pow
import ClarabelModel.Cones.GenPow

namespace Clarabel
namespace SolverNS

open Nonsym (v3toArray v3ofArray? logsafe)

variable {α : Type}

/-- live state of one constituent cone (`SupportedCone<T>` without the PSD cone) -/
inductive ConeSt (α : Type) where
  /-- zero / nonnegative / second-order cone (state and operations of `Solver/Cones.lean`) -/
  | sym (c : Solver.ConeSt α)
  /-- `ExponentialCone` -/
  | exp (K : Exp.State α)
  /-- `PowerCone` with exponent `a` -/
  | pow (a : α) (K : Pow.State α)
  /-- `GenPowerCone`: exponents `al`, `dim2`, the constant `ψ = 1/Σ alᵢ²` and the mutable data -/
  | genpow (al : Array α) (dim2 : Nat) (ψ : α) (K : GenPow.State α)

namespace ConeSt

/-- `numel` -/
def numel : ConeSt α → Nat
  | .sym c => c.numel
  | .exp _ => 3
  | .pow _ _ => 3
  | .genpow al d2 _ _ => al.size + d2

/-- `degree` -/
def degree : ConeSt α → Nat
  | .sym c => c.degree
  | .exp _ => 3
  | .pow _ _ => 3
  | .genpow al _ _ _ => al.size + 1

/-- `is_symmetric` -/
def isSymmetric : ConeSt α → Bool
  | .sym _ => true
  | _ => false

/-- `allows_primal_dual_scaling` -/
def allowsPD : ConeSt α → Bool
  | .genpow .. => false
  | _ => true

/-- what the KKT assembly needs to know (`Kkt.ConeSpec`, C11) -/
def kktSpec : ConeSt α → Kkt.ConeSpec
  | .sym c => c.kktSpec
  | .exp _ => .exp
  | .pow _ _ => .pow
  | .genpow al d2 _ _ => .genpow al.size d2

/-- what margins / shifts need to know; `none` for the nonsymmetric cones, whose `margins` /
`scaled_unit_shift` are `unreachable!()` -/
def compSpec? : ConeSt α → Option Composite.Spec
  | .sym c => some c.compSpec
  | _ => none

end ConeSt

/-- `CompositeCone::is_symmetric` (`_is_symmetric`, the conjunction computed in `new`) -/
def isSymmetric (cones : List (ConeSt α)) : Bool := cones.all ConeSt.isSymmetric

/-- `CompositeCone::allows_primal_dual_scaling` -/
def allowsPD (cones : List (ConeSt α)) : Bool := cones.all ConeSt.allowsPD

def numelAll (cones : List (ConeSt α)) : Nat := (cones.map ConeSt.numel).foldl (· + ·) 0
def degreeAll (cones : List (ConeSt α)) : Nat := (cones.map ConeSt.degree).foldl (· + ·) 0

/-- cut `v` into the cones' ranges `rng_cones` (`&v[rng]`: a range past the end panics) -/
def cutE (cones : List (ConeSt α)) (v : Array α) (site : String) : MErr (List (Array α)) :=
  let rec go : List (ConeSt α) → Nat → MErr (List (Array α))
    | [], _ => pure []
    | c :: rest, start =>
      if start + c.numel > v.size then throw (.panic ("range end index out of range: " ++ site))
      else do
        let tl ← go rest (start + c.numel)
        pure (v.extract start (start + c.numel) :: tl)
  go cones 0

/-- write the per-cone results back over `v[rng_cones]`; entries past the last cone keep
their old value -/
def pasteBack (cones : List (ConeSt α)) (v : Array α) (parts : List (Array α)) : Array α :=
  parts.foldl (· ++ ·) #[] ++ v.extract (numelAll cones) v.size

/-- a slice of a 3-dimensional cone as a triple (the slice has length 3 by `cutE`) -/
def v3E (a : Array α) (site : String) : MErr (V3 α) :=
  match v3ofArray? a with
  | some v => pure v
  | none => throw (.panic ("3d cone slice: " ++ site))

section
variable [Add α] [Sub α] [Mul α] [Div α] [Neg α] [LT α] [LE α] [DecidableLT α] [DecidableLE α]
  [BEq α] [OfNat α 0] [OfNat α 1] [OfNat α 2] [OfNat α 3] [OfNat α 4] [OfScientific α] [FloatLike α]

/-- `ExponentialCone::new` / `PowerCone::new`: every stored quantity zero -/
def expInit : Exp.State α := ⟨Sym3.zeros, Sym3.zeros, (0, 0, 0), (0, 0, 0), false⟩
def powInit : Pow.State α := ⟨Sym3.zeros, Sym3.zeros, (0, 0, 0), (0, 0, 0), false⟩

/-- `make_cone`; the PSD cone is outside this model -/
def makeCone : ConeT α → MErr (ConeSt α)
  | .exp => pure (.exp expInit)
  | .pow a => pure (.pow a powInit)
  | .genpow al d2 => do
    let ψ ← GenPow.new al
    pure (.genpow al d2 ψ (GenPow.State.init al.size d2))
  | c => do pure (.sym (← Solver.makeCone c))

/-- `CompositeCone::new` -/
def makeCones (types : List (ConeT α)) : MErr (List (ConeSt α)) := types.mapM makeCone

/-- `CompositeCone::set_identity_scaling` (`unreachable!()` in the nonsymmetric cones) -/
def setIdentityScaling (cones : List (ConeSt α)) : MErr (List (ConeSt α)) :=
  cones.mapM (fun c => match c with
    | .sym c => pure (.sym (Solver.setIdentityScaling1 c))
    | _ => throw (.panic "unreachable: set_identity_scaling of a nonsymmetric cone"))

/-- `update_scaling(s, z, μ, scaling_strategy)` of one cone on its slices:
`(is_scaling_success, cone afterwards)`; `dual = true` is `ScalingStrategy::Dual` -/
def updateScaling1 (c : ConeSt α) (s z : Array α) (mu : α) (dual : Bool) : MErr (Bool × ConeSt α) :=
  match c with
  | .sym c => do
    let (ok, c') ← Solver.updateScaling1 c s z
    pure (ok, .sym c')
  | .exp _ => do
    let K' ← Exp.updateScaling (← v3E s "s") (← v3E z "z") mu dual
    pure (true, .exp K')
  | .pow a _ => do
    pure (true, .pow a (Pow.updateScaling a (← v3E s "s") (← v3E z "z") mu dual))
  | .genpow al d2 ψ K => do
    let (ok, K') ← GenPow.updateScaling al K z mu
    pure (ok, .genpow al d2 ψ K')

/-- `CompositeCone::update_scaling`: cone by cone, returning at the first failure (the
remaining cones keep their old scaling) -/
def updateScaling (cones : List (ConeSt α)) (s z : Array α) (mu : α) (dual : Bool) :
    MErr (Bool × List (ConeSt α)) := do
  let ss ← cutE cones s "update_scaling s"
  let zs ← cutE cones z "update_scaling z"
  let rec go : List (ConeSt α) → List (Array α) → List (Array α) → MErr (Bool × List (ConeSt α))
    | c :: cs, si :: ss, zi :: zs => do
      let (ok, c') ← updateScaling1 c si zi mu dual
      if !ok then pure (false, c' :: cs)
      else do
        let (ok', cs') ← go cs ss zs
        pure (ok', c' :: cs')
    | cs, _, _ => pure (true, cs)
  go cones ss zs

/-- `get_Hs` of one cone (block of length `rng_blocks[i].len()`) -/
def getHs1 : ConeSt α → MErr (Array α)
  | .sym c => Solver.getHs1 c
  | .exp K => pure K.Hs.toArray
  | .pow _ K => pure K.Hs.toArray
  | .genpow _ d2 _ K => pure (GenPow.getHs K.D K.mu d2)

/-- `CompositeCone::get_Hs` (the concatenated blocks) -/
def getHs (cones : List (ConeSt α)) : MErr (Array α) := do
  let blocks ← cones.mapM getHs1
  pure (blocks.foldl (· ++ ·) #[])

/-- `CompositeCone::mul_Hs(y, x, work)`; `y` is the previous content of the output -/
def mulHs (cones : List (ConeSt α)) (y x : Array α) : MErr (Array α) := do
  let xs ← cutE cones x "mul_Hs x"
  let _ ← cutE cones y "mul_Hs y"
  let outs ← (cones.zip xs).mapM (fun p =>
    match p.1 with
    | .sym (.zero _) => pure (Zero.mulHs p.2)
    | .sym (.nonneg K) => Nonneg.mulHs K p.2
    | .sym (.soc K) => Soc.mulHs K p.2
    | .exp K => do pure (v3toArray (K.Hs.mul (← v3E p.2 "mul_Hs")))
    | .pow _ K => do pure (v3toArray (K.Hs.mul (← v3E p.2 "mul_Hs")))
    | .genpow al _ _ K => GenPow.mulHs K.D K.mu al.size p.2)
  pure (pasteBack cones y outs)

/-- `CompositeCone::affine_ds(ds, s)` (the nonsymmetric cones copy their slice of `s`) -/
def affineDs (cones : List (ConeSt α)) (ds s : Array α) : MErr (Array α) := do
  let dss ← cutE cones ds "affine_ds ds"
  let ss ← cutE cones s "affine_ds s"
  let outs ← (cones.zip (dss.zip ss)).mapM (fun p =>
    match p.1 with
    | .sym (.zero _) => pure (Zero.affineDs p.2.1)
    | .sym (.nonneg K) => Nonneg.affineDs K p.2.1.size
    | .sym (.soc K) => do
      let r ← Soc.affineDs K
      if r.size != p.2.1.size then throw (.panic "affine_ds: length") else pure r
    | _ => pure p.2.2)
  pure (pasteBack cones ds outs)

/-- `CompositeCone::combined_ds_shift(shift, step_z, step_s, σμ)` → `(shift, step_z, step_s)`.
Exponential / power cone: `shift = grad·σμ − η` with the third-order correction `η`
computed from the stored `H_dual`, `z`; generalised power cone: `shift = grad·σμ`. -/
def combinedDsShift (cones : List (ConeSt α)) (shift stepZ stepS : Array α) (σμ : α) :
    MErr (Array α × Array α × Array α) := do
  let shs ← cutE cones shift "combined_ds_shift shift"
  let zs ← cutE cones stepZ "combined_ds_shift step_z"
  let ss ← cutE cones stepS "combined_ds_shift step_s"
  let outs ← (cones.zip (shs.zip (zs.zip ss))).mapM (fun p =>
    match p.1 with
    | .sym (.zero _) => pure (Zero.combinedDsShift p.2.1, p.2.2.1, p.2.2.2)
    | .sym (.nonneg K) => Nonneg.combinedDsShift K p.2.2.1 p.2.2.2 σμ
    | .sym (.soc K) => Soc.combinedDsShift K p.2.2.1 p.2.2.2 σμ
    | .exp K => do
      let dz ← v3E p.2.2.1 "step_z"
      let ds ← v3E p.2.2.2 "step_s"
      pure (v3toArray (Exp.combinedDsShift K.Hdual K.grad K.z dz ds σμ), p.2.2.1, p.2.2.2)
    | .pow a K => do
      let dz ← v3E p.2.2.1 "step_z"
      let ds ← v3E p.2.2.2 "step_s"
      pure (v3toArray (Pow.combinedDsShift a K.Hdual K.grad K.z dz ds σμ), p.2.2.1, p.2.2.2)
    | .genpow _ _ _ K =>
      -- `shift.scalarop_from(|g| g * σμ, &grad)` (`grad` has the length of the cone)
      let sh := GenPow.combinedDsShift K.D p.2.2.1 p.2.2.2 σμ
      if sh.size != p.2.1.size then throw (.panic "genpow combined_ds_shift: length")
      else pure (sh, p.2.2.1, p.2.2.2))
  pure (pasteBack cones shift (outs.map (·.1)),
        pasteBack cones stepZ (outs.map (·.2.1)),
        pasteBack cones stepS (outs.map (·.2.2)))

/-- `CompositeCone::Δs_from_Δz_offset(out, ds, work, z)` (the nonsymmetric cones copy `ds`) -/
def dsFromDzOffset (cones : List (ConeSt α)) (out ds z : Array α) : MErr (Array α) := do
  let os ← cutE cones out "Δs_from_Δz_offset out"
  let dss ← cutE cones ds "Δs_from_Δz_offset ds"
  let zs ← cutE cones z "Δs_from_Δz_offset z"
  let outs ← (cones.zip (os.zip (dss.zip zs))).mapM (fun p =>
    match p.1 with
    | .sym (.zero _) => pure (Zero.dsFromDzOffset p.2.1)
    | .sym (.nonneg _) => Nonneg.dsFromDzOffset p.2.2.1 p.2.2.2
    | .sym (.soc K) => Soc.dsFromDzOffset K p.2.2.1 p.2.2.2
    | _ => pure p.2.2.1)
  pure (pasteBack cones out outs)

/-- the line-search settings the nonsymmetric cones read in `step_length`
(`linesearch_backtrack_step`, `min_terminate_step_length`) and the model's fuel for the
unbounded Rust `loop` of `backtrack_search` -/
structure LineSearch (α : Type) where
  step : α
  amin : α
  fuel : Nat

/-- the closures `Composite.stepLength` (C15) consumes -/
def stepFns (ls : LineSearch α) (cones : List (ConeSt α)) (dz ds z s : Array α) :
    MErr (List (Composite.ConeFn α)) := do
  let dzs ← cutE cones dz "step_length dz"
  let dss ← cutE cones ds "step_length ds"
  let zs ← cutE cones z "step_length z"
  let ss ← cutE cones s "step_length s"
  pure ((cones.zip (dzs.zip (dss.zip (zs.zip ss)))).map (fun p =>
    { symmetric := p.1.isSymmetric,
      stepLength := fun amax =>
        match p.1 with
        | .sym (.zero _) => pure (Zero.stepLength amax)
        | .sym (.nonneg _) => Nonneg.stepLength p.2.1 p.2.2.1 p.2.2.2.1 p.2.2.2.2 amax
        | .sym (.soc _) => Soc.stepLength p.2.1 p.2.2.1 p.2.2.2.1 p.2.2.2.2 amax
        | .exp _ => do
          Exp.stepLength (← v3E p.2.1 "dz") (← v3E p.2.2.1 "ds") (← v3E p.2.2.2.1 "z")
            (← v3E p.2.2.2.2 "s") ls.step ls.amin amax ls.fuel
        | .pow a _ => do
          Pow.stepLength a (← v3E p.2.1 "dz") (← v3E p.2.2.1 "ds") (← v3E p.2.2.2.1 "z")
            (← v3E p.2.2.2.2 "s") ls.step ls.amin amax ls.fuel
        | .genpow al _ _ _ =>
          GenPow.stepLength al p.2.1 p.2.2.1 p.2.2.2.1 p.2.2.2.2 ls.step ls.amin amax ls.fuel }))

/-- `CompositeCone::step_length(dz, ds, z, s, settings, αmax)` -/
def stepLength (ls : LineSearch α) (cones : List (ConeSt α)) (dz ds z s : Array α)
    (maxStepFraction amax : α) : MErr (α × α) := do
  let fns ← stepFns ls cones dz ds z s
  Composite.stepLength fns maxStepFraction amax

/-- `unit_initialization(z, s)` of one cone → `(z, s)` -/
def unitInit1 (c : ConeSt α) (z s : Array α) : MErr (Array α × Array α) :=
  match c with
  | .sym c => Composite.unitInit1 c.compSpec z s
  | .exp _ =>
    let u := v3toArray (Exp.unitInitialization : V3 α)
    pure (u, u)
  | .pow a _ =>
    let u := v3toArray (Pow.unitInitialization a)
    pure (u, u)
  | .genpow al d2 _ _ =>
    let u := GenPow.unitInitialization al d2
    pure (u, u)

/-- `CompositeCone::unit_initialization(z, s)` → `(z, s)` -/
def unitInitialization (cones : List (ConeSt α)) (z s : Array α) : MErr (Array α × Array α) := do
  let zs ← cutE cones z "unit_initialization z"
  let ss ← cutE cones s "unit_initialization s"
  let outs ← (cones.zip (zs.zip ss)).mapM (fun p => unitInit1 p.1 p.2.1 p.2.2)
  pure (pasteBack cones z (outs.map (·.1)), pasteBack cones s (outs.map (·.2)))

/-- `+∞` (`T::infinity()`) -/
def posInf : α := (1 : α) / 0

/-- `NonnegativeCone::compute_barrier`: `Σ logsafe((sᵢ+α dsᵢ)(zᵢ+α dzᵢ))`, exactly as the
code has it (the sum is *added*, not subtracted) -/
def nnBarrier (z s dz ds : Array α) (a : α) : MErr α :=
  if z.size != s.size || dz.size != z.size || ds.size != s.size then
    throw (.panic "nonneg compute_barrier: assert_eq length")
  else
    pure ((List.range z.size).foldl (fun acc i =>
      match s[i]?, ds[i]?, z[i]?, dz[i]? with
      | some si, some dsi, some zi, some dzi => acc + logsafe ((si + a * dsi) * (zi + a * dzi))
      | _, _, _, _ => acc) 0)

/-- `_soc_residual_shifted(z, dz, α)` -/
def socResidualShifted (z dz : Array α) (a : α) : MErr α := do
  let z0 ← getE z 0 "soc_residual_shifted: z[0]"
  let dz0 ← getE dz 0 "soc_residual_shifted: dz[0]"
  let x0 := z0 + a * dz0
  let zt := z.extract 1 z.size
  let dzt := dz.extract 1 dz.size
  let x1sq ← Vec.dotShiftedE zt zt dzt dzt a
  let x1norm := sqrt x1sq
  pure ((x0 - x1norm) * (x0 + x1norm))

/-- `SecondOrderCone::compute_barrier` -/
def socBarrier (z s dz ds : Array α) (a : α) : MErr α := do
  let resS ← socResidualShifted s ds a
  let resZ ← socResidualShifted z dz a
  if 0 < resS ∧ 0 < resZ then pure ((-(logsafe (resS * resZ))) * (0.5 : α))
  else pure posInf

/-- `compute_barrier(z, s, dz, ds, α)` of one cone -/
def computeBarrier1 (c : ConeSt α) (z s dz ds : Array α) (a : α) : MErr α :=
  match c with
  | .sym (.zero _) => pure 0
  | .sym (.nonneg _) => nnBarrier z s dz ds a
  | .sym (.soc _) => socBarrier z s dz ds a
  | .exp _ => do
    Exp.computeBarrier (← v3E z "z") (← v3E s "s") (← v3E dz "dz") (← v3E ds "ds") a
  | .pow al _ => do
    pure (Pow.computeBarrier al (← v3E z "z") (← v3E s "s") (← v3E dz "dz") (← v3E ds "ds") a)
  | .genpow al _ ψ _ => GenPow.computeBarrier al ψ z s dz ds a

/-- `CompositeCone::compute_barrier`: the left fold `barrier += cone.compute_barrier(..)` from 0 -/
def computeBarrier (cones : List (ConeSt α)) (z s dz ds : Array α) (a : α) : MErr α := do
  let zs ← cutE cones z "compute_barrier z"
  let ss ← cutE cones s "compute_barrier s"
  let dzs ← cutE cones dz "compute_barrier dz"
  let dss ← cutE cones ds "compute_barrier ds"
  (cones.zip (zs.zip (ss.zip (dzs.zip dss)))).foldlM (fun (acc : α) p => do
    let b ← computeBarrier1 p.1 p.2.1 p.2.2.1 p.2.2.2.1 p.2.2.2.2 a
    pure (acc + b)) 0

end

end SolverNS
end Clarabel
