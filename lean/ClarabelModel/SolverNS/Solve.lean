/-
  Whole-solver model with nonsymmetric cones, part 5: `DefaultSolver::new`
  (`implementations/default/solver.rs`) and `solve()` (`core/solver.rs`, followed line by line)
  for problems with zero / nonnegative / second-order / exponential / power / generalised power
  cones and the QDLDL backend.

  What the nonsymmetric path adds to `ClarabelModel/Solver/Solve.lean` (which is left untouched
  and stays the model the existing theorems are about):

    * `default_start`: `cones.is_symmetric()` false ⇒ `variables.unit_initialization(cones)`,
      no KKT call at all;
    * the loop-carried `scaling : ScalingStrategy` — `PrimalDual` when every cone allows it
      (exponential / power cones do, the generalised power cone does not), else `Dual` — and the
      three checkpoints that may switch it to `Dual` and `continue`:
      `strategy_checkpoint_insufficient_progress` (after rolling the iterate back),
      `strategy_checkpoint_numerical_error`, `strategy_checkpoint_small_step`
      (`α < min_switch_step_length`);
    * `scale_cones(cones, μ, scaling)`: the nonsymmetric cones compute `Hs` from `μ` and the strategy;
    * `get_step_length`: `calc_step_length`, and for the combined step under the `Dual` strategy
      `backtrack_step_to_barrier` (at most 50 contractions by `linesearch_backtrack_step`
      until `variables.barrier(step, α, cones) < 1`);
    * `combined_step_rhs` with the cones' `combined_ds_shift` (third-order correction).

  A problem whose cones are all symmetric runs through exactly the operations of the old model.

  External inputs: the AMD ordering `perm` of the KKT pattern, the clock (`time_limit = ∞`),
  and the model's fuel for the unbounded `loop` of `backtrack_search` (`btFuel`).
-/
import ClarabelModel.SolverNS.Vars
import ClarabelModel.Solver.Solve

namespace Clarabel
namespace SolverNS

open Residuals (Vars Resid)
open Info (InfoS SolverStatus)
open Solver (KktSys StepDirection varsNew varsCopyFrom addStep infoNew residNew equilView presolveMap)
open Loop (Scaling Checkpoint)

variable {α : Type}

/-- the `DefaultSettings` fields the modelled path reads: those of `Solver.Settings` plus the
three the nonsymmetric path adds -/
structure Settings (α : Type) extends Solver.Settings α where
  minSwitchStepLength : α
  linesearchBacktrackStep : α
  /-- model-only: fuel for the unbounded Rust `loop` of `backtrack_search` -/
  btFuel : Nat
  deriving Inhabited

/-- the line-search view of the settings (`step_length` of the nonsymmetric cones) -/
def Settings.ls (st : Settings α) : LineSearch α :=
  ⟨st.linesearchBacktrackStep, st.minTerminateStepLength, st.btFuel⟩

/-- `DefaultSolver<T>` without `solution` (see `Solver.SolverSt`) -/
structure SolverSt (α : Type) where
  data : ProblemData α
  variables : Vars α
  residuals : Resid α
  kktsystem : KktSys α
  cones : List (ConeSt α)
  stepLhs : Vars α
  stepRhs : Vars α
  prevVars : Vars α
  info : InfoS α
  infoMu : α
  infoSigma : α
  infoStepLength : α

/-- `DefaultSolver<T>` -/
structure Solver (α : Type) where
  st : SolverSt α
  solution : Unscale.Solution α

/-- what the observer hook records in one pass of the loop -/
structure PassRec (α : Type) where
  vars : Vars α
  mu : α
  sigma : α
  stepLength : α
  info : InfoS α
  dotBz : α
  dotQx : α
  /-- `(isdone, status)` after `check_termination` -/
  isdone : Bool
  status : SolverStatus
  /-- the scaling strategy at the top of the pass (`true` = `Dual`) -/
  dual : Bool
  /-- `strategy_checkpoint_insufficient_progress` (when `isdone`) -/
  ipCp : Option Checkpoint := none
  /-- `is_scaling_success` (when reached) -/
  scalingSuccess : Option Bool := none
  /-- `is_kkt_solve_success` handed to `strategy_checkpoint_numerical_error` -/
  kktSuccess : Option Bool := none
  /-- `strategy_checkpoint_numerical_error` -/
  neCp : Option Checkpoint := none
  alphaAff : Option α := none
  sigmaNew : Option α := none
  alpha : Option α := none
  /-- contractions made by `backtrack_step_to_barrier` (model only) -/
  backtracks : Option Nat := none
  /-- `strategy_checkpoint_small_step` -/
  smCp : Option Checkpoint := none

section
variable [Add α] [Sub α] [Mul α] [Div α] [Neg α] [LT α] [LE α] [DecidableLT α] [DecidableLE α]
  [BEq α] [OfNat α 0] [OfNat α 1] [OfNat α 2] [OfNat α 3] [OfNat α 4] [OfNat α 100] [OfNat α 1000]
  [OfScientific α] [FloatLike α]

/-- the internal problem data of `DefaultSolver::new`: `DefaultProblemData::new` (collapse,
presolve, cap) followed by `equilibrate` on the cones of the internal problem -/
def internalData (P : Csc α) (q : Array α) (A : Csc α) (b : Array α) (cones : List (ConeT α))
    (st : Settings α) : MErr (ProblemData α) := do
  let data ← ProblemData.new P q A b cones st.presolveEnable false st.infbound
  let K ← makeCones data.cones
  if numelAll K != data.m then throw (.panic "assert_eq!(cones.numel, data.m)")
  Equil.equilibrate data data.cones st.equil

/-- everything of `DefaultSolver::new` except `solution` -/
def SolverSt.new (P : Csc α) (q : Array α) (A : Csc α) (b : Array α) (cones : List (ConeT α))
    (st : Settings α) (perm : Array Nat) : MErr (SolverSt α) := do
  let data ← internalData P q A b cones st
  let K ← makeCones data.cones
  let kktsystem ← kktSysNew data K st.lin perm
  pure { data, variables := varsNew data.n data.m, residuals := residNew data.n data.m,
         kktsystem, cones := K,
         stepLhs := varsNew data.n data.m, stepRhs := varsNew data.n data.m,
         prevVars := varsNew data.n data.m, info := infoNew,
         infoMu := 0, infoSigma := 0, infoStepLength := 0 }

/-- `DefaultSolver::new(P, q, A, b, cones, settings)`; `perm` is the AMD ordering of the
assembled KKT matrix -/
def Solver.new (P : Csc α) (q : Array α) (A : Csc α) (b : Array α) (cones : List (ConeT α))
    (st : Settings α) (perm : Array Nat) : MErr (Solver α) := do
  Loop.checkDimensions P.m P.n q.size A.m A.n b.size (cones.map ConeT.nvars)
  let S ← SolverSt.new P q A b cones st perm
  pure { st := S, solution := Unscale.Solution.new A.n A.m }

/-- `default_start()`: the symmetric path (identity scaling, KKT update, `solve_initial_point`,
`symmetric_initialization`; the results of the two KKT calls are not checked by the Rust code
either) or — with a nonsymmetric cone — `unit_initialization` only -/
def SolverSt.defaultStart (S : SolverSt α) (st : Settings α) : MErr (SolverSt α) := do
  if isSymmetric S.cones then
    let cones ← setIdentityScaling S.cones
    let (_, kktsystem) ← kktSysUpdate S.kktsystem S.data cones st.lin
    let (_, variables, kktsystem) ← kktsystem.solveInitialPoint S.variables S.data st.lin
    let variables ← symmetricInitialization variables cones
    pure { S with cones, kktsystem, variables }
  else
    let variables ← varsUnitInitialization S.variables S.cones
    pure { S with variables }

/-- loop-carried locals of `solve()` together with the solver object -/
structure LoopSt (α : Type) where
  S : SolverSt α
  iter : Nat
  sigma : α
  alpha : α
  mu : α
  /-- `scaling` -/
  scaling : Scaling
  /-- passes so far, oldest first -/
  traj : List (PassRec α)

/-- `ScalingStrategy::Dual`? -/
def isDual : Scaling → Bool
  | .Dual => true
  | .PrimalDual => false

/-- the numerics at the top of a pass: `residuals.update`, `calc_mu`, `info.save_scalars`
(`iterations`), `info.update` → `(residuals, μ, info)` -/
def topNumerics (S : SolverSt α) (iter : Nat) : MErr (Resid α × α × InfoS α) := do
  let data := S.data
  let residuals ← Residuals.update S.residuals S.variables
    { P := data.P, q := data.q, A := data.A, b := data.b }
  let mu := Residuals.calcMu residuals S.variables (degreeAll S.cones)
  let eq := equilView data.equilibration
  let normq ← Info.getNormq data.normq data.q eq.dinv eq.c
  let normb ← Info.getNormb data.normb data.b eq.einv
  let info1 ← Info.update { S.info with iterations := iter } eq normq normb S.variables residuals
  pure (residuals, mu, info1)

/-- `backtrack_step_to_barrier(αinit)`: `for _ in 0..50 { if barrier(α) < 1 { return α } else
{ α = step·α } }`; returns `(α, number of contractions)` -/
def backtrackStepToBarrier (step : α) (v lhs : Vars α) (cones : List (ConeSt α)) :
    Nat → α → Nat → MErr (α × Nat)
  | 0, a, k => pure (a, k)
  | n + 1, a, k => do
    let b ← barrier v lhs a cones
    if b < 1 then pure (a, k) else backtrackStepToBarrier step v lhs cones n (step * a) (k + 1)

/-- `get_step_length(step_direction, scaling)` → `(α, barrier contractions)` -/
def getStepLength (st : Settings α) (S : SolverSt α) (cones : List (ConeSt α)) (dir : StepDirection)
    (scaling : Scaling) : MErr (α × Nat) := do
  let a ← calcStepLength st.ls S.variables S.stepLhs cones st.maxValue st.maxStepFraction dir
  if !(isSymmetric cones) && dir == .combined && isDual scaling then
    backtrackStepToBarrier st.linesearchBacktrackStep S.variables S.stepLhs cones 50 a 0
  else pure (a, 0)

/-- what the KKT stage of a pass produces -/
structure KktOut (α : Type) where
  S : SolverSt α
  /-- `is_kkt_solve_success` after the combined solve (or the failed update / affine solve) -/
  ok : Bool
  /-- `(α_aff, σ)` when the affine step succeeded -/
  aff : Option (α × α)

/-- the numerics between `iter += 1` and `strategy_checkpoint_numerical_error`:
`kktsystem.update`, `affine_step_rhs`, the affine solve and — only on its success — the
affine step length, `σ`, the Mehrotra factor `m`, `combined_step_rhs`, the combined solve -/
def kktNumerics (st : Settings α) (S : SolverSt α) (cones : List (ConeSt α)) (mu : α) (iter : Nat)
    (scaling : Scaling) : MErr (KktOut α) := do
  let data := S.data
  let (updOk, kktsystem) ← kktSysUpdate S.kktsystem data cones st.lin
  let stepRhs ← affineStepRhs S.stepRhs S.residuals S.variables cones
  let (affOk, stepLhs, kktsystem) ←
    if updOk then kktSysSolve kktsystem S.stepLhs stepRhs data S.variables cones .affine st.lin
    else pure (false, S.stepLhs, kktsystem)
  let S := { S with kktsystem, stepRhs, stepLhs }
  if affOk then
    let (aAff, _) ← getStepLength st S cones .affine scaling
    let sigma := Step.centeringParameter aAff
    let m := Step.mehrotraM iter aAff
    let (stepRhs, stepLhs) ← combinedStepRhs S.stepRhs S.residuals S.variables cones S.stepLhs sigma mu m
    let (combOk, stepLhs, kktsystem) ←
      kktSysSolve S.kktsystem stepLhs stepRhs data S.variables cones .combined st.lin
    pure { S := { S with kktsystem, stepRhs, stepLhs }, ok := combOk, aff := some (aAff, sigma) }
  else pure { S, ok := false, aff := none }

/-- `save_prev_iterate` (variables half) and `add_step` -/
def stepVars (S : SolverSt α) (a : α) : MErr (Vars α × Vars α) := do
  let prevVars ← varsCopyFrom S.prevVars S.variables
  let variables ← addStep S.variables S.stepLhs a
  pure (prevVars, variables)

/-- `!cones.is_symmetric() && scaling == PrimalDual`: the condition under which a checkpoint
answers `Update(Dual)` instead of failing -/
def canSwitch (cones : List (ConeSt α)) (scaling : Scaling) : Bool :=
  !(isSymmetric cones) && !(isDual scaling)

/-- one pass of `loop { … }`: `(true, _)` = next pass (fell through or `continue`),
`(false, _)` = `break` -/
def pass (st : Settings α) (L : LoopSt α) : MErr (Bool × LoopSt α) := do
  -- residuals.update, calc_mu, save_scalars, info.update
  let (residuals, mu, info1) ← topNumerics L.S L.iter
  -- check_termination (time_limit = ∞)
  let ct := Info.checkTermination info1 residuals.dot_bz residuals.dot_qx st.info L.iter false
  let rec0 : PassRec α :=
    { vars := L.S.variables, mu, sigma := L.sigma, stepLength := L.alpha, info := info1,
      dotBz := residuals.dot_bz, dotQx := residuals.dot_qx, isdone := ct.2, status := ct.1.status,
      dual := isDual L.scaling }
  let S : SolverSt α := { L.S with residuals, info := ct.1, infoMu := mu, infoSigma := L.sigma,
                                   infoStepLength := L.alpha }
  if ct.2 then
    -- strategy_checkpoint_insufficient_progress
    if ct.1.status != .insufficientProgress then
      pure (false, { L with S, mu, traj := L.traj ++ [{ rec0 with ipCp := some .NoUpdate }] })
    else
      -- reset_to_prev_iterate
      let variables ← varsCopyFrom S.variables S.prevVars
      let S := { S with info := Info.resetToPrev ct.1, variables }
      if canSwitch S.cones L.scaling then
        -- info.set_status(Unsolved); scaling = Dual; continue
        pure (true, { L with S := { S with info := { S.info with status := .unsolved } }, mu,
                             scaling := .Dual,
                             traj := L.traj ++ [{ rec0 with ipCp := some (.Update .Dual) }] })
      else
        pure (false, { L with S, mu, traj := L.traj ++ [{ rec0 with ipCp := some .Fail }] })
  else
  -- scale_cones / strategy_checkpoint_is_scaling_success
  let sc ← scaleCones S.variables S.cones mu (isDual L.scaling)
  let S := { S with cones := sc.2 }
  if !sc.1 then
    pure (false, { L with S := { S with info := { S.info with status := .numericalError } }, mu,
                          traj := L.traj ++ [{ rec0 with scalingSuccess := some false }] })
  else
  -- iter += 1; kktsystem.update, affine and combined solves
  let k ← kktNumerics st S sc.2 mu (L.iter + 1) L.scaling
  let sigma := match k.aff with
    | some p => p.2
    | none => L.sigma
  let rec3 : PassRec α :=
    { rec0 with scalingSuccess := some true, kktSuccess := some k.ok,
                alphaAff := k.aff.map (·.1), sigmaNew := k.aff.map (·.2) }
  -- strategy_checkpoint_numerical_error
  if !k.ok then
    if canSwitch sc.2 L.scaling then
      -- Update(Dual): α = 0; scaling = Dual; continue
      pure (true, { S := k.S, iter := L.iter + 1, sigma, alpha := 0, mu, scaling := .Dual,
                    traj := L.traj ++ [{ rec3 with neCp := some (.Update .Dual) }] })
    else
      pure (false, { S := { k.S with info := { k.S.info with status := .numericalError } },
                     iter := L.iter + 1, sigma, alpha := 0, mu, scaling := L.scaling,
                     traj := L.traj ++ [{ rec3 with neCp := some .Fail }] })
  else
  let (a, nbt) ← getStepLength st k.S sc.2 .combined L.scaling
  let rec4 := { rec3 with neCp := some .NoUpdate, alpha := some a, backtracks := some nbt }
  -- strategy_checkpoint_small_step
  if canSwitch sc.2 L.scaling && decide (a < st.minSwitchStepLength) then
    -- Update(Dual): α = 0; scaling = Dual; continue
    pure (true, { S := k.S, iter := L.iter + 1, sigma, alpha := 0, mu, scaling := .Dual,
                  traj := L.traj ++ [{ rec4 with smCp := some (.Update .Dual) }] })
  else if a ≤ fmax 0 st.minTerminateStepLength then
    pure (false, { S := { k.S with info := { k.S.info with status := .insufficientProgress } },
                   iter := L.iter + 1, sigma, alpha := 0, mu, scaling := L.scaling,
                   traj := L.traj ++ [{ rec4 with smCp := some .Fail }] })
  else
  -- save_prev_iterate, add_step
  let pv ← stepVars k.S a
  pure (true, { S := { k.S with info := Info.savePrev k.S.info, prevVars := pv.1, variables := pv.2 },
                iter := L.iter + 1, sigma, alpha := a, mu, scaling := L.scaling,
                traj := L.traj ++ [{ rec4 with smCp := some .NoUpdate }] })

/-- the `loop { … }` with a pass budget (`max_iter + 3` is never exhausted: at most `max_iter`
passes increment `iter`, at most one pass switches the strategy at the insufficient-progress
checkpoint without incrementing it, one pass leaves the loop) -/
def runLoop (st : Settings α) : Nat → LoopSt α → MErr (LoopSt α)
  | 0, _ => throw (.panic "model: pass budget exhausted")
  | fuel + 1, L => do
    let r ← pass st L
    if r.1 then runLoop st fuel r.2 else pure r.2

/-- the initial `scaling`: `PrimalDual` iff `cones.allows_primal_dual_scaling()` -/
def initScaling (cones : List (ConeSt α)) : Scaling :=
  if allowsPD cones then .PrimalDual else .Dual

/-- `info.reset`, `default_start()` and the loop -/
def SolverSt.runSolve (S : SolverSt α) (st : Settings α) : MErr (LoopSt α) := do
  -- info.reset
  let S := { S with info := { S.info with status := .unsolved, iterations := 0 } }
  let S ← S.defaultStart st
  runLoop st (st.info.max_iter + 3)
    { S, iter := 0, sigma := 1, alpha := 0, mu := 0, scaling := initScaling S.cones, traj := [] }

/-- the final `save_scalars` (`if α == 0`) and `info.post_process` -/
def finishInfo (st : Settings α) (L : LoopSt α) : SolverSt α :=
  let S := L.S
  let S := if L.alpha == 0 then
      { S with info := { S.info with iterations := L.iter }, infoMu := L.mu, infoSigma := L.sigma,
               infoStepLength := L.alpha }
    else S
  { S with info := Info.postProcess S.info S.residuals.dot_bz S.residuals.dot_qx st.info }

/-- everything after the loop: `(solver state, solution)` -/
def finish (st : Settings α) (L : LoopSt α) (sol : Unscale.Solution α) :
    MErr (SolverSt α × Unscale.Solution α) := do
  let S := finishInfo st L
  let r ← Unscale.postProcess sol (equilView S.data.equilibration) (presolveMap S.data) S.variables S.info
  pure ({ S with variables := r.2 }, r.1)

/-- result of a whole `solve()` -/
structure SolveResult (α : Type) where
  S : Solver α
  traj : List (PassRec α)

def SolveResult.passes (r : SolveResult α) : Nat := r.traj.length

/-- `solve()`.  The norm caches `data.normq` / `data.normb` that `Info.update` fills at the top of
every pass (`get_normq` / `get_normb`) are stored in the returned object once, after the loop
(`Solver.fillNorms`; see `Solver.solve` of `ClarabelModel/Solver/Solve.lean`). -/
def Solver.solve (S : Solver α) (st : Settings α) : MErr (SolveResult α) := do
  let L ← S.st.runSolve st
  let r ← finish st L S.solution
  -- the caches `Info.update` filled (`get_normq` / `get_normb`)
  let data ← Clarabel.Solver.fillNorms r.1.data
  pure { S := { st := { r.1 with data := data }, solution := r.2 }, traj := L.traj }

end

end SolverNS
end Clarabel
