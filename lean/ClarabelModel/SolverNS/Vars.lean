/-
  Whole-solver model with nonsymmetric cones, part 4: `DefaultVariables`
  (`src/solver/implementations/default/variables.rs`) over the composite cone of
  `SolverNS/Cones.lean`: `affine_step_rhs`, `combined_step_rhs`, `calc_step_length`,
  `symmetric_initialization`, `unit_initialization`, `scale_cones`, `barrier`.

  `new`, `copy_from`, `add_step` do not look at the cones: `Solver.varsNew`,
  `Solver.varsCopyFrom`, `Solver.addStep` are reused unchanged.
-/
import ClarabelModel.SolverNS.KktSys
import ClarabelModel.Solver.Vars

namespace Clarabel
namespace SolverNS

open Residuals (Vars Resid)
open Solver (StepDirection copyInto axpbyE waxpbyE)
open Nonsym (logsafe)

variable {α : Type}

section
variable [Add α] [Sub α] [Mul α] [Div α] [Neg α] [LT α] [LE α] [DecidableLT α] [DecidableLE α]
  [BEq α] [OfNat α 0] [OfNat α 1] [OfNat α 2] [OfNat α 3] [OfNat α 4] [OfScientific α] [FloatLike α]

/-- `affine_step_rhs(residuals, variables, cones)` applied to `self` -/
def affineStepRhs (self : Vars α) (r : Resid α) (vars : Vars α) (cones : List (ConeSt α)) :
    MErr (Vars α) := do
  let x ← copyInto self.x r.rx "rhs.x"
  let z ← copyInto self.z r.rz "rhs.z"
  let s ← affineDs cones self.s vars.s
  pure { x, z, s, τ := r.rτ, κ := vars.τ * vars.κ }

/-- `combined_step_rhs(residuals, variables, cones, step, σ, μ, m)` applied to `self`;
returns `(self, step)` -/
def combinedStepRhs (self : Vars α) (r : Resid α) (vars : Vars α) (cones : List (ConeSt α))
    (step : Vars α) (σ μ m : α) : MErr (Vars α × Vars α) := do
  let dotσμ := σ * μ
  let x ← axpbyE ((1 : α) - σ) r.rx 0 self.x "rhs.x"
  let τ := ((1 : α) - σ) * r.rτ
  let κ := -dotσμ + m * step.τ * step.κ + vars.τ * vars.κ
  -- `if m != 1 { step.z.scale(m) }`
  let stepz := if m < 1 ∨ 1 < m ∨ FloatLike.isNaN m then Vec.scale step.z m else step.z
  let (shift, stepz, steps) ← combinedDsShift cones self.z stepz step.s dotσμ
  -- self.s = 1·self.z + 1·self.s   (self.z holds the shift)
  let s ← axpbyE 1 shift 1 self.s "rhs.s"
  -- self.z = (1−σ)·rz + 0·self.z
  let z ← axpbyE ((1 : α) - σ) r.rz 0 shift "rhs.z"
  pure ({ x, s, z, τ, κ }, { step with z := stepz, s := steps })

/-- `calc_step_length(step, cones, settings, step_direction)`; `maxValue` is `T::max_value()`.
With a nonsymmetric cone in the composite `max_step_fraction` enters twice on the combined
step: inside `cones.step_length` (cap before the nonsymmetric cones) and as the final factor. -/
def calcStepLength (ls : LineSearch α) (vars step : Vars α) (cones : List (ConeSt α))
    (maxValue maxStepFraction : α) (dir : StepDirection) : MErr α := do
  let amax := Loop.Step.alphaMax vars.τ vars.κ step.τ step.κ maxValue
  let (az, as) ← stepLength ls cones step.z step.s vars.z vars.s maxStepFraction amax
  let a := fmin az as
  pure (if dir == .combined then a * maxStepFraction else a)

/-- `symmetric_initialization(cones)` (`margins` / `scaled_unit_shift` of a nonsymmetric cone
are `unreachable!()`; `default_start` only comes here when every cone is symmetric) -/
def symmetricInitialization (v : Vars α) (cones : List (ConeSt α)) : MErr (Vars α) := do
  let specs ← cones.mapM (fun c => match c.compSpec? with
    | some sp => pure sp
    | none => throw (.panic "unreachable: margins of a nonsymmetric cone"))
  let s ← Composite.shiftToConeInterior specs v.s true
  let z ← Composite.shiftToConeInterior specs v.z false
  pure { v with s, z, τ := 1, κ := 1 }

/-- `unit_initialization(cones)`: unit `(z, s)` cone by cone, `x = 0`, `τ = κ = 1` -/
def varsUnitInitialization (v : Vars α) (cones : List (ConeSt α)) : MErr (Vars α) := do
  let (z, s) ← unitInitialization cones v.z v.s
  pure { x := v.x.map (fun _ => 0), s, z, τ := 1, κ := 1 }

/-- `scale_cones(cones, μ, scaling_strategy)`; `dual = true` is `ScalingStrategy::Dual` -/
def scaleCones (v : Vars α) (cones : List (ConeSt α)) (mu : α) (dual : Bool) :
    MErr (Bool × List (ConeSt α)) :=
  updateScaling cones v.s v.z mu dual

/-- `barrier(step, α, cones)`: the barrier function of the homogeneous embedding at
`self + α·step` (central-path term, `−log τ − log κ`, the cones' barriers) -/
def barrier (v step : Vars α) (a : α) (cones : List (ConeSt α)) : MErr α := do
  let centralCoef : α := FloatLike.ofNat (degreeAll cones + 1)
  let curτ := v.τ + a * step.τ
  let curκ := v.κ + a * step.κ
  let sz ← Vec.dotShiftedE v.z v.s step.z step.s a
  let μ := (sz + curτ * curκ) / centralCoef
  let b := centralCoef * logsafe μ - logsafe curτ - logsafe curκ
  let cb ← computeBarrier cones v.z v.s step.z step.s a
  pure (b + cb)

end

end SolverNS
end Clarabel
