/-
  Whole-solver model with nonsymmetric cones, the NORM CACHES stored where the code stores them: the
  analogue of `ClarabelModel/Solver/SolveC.lean` for `ClarabelModel/SolverNS/Solve.lean`.

  `SolverNS.Solver.solve` computes `get_normq()` / `get_normb()` in every pass from the caches at entry
  (`topNumerics`) and stores the filled caches once, in the object it returns.  `Solver.solveC` below is
  the same `solve()` with the store in the pass (`passC`), where `DefaultInfo::update` has it, and no
  store at the end.  The two are THE SAME FUNCTION: `SolverNS.solveC_eq_solve`
  (`ClarabelProofs/Lemmas/SolverNSNormCachesC.lean`).
-/
import ClarabelModel.SolverNS.Solve

namespace Clarabel
namespace SolverNS

variable {α : Type}

section
variable [Add α] [Sub α] [Mul α] [Div α] [Neg α] [LT α] [LE α] [DecidableLT α] [DecidableLE α]
  [BEq α] [OfNat α 0] [OfNat α 1] [OfNat α 2] [OfNat α 3] [OfNat α 4] [OfNat α 100] [OfNat α 1000]
  [OfScientific α] [FloatLike α]

/-- one pass of `loop { … }` with the caches written where the code writes them: `residuals.update`,
`calc_mu`, `info.update` (= `topNumerics`; within it `get_normq()` / `get_normb()` FILL the caches of
`self.data` = `Solver.fillNorms`), then the pass on the object with the filled caches. -/
def passC (st : Settings α) (L : LoopSt α) : MErr (Bool × LoopSt α) := do
  let _ ← topNumerics L.S L.iter
  let data ← Clarabel.Solver.fillNorms L.S.data
  pass st { L with S := { L.S with data := data } }

/-- the `loop { … }` over `passC` -/
def runLoopC (st : Settings α) : Nat → LoopSt α → MErr (LoopSt α)
  | 0, _ => throw (.panic "model: pass budget exhausted")
  | fuel + 1, L => do
    let r ← passC st L
    if r.1 then runLoopC st fuel r.2 else pure r.2

/-- `info.reset`, `default_start()` and the loop over `passC` -/
def SolverSt.runSolveC (S : SolverSt α) (st : Settings α) : MErr (LoopSt α) := do
  let S := { S with info := { S.info with status := .unsolved, iterations := 0 } }
  let S ← S.defaultStart st
  runLoopC st (st.info.max_iter + 3)
    { S, iter := 0, sigma := 1, alpha := 0, mu := 0, scaling := initScaling S.cones, traj := [] }

/-- `solve()` with the norm caches stored in the pass (and nowhere else) -/
def Solver.solveC (S : Solver α) (st : Settings α) : MErr (SolveResult α) := do
  let L ← S.st.runSolveC st
  let r ← finish st L S.solution
  pure { S := { st := r.1, solution := r.2 }, traj := L.traj }

end

end SolverNS
end Clarabel
