/-
  Cone-list datatype of the model (`SupportedConeT<T>` of
  `src/solver/core/cones/supportedcone.rs`) with `nvars`, the index ranges of a cone list
  (`rng_cones_iter` / `make_rng_cones`) and `SupportedConeT::new_collapsed`.

  Cone lists are `List (ConeT α)` (combinatorial part of the model: structural recursion).

  ## Wire format of a cone list (shared by every driver / harness binary)

  A cone list is one comma separated value (no blanks), one token per cone:

      z<n>                      ZeroConeT(n)
      n<n>                      NonnegativeConeT(n)
      q<n>                      SecondOrderConeT(n)
      e                         ExponentialConeT()
      p:<float>                 PowerConeT(α)            float = `x<16 hex digits>` (f64 bits)
      g:<float>;<float>;…:<d>   GenPowerConeT(αs, d)     (`g::<d>` for an empty α vector)
      s<n>                      PSDTriangleConeT(n)

  e.g. `cones=z3,n2,q4,e,p:x3fe0000000000000,g:x3fd3333333333333;x3fe6666666666666:2,s3`;
  the empty list is the empty value (`cones=`).
  Lean parser/printer: `Driver/ConeIO.lean`; Rust: `harness/src/bin/common_cones.rs`.
-/
import ClarabelModel.Scalar

namespace Clarabel

/-- `SupportedConeT<T>` -/
inductive ConeT (α : Type) where
  | zero (n : Nat)
  | nonneg (n : Nat)
  | soc (n : Nat)
  | exp
  | pow (a : α)
  | genpow (αs : Array α) (dim2 : Nat)
  | psd (n : Nat)
  deriving Repr, BEq, Inhabited

namespace ConeT
variable {α : Type}

/-- `triangular_number(k) = (k*(k+1)) >> 1` -/
def triangularNumber (k : Nat) : Nat := (k * (k + 1)) / 2

/-- `SupportedConeT::nvars` (= `numel` of the internal cone) -/
def nvars : ConeT α → Nat
  | .zero n => n
  | .nonneg n => n
  | .soc n => n
  | .exp => 3
  | .pow _ => 3
  | .genpow αs dim2 => αs.size + dim2
  | .psd n => triangularNumber n

/-- is this a `NonnegativeConeT`? (`matches!(cone, NonnegativeConeT(_))`) -/
def isNonneg : ConeT α → Bool
  | .nonneg _ => true
  | _ => false

/-- zero / nonnegative cones: products of scalar cones (elementwise equilibration allowed) -/
def isScalar : ConeT α → Bool
  | .zero _ => true
  | .nonneg _ => true
  | _ => false

/-- The cones `new_collapsed` rolls into a nonnegative cone: `NonnegativeConeT(d)`,
`SecondOrderConeT(1)`, `PSDTriangleConeT(1)`; the value is the dimension contributed. -/
def collapsibleDim? : ConeT α → Option Nat
  | .nonneg d => some d
  | .soc 1 => some 1
  | .psd 1 => some 1
  | _ => none

/-- short tag used in distributions / messages -/
def tag : ConeT α → String
  | .zero _ => "ZeroCone"
  | .nonneg _ => "NonnegativeCone"
  | .soc _ => "SecondOrderCone"
  | .exp => "ExponentialCone"
  | .pow _ => "PowerCone"
  | .genpow _ _ => "GenPowerCone"
  | .psd _ => "PSDTriangleCone"

end ConeT

namespace Cones
variable {α : Type}

/-- total number of rows of a cone list (`Σ nvars`, the `numel` of the composite cone) -/
def numel : List (ConeT α) → Nat
  | [] => 0
  | c :: cs => c.nvars + numel cs

/-- `rng_cones`: the half-open index range `(start, stop)` of every cone, in order,
starting at `start`. -/
def rngConesFrom : Nat → List (ConeT α) → List (Nat × Nat)
  | _, [] => []
  | start, c :: cs => (start, start + c.nvars) :: rngConesFrom (start + c.nvars) cs

/-- `rng_cones_iter` / `make_rng_cones` -/
def rngCones (cones : List (ConeT α)) : List (Nat × Nat) := rngConesFrom 0 cones

/-- the pending run of `new_collapsed` is emitted as one nonnegative cone (`acc = 0` means
that no run is open: every cone that opens or extends a run has `nvars ≥ 1`) -/
def flush (acc : Nat) : List (ConeT α) := if acc = 0 then [] else [.nonneg acc]

/-- Worker of `new_collapsed`.  `acc` is `total_dim` of the currently open run of
collapsible cones (0 = no open run).  Empty cones are skipped (inside and outside a run),
a collapsible cone opens/extends the run, any other cone closes it and is copied. -/
def collapseGo : Nat → List (ConeT α) → List (ConeT α)
  | acc, [] => flush acc
  | acc, c :: rest =>
    if c.nvars = 0 then collapseGo acc rest
    else match c.collapsibleDim? with
      | some d => collapseGo (acc + d) rest
      | none => flush acc ++ c :: collapseGo 0 rest

/-- `SupportedConeT::new_collapsed`: consolidate runs of nonnegative cones (with
`SecondOrderConeT(1)` / `PSDTriangleConeT(1)` counted as `NonnegativeConeT(1)`) and drop
empty cones. -/
def newCollapsed (cones : List (ConeT α)) : List (ConeT α) := collapseGo 0 cones

/-- Is row `i` inside a nonnegative cone of the list (rows numbered from `start`)? -/
def inNonnegFrom : Nat → List (ConeT α) → Nat → Bool
  | _, [], _ => false
  | start, c :: cs, i =>
    (c.isNonneg && decide (start ≤ i) && decide (i < start + c.nvars))
      || inNonnegFrom (start + c.nvars) cs i

def inNonneg (cones : List (ConeT α)) (i : Nat) : Bool := inNonnegFrom 0 cones i

end Cones
end Clarabel
