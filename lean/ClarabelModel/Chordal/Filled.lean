/-
  The hypothesis under which the chordal analysis is proved correct
  (`ClarabelProofs/Lemmas/ChordalEtree.lean`): the symbolic factor `L` handed to
  `SuperNodeTree::new` is the strict lower triangle of a connected filled pattern with sorted
  columns.  `LPat.filledB` is the executable test of that hypothesis (run by the driver on
  every pattern the harness generates); `LPat.filledB_iff` proves it equivalent to the
  predicate `LPat.Filled` used by the theorems.
-/
import ClarabelModel.Chordal.SuperNode

namespace Clarabel.Chordal

/-- the rows of column `v` of `L` (strictly below the diagonal), in storage order -/
def LPat.col (L : LPat) (v : Nat) : List Nat :=
  (L.rowval.extract (L.colptr.getD v 0) (L.colptr.getD (v + 1) 0)).toList

/-- the first row of column `v` (the elimination-tree parent of `v` when the column is sorted) -/
def LPat.par (L : LPat) (v : Nat) : Nat := (L.col v).headD 0

/-- executable form of `LPat.Filled` -/
def LPat.filledB (L : LPat) : Bool :=
  decide (0 < L.n) && decide (L.n < inactiveNode) && decide (L.colptr.size = L.n + 1) &&
  (List.range L.n).all (fun v => decide (L.colptr.getD v 0 ≤ L.colptr.getD (v + 1) 0)) &&
  decide (L.colptr.getD L.n 0 ≤ L.rowval.size) &&
  (List.range L.n).all (fun v => (L.col v).all (fun r => decide (v < r ∧ r < L.n))) &&
  (List.range L.n).all (fun v => decide ((L.col v).Pairwise (· < ·))) &&
  (List.range L.n).all (fun v => decide (v + 1 < L.n → L.col v ≠ [])) &&
  (List.range L.n).all (fun v => decide (v + 1 < L.n →
    (L.col v).all (fun r => decide (r ≠ L.par v → r ∈ L.col (L.par v))) = true))

/-- executable form of the hypothesis "every pattern entry `(i, j)` (original coordinates) is an
entry of `L` in the permuted coordinates": with `a`, `b` the positions of `i`, `j` in
`ordering`, `b ∈ col a` or `a ∈ col b` -/
def LPat.edgesInB (L : LPat) (ordering : Array Nat) (edges : List (Nat × Nat)) : Bool :=
  edges.all (fun e =>
    let a := ordering.toList.idxOf e.1
    let b := ordering.toList.idxOf e.2
    decide (a < L.n) && decide (b < L.n) && decide (a < ordering.size) && decide (b < ordering.size) &&
      ((L.col a).contains b || (L.col b).contains a))

end Clarabel.Chordal
