/-
  Model of `src/solver/chordal/decomp/augment_compact.rs`: the clique-tree based
  ("compact") transformation.  Original rows of `A` and `b` are re-indexed so that the
  entries of each clique are contiguous; every overlap entry adds one column with `+1` in
  the child's row and `-1` in the parent's row.
-/
import ClarabelModel.Chordal.Reverse

namespace Clarabel.Chordal
variable {α : Type}

/-- `usize::MAX` : the "not yet written" marker of `Aa_I` / `ba_I` -/
def usizeMax : Nat := 18446744073709551615

/-- `slice.partition_point(|y| y < k)` on `xs[lo..hi)` (absolute index of the first element
that is not `< k`; the slices met here are sorted) -/
def partitionPointLt (xs : Array Nat) (lo hi k : Nat) : Nat :=
  match (List.range (hi - lo)).find? (fun d => !(decide (xs.getD (lo + d) 0 < k))) with
  | some d => lo + d
  | none => hi

/-- `get_rows_subset(rows = xs[lo..hi), row_range)` as an absolute index range -/
def getRowsSubset (xs : Array Nat) (lo hi : Nat) (rs re : Nat) : Option (Nat × Nat) :=
  if hi ≤ lo ∨ re ≤ rs then none else
  if xs.getD (hi - 1) 0 < rs then none else
  if xs.getD lo 0 ≥ re then none else
  some (partitionPointLt xs lo hi rs, partitionPointLt xs lo hi re)

/-- `get_row_index` -/
def getRowIndex (k : Nat) (rowval : Array Nat) (rs : Nat) (col : Nat × Nat) : Option Nat :=
  if col.2 ≤ col.1 then none else
  let kShift := rs + k
  let u := min col.2 (col.1 + kShift + 1)
  let r := partitionPointLt rowval col.1 u kShift
  if r ≥ u ∨ rowval.getD r 0 != kShift then none else some r

/-- `modify_clique_rows` -/
def modifyCliqueRows (v : Array Nat) (k : Nat) (rowval : Array Nat) (newRowVal rs : Nat) (col : Nat × Nat) :
    MErr (Array Nat) :=
  match getRowIndex k rowval rs col with
  | some r0 => setE v r0 newRowVal "modify_clique_rows"
  | none => pure v

/-- `parent_block_indices` -/
def parentBlockIndices (parentClique : Array Nat) (i j : Nat) : Nat :=
  let ir := partitionPointLt parentClique 0 parentClique.size i
  let jr := partitionPointLt parentClique 0 parentClique.size j
  coordToUpperTriangularIndex (ir, jr)

/-- `get_block_indices` : `(i, j, is_overlap)` sorted (stably) by `j * nv + i` -/
def getBlockIndices (snode separator : Array Nat) (nv : Nat) : List (Nat × Nat × Bool) :=
  let a := separator.toList.flatMap (fun j => (separator.toList.filter (fun i => i ≤ j)).map (fun i => (i, j, true)))
  let b := snode.toList.flatMap (fun j => (snode.toList.filter (fun i => i ≤ j)).map (fun i => (i, j, false)))
  let c := snode.toList.flatMap (fun i => separator.toList.map (fun j => (min i j, max i j, false)))
  (a ++ b ++ c).mergeSort (fun x y => decide (x.2.1 * nv + x.1 ≤ y.2.1 * nv + y.1))

/-- mutable state of `find_compact_A_b_and_cones` -/
structure CompactState where
  AaI : Array Nat
  baI : Array Nat
  conesNew : Array Cone
  coneMaps : Array ConeMapEntry
  rowPtr : Nat
  overlapPtr : Nat

/-- sorted image of a vertex set under `ordering` -/
def mapSorted (ordering : Array Nat) (s : VSet) : MErr (Array Nat) := do
  let l ← s.toList.mapM (fun v => getE ordering v "ordering")
  pure (VSet.sort l.toArray)

/-- the row-shifting loop of `add_entries_with_cone` over the index range `[s, s + len)` of
`xs`: `v[k] = xs[k].checked_add_signed(row_ptr - row_range.start).unwrap()` -/
def shiftRows (v xs : Array Nat) (s len rowPtr rs : Nat) : MErr (Array Nat) :=
  (List.range' s len).foldlM (fun (v : Array Nat) k => do
    let x := xs.getD k 0
    if x + rowPtr < rs then throw (.panic "checked_add_signed") else
    setE v k (x + rowPtr - rs) "add_entries_with_cone") v

/-- the body shared by the `b` part and the per-column `A` part of `add_entries_with_cone`:
`get_rows_subset` on the segment `xs[lo..hi)` and, on `Some(s..e)`, the shift of those rows -/
def shiftSeg (v xs : Array Nat) (lo hi rs re rowPtr : Nat) : MErr (Array Nat) :=
  match getRowsSubset xs lo hi rs re with
  | some (s, e) => shiftRows v xs s (e - s) rowPtr rs
  | none => pure v

/-- `add_entries_with_cone` -/
def addEntriesWithCone (st : CompactState) (A : Csc α) (bInd : Array Nat) (rs re : Nat) (cone : Cone) :
    MErr CompactState := do
  let baI ← shiftSeg st.baI bInd 0 bInd.size rs re st.rowPtr
  let AaI ← (List.range A.n).foldlM (fun (AaI : Array Nat) col => do
    let lo ← getE A.colptr col "get_rows_mat"
    let hi ← getE A.colptr (col + 1) "get_rows_mat"
    shiftSeg AaI A.rowval lo hi rs re st.rowPtr) st.AaI
  let origIndex := match st.coneMaps.back? with
    | none => 0
    | some l => l.origIndex + 1
  pure { st with AaI := AaI, baI := baI, conesNew := st.conesNew.push cone,
                 coneMaps := st.coneMaps.push { origIndex := origIndex, treeAndClique := none },
                 rowPtr := st.rowPtr + cone.nvars }

/-- `clique_rows_map` : tree index of a clique ↦ first row of its block (a `HashMap`:
a later insertion with the same key replaces the earlier one) -/
def cliqueRowsMap (rowStart : Nat) (t : SuperNodeTree) : MErr (List (Nat × Nat)) := do
  let (m, _) ← (List.range t.nCliques).reverse.foldlM (fun (acc : List (Nat × Nat) × Nat) i => do
    let nb ← t.getNblk i
    let c ← getE t.snodePost i "clique_rows_map"
    pure ((c, acc.2) :: acc.1.filter (fun e => e.1 != c), acc.2 + triangularNumber nb)) ([], rowStart)
  pure m

/-- one pass of the loop of `add_clique_entries`; state `(A_I, b_I, overlap_ptr, counter)` -/
def addCliqueEntry (rowval bInd parentClique : Array Nat) (parentStart col rowPtr rs : Nat)
    (rangeCol rangeB : Nat × Nat) (st : Array Nat × Array Nat × Nat × Nat) (e : Nat × Nat × Bool) :
    MErr (Array Nat × Array Nat × Nat × Nat) := do
  let (AaI, baI, overlapPtr, counter) := st
  let newRowVal := rowPtr + counter
  if e.2.2 then
    if col == 0 then
      let AaI ← setE AaI overlapPtr newRowVal "add_clique_entries"
      let AaI ← setE AaI (overlapPtr + 1) (parentStart + parentBlockIndices parentClique e.1 e.2.1)
        "add_clique_entries"
      pure (AaI, baI, overlapPtr + 2, counter + 1)
    else pure (AaI, baI, overlapPtr, counter + 1)
  else
    let k := coordToUpperTriangularIndex (e.1, e.2.1)
    let AaI ← modifyCliqueRows AaI k rowval newRowVal rs rangeCol
    let baI ← if col == 0 then modifyCliqueRows baI k bInd newRowVal rs rangeB else pure baI
    pure (AaI, baI, overlapPtr, counter + 1)

/-- `add_clique_entries` : the modified `(A_I, b_I)` and the new `overlap_ptr` -/
def addCliqueEntries (rowval bInd parentClique : Array Nat) (parentStart col rowPtr rs : Nat)
    (rangeCol rangeB : Nat × Nat) (blockIndices : List (Nat × Nat × Bool))
    (AaI baI : Array Nat) (overlapPtr : Nat) : MErr (Array Nat × Array Nat × Nat) := do
  let (a, b, op, _) ← blockIndices.foldlM
    (addCliqueEntry rowval bInd parentClique parentStart col rowPtr rs rangeCol rangeB)
    (AaI, baI, overlapPtr, 0)
  pure (a, b, op)

/-- the loop `for col in 0..n` of `add_entries_with_sparsity_pattern` for one clique -/
def addCliqueCols (A : Csc α) (bInd : Array Nat) (rs re : Nat) (blockIndices : List (Nat × Nat × Bool))
    (parentClique : Array Nat) (parentStart rowPtr : Nat) (AaI baI : Array Nat) (overlapPtr : Nat) :
    MErr (Array Nat × Array Nat × Nat) :=
  (List.range A.n).foldlM (fun (acc : Array Nat × Array Nat × Nat) col => do
    let lo ← getE A.colptr col "get_rows_mat"
    let hi ← getE A.colptr (col + 1) "get_rows_mat"
    let rangeCol := (getRowsSubset A.rowval lo hi rs re).getD (0, 0)
    let rangeB := if col == 0 then (getRowsSubset bInd 0 bInd.size rs re).getD (0, 0) else (0, 0)
    addCliqueEntries A.rowval bInd parentClique parentStart col rowPtr rs rangeCol rangeB blockIndices
      acc.1 acc.2.1 acc.2.2) (AaI, baI, overlapPtr)

/-- the `parent_rows.start` and the sorted `parent_clique` (original coordinates) that
`add_entries_with_sparsity_pattern` loads for the clique with post-order index `i`
(`0..0` and the empty clique for the root) -/
def parentInfo (p : SPattern) (cliqueToRows : List (Nat × Nat)) (i : Nat) : MErr (Nat × Array Nat) :=
  let t := p.sntree
  if i + 1 != t.nCliques then do
    let pi ← t.getCliqueParent i
    let parentStart ← (match cliqueToRows.find? (fun e => e.1 == pi) with
      | some e => pure e.2
      | none => throw (.panic "clique_to_rows: unwrap") : MErr Nat)
    let psn ← getE t.snode pi "get_clique_by_index"
    let psp ← getE t.separators pi "get_clique_by_index"
    let parentClique ← mapSorted p.ordering (psn.extend psp.toList)
    pure (parentStart, parentClique)
  else pure (0, #[])

/-- the body of the loop over the cliques (post-order index `i`, descending) of
`add_entries_with_sparsity_pattern` -/
def addCliqueStep (A : Csc α) (bInd : Array Nat) (rs re : Nat) (p : SPattern) (pIndex : Nat)
    (cliqueToRows : List (Nat × Nat)) (st : CompactState) (i : Nat) : MErr CompactState := do
  let t := p.sntree
  let sep ← t.getSeparators i
  let separator ← mapSorted p.ordering sep
  let sn ← t.getSnode i
  let snode ← mapSorted p.ordering sn
  let blockIndices := getBlockIndices snode separator p.ordering.size
  let pinfo ← parentInfo p cliqueToRows i
  let r ← addCliqueCols A bInd rs re blockIndices pinfo.2 pinfo.1 st.rowPtr st.AaI st.baI st.overlapPtr
  let coneDim ← t.getNblk i
  pure { AaI := r.1, baI := r.2.1, conesNew := st.conesNew.push (.psd coneDim),
         coneMaps := st.coneMaps.push { origIndex := p.origIndex, treeAndClique := some (pIndex, i) },
         rowPtr := st.rowPtr + triangularNumber coneDim, overlapPtr := r.2.2 }

/-- `add_entries_with_sparsity_pattern` -/
def addEntriesWithSparsityPattern (st : CompactState) (A : Csc α) (bInd : Array Nat) (rs re : Nat)
    (p : SPattern) (pIndex : Nat) : MErr CompactState := do
  let cliqueToRows ← cliqueRowsMap st.rowPtr p.sntree
  (List.range p.sntree.nCliques).reverse.foldlM (addCliqueStep A bInd rs re p pIndex cliqueToRows) st

/-- `CscMatrix::new_from_triplets` : stable sort by (column, row), repeated entries added -/
def cscFromTriplets [Add α] (m n : Nat) (I J : Array Nat) (V : Array α) : MErr (Csc α) := do
  if I.size != J.size ∨ I.size != V.size then throw (.panic "new_from_triplets: assert") else
  if J.toList.any (fun c => decide (c ≥ n)) then throw (.panic "new_from_triplets: column index") else
  let idx := (List.range I.size).mergeSort (fun a b =>
    decide (J.getD a 0 < J.getD b 0) || (J.getD a 0 == J.getD b 0 && decide (I.getD a 0 ≤ I.getD b 0)))
  -- consolidate
  let merged := idx.foldl (fun (acc : List (Nat × Nat × α)) k =>
    match V[k]? with
    | none => acc
    | some v =>
      let r := I.getD k 0
      let c := J.getD k 0
      match acc with
      | (c', r', v') :: rest => if c' == c && r' == r then (c', r', v' + v) :: rest else (c, r, v) :: acc
      | [] => [(c, r, v)]) []
  let merged := merged.reverse
  let counts := (List.range n).map (fun c => (merged.filter (fun e => e.1 == c)).length)
  let colptr := counts.foldl (fun (acc : Array Nat) c => acc.push (acc.back! + c)) #[0]
  pure { m := m, n := n, colptr := colptr, rowval := (merged.map (·.2.1)).toArray,
         nzval := (merged.map (·.2.2)).toArray }

/-- the triplet form of the result of the main loop of `find_compact_A_b_and_cones` -/
structure CompactTriplets (α : Type) where
  dim : Nat
  nOverlaps : Nat
  AaI : Array Nat
  AaJ : Array Nat
  AaV : Array α
  bInd : Array Nat
  bVal : List α
  baI : Array Nat
  conesNew : Array Cone
  coneMaps : Array ConeMapEntry

/-- the body of the loop over the cones of `find_compact_A_b_and_cones`; state = the mutable
arrays and the number of patterns consumed -/
def compactConeStep (ci : ChordalInfo) (A : Csc α) (bInd : Array Nat) (starts : Array Nat)
    (acc : CompactState × Nat) (coneidx : Nat) : MErr (CompactState × Nat) := do
  let (st, k) := acc
  let cone ← getE ci.initCones coneidx "find_compact"
  let rs := starts.getD coneidx 0
  let re := rs + cone.nvars
  match ci.nextPattern? k coneidx with
  | some p =>
    if !cone.isPsd then throw (.panic "find_compact: assert PSD") else
    let st ← addEntriesWithSparsityPattern st A bInd rs re p k
    pure (st, k + 1)
  | none =>
    let st ← addEntriesWithCone st A bInd rs re cone
    pure (st, k)

/-- `find_compact_A_b_and_cones` up to (not including) the assembly of `A_new`, `b_new` -/
def findCompactTriplets [Neg α] [OfNat α 0] [OfNat α 1] [BEq α] (ci : ChordalInfo) (A : Csc α) (b : Array α) :
    MErr (CompactTriplets α) := do
  let (dim, nOverlaps) ← ci.getDecomposedDimAndOverlaps
  let nnzA := A.colptr.getD A.n 0
  let AaNnz := nnzA + 2 * nOverlaps
  if AaNnz = 0 then throw (.panic "extra_columns: underflow") else
  -- extra_columns / alternating_sequence / findnz
  let AaJ : Array Nat := ((List.range A.n).flatMap (fun c =>
      List.replicate (A.colptr.getD (c + 1) 0 - A.colptr.getD c 0) c)).toArray ++
    ((List.range nOverlaps).flatMap (fun o => [A.n + o, A.n + o])).toArray
  let AaV : Array α := (A.nzval.extract 0 nnzA) ++
    ((List.range nOverlaps).flatMap (fun _ => [(1 : α), -1])).toArray
  if AaJ.size != AaNnz ∨ AaV.size != AaNnz then throw (.panic "findnz: index") else
  -- sparse b
  let bIdx := (List.range b.size).filter (fun i => !(b.getD i 0 == 0))
  let bInd := bIdx.toArray
  let bVal := bIdx.map (fun i => b.getD i 0)
  let starts := coneStarts ci.initCones
  let st0 : CompactState := { AaI := Array.replicate AaNnz usizeMax, baI := Array.replicate bInd.size usizeMax,
                              conesNew := #[], coneMaps := #[], rowPtr := 0, overlapPtr := nnzA }
  let (st, _) ← (List.range ci.initCones.size).foldlM (compactConeStep ci A bInd starts) (st0, 0)
  pure { dim, nOverlaps, AaI := st.AaI, AaJ, AaV, bInd, bVal, baI := st.baI,
         conesNew := st.conesNew, coneMaps := st.coneMaps }

/-- `find_compact_A_b_and_cones` : `(A_new, b_new, cones_new, cone_maps)` -/
def findCompactAbAndCones [Add α] [Neg α] [OfNat α 0] [OfNat α 1] [BEq α] (ci : ChordalInfo) (A : Csc α) (b : Array α) :
    MErr (Csc α × Array α × Array Cone × Array ConeMapEntry) := do
  let tr ← findCompactTriplets ci A b
  let Anew ← Csc.newFromTriplets tr.dim (A.n + tr.nOverlaps) tr.AaI tr.AaJ tr.AaV
  -- SparseVector -> Vec
  let bnew ← (List.range tr.bInd.size).foldlM (fun (v : Array α) k =>
    setE v (tr.baI.getD k 0) (tr.bVal.getD k 0) "sparsevector.into") (Array.replicate tr.dim 0)
  pure (Anew, bnew, tr.conesNew, tr.coneMaps)

end Clarabel.Chordal

/-! ### data flow of `DefaultProblemData::new` (`problemdata.rs:82-111`) -/
namespace Clarabel.Chordal

/-- the constraint data handed from stage to stage -/
structure ProbData (α : Type) where
  A : Csc α
  b : Array α
  cones : Array Cone

/-- Data flow of `DefaultProblemData::new` as repaired by 4915fa1: presolve first; the
chordal analysis (`try_chordal_info`) runs on `A_new.unwrap_or(A)`, `b_new.unwrap_or(b)`,
`cones_new.unwrap_or(cones)`, and `decomp_augment` receives the same three objects.  The
three stages are parameters.  Returns the final data and, when a decomposition happens,
the pair (data seen by the analysis, data seen by the augmentation). -/
def problemDataNew {α ι : Type} (presolve : ProbData α → Option (ProbData α))
    (analyse : ProbData α → Option ι) (augment : ι → ProbData α → ProbData α)
    (d : ProbData α) : ProbData α × Option (ProbData α × ProbData α) :=
  let d1 := (presolve d).getD d
  match analyse d1 with
  | some info => (augment info d1, some (d1, d1))
  | none => (d1, none)

/-- the data flow before the repair: the analysis saw the user's un-presolved data -/
def problemDataNewOld {α ι : Type} (presolve : ProbData α → Option (ProbData α))
    (analyse : ProbData α → Option ι) (augment : ι → ProbData α → ProbData α)
    (d : ProbData α) : ProbData α × Option (ProbData α × ProbData α) :=
  let d1 := (presolve d).getD d
  match analyse d with
  | some info => (augment info d1, some (d, d1))
  | none => (d1, none)

end Clarabel.Chordal
