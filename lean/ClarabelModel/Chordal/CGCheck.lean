/-
  Executable companions of the clique-graph merge strategy (`MergeCG.lean`):

  * `CGStrategy.loopTrace` : the loop of `merge_cliques` (same passes as `CGStrategy.loop`),
    recording the state after `initialise` and after every pass (`CGSnap`);
  * `cgInvWhy` : the LOOP INVARIANT `CGInv` of `ClarabelProofs/Lemmas/ChordalCGDefs.lean` as an
    executable test (name of the first failing clause);
  * `snDisjointB` / `cgRipB` : "the supernodes of the merged tree are pairwise disjoint", and
    `snLiveNonemptyB` / `cgNonemptyB` : "the live ones are not empty" — the two links of
    `C17.analysis_clique_graph_valid_partial` that are not theorems (running intersection of the
    spanning tree chosen by `kruskal`; no live clique swallowed by its tree parent);
  * `CGSnap.digest` : a 64-bit digest of a state (compared with the digest of the
    implementation's state, channel `cg.trace`).

  The driver `cm_c17` evaluates all of them on every generated pattern (channel `cg.trace`).
-/
import ClarabelModel.Chordal.MergeCG

namespace Clarabel.Chordal

/-! ## the state after each pass -/

/-- the state of `merge_cliques` after `initialise` (`cand = none`, `doMerge = false`) or after
one pass of the loop -/
structure CGSnap where
  cand : Option (Nat × Nat)
  doMerge : Bool
  s : CGStrategy
  t : SuperNodeTree
  deriving Inhabited

namespace CGStrategy

/-- `CGStrategy.loop` with a record of the state after every pass -/
def loopTrace : Nat → CGStrategy → SuperNodeTree → Array CGSnap →
    MErr (CGStrategy × SuperNodeTree × Array CGSnap)
  | 0, _, _, _ => throw (.panic "merge_cliques: loop does not terminate")
  | fuel + 1, s, t, tr =>
    if s.stop then pure (s, t, tr) else do
      let (s, cand?) ← s.traverse t
      match cand? with
      | none => pure (s, t, tr.push { cand := none, doMerge := false, s, t })
      | some cand =>
        let (s, doMerge) ← s.evaluate t cand
        let t ← if doMerge then s.mergeTwoCliques t cand else pure t
        let s ← s.updateStrategy t cand doMerge
        let tr := tr.push { cand := some cand, doMerge, s, t }
        if t.nCliques == 1 then pure (s, t, tr) else loopTrace fuel s t tr

/-- `initialise` + the loop of `merge_cliques`, with the trace (`post_process_merge` not run) -/
def mergeTrace (t : SuperNodeTree) : MErr (CGStrategy × SuperNodeTree × Array CGSnap) := do
  let (s, t) ← CGStrategy.new.initialise t
  loopTrace (t.snode.size + 2) s t #[{ cand := none, doMerge := false, s, t }]

end CGStrategy

/-! ## the loop invariant, executable -/

/-- `IMat.WFE` -/
def IMat.wfeB (E : IMat) : Bool :=
  E.colptr.size == E.n + 1 && E.colptr.getD 0 0 == 0 &&
  (List.range E.n).all (fun c => decide (E.colptr.getD c 0 ≤ E.colptr.getD (c + 1) 0)) &&
  E.colptr.getD E.n 0 == E.rowval.size && E.nzval.size == E.rowval.size &&
  (List.range E.rowval.size).all (fun k => decide (E.rowval.getD k 0 < E.n))

/-- square, strictly lower triangular, strictly increasing rows in every column
(`IMat.Lower` + `IMat.Sorted`) -/
def IMat.lowerSortedB (E : IMat) : Bool :=
  E.m == E.n &&
  (List.range E.n).all (fun c =>
    (List.range' (E.colptr.getD c 0) (E.colptr.getD (c + 1) 0 - E.colptr.getD c 0)).all (fun k =>
      decide (c < E.rowval.getD k 0) &&
      (decide (E.colptr.getD (c + 1) 0 ≤ k + 1) || decide (E.rowval.getD k 0 < E.rowval.getD (k + 1) 0))))

/-- the stored pairs `(row, col)` -/
def IMat.pairs (E : IMat) : List (Nat × Nat) :=
  (List.range E.n).flatMap (fun c =>
    (List.range' (E.colptr.getD c 0) (E.colptr.getD (c + 1) 0 - E.colptr.getD c 0)).map (fun k =>
      (E.rowval.getD k 0, c)))

/-- is `(max a b, min a b)` stored? -/
def IMat.adjB (E : IMat) (a b : Nat) : Bool :=
  let c := min a b
  let r := max a b
  ((E.rowval.extract (E.colptr.getD c 0) (E.colptr.getD (c + 1) 0)).contains r)

/-- live = stored and not empty -/
def cgLiveB (t : SuperNodeTree) (c : Nat) : Bool := decide (c < t.snode.size) && !(t.snode.getD c #[]).isEmpty

/-- one relaxation round of `IMat.reach`: marks spread along the stored pairs; the flag tells
whether anything changed -/
def IMat.reachRound (pairs : List (Nat × Nat)) (seen : Array Bool) : Array Bool × Bool :=
  pairs.foldl (fun (acc : Array Bool × Bool) e =>
    let a := acc.1.getD e.1 false
    let b := acc.1.getD e.2 false
    if a && !b then (acc.1.setIfInBounds e.2 true, true)
    else if b && !a then (acc.1.setIfInBounds e.1 true, true) else acc) (seen, false)

/-- relax until nothing changes (at most `fuel` rounds) -/
def IMat.reachLoop (pairs : List (Nat × Nat)) : Nat → Array Bool → Array Bool
  | 0, seen => seen
  | fuel + 1, seen =>
    let r := IMat.reachRound pairs seen
    if r.2 then IMat.reachLoop pairs fuel r.1 else r.1

/-- marks of the cliques reachable from `start` along stored entries -/
def IMat.reach (E : IMat) (N start : Nat) : Array Bool :=
  IMat.reachLoop E.pairs N ((Array.replicate N false).setIfInBounds start true)

/-- duplicate-freeness -/
def cgNodupB : List Nat → Bool
  | [] => true
  | a :: l => !l.contains a && cgNodupB l

/-- the clauses of `CGInv N nv s t`, by name -/
def cgInvClauses (N nv : Nat) (s : CGStrategy) (t : SuperNodeTree) : List (String × Bool) :=
  let E := s.edges
  let live := (List.range N).filter (cgLiveB t)
  let nb := fun a => ((s.adjacencyTable.get? a).getD #[]).toList
  [("sizes", t.snode.size == N && E.m == N && E.n == N),
   ("wfe", E.wfeB),
   ("lower-sorted", E.lowerSortedB),
   ("nonzero", E.nzval.toList.all (fun v => v != 0)),
   ("edge-live", E.pairs.all (fun e => cgLiveB t e.1 && cgLiveB t e.2)),
   ("connected", match live with
      | [] => true
      | a :: _ => let r := E.reach N a; live.all (fun b => r.getD b false)),
   ("adj-keys", (List.range (max N s.adjacencyTable.slots.size)).all (fun c =>
      s.adjacencyTable.containsKey c == cgLiveB t c)),
   ("adj-iff", live.all (fun a =>
      (nb a).all (fun b => E.adjB a b && a != b) &&
      (List.range N).all (fun b => !(E.adjB a b && a != b) || (nb a).contains b))),
   ("adj-nodup", (List.range (max N s.adjacencyTable.slots.size)).all (fun a => cgNodupB (nb a))),
   ("ncl", t.nCliques == live.length),
   ("psize", decide (E.nzval.size ≤ s.p.size)),
   ("sn-nodup", (List.range N).all (fun c => cgNodupB (t.snode.getD c #[]).toList)),
   ("sn-range", (List.range N).all (fun c => (t.snode.getD c #[]).toList.all (fun v => decide (v < nv))))]

/-- name of the first clause of the loop invariant that fails -/
def cgInvWhy (N nv : Nat) (s : CGStrategy) (t : SuperNodeTree) : Option String :=
  ((cgInvClauses N nv s t).find? (fun p => !p.2)).map (·.1)

/-! ## the link that is not a theorem -/

/-- the supernodes are pairwise disjoint -/
def snDisjointB (t : SuperNodeTree) : Bool :=
  cgNodupB (t.snode.toList.flatMap (fun s => s.toList))

/-- after `merge_cliques` (clique-graph strategy) on the tree of `L` the supernodes are pairwise
disjoint (`true` when there is nothing to merge, or on a panic — that the analysis does not
panic is a theorem) -/
def cgRipB (L : LPat) : Bool :=
  match SuperNodeTree.new L with
  | .ok t0 =>
    if t0.nCliques > 1 then
      match CGStrategy.mergeCliques t0 with
      | .ok t1 => snDisjointB t1
      | .error _ => true
    else true
  | .error _ => true

/-- every live clique of the returned tree (parent entry not `INACTIVE_NODE`) has a non-empty
supernode — the second tested link of the clique-graph strategy (NOT a theorem: a live clique
contained in the clique of its spanning-tree parent would get the empty supernode
`clique \ parent clique`) -/
def snLiveNonemptyB (t : SuperNodeTree) : Bool :=
  (List.range t.snode.size).all (fun c =>
    t.snodeParent.getD c 0 == inactiveNode || !(t.snode.getD c #[]).isEmpty)

/-- after `merge_cliques` (clique-graph strategy) on the tree of `L` every live clique has a
non-empty supernode (`true` when there is nothing to merge, or on a panic); the companion of
`cgRipB` -/
def cgNonemptyB (L : LPat) : Bool :=
  match SuperNodeTree.new L with
  | .ok t0 =>
    if t0.nCliques > 1 then
      match CGStrategy.mergeCliques t0 with
      | .ok t1 => snLiveNonemptyB t1
      | .error _ => true
    else true
  | .error _ => true

/-! ## digests -/

/-- one step of the digest (FNV-style, wrapping 64-bit arithmetic) -/
def cgMix (h : UInt64) (x : Nat) : UInt64 := (h ^^^ UInt64.ofNat x) * 1099511628211

def cgMixInt (h : UInt64) (x : Int) : UInt64 :=
  cgMix h (x.emod 18446744073709551616).toNat

def cgMixNats (h : UInt64) (xs : Array Nat) : UInt64 := xs.foldl cgMix (cgMix h xs.size)

/-- digest of a state: edge matrix, workspace `p`, adjacency table (keys in increasing order, sets in
insertion order), clique sets (insertion order), `n_cliques`, `stop` -/
def CGSnap.digest (x : CGSnap) : UInt64 :=
  let h : UInt64 := 14695981039346656037
  let E := x.s.edges
  let h := cgMix (cgMix h E.m) E.n
  let h := cgMixNats h E.colptr
  let h := cgMixNats h E.rowval
  let h := E.nzval.foldl cgMixInt (cgMix h E.nzval.size)
  let h := cgMixNats h x.s.p
  let h := (List.range x.s.adjacencyTable.slots.size).foldl (fun h k =>
    match x.s.adjacencyTable.get? k with
    | some set => cgMixNats (cgMix h k) set
    | none => h) h
  let h := x.t.snode.foldl cgMixNats (cgMix h x.t.snode.size)
  let h := cgMix h x.t.nCliques
  cgMix h (if x.s.stop then 1 else 0)

end Clarabel.Chordal
