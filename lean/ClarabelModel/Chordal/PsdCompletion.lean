/-
  Model of `psd_complete` (`src/solver/chordal/decomp/psd_completion.rs`) at the level of
  *indices*: which entries of the permuted matrix `W` (and hence of `A`) the routine reads
  and writes, with the panics of the index operations.

  `Matrix<T>` is column-major and `M[(r, c)]` is `data[r + nrows * c]`
  (`src/algebra/dense/types.rs`): the access panics iff that *linear* index is out of range —
  a row index `≥ nrows` with a small column does not panic but lands in the next column.  The
  model keeps this convention (`checkIndex`, `linIdx`).

  The numerical part of an iteration (Cholesky factor / solve of `Wαα`, SVD fallback, the
  GEMM product) is LAPACK/BLAS and not modelled here; the index-level model assumes that
  these calls return (`svd.factor(..).unwrap()` is the only place where they could panic).
  Known case where they do not: a clique below the root with an *empty* separator gives `0 × 0`
  blocks, LAPACK rejects `lda = 0` in both `?potrf` and `?gesdd`, and the `unwrap` panics
  (`SVD(-5)`); `connect_graph` keeps the analysis from producing such a clique (the harness
  counts them: `psd_complete.written:empty-separator-below-root`, never seen).
  `A` is taken to be square `N × N` (`complete` builds it that way), and `i + 1` is assumed not
  to overflow `usize`.

  The second half (`psdComplete`) is the same routine on the data, with the LAPACK/BLAS step as
  a parameter.
-/
import ClarabelModel.Chordal.AugStd

namespace Clarabel.Chordal

/-- `η` of `psd_complete`:
`((i + 1)..N).filter(|&x| !α.contains(&x) && !ν.contains(&x)).collect()` -/
def etaOf (i N : Nat) (α ν : VSet) : List Nat :=
  (List.range' (i + 1) (N - (i + 1))).filter (fun x => !α.toList.contains x && !ν.toList.contains x)

/-- the index pairs `(row, col)` visited by `subsref` / `subsasgn` for the index lists `rows`,
`cols`, in execution order (outer loop over `cols`, inner loop over `rows`) -/
def subsPositions (rows cols : List Nat) : List (Nat × Nat) :=
  cols.flatMap (fun c => rows.map (fun r => (r, c)))

/-- linear index of `(r, c)` in a column-major matrix with `m` rows -/
def linIdx (m : Nat) (rc : Nat × Nat) : Nat := rc.1 + m * rc.2

/-- `M[(r, c)]` for all `(r, c)` of `ps` on a matrix with `m` rows and `len` stored entries:
panics iff some linear index is out of range -/
def checkIndex (m len : Nat) (ps : List (Nat × Nat)) (site : String) : MErr Unit :=
  if ps.all (fun rc => decide (linIdx m rc < len)) then pure () else throw (.panic site)

/-- one pass of the loop `for j in (0..(n_cliques - 1)).rev()` of `psd_complete` on the
`N × N` matrix `W`: the positions of `W` written by `W.subsasgn(&η, ν, ..)` followed by
`W.subsasgn(ν, &η, ..)`, in execution order -/
def psdCompleteStep (t : SuperNodeTree) (N j : Nat) : MErr (List (Nat × Nat)) := do
  let ν ← t.getSnode j
  let α ← t.getSeparators j
  let i ← getE ν 0 "psd_complete: ν[0]"
  let η := etaOf i N α ν
  -- Wαα.subsref(&W, α, α); Wαν.subsref(&W, α, ν); Wηα.subsref(&W, &η, α)
  checkIndex N (N * N) (subsPositions α.toList α.toList) "psd_complete: W[α,α]"
  checkIndex N (N * N) (subsPositions α.toList ν.toList) "psd_complete: W[α,ν]"
  checkIndex N (N * N) (subsPositions η α.toList) "psd_complete: W[η,α]"
  -- (chol.factor / chol.solve | svd.factor / svd.solve, Wηα_times_Y.mul : external)
  let w1 := subsPositions η ν.toList
  checkIndex N (N * N) w1 "psd_complete: W[η,ν] ="
  let w2 := subsPositions ν.toList η
  checkIndex N (N * N) w2 "psd_complete: W[ν,η] ="
  pure (w1 ++ w2)

/-- `psd_complete(A, pattern)` with `N = A.ncols()` : the positions `(row, col)` of the permuted
matrix `W` written by the `subsasgn` calls of the main loop, in execution order.  Panics as the
code does: `invperm` assertion, out-of-range index in `W.subsref(A, p, p)`, `n_cliques - 1`
underflow, out-of-range clique index, empty supernode (`ν[0]`), out-of-range matrix index. -/
def psdCompleteWritten (p : SPattern) (N : Nat) : MErr (List (Nat × Nat)) := do
  let t := p.sntree
  let _ip ← invpermUtils p.ordering
  -- W.subsref(A, p, p) : W[(i, j)] = A[(p[i], p[j])]
  let idx := List.range p.ordering.size
  checkIndex N (N * N) (subsPositions idx idx) "psd_complete: W ="
  checkIndex N (N * N) (subsPositions p.ordering.toList p.ordering.toList) "psd_complete: A[p,p]"
  if t.nCliques = 0 then throw (.panic "psd_complete: n_cliques - 1") else
  (List.range (t.nCliques - 1)).reverse.foldlM (fun (acc : List (Nat × Nat)) j => do
    let w ← psdCompleteStep t N j
    pure (acc ++ w)) []

/-- `psd_complete(A, pattern)` : the linear indices `i + N * j` of the entries of the *output* `A`
that are copies of a position of `W` written by the main loop (`A.subsref(&W, &ip, &ip)` :
`A[(i, j)] = W[(ip[i], ip[j])]`); every other entry of `A` gets back the value that
`W.subsref(A, p, p)` read from it.  In the order of the final `subsref`. -/
def psdCompleteChanged (p : SPattern) (N : Nat) : MErr (List Nat) := do
  let ws ← psdCompleteWritten p N
  let ip ← invpermUtils p.ordering
  let idx := List.range ip.size
  checkIndex N (N * N) (subsPositions idx idx) "psd_complete: A ="
  checkIndex N (N * N) (subsPositions ip.toList ip.toList) "psd_complete: W[ip,ip]"
  let wl := ws.map (linIdx N)
  pure (((subsPositions idx idx).filter (fun ij =>
    wl.contains (linIdx N (ip.getD ij.1 0, ip.getD ij.2 0)))).map (linIdx N))

/-! ### the same routine at the level of data

`A`, `W` are the column-major storage arrays of `N × N` matrices.  Everything that `psd_complete`
computes numerically in pass `j` — `chol.factor`/`chol.solve` (or the SVD fallback) on the blocks
`Wαα`, `Wαν` and the product `Wηα · Y` — is the parameter `ext j W`: it returns the entry
function `(a, b) ↦ (Wηα · Y)[a, b]` of the `|η| × |ν|` product or fails (`svd.factor(..).unwrap()`).
The theorems about `psdComplete` hold for every `ext`. -/

section data
variable {α : Type}

/-- `subsPositions` together with the enumeration indices `(i, j)` of `(row, col)` -/
def subsPositionsIdx (rows cols : List Nat) : List ((Nat × Nat) × (Nat × Nat)) :=
  cols.zipIdx.flatMap (fun cj => rows.zipIdx.map (fun ri => ((ri.1, cj.1), (ri.2, cj.2))))

/-- `M[(r, c)] = v` for the pairs `((r, c), v)` of `ws` in order, on the column-major storage
`data` of a matrix with `m` rows -/
def writeAll (m : Nat) (data : Array α) (ws : List ((Nat × Nat) × α)) (site : String) :
    MErr (Array α) :=
  ws.foldlM (fun d w => setE d (linIdx m w.1) w.2 site) data

/-- `dst.subsref(src, rows, cols)` : `dst[(i, j)] = src[(rows[i], cols[j])]` -/
def subsrefInto (mDst : Nat) (dst : Array α) (mSrc : Nat) (src : Array α) (rows cols : List Nat)
    (site : String) : MErr (Array α) := do
  let vals ← (subsPositionsIdx rows cols).mapM (fun q => do
    let v ← getE src (linIdx mSrc q.1) site
    pure (q.2, v))
  writeAll mDst dst vals site

/-- one pass of the main loop on the data: index checks of the three `subsref` reads, the
external step, `W.subsasgn(&η, ν, &M)` and `W.subsasgn(ν, &η, &M.t())` -/
def psdCompleteStepData (ext : Nat → Array α → MErr (Nat × Nat → α)) (t : SuperNodeTree)
    (N j : Nat) (W : Array α) : MErr (Array α) := do
  let ν ← t.getSnode j
  let α' ← t.getSeparators j
  let i ← getE ν 0 "psd_complete: ν[0]"
  let η := etaOf i N α' ν
  checkIndex N W.size (subsPositions α'.toList α'.toList) "psd_complete: W[α,α]"
  checkIndex N W.size (subsPositions α'.toList ν.toList) "psd_complete: W[α,ν]"
  checkIndex N W.size (subsPositions η α'.toList) "psd_complete: W[η,α]"
  let f ← ext j W
  let W ← writeAll N W ((subsPositionsIdx η ν.toList).map (fun q => (q.1, f q.2))) "psd_complete: W[η,ν] ="
  writeAll N W ((subsPositionsIdx ν.toList η).map (fun q => (q.1, f (q.2.2, q.2.1)))) "psd_complete: W[ν,η] ="

/-- `psd_complete(A, pattern)` on the storage `A` of an `N × N` matrix (`Matrix::new` asserts the
length) -/
def psdComplete [OfNat α 0] (ext : Nat → Array α → MErr (Nat × Nat → α)) (A : Array α) (N : Nat)
    (p : SPattern) : MErr (Array α) := do
  if A.size ≠ N * N then throw (.panic "Matrix::new: assert") else
  let t := p.sntree
  let ip ← invpermUtils p.ordering
  let W ← subsrefInto N (Array.replicate (N * N) (0 : α)) N A p.ordering.toList p.ordering.toList
    "psd_complete: W = A[p,p]"
  if t.nCliques = 0 then throw (.panic "psd_complete: n_cliques - 1") else
  let W ← (List.range (t.nCliques - 1)).reverse.foldlM (fun W j => psdCompleteStepData ext t N j W) W
  subsrefInto N A N W ip.toList ip.toList "psd_complete: A = W[ip,ip]"
end data

end Clarabel.Chordal
