/-
  Executable validity predicate for the clique tree returned by the chordal analysis
  (`SparsityPattern::new`): the clauses of the harness oracle `check_clique_tree`
  (`harness/src/bin/c17.rs`), in the same case split, written with plain `List`/`Array`
  functions.  The driver `cm_c17` evaluates it on the MODEL's output for every analysis
  case (response field `valid=`, compared with the verdict of `check_clique_tree` on the
  implementation's tree) and, on corrupted copies of the trees, against `check_clique_tree`
  itself (channel `tree.valid`); `ClarabelProofs/Lemmas/ChordalValid.lean` proves that it
  decides the Prop-level statement `ValidCliqueTree`.

  Conventions: `k = t.snode.size` cliques are stored, `t.nCliques` of them are live, the
  live ones are those listed in `t.snodePost`; tree vertex `v` stands for the original
  coordinate `ordering[v]`; pattern edges are given in original coordinates.
-/
import ClarabelModel.Chordal.SuperNode

namespace Clarabel.Chordal

/-- duplicate-freeness of a list of naturals -/
def nodupB : List Nat → Bool
  | [] => true
  | a :: l => !l.contains a && nodupB l

namespace SuperNodeTree

/-- supernode of clique `c` (empty when out of range) -/
def sn (t : SuperNodeTree) (c : Nat) : VSet := t.snode.getD c #[]
/-- separator of clique `c` (empty when out of range) -/
def sp (t : SuperNodeTree) (c : Nat) : VSet := t.separators.getD c #[]
/-- parent of clique `c` -/
def par (t : SuperNodeTree) (c : Nat) : Nat := t.snodeParent.getD c 0
/-- children list of clique `c` -/
def ch (t : SuperNodeTree) (c : Nat) : VSet := t.snodeChildren.getD c #[]
/-- the `i`-th clique of the post-order -/
def postAt (t : SuperNodeTree) (i : Nat) : Nat := t.snodePost.getD i 0
/-- clique `c` = supernode followed by separator -/
def cliqueL (t : SuperNodeTree) (c : Nat) : List Nat := (t.sn c).toList ++ (t.sp c).toList
/-- live cliques are the listed ones -/
def liveB (t : SuperNodeTree) (c : Nat) : Bool := t.snodePost.toList.contains c
/-- the clique that has to be the root: the last one of the post-order -/
def root (t : SuperNodeTree) : Nat := t.postAt (t.nCliques - 1)
/-- number of vertices in the supernodes of the first `i` cliques of the post-order -/
def offset (t : SuperNodeTree) (i : Nat) : Nat :=
  ((t.snodePost.toList.take i).map (fun c => (t.sn c).size)).sum
/-- live cliques without parent -/
def rootsL (t : SuperNodeTree) : List Nat :=
  (List.range t.snode.size).filter (fun c => t.liveB c && t.par c == noParent)
/-- the cliques at which vertex `v` enters the tree: live, contain `v`, and are the root or
    have a parent clique that does not contain `v` (cheap tests first: `&&` short-circuits) -/
def topsL (t : SuperNodeTree) (v : Nat) : List Nat :=
  (List.range t.snode.size).filter (fun c =>
    (t.cliqueL c).contains v && t.liveB c && (c == t.root || !(t.cliqueL (t.par c)).contains v))

end SuperNodeTree

open SuperNodeTree

/-! ### the clauses (names are the `why` tags) -/

/-- `ordering` is a permutation of `0..n` -/
def clOrderingPerm (n : Nat) (ordering : Array Nat) : Bool :=
  ordering.size == n && ordering.toList.all (fun x => decide (x < n)) && nodupB ordering.toList

/-- consistent sizes -/
def clSizes (t : SuperNodeTree) : Bool :=
  t.nCliques != 0 && t.separators.size == t.snode.size && t.snodeParent.size == t.snode.size
    && t.snodePost.size == t.nCliques

/-- `nCliques = 1`: the listed clique exists -/
def clSingleIndex (t : SuperNodeTree) : Bool := decide (t.postAt 0 < t.snode.size)

/-- `nCliques = 1`: its sorted supernode is `0..n` -/
def clSingleAll (n : Nat) (t : SuperNodeTree) : Bool :=
  (t.sn (t.postAt 0)).sort.toList == List.range n

/-- `snodePost` is a duplicate-free list of clique indices -/
def clPostDistinct (t : SuperNodeTree) : Bool :=
  nodupB t.snodePost.toList && t.snodePost.toList.all (fun c => decide (c < t.snode.size))

/-- dead cliques are empty, live supernodes are not -/
def clDeadEmpty (t : SuperNodeTree) : Bool :=
  (List.range t.snode.size).all (fun c =>
    if t.liveB c then !(t.sn c).isEmpty else (t.sn c).isEmpty && (t.sp c).isEmpty)

/-- the supernodes are the consecutive ranges in post-order ... -/
def clConsecutive (t : SuperNodeTree) : Bool :=
  (List.range t.nCliques).all (fun i =>
    (t.sn (t.postAt i)).sort.toList == List.range' (t.offset i) (t.sn (t.postAt i)).size)

/-- ... and cover `0..n` -/
def clCoverAll (n : Nat) (t : SuperNodeTree) : Bool := t.offset t.nCliques == n

/-- supernode and separator of every clique are disjoint, repetition-free, in range -/
def clCliques (n : Nat) (t : SuperNodeTree) : Bool :=
  (List.range t.snode.size).all (fun c =>
    nodupB (t.cliqueL c) && (t.cliqueL c).all (fun v => decide (v < n)))

/-- exactly one live clique has no parent -/
def clOneRoot (t : SuperNodeTree) : Bool := t.rootsL.length == 1

/-- it is the last one of the post-order -/
def clRootLast (t : SuperNodeTree) : Bool := t.rootsL.contains t.root

/-- every other live clique has a live parent that comes later in the post-order -/
def clParents (t : SuperNodeTree) : Bool :=
  (List.range t.snode.size).all (fun c =>
    !t.liveB c || c == t.root ||
      (decide (t.par c < t.snode.size) && t.liveB (t.par c) &&
        decide (t.snodePost.toList.idxOf c < t.snodePost.toList.idxOf (t.par c))))

/-- separator = clique ∩ parent clique (as sets) for every live clique but the root -/
def clSeparators (t : SuperNodeTree) : Bool :=
  (List.range t.snode.size).all (fun c =>
    !t.liveB c || c == t.root ||
      ((t.sp c).toList.all (fun v => (t.cliqueL c).contains v && (t.cliqueL (t.par c)).contains v) &&
       (t.cliqueL c).all (fun v => !(t.cliqueL (t.par c)).contains v || (t.sp c).toList.contains v)))

/-- the root has an empty separator -/
def clRootSep (t : SuperNodeTree) : Bool := (t.sp t.root).isEmpty

/-- children lists = inverse of the parent array on the live cliques (when populated) -/
def clChildren (t : SuperNodeTree) : Bool :=
  t.snodeChildren.size != t.snode.size ||
  (List.range t.snode.size).all (fun c =>
    !t.liveB c ||
      ((t.ch c).toList.all (fun d => decide (d < t.snode.size) && t.liveB d && t.par d == c) &&
       (List.range t.snode.size).all (fun d => !(t.par d == c && t.liveB d) || (t.ch c).toList.contains d)))

/-- running intersection: every vertex enters the tree at exactly one clique -/
def clRunning (n : Nat) (t : SuperNodeTree) : Bool :=
  (List.range n).all (fun v => (t.topsL v).length == 1)

/-- block dimensions -/
def clNblk (t : SuperNodeTree) : Bool :=
  match t.nblk with
  | none => false
  | some nb =>
    nb.size == t.nCliques &&
    (List.range t.nCliques).all (fun i => nb.getD i 0 == (t.cliqueL (t.postAt i)).length)

/-- every pattern entry (original coordinates) lies in the block of some live clique -/
def clCoverage (edges : List (Nat × Nat)) (t : SuperNodeTree) (ordering : Array Nat) : Bool :=
  edges.all (fun e =>
    (List.range t.snode.size).any (fun c =>
      (t.cliqueL c).any (fun a => ordering[a]? == some e.1)
        && (t.cliqueL c).any (fun b => ordering[b]? == some e.2) && t.liveB c))

/-! ### assembly -/

/-- clauses checked in every case -/
def clausesCommon (n : Nat) (t : SuperNodeTree) (ordering : Array Nat) : List (String × Bool) :=
  [("ordering-perm", clOrderingPerm n ordering), ("sizes", clSizes t)]

/-- everything merged into one clique (the pattern stays undecomposed) -/
def clausesSingle (n : Nat) (t : SuperNodeTree) : List (String × Bool) :=
  [("single-index", clSingleIndex t), ("single-all-vertices", clSingleAll n t)]

/-- at least two cliques -/
def clausesMulti (n : Nat) (edges : List (Nat × Nat)) (t : SuperNodeTree) (ordering : Array Nat) :
    List (String × Bool) :=
  [("post-distinct", clPostDistinct t),
   ("dead-empty", clDeadEmpty t),
   ("snode-consecutive", clConsecutive t),
   ("snode-cover", clCoverAll n t),
   ("clique-disjoint-range", clCliques n t),
   ("one-root", clOneRoot t),
   ("root-last", clRootLast t),
   ("parent-live-later", clParents t),
   ("separator-intersection", clSeparators t),
   ("root-separator", clRootSep t),
   ("children", clChildren t),
   ("running-intersection", clRunning n t),
   ("nblk", clNblk t),
   ("coverage", clCoverage edges t ordering)]

def validClauses (n : Nat) (edges : List (Nat × Nat)) (t : SuperNodeTree) (ordering : Array Nat) :
    List (String × Bool) :=
  clausesCommon n t ordering ++
    (if t.nCliques == 1 then clausesSingle n t else clausesMulti n edges t ordering)

/-- name of the first failing clause -/
def validCliqueTreeWhy (n : Nat) (edges : List (Nat × Nat)) (t : SuperNodeTree) (ordering : Array Nat) :
    Option String :=
  ((validClauses n edges t ordering).find? (fun p => !p.2)).map (·.1)

/-- the clique tree `t` (with `ordering`) is valid for the pattern `edges` on `n` vertices -/
def validCliqueTreeB (n : Nat) (edges : List (Nat × Nat)) (t : SuperNodeTree) (ordering : Array Nat) : Bool :=
  (validCliqueTreeWhy n edges t ordering).isNone

end Clarabel.Chordal
