/-
  Model of `src/solver/chordal/supernode_tree.rs` (+ the tail of `sparsity_pattern.rs`):
  elimination tree of the symbolic factor `L`, Pothen–Sun supernodes, separators, the
  consecutive re-labelling of supernodes and the block dimensions.

  The symbolic factor `L` (strict lower triangle, CSC pattern) and the AMD `ordering`
  are *inputs* of the model (they come from QDLDL / the `amd` crate).
-/
import ClarabelModel.Chordal.PostOrder

namespace Clarabel.Chordal

/-- sparsity pattern of the `n × n` factor `L` -/
structure LPat where
  n : Nat
  colptr : Array Nat
  rowval : Array Nat
  deriving Repr, BEq, Inhabited

/-- `SuperNodeTree` -/
structure SuperNodeTree where
  snode : Array VSet
  snodePost : Array Nat
  snodeParent : Array Nat
  snodeChildren : Array VSet
  post : Array Nat
  separators : Array VSet
  nblk : Option (Array Nat)
  nCliques : Nat
  deriving Repr, BEq, Inhabited

/-- `find_parent_direct` -/
def findParentDirect (L : LPat) (v : Nat) : MErr Nat :=
  if L.n = 0 then throw (.panic "find_parent_direct: underflow") else
  if v == L.n - 1 then pure noParent else do
    let k ← getE L.colptr v "find_parent_direct"
    getE L.rowval k "find_parent_direct"

/-- `parent_from_L` -/
def parentFromL (L : LPat) : MErr (Array Nat) :=
  (List.range L.n).foldlM (fun (acc : Array Nat) i => do
    let p ← findParentDirect L i
    pure (acc.push p)) #[]

/-- `find_higher_order_neighbors` -/
def findHigherOrderNeighbors (L : LPat) (v : Nat) : MErr (List Nat) := do
  let lo ← getE L.colptr v "find_higher_order_neighbors"
  let hi ← getE L.colptr (v + 1) "find_higher_order_neighbors"
  if lo > hi ∨ hi > L.rowval.size then throw (.panic "find_higher_order_neighbors: slice") else
  pure (L.rowval.extract lo hi).toList

/-- `higher_degree` -/
def higherDegree (L : LPat) : MErr (Array Nat) :=
  if L.n = 0 then throw (.panic "higher_degree: underflow") else
  (List.range (L.n - 1)).foldlM (fun (deg : Array Nat) v => do
    let lo ← getE L.colptr v "higher_degree"
    let hi ← getE L.colptr (v + 1) "higher_degree"
    if hi < lo then throw (.panic "higher_degree: underflow") else
    setE deg v (hi - lo) "higher_degree") (Array.replicate L.n 0)

/-- state of the main loop of `pothen_sun` -/
structure PSState where
  snodeIndex : Array Int
  snodeParent : Array Nat
  children : Array VSet

/-- one pass of the loop `for &v in post` of `pothen_sun` -/
def pothenSunStep (parent degree : Array Nat) (rootIndex : Nat) (st : PSState) (v : Nat) : MErr PSState := do
  let pv ← getE parent v "pothen_sun"
  -- children[root_index or parent[v]].insert(v)
  let tgt := if pv == noParent then rootIndex else pv
  let ct ← getE st.children tgt "pothen_sun"
  let children ← setE st.children tgt (ct.insert v) "pothen_sun"
  let mut si := st.snodeIndex
  let mut sp := st.snodeParent
  if pv != noParent then
    let dv ← getE degree v "pothen_sun"
    let dp ← getE degree pv "pothen_sun"
    if dv = 0 then throw (.panic "pothen_sun: underflow")
    let sipv ← getE si pv "pothen_sun"
    let siv ← getE si v "pothen_sun"
    if dv - 1 == dp && sipv == -1 then
      if siv < 0 then
        -- Case A: v is a representative vertex
        si ← setE si pv (Int.ofNat v) "pothen_sun"
        si ← setE si v (siv - 1) "pothen_sun"
      else
        -- Case B
        si ← setE si pv siv "pothen_sun"
        let tmp := siv.toNat
        let st' ← getE si tmp "pothen_sun"
        si ← setE si tmp (st' - 1) "pothen_sun"
    else if siv < 0 then
      sp ← setE sp v v "pothen_sun"
    else
      sp ← setE sp siv.toNat siv.toNat "pothen_sun"
  -- k: rep vertex of the snd that v belongs to
  let siv ← getE si v "pothen_sun"
  let k : Nat := if siv < 0 then v else siv.toNat
  let vch ← getE children v "pothen_sun"
  for w in vch.toList do
    let siw ← getE si w "pothen_sun"
    let l : Nat := if siw < 0 then w else siw.toNat
    if l != k then
      sp ← setE sp l k "pothen_sun"
  pure { snodeIndex := si, snodeParent := sp, children := children }

/-- `pothen_sun` : returns `(snode_parent, snode_index)` -/
def pothenSun (parent post degree : Array Nat) : MErr (Array Nat × Array Int) := do
  let n := parent.size
  let rootIndex ← match parent.toList.findIdx? (· == noParent) with
    | some r => pure r
    | none => throw (.panic "pothen_sun: no root")
  let st0 : PSState := { snodeIndex := Array.replicate n (-1), snodeParent := Array.replicate n noParent,
                         children := Array.replicate n #[] }
  let st ← post.toList.foldlM (pothenSunStep parent degree rootIndex) st0
  -- representative vertices
  let reprVertex := (List.range n).filter (fun i => st.snodeIndex.getD i 0 < 0)
  let reprParent := reprVertex.map (fun i => st.snodeParent.getD i 0)
  let snodeParent := reprParent.map (fun rp =>
    match reprVertex.findIdx? (· == rp) with
    | some idx => idx
    | none => noParent)
  pure (snodeParent.toArray, st.snodeIndex)

/-- `find_supernodes` -/
def findSupernodes (parent post degree : Array Nat) : MErr (Array VSet × Array Nat) := do
  let (snodeParent, snodeIndex) ← pothenSun parent post degree
  let snode ← (List.range snodeIndex.size).foldlM (fun (sn : Array VSet) i => do
    let f := snodeIndex.getD i 0
    let tgt := if f < 0 then i else f.toNat
    let s ← getE sn tgt "find_supernodes"
    setE sn tgt (s.insert i) "find_supernodes") (Array.replicate parent.size #[])
  pure ((snode.toList.filter (fun s => !s.isEmpty)).toArray, snodeParent)

/-- `find_separators` -/
def findSeparators (L : LPat) (snode : Array VSet) : MErr (Array VSet) :=
  snode.toList.foldlM (fun (acc : Array VSet) sn => do
    match sn.toList with
    | [] => throw (.panic "find_separators: empty supernode")
    | a :: rest =>
      let vrep := rest.foldl Nat.min a
      let adjplus ← findHigherOrderNeighbors L vrep
      let sep := adjplus.foldl (fun (s : VSet) nb => if sn.contains nb then s else s.insert nb) #[]
      pure (acc.push sep)) #[]

/-- `SuperNodeTree::new` -/
def SuperNodeTree.new (L : LPat) : MErr SuperNodeTree := do
  let parent ← parentFromL L
  let children ← childrenFromParent parent
  let (post, _) ← postOrder parent children parent.size
  let degree ← higherDegree L
  let (snode, snodeParent) ← findSupernodes parent post degree
  let snodeChildren ← childrenFromParent snodeParent
  let (snodePost, snodeChildren) ← postOrder snodeParent snodeChildren snodeParent.size
  let separators ← findSeparators L snode
  pure { snode, snodePost, snodeParent, snodeChildren, post, separators, nblk := none,
         nCliques := snode.size }

/-- `invperm` of `src/algebra/utils.rs` (with its `b[j] == 0` "unset" test) -/
def invpermUtils (p : Array Nat) : MErr (Array Nat) :=
  (List.range p.size).foldlM (fun (b : Array Nat) i => do
    let j := p.getD i 0
    if j < p.size ∧ b.getD j 0 = 0 then setE b j i "invperm" else throw (.panic "invperm: assert")) (Array.replicate p.size 0)

/-- `reorder_snode_consecutively`; returns the new tree and the new `ordering` -/
def SuperNodeTree.reorderSnodeConsecutively (t : SuperNodeTree) (ordering : Array Nat) :
    MErr (SuperNodeTree × Array Nat) := do
  let n := t.post.size
  -- permutation p and the renumbered supernodes
  let (p, snode, _) ← t.snodePost.toList.foldlM (fun (acc : Array Nat × Array VSet × Nat) i => do
    let (p, snode, k) := acc
    let sn ← getE snode i "reorder_snode_consecutively"
    let len := sn.size
    if k + len > n then throw (.panic "reorder_snode_consecutively: index") else
    let sorted := sn.sort
    let p := (List.range len).foldl (fun (p : Array Nat) j => p.setIfInBounds (k + j) (sorted.getD j 0)) p
    let snode ← setE snode i (List.range' k len).toArray "reorder_snode_consecutively"
    pure (p, snode, k + len)) (Array.replicate n 0, t.snode, 0)
  let pInv ← invpermUtils p
  -- separators
  let separators ← t.separators.toList.foldlM (fun (acc : Array VSet) sp => do
    if p.size < sp.size then throw (.panic "reorder_snode_consecutively: assert") else
    let tmp ← sp.toList.mapM (fun x => getE pInv x "reorder_snode_consecutively")
    pure (acc.push (VSet.ofList tmp))) #[]
  -- ipermute(ordering, tmp, p_inv): ordering[p_inv[i]] = tmp[i] for i in zip(p_inv, tmp)
  let m := min pInv.size ordering.size
  let newOrdering ← (List.range m).foldlM (fun (o : Array Nat) i =>
    setE o (pInv.getD i 0) (ordering.getD i 0) "ipermute") ordering
  pure ({ t with snode := snode, separators := separators }, newOrdering)

/-- `calculate_block_dimensions` -/
def SuperNodeTree.calculateBlockDimensions (t : SuperNodeTree) : MErr SuperNodeTree := do
  let nblk ← (List.range t.nCliques).mapM (fun i => do
    let c ← getE t.snodePost i "calculate_block_dimensions"
    let sp ← getE t.separators c "calculate_block_dimensions"
    let sn ← getE t.snode c "calculate_block_dimensions"
    pure (sp.size + sn.size))
  pure { t with nblk := some nblk.toArray }

end Clarabel.Chordal
