/-
  Model of `ChordalInfo::decomp_augment_compact` (`src/solver/chordal/decomp/augment_compact.rs`,
  lines 29-55): the compact transformation of the whole problem data `(P, q, A, b)`.  `A_new`,
  `b_new` and the cones come from `find_compact_A_b_and_cones` (`AugCompact.lean`); the `nadd`
  overlap variables get zero cost: `P_new = blockdiag(P, zeros(nadd, nadd))`,
  `q_new = (q, 0, …, 0)`.
-/
import ClarabelModel.Chordal.AugCompact

namespace Clarabel.Chordal
variable {α : Type}

/-- `decomp_augment_compact` : `(P_new, q_new, A_new, b_new, cones_new, cone_maps)` -/
def decompAugmentCompact [Add α] [Neg α] [OfNat α 0] [OfNat α 1] [BEq α] (ci : ChordalInfo)
    (P : Csc α) (q : Array α) (A : Csc α) (b : Array α) :
    MErr (Csc α × Array α × Csc α × Array α × Array Cone × Array ConeMapEntry) := do
  let r ← findCompactAbAndCones ci A b
  -- `let nadd = A_new.n - A.n;` (usize)
  if r.1.n < A.n then throw (.panic "nadd: attempt to subtract with overflow") else
  let nadd := r.1.n - A.n
  -- `CscMatrix::blockdiag(&[P, &CscMatrix::zeros((nadd, nadd))]).unwrap()`
  let Pnew := ChordalInfo.padSquare P nadd
  -- `q_new = vec![0; q.len() + nadd]; q_new[0..q.len()].copy_from(q)`
  let qnew := q ++ Array.replicate nadd 0
  pure (Pnew, qnew, r.1, r.2.1, r.2.2.1, r.2.2.2)

end Clarabel.Chordal
