/-
  Model of `src/solver/chordal/decomp/augment_standard.rs` (+ the accessors of
  `SuperNodeTree` / `ChordalInfo` it uses): the matrix `H` of the standard decomposition,
  the new cone list and the assembly of the augmented problem data.
-/
import ClarabelModel.Csc
import ClarabelModel.Chordal.TriIndex
import ClarabelModel.Chordal.SuperNode

namespace Clarabel.Chordal

/-- the cone kinds that occur in the decomposition code (`SupportedConeT`; only `nvars` and
"is it a PSD triangle" matter) -/
inductive Cone where
  | zero (n : Nat) | nonneg (n : Nat) | soc (n : Nat) | exp | psd (n : Nat)
  deriving Repr, BEq, DecidableEq, Inhabited

/-- `SupportedConeT::nvars` -/
def Cone.nvars : Cone → Nat
  | .zero n => n | .nonneg n => n | .soc n => n | .exp => 3 | .psd n => triangularNumber n

def Cone.isPsd : Cone → Bool
  | .psd _ => true | _ => false

/-- `SparsityPattern` -/
structure SPattern where
  sntree : SuperNodeTree
  ordering : Array Nat
  origIndex : Nat
  deriving Repr, Inhabited

/-- the part of `ChordalInfo` that the decomposition reads -/
structure ChordalInfo where
  initDims : Nat × Nat
  initCones : Array Cone
  spatterns : Array SPattern
  deriving Repr, Inhabited

namespace SuperNodeTree

/-- `get_snode(i)` -/
def getSnode (t : SuperNodeTree) (i : Nat) : MErr VSet := do
  let c ← getE t.snodePost i "get_snode"
  getE t.snode c "get_snode"
/-- `get_separators(i)` -/
def getSeparators (t : SuperNodeTree) (i : Nat) : MErr VSet := do
  let c ← getE t.snodePost i "get_separators"
  getE t.separators c "get_separators"
/-- `get_clique_parent(i)` -/
def getCliqueParent (t : SuperNodeTree) (i : Nat) : MErr Nat := do
  let c ← getE t.snodePost i "get_clique_parent"
  getE t.snodeParent c "get_clique_parent"
/-- `get_nblk(i)` -/
def getNblk (t : SuperNodeTree) (i : Nat) : MErr Nat :=
  match t.nblk with
  | none => throw (.panic "get_nblk: unwrap")
  | some nb => getE nb i "get_nblk"
/-- `get_overlap(i)` -/
def getOverlap (t : SuperNodeTree) (i : Nat) : MErr Nat := do
  let s ← t.getSeparators i
  pure s.size
/-- `get_clique(i)` : supernode followed by the separator vertices not already present -/
def getClique (t : SuperNodeTree) (i : Nat) : MErr VSet := do
  let s1 ← t.getSnode i
  let s2 ← t.getSeparators i
  pure (s1.extend s2.toList)
/-- `get_decomposed_dim_and_overlaps` -/
def getDecomposedDimAndOverlaps (t : SuperNodeTree) : MErr (Nat × Nat) :=
  (List.range t.nCliques).foldlM (fun (acc : Nat × Nat) i => do
    let nb ← t.getNblk i
    let ov ← t.getOverlap i
    pure (acc.1 + triangularNumber nb, acc.2 + triangularNumber ov)) (0, 0)

end SuperNodeTree

namespace ChordalInfo

/-- is the next unused pattern (index `k`) the one of cone `coneidx`? -/
def nextPattern? (ci : ChordalInfo) (k coneidx : Nat) : Option SPattern :=
  match ci.spatterns[k]? with
  | some p => if p.origIndex == coneidx then some p else none
  | none => none

/-- `ChordalInfo::get_decomposed_dim_and_overlaps` -/
def getDecomposedDimAndOverlaps (ci : ChordalInfo) : MErr (Nat × Nat) := do
  let (c, o, _) ← (List.range ci.initCones.size).foldlM (fun (acc : Nat × Nat × Nat) coneidx => do
    let (sc, so, k) := acc
    match ci.nextPattern? k coneidx with
    | some p =>
      let (cols, ov) ← p.sntree.getDecomposedDimAndOverlaps
      pure (sc + cols, so + ov, k + 1)
    | none =>
      let cone ← getE ci.initCones coneidx "get_decomposed_dim_and_overlaps"
      pure (sc + cone.nvars, so, k)) (0, 0, 0)
  pure (c, o)

/-- `add_subblock_map` -/
def addSubblockMap (HI : Array Nat) (v : Array Nat) (rowStart : Nat) : Array Nat :=
  (List.range v.size).foldl (fun (acc : Array Nat) j =>
    (List.range (j + 1)).foldl (fun (acc : Array Nat) i =>
      acc.push (rowStart + coordToUpperTriangularIndex (v.getD i 0, v.getD j 0))) acc) HI

/-- the clique `i` of a pattern in original coordinates, sorted -/
def cliqueOriginal (p : SPattern) (i : Nat) : MErr (Array Nat) := do
  let clique ← p.sntree.getClique i
  let c ← clique.toList.mapM (fun v => getE p.ordering v "ordering")
  pure (VSet.sort c.toArray)

/-- `decompose_with_sparsity_pattern` -/
def decomposeWithSparsityPattern (HI : Array Nat) (conesNew : Array Cone) (p : SPattern) (row : Nat) :
    MErr (Array Nat × Array Cone) :=
  (List.range p.sntree.nCliques).foldlM (fun (acc : Array Nat × Array Cone) i => do
    let c ← cliqueOriginal p i
    let cdim ← p.sntree.getNblk i
    pure (addSubblockMap acc.1 c row, acc.2.push (.psd cdim))) (HI, conesNew)

/-- result of `find_standard_H_and_cones` : `H` has `rows` rows, one entry `1` per column,
column `j` holding it in row `HI[j]` -/
structure StdH where
  rows : Nat
  lenH : Nat
  HI : Array Nat
  conesNew : Array Cone
  deriving Repr, Inhabited

/-- `find_standard_H_and_cones` -/
def findStandardHAndCones (ci : ChordalInfo) : MErr StdH := do
  let (lenH, _) ← ci.getDecomposedDimAndOverlaps
  let m := ci.initDims.2
  let (HI, conesNew, row, _) ← (List.range ci.initCones.size).foldlM
    (fun (acc : Array Nat × Array Cone × Nat × Nat) coneidx => do
      let (HI, conesNew, row, k) := acc
      let cone ← getE ci.initCones coneidx "find_standard_H_and_cones"
      match ci.nextPattern? k coneidx with
      | some p =>
        if !cone.isPsd then throw (.panic "find_standard_H_and_cones: assert PSD") else
        let (HI, conesNew) ← decomposeWithSparsityPattern HI conesNew p row
        pure (HI, conesNew, row + cone.nvars, k + 1)
      | none =>
        let HI := (List.range cone.nvars).foldl (fun (a : Array Nat) i => a.push (row + i)) HI
        pure (HI, conesNew.push cone, row + cone.nvars, k))
    (#[], #[Cone.zero m], 0, 0)
  -- CscMatrix::new_from_triplets(row, lenH, H_I, 0..lenH, ones) asserts equal lengths
  if HI.size != lenH then throw (.panic "new_from_triplets: assert") else
  pure { rows := row, lenH := lenH, HI := HI, conesNew := conesNew }

/-- `H` as a CSC matrix -/
def StdH.toCsc {α : Type} [OfNat α 1] (h : StdH) : Csc α :=
  { m := h.rows, n := h.lenH, colptr := (List.range (h.lenH + 1)).toArray, rowval := h.HI,
    nzval := Array.replicate h.lenH 1 }

variable {α : Type}

/-- `blockdiag(P, zeros(k,k))` -/
def padSquare (P : Csc α) (k : Nat) : Csc α :=
  { m := P.m + k, n := P.n + k, colptr := P.colptr ++ Array.replicate k (P.colptr.getD P.n 0),
    rowval := P.rowval, nzval := P.nzval }

/-- `decomp_augment_standard` : `(P_new, q_new, A_new, b_new, cones_new)` with
`A_new = [A H; 0 -I]` -/
def decompAugmentStandard [OfNat α 0] [OfNat α 1] [Neg α] (ci : ChordalInfo)
    (P : Csc α) (q : Array α) (A : Csc α) (b : Array α) :
    MErr (Csc α × Array α × Csc α × Array α × Array Cone × StdH) := do
  let h ← ci.findStandardHAndCones
  if P.m != P.n then throw (.panic "blockdiag") else
  if A.m != h.rows then throw (.panic "hvcat: incompatible dimensions") else
  let Pnew := padSquare P h.lenH
  let qnew := q ++ Array.replicate h.lenH 0
  let nnzA := A.colptr.getD A.n 0
  let Anew : Csc α :=
    { m := A.m + h.lenH, n := A.n + h.lenH,
      colptr := (A.colptr.extract 0 (A.n + 1)) ++ ((List.range h.lenH).map (fun j => nnzA + 2 * (j + 1))).toArray,
      rowval := (A.rowval.extract 0 nnzA) ++
        ((List.range h.lenH).foldl (fun (a : Array Nat) j => (a.push (h.HI.getD j 0)).push (A.m + j)) #[]),
      nzval := (A.nzval.extract 0 nnzA) ++
        ((List.range h.lenH).foldl (fun (a : Array α) _ => (a.push 1).push (-1)) #[]) }
  let bnew := b ++ Array.replicate h.lenH 0
  pure (Pnew, qnew, Anew, bnew, h.conesNew, h)

end ChordalInfo
end Clarabel.Chordal
