/-
  Model of the packed-triangle index maps of `src/algebra/scalarmath.rs`
  (`triangular_number`, `triangular_index`, `upper_triangular_index_to_coord`,
  `coord_to_upper_triangular_index`).  `isqrt` is the exact integer square root
  (the Rust `(v as f64).sqrt() as usize` is exact below 2^52 - trusted).
  `usize` subtraction is modelled by truncated subtraction on `Nat`; theorem
  `Clarabel.C17.tri_index_no_underflow` shows that it never truncates.
-/
import ClarabelModel.Scalar

namespace Clarabel.Chordal

def triangularNumber (k : Nat) : Nat := (k * (k + 1)) / 2
def triangularIndex (k : Nat) : Nat := (k * (k + 3)) / 2
def isqrt (v : Nat) : Nat := Nat.sqrt v

def upperTriangularIndexToCoord (linearidx : Nat) : Nat × Nat :=
  if linearidx = 0 then (0, 0) else
  let col := ((isqrt (8 * linearidx + 1) + 1) / 2) - 1
  let row := linearidx - triangularIndex (col - 1) - 1
  (row, col)

def coordToUpperTriangularIndex (coord : Nat × Nat) : Nat :=
  if coord.1 = 0 ∧ coord.2 = 0 then 0 else
  if coord.1 ≤ coord.2 then triangularIndex (coord.2 - 1) + coord.1 + 1
  else triangularIndex (coord.1 - 1) + coord.2 + 1

end Clarabel.Chordal
