/-
  Model of `src/solver/chordal/merge/clique_graph.rs` (the `clique_graph` merge strategy),
  driven by the generic loop `merge_cliques` of `merge/mod.rs`, and of `SparsityPattern::new`
  for `merge_method = "clique_graph"`.

  * `split_cliques` (clique sets -> supernodes + separators along the clique tree) comes first
    and is the subject of `ClarabelProofs/Lemmas/ChordalSplit.lean`.
  * `IMat` models `CscMatrix<isize>` (the weighted edge matrix of the reduced clique graph)
    with exactly the operations the strategy uses.
  * `HMap` models the `HashMap<usize, _>`s of the Rust code.  All keys are clique indices, so a
    map is an array of optional slots.  The Rust code only ever looks keys up, inserts,
    removes, or applies the same order-independent update to every value (`values_mut` +
    `shift_remove`), so no result depends on the hash iteration order.
  * Everything else follows the Rust functions one by one under their own names.
-/
import ClarabelModel.Chordal.PostOrder
import ClarabelModel.Chordal.SuperNode
import ClarabelModel.Chordal.Dsu
import ClarabelModel.Chordal.MergePC

namespace Clarabel.Chordal

/-- `IndexSet::intersection` : elements of `a` (in order) that are in `b` -/
def VSet.inter (a b : VSet) : VSet := (a.toList.filter (fun v => b.contains v)).toArray
/-- elements of `a` (in order) that are not in `b` -/
def VSet.diff (a b : VSet) : VSet := (a.toList.filter (fun v => !b.contains v)).toArray

/-- one pass of the loop of `split_cliques` -/
def splitStep (parent : Array Nat) (st : Array VSet × Array VSet) (c : Nat) : MErr (Array VSet × Array VSet) := do
  let (snode, seps) := st
  let p ← getE parent c "split_cliques"
  let sc ← getE snode c "split_cliques"
  let sp ← getE snode p "split_cliques"
  let sep := sc.inter sp
  let seps ← setE seps c sep "split_cliques"
  let snode ← setE snode c (sc.diff sep) "split_cliques"
  pure (snode, seps)

/-- `split_cliques(snode, separators, snode_parent, snode_post, num_cliques)` -/
def splitCliques (snode seps : Array VSet) (parent post : Array Nat) (nc : Nat) :
    MErr (Array VSet × Array VSet) :=
  if nc = 0 then throw (.panic "split_cliques: underflow") else
  if post.size < nc - 1 then throw (.panic "split_cliques: index") else
  (post.toList.take (nc - 1)).foldlM (splitStep parent) (snode, seps)

/-! ## utilities of `src/algebra/utils.rs` -/

/-- `sortperm_by(p, v, compare)` : `p = 0..n`, then the *stable* `p.sort_by(..)`;
`le i j` stands for `compare(v[i], v[j]) != Greater` -/
def sortpermBy (n : Nat) (le : Nat → Nat → Bool) : Array Nat :=
  ((List.range n).mergeSort le).toArray

/-- `sortperm_rev(p, v)` : stable sort of the indices by decreasing value -/
def sortpermRev (v : Array Int) : Array Nat :=
  sortpermBy v.size (fun i j => decide (v.getD i 0 ≥ v.getD j 0))

/-- `permute(x, b, p)` : `x[i] = b[p[i]]` -/
def permuteVec {β : Type} (b : Array β) (p : Array Nat) (site : String) : MErr (Array β) :=
  p.mapM (fun k => getE b k site)

/-- `findmax(v)` : `max_by_key` returns the **last** maximal element -/
def findmax (v : Array Int) : Option Nat :=
  match v[0]? with
  | none => none
  | some v0 =>
    some ((List.range v.size).foldl (fun (best : Nat × Int) i =>
      let x := v.getD i 0
      if x ≥ best.2 then (i, x) else best) (0, v0)).1

/-- `Vec::resize(k, z)` -/
def resizeVec {β : Type} (xs : Array β) (k : Nat) (z : β) : Array β :=
  if k ≤ xs.size then xs.extract 0 k else xs ++ Array.replicate (k - xs.size) z

/-- `Vec::insert(k, v)` -/
def insertVec {β : Type} (xs : Array β) (k : Nat) (v : β) (site : String) : MErr (Array β) :=
  if k > xs.size then throw (.panic site) else
  pure ((xs.extract 0 k).push v ++ xs.extract k xs.size)

/-- `slice.partition_point(pred)` on a slice partitioned by `pred` -/
def partitionPoint (xs : Array Nat) (pred : Nat → Bool) : Nat :=
  (xs.toList.takeWhile pred).length

/-! ## `CscMatrix<isize>` (`src/algebra/csc/core.rs`, `csc/utils.rs`) -/

structure IMat where
  m : Nat
  n : Nat
  colptr : Array Nat
  rowval : Array Nat
  nzval : Array Int
  deriving Repr, BEq, Inhabited

namespace IMat

/-- `colcount_to_colptr` -/
def colcountToColptr (colptr : Array Nat) : Array Nat :=
  (colptr.foldl (fun (acc : Array Nat × Nat) count => (acc.1.push acc.2, acc.2 + count)) (#[], 0)).1

/-- `colptr_to_colcount` -/
def colptrToColcount (n : Nat) (colptr : Array Nat) : MErr (Array Nat) := do
  let mut cp := colptr
  for i in [0:n] do
    let a ← getE cp (i + 1) "colptr_to_colcount"
    let b ← getE cp i "colptr_to_colcount"
    if a < b then throw (.panic "colptr_to_colcount: underflow")
    cp ← setE cp i (a - b) "colptr_to_colcount"
  setE cp n 0 "colptr_to_colcount"

/-- `CscMatrix::zeros` -/
def zeros (m n : Nat) : IMat :=
  { m, n, colptr := Array.replicate (n + 1) 0, rowval := #[], nzval := #[] }

/-- `nnz` -/
def nnz (A : IMat) : MErr Nat := getE A.colptr A.n "nnz"

/-- `new_from_triplets(m, n, I, J, V)` : data sorted (stably) by column then row, repeated
entries are added -/
def newFromTriplets (m n : Nat) (I J : Array Nat) (V : Array Int) : MErr IMat := do
  if I.size != J.size then throw (.panic "new_from_triplets: assert")
  if I.size != V.size then throw (.panic "new_from_triplets: assert")
  let nz := V.size
  -- spalloc
  let mut colptr ← setE (Array.replicate (n + 1) 0) n nz "spalloc"
  -- sort by column, then by row
  let p := sortpermBy nz (fun a b =>
    let (ja, jb, ia, ib) := (J.getD a 0, J.getD b 0, I.getD a 0, I.getD b 0)
    decide (ja < jb) || (ja == jb && decide (ia ≤ ib)))
  -- map data into the matrix in sorted order
  let mut rowval ← permuteVec I p "new_from_triplets: permute"
  let mut nzval ← permuteVec V p "new_from_triplets: permute"
  -- assemble the column counts
  for c in J do
    let cc ← getE colptr c "new_from_triplets"
    colptr ← setE colptr c (cc + 1) "new_from_triplets"
  -- consolidate repeated entries within each column
  let mut readidx := 0
  let mut writeidx := 0
  for col in [0:n] do
    let nentries ← getE colptr col "new_from_triplets"
    for j in [0:nentries] do
      let rr ← getE rowval readidx "new_from_triplets"
      let isNew ← if j == 0 then pure true else do
        if readidx == 0 then throw (.panic "new_from_triplets: underflow")
        let prev ← getE rowval (readidx - 1) "new_from_triplets"
        pure (rr != prev)
      if isNew then
        if writeidx != readidx then
          let vv ← getE nzval readidx "new_from_triplets"
          rowval ← setE rowval writeidx rr "new_from_triplets"
          nzval ← setE nzval writeidx vv "new_from_triplets"
        writeidx := writeidx + 1
        readidx := readidx + 1
      else
        if writeidx == 0 then throw (.panic "new_from_triplets: underflow")
        let a ← getE nzval (writeidx - 1) "new_from_triplets"
        let b ← getE nzval readidx "new_from_triplets"
        nzval ← setE nzval (writeidx - 1) (a + b) "new_from_triplets"
        let cc ← getE colptr col "new_from_triplets"
        if cc == 0 then throw (.panic "new_from_triplets: underflow")
        colptr ← setE colptr col (cc - 1) "new_from_triplets"
        readidx := readidx + 1
  pure { m, n, colptr := colcountToColptr colptr,
         rowval := resizeVec rowval writeidx 0, nzval := resizeVec nzval writeidx 0 }

/-- `dropzeros` -/
def dropzeros (A : IMat) : MErr IMat := do
  let mut writeidx := 0
  let mut first := 0
  let mut colptr := A.colptr
  let mut rowval := A.rowval
  let mut nzval := A.nzval
  for col in [0:A.n] do
    let last ← getE colptr (col + 1) "dropzeros"
    for readidx in [first:last] do
      let val ← getE nzval readidx "dropzeros"
      let row ← getE rowval readidx "dropzeros"
      if val != 0 then
        if writeidx != readidx then
          nzval ← setE nzval writeidx val "dropzeros"
          rowval ← setE rowval writeidx row "dropzeros"
        writeidx := writeidx + 1
    first ← getE colptr (col + 1) "dropzeros"
    colptr ← setE colptr (col + 1) writeidx "dropzeros"
  pure { A with colptr, rowval := resizeVec rowval writeidx 0, nzval := resizeVec nzval writeidx 0 }

/-- `findnz` -/
def findnz (A : IMat) : MErr (Array Nat × Array Nat × Array Int) := do
  let mut J : Array Nat := #[]
  for c in [0:A.n] do
    let hi ← getE A.colptr (c + 1) "findnz"
    let lo ← getE A.colptr c "findnz"
    if hi < lo then throw (.panic "findnz: underflow")
    J := J ++ Array.replicate (hi - lo) c
  pure (A.rowval, J, A.nzval)

/-- the slice `rowval[colptr[col]..colptr[col+1]]` together with its offset -/
def column (A : IMat) (col : Nat) (site : String) : MErr (Nat × Array Nat) := do
  let first ← getE A.colptr col site
  let last ← getE A.colptr (col + 1) site
  if first > last ∨ last > A.rowval.size then throw (.panic site) else
  pure (first, A.rowval.extract first last)

/-- `get_entry((row, col))` (binary search in the sorted column) -/
def getEntry (A : IMat) (row col : Nat) : MErr (Option Int) := do
  if !(row < A.m && col < A.n) then throw (.panic "get_entry: assert")
  let (first, rows) ← A.column col "get_entry"
  match rows.findIdx? (· == row) with
  | some idx => do
    let v ← getE A.nzval (first + idx) "get_entry"
    pure (some v)
  | none => pure none

/-- `set_entry((row, col), value)` -/
def setEntry (A : IMat) (row col : Nat) (value : Int) : MErr IMat := do
  if !(row < A.m && col < A.n) then throw (.panic "set_entry: assert")
  let (first, rows) ← A.column col "set_entry"
  let i := partitionPoint rows (fun x => decide (x < row))
  if i == rows.size || rows.getD i 0 != row then
    -- don't allocate space for insertion of new zeros
    if value == 0 then return A
    -- the element must be inserted, then col counts rebuilt
    let rowval ← insertVec A.rowval (first + i) row "set_entry: insert"
    let nzval ← insertVec A.nzval (first + i) value "set_entry: insert"
    let cnt ← colptrToColcount A.n A.colptr
    let cc ← getE cnt col "set_entry"
    let cnt ← setE cnt col (cc + 1) "set_entry"
    pure { A with colptr := colcountToColptr cnt, rowval, nzval }
  else
    -- the element already exists, so overwrite it
    let nzval ← setE A.nzval (first + i) value "set_entry"
    pure { A with nzval }

/-- `index_to_coord(idx)` -/
def indexToCoord (A : IMat) (idx : Nat) : MErr (Nat × Nat) := do
  let nz ← A.nnz
  if !(idx < nz) then throw (.panic "index_to_coord: assert")
  let row ← getE A.rowval idx "index_to_coord"
  let pp := partitionPoint A.colptr (fun c => decide (idx + 1 > c))
  if pp == 0 then throw (.panic "index_to_coord: underflow")
  pure (row, pp - 1)

end IMat

/-! ## `HashMap<usize, β>` keyed by clique indices -/

structure HMap (β : Type) where
  slots : Array (Option β)
  deriving Repr, BEq, Inhabited

namespace HMap
variable {β : Type}

/-- `HashMap::new` / `with_capacity` -/
def empty (cap : Nat) : HMap β := ⟨Array.replicate cap none⟩

/-- `get` -/
def get? (h : HMap β) (k : Nat) : Option β :=
  match h.slots[k]? with
  | some (some v) => some v
  | _ => none

/-- `contains_key` -/
def containsKey (h : HMap β) (k : Nat) : Bool := (h.get? k).isSome

/-- `h[&k]` / `get(&k).unwrap()` / `get_mut(&k).unwrap()` -/
def getP (h : HMap β) (k : Nat) (site : String) : MErr β :=
  match h.get? k with
  | some v => pure v
  | none => throw (.panic site)

/-- `insert(k, v)` -/
def insert (h : HMap β) (k : Nat) (v : β) : HMap β :=
  if k < h.slots.size then ⟨h.slots.setIfInBounds k (some v)⟩
  else ⟨(h.slots ++ Array.replicate (k - h.slots.size) none).push (some v)⟩

/-- `remove(&k)` -/
def remove (h : HMap β) (k : Nat) : HMap β := ⟨h.slots.setIfInBounds k none⟩

/-- `for v in h.values_mut() { *v = f(v) }` (only used with an `f` whose effect does not
depend on the visiting order) -/
def mapValues (h : HMap β) (f : β → β) : HMap β := ⟨h.slots.map (fun o => o.map f)⟩

end HMap

/-! ## functions relating to edge weights -/

/-- `intersect_dim` -/
def intersectDim (s1 s2 : VSet) : Nat :=
  let (sa, sb) := if s1.size < s2.size then (s1, s2) else (s2, s1)
  sa.foldl (fun dim e => if sb.contains e then dim + 1 else dim) 0

/-- `union_dim` -/
def unionDim (s1 s2 : VSet) : MErr Nat :=
  let d := intersectDim s1 s2
  if s1.size + s2.size < d then throw (.panic "union_dim: underflow") else pure (s1.size + s2.size - d)

/-- `edge_metric` (`EdgeWeightMethod::Cubic`) -/
def edgeMetric (ca cb : VSet) : MErr Int := do
  let n1 : Int := Int.ofNat ca.size
  let n2 : Int := Int.ofNat cb.size
  let nm : Int := Int.ofNat (← unionDim ca cb)
  pure (n1 ^ 3 + n2 ^ 3 - nm ^ 3)

/-- `compute_weights` -/
def computeWeights (rows cols : Array Nat) (snode : Array VSet) : MErr (Array Int) := do
  let mut weights : Array Int := Array.replicate rows.size 0
  for k in [0:rows.size] do
    let r ← getE rows k "compute_weights"
    let c ← getE cols k "compute_weights"
    let c1 ← getE snode r "compute_weights"
    let c2 ← getE snode c "compute_weights"
    weights ← setE weights k (← edgeMetric c1 c2) "compute_weights"
  pure weights

/-! ## the reduced clique graph -/

/-- `inter_equal(s1, s2, s3)` : is `s1 ∩ s2 == s3` ? -/
def interEqual (s1 s2 s3 : VSet) : Bool := Id.run do
  let mut dim := 0
  let len1 := s1.size
  let len2 := s2.size
  let len3 := s3.size
  -- maximum possible intersection size
  let mut maxIntersect := len1 + len2
  if maxIntersect < len3 then return false
  let (sa, sb) := if len1 < len2 then (s1, s2) else (s2, s1)
  for e in sa do
    if sb.contains e then
      dim := dim + 1
      if dim > len3 then return false
      if !s3.contains e then return false
    maxIntersect := maxIntersect - 1
    if maxIntersect < len3 then return false
  return dim == len3

/-- `IndexSet::is_subset` -/
def VSet.isSubset (a b : VSet) : Bool := decide (a.size ≤ b.size) && a.all (fun v => b.contains v)

/-- `iter().position_all(pred)` -/
def positionAll {β : Type} (xs : Array β) (pred : β → Bool) : Array Nat :=
  ((List.range xs.size).filter (fun i => match xs[i]? with | some x => pred x | none => false)).toArray

/-- `separator_graph(clique_ind, separator, snd)` -/
def separatorGraph (cliqueInd : Array Nat) (separator : VSet) (snd : Array VSet) :
    MErr (HMap (Array Nat)) := do
  let mut H : HMap (Array Nat) := HMap.empty snd.size
  let nindex := cliqueInd.size
  for i in [0:nindex] do
    for j in [i + 1:nindex] do
      let ca ← getE cliqueInd i "separator_graph"
      let cb ← getE cliqueInd j "separator_graph"
      let sa ← getE snd ca "separator_graph"
      let sb ← getE snd cb "separator_graph"
      if !interEqual sa sb separator then
        if H.containsKey ca then
          H := H.insert ca ((← H.getP ca "separator_graph").push cb)
        else
          H := H.insert ca #[cb]
        if H.containsKey cb then
          H := H.insert cb ((← H.getP cb "separator_graph").push ca)
        else
          H := H.insert cb #[ca]
  -- add unconnected cliques
  for v in cliqueInd do
    if !H.containsKey v then
      H := H.insert v #[]
  pure H

/-- `DFS_hashtable(component, v, visited, H)`; the recursion depth is bounded by the number of
unvisited vertices, `fuel` is that bound -/
def dfsHashtable : Nat → VSet → Nat → HMap Bool → HMap (Array Nat) → MErr (VSet × HMap Bool)
  | 0, _, _, _, _ => throw (.panic "DFS_hashtable: recursion does not terminate")
  | fuel + 1, component, v, visited, H => do
    let visited := visited.insert v true
    let component := component.insert v
    let nbrs ← H.getP v "DFS_hashtable"
    nbrs.toList.foldlM (fun (acc : VSet × HMap Bool) n => do
      let vn ← acc.2.getP n "DFS_hashtable"
      if !vn then dfsHashtable fuel acc.1 n acc.2 H else pure acc) (component, visited)

/-- `find_components(H, clique_ind)` -/
def findComponents (H : HMap (Array Nat)) (cliqueInd : Array Nat) : MErr (Array VSet) := do
  let mut visited : HMap Bool := HMap.empty H.slots.size
  for v in cliqueInd do
    visited := visited.insert v false
  let mut components : Array VSet := #[]
  for v in cliqueInd do
    if !(← visited.getP v "find_components") then
      let (component, vis) ← dfsHashtable (cliqueInd.size + 1) #[] v visited H
      visited := vis
      components := components.push component
  pure components

/-- `is_unconnected(pair, components)` -/
def isUnconnected (pair : Nat × Nat) (components : Array VSet) : MErr Bool :=
  match components.findIdx? (fun x => x.contains pair.1) with
  | none => throw (.panic "is_unconnected: unwrap")
  | some ci => do
    let c ← getE components ci "is_unconnected"
    pure (!c.contains pair.2)

/-- `compute_reduced_clique_graph(separators, snode)`; returns the separators (sorted in
place by decreasing cardinality) and `(rows, cols)` -/
def computeReducedCliqueGraph (separators snode : Array VSet) :
    MErr (Array VSet × Array Nat × Array Nat) := do
  -- loop over separators by decreasing cardinality
  let separators := (separators.toList.mergeSort (fun a b => decide (a.size ≥ b.size))).toArray
  let mut rows : Array Nat := #[]
  let mut cols : Array Nat := #[]
  for separator in separators do
    -- find cliques that contain the separator
    let cliqueIndices := positionAll snode (fun x => separator.isSubset x)
    let H ← separatorGraph cliqueIndices separator snode
    let components ← findComponents H cliqueIndices
    let ncliques := cliqueIndices.size
    for i in [0:ncliques] do
      for j in [i + 1:ncliques] do
        let pair := (← getE cliqueIndices i "compute_reduced_clique_graph",
                     ← getE cliqueIndices j "compute_reduced_clique_graph")
        if ← isUnconnected pair components then
          rows := rows.push (max pair.1 pair.2)
          cols := cols.push (min pair.1 pair.2)
  pure (separators, rows, cols)

/-- `compute_adjacency_table(edges, num_vertices)` -/
def computeAdjacencyTable (edges : IMat) (numVertices : Nat) : MErr (HMap VSet) := do
  let mut table : HMap VSet := HMap.empty numVertices
  for i in [0:numVertices] do
    table := table.insert i #[]
  for col in [0:numVertices] do
    let (_, rows) ← edges.column col "compute_adjacency_table"
    for row in rows do
      let tr ← table.getP row "compute_adjacency_table"
      table := table.insert row (tr.insert col)
      let tc ← table.getP col "compute_adjacency_table"
      table := table.insert col (tc.insert row)
  pure table

/-- `ispermissible(edge, adjacency_table, snode)`.  NB `int1.eq(int2)` is `Iterator::eq`:
the two intersections are compared *as sequences* (in the insertion orders of
`snode[c_1]` resp. `snode[c_2]`), not as sets. -/
def ispermissible (edge : Nat × Nat) (adjacencyTable : HMap VSet) (snode : Array VSet) : MErr Bool := do
  let (c1, c2) := edge
  let a1 ← adjacencyTable.getP c1 "ispermissible"
  let a2 ← adjacencyTable.getP c2 "ispermissible"
  let commonNeighbors := a1.inter a2
  for neighbor in commonNeighbors do
    let s1 ← getE snode c1 "ispermissible"
    let s2 ← getE snode c2 "ispermissible"
    let sn ← getE snode neighbor "ispermissible"
    let int1 := s1.inter sn
    let int2 := s2.inter sn
    if int1 != int2 then return false
  return true

/-- `max_elem(A)` -/
def maxElem (A : IMat) : MErr (Nat × Nat) := do
  let n := A.n
  let ind ← match findmax A.nzval with
    | some i => pure i
    | none => throw (.panic "max_elem: unwrap")
  let row ← getE A.rowval ind "max_elem"
  let mut col := 0
  for c in [0:n] do
    let lo ← getE A.colptr c "max_elem"
    let hi ← getE A.colptr (c + 1) "max_elem"
    if lo ≤ ind ∧ ind < hi then
      col := c
      break
  pure (row, col)

/-- `edge_from_index` -/
def edgeFromIndex (A : IMat) (ind : Nat) : MErr (Nat × Nat) := A.indexToCoord ind

/-! ## the clique tree from the merged clique graph -/

/-- `clique_intersections(E, snd)` -/
def cliqueIntersections (E : IMat) (snd : Array VSet) : MErr IMat := do
  let mut nzval := E.nzval
  for col in [0:E.n] do
    let lo ← getE E.colptr col "clique_intersections"
    let hi ← getE E.colptr (col + 1) "clique_intersections"
    for j in [lo:hi] do
      let row ← getE E.rowval j "clique_intersections"
      let sr ← getE snd row "clique_intersections"
      let sc ← getE snd col "clique_intersections"
      nzval ← setE nzval j (Int.ofNat (intersectDim sr sc)) "clique_intersections"
  pure { E with nzval }

/-- `kruskal(E, num_cliques)` -/
def kruskal (E : IMat) (numCliques : Nat) : MErr IMat := do
  let numInitialCliques := E.n
  let mut connectedC := Dsu.new numInitialCliques
  let (I0, J0, V0) ← E.findnz
  -- sort the weights and edges from maximum to minimum value
  let p := sortpermRev V0
  let I ← permuteVec I0 p "kruskal: permute"
  let J ← permuteVec J0 p "kruskal: permute"
  let mut numEdgesFound := 0
  let mut nzval := E.nzval
  -- iterate through edges (I -- J) with decreasing weight
  for k in [0:min I.size J.size] do
    let row ← getE I k "kruskal"
    let col ← getE J k "kruskal"
    let (d, same) ← connectedC.inSameSet row col
    connectedC := d
    if !same then
      connectedC ← connectedC.union row col
      let pk ← getE p k "kruskal"
      nzval ← setE nzval pk (-1) "kruskal"
      numEdgesFound := numEdgesFound + 1
      if numCliques == 0 then throw (.panic "kruskal: underflow")
      if numEdgesFound ≥ numCliques - 1 then break
  pure { E with nzval }

/-- `find_neighbors(edges, c)` -/
def findNeighbors (edges : IMat) (c : Nat) : MErr (Array Nat) := do
  let mut neighbors : Array Nat := #[]
  let n := edges.n
  -- find all nonzero columns in row c up to column c
  if c > 0 then
    for col in [0:c] do
      let val := (← edges.getEntry c col).getD 0
      if val != 0 then
        neighbors := neighbors.push col
  -- find all nonzero entries in column c below c
  if n == 0 then throw (.panic "find_neighbors: underflow")
  if c < n - 1 then
    let (_, rows) ← edges.column c "find_neighbors"
    neighbors := neighbors ++ rows
  pure neighbors

/-- the `while let Some(c) = stack.pop()` loop of `assign_children` (list head = top of the
stack); on a spanning forest every clique is pushed at most once -/
def assignChildrenLoop (edges : IMat) : Nat → List Nat → Array Nat → Array VSet → MErr (Array Nat × Array VSet)
  | 0, _, _, _ => throw (.panic "assign_children: loop does not terminate")
  | _ + 1, [], snodeParent, snodeChildren => pure (snodeParent, snodeChildren)
  | fuel + 1, c :: stack, snodeParent, snodeChildren => do
    let neighbors ← findNeighbors edges c
    let mut stack := stack
    let mut snodeParent := snodeParent
    let mut snodeChildren := snodeChildren
    for n in neighbors do
      -- there is an edge in the MST and n is not the parent of c
      let e := (← edges.getEntry (max c n) (min c n)).getD 0
      let pc ← getE snodeParent c "assign_children"
      if e == -1 && pc != n then
        snodeParent ← setE snodeParent n c "assign_children"
        let cc ← getE snodeChildren c "assign_children"
        snodeChildren ← setE snodeChildren c (cc.insert n) "assign_children"
        stack := n :: stack
    assignChildrenLoop edges fuel stack snodeParent snodeChildren

/-- `assign_children(snode_parent, snode_children, c, edges)` -/
def assignChildren (snodeParent : Array Nat) (snodeChildren : Array VSet) (c : Nat) (edges : IMat) :
    MErr (Array Nat × Array VSet) :=
  assignChildrenLoop edges (2 * snodeParent.size + 2) [c] snodeParent snodeChildren

/-- `determine_parent_cliques(snode_parent, snode_children, cliques, post, E)` -/
def determineParentCliques (snodeParent : Array Nat) (snodeChildren cliques : Array VSet)
    (post : Array Nat) (E : IMat) : MErr (Array Nat × Array VSet) := do
  -- vertex with highest order
  let v ← match post.back? with
    | some v => pure v
    | none => throw (.panic "determine_parent_cliques: unwrap")
  -- find the clique that contains that vertex and make it the root
  match cliques.findIdx? (fun clique => clique.contains v) with
  | some k => do
    let snodeParent ← setE snodeParent k noParent "determine_parent_cliques"
    assignChildren snodeParent snodeChildren k E
  | none => assignChildren snodeParent snodeChildren 0 E

/-! ## the strategy -/

/-- `CliqueGraphMergeStrategy` -/
structure CGStrategy where
  stop : Bool
  edges : IMat
  p : Array Nat
  adjacencyTable : HMap VSet
  deriving Repr, Inhabited

namespace CGStrategy

/-- `CliqueGraphMergeStrategy::new` -/
def new : CGStrategy :=
  { stop := false, edges := IMat.zeros 0 0, p := #[], adjacencyTable := HMap.empty 0 }

/-- `initialise` -/
def initialise (_s : CGStrategy) (t : SuperNodeTree) : MErr (CGStrategy × SuperNodeTree) := do
  -- add the separators to the supernodes: the supernodes then represent the full clique
  let mut snode := t.snode
  for i in [0:min t.snode.size t.separators.size] do
    let sn ← getE snode i "initialise"
    let sp ← getE t.separators i "initialise"
    snode ← setE snode i (sn.extend sp.toList) "initialise"
  let mut snodeParent := t.snodeParent
  let mut snodeChildren := t.snodeChildren
  for i in [0:t.snodeParent.size] do
    snodeParent ← setE snodeParent i inactiveNode "initialise"
    snodeChildren ← setE snodeChildren i #[] "initialise"
  -- compute the edges and intersections of cliques in the reduced clique graph
  let (separators, rows, cols) ← computeReducedCliqueGraph t.separators snode
  let weights ← computeWeights rows cols snode
  let edges ← IMat.newFromTriplets t.nCliques t.nCliques rows cols weights
  let p := Array.replicate edges.nzval.size 0
  let adjacencyTable ← computeAdjacencyTable edges t.nCliques
  pure ({ stop := false, edges, p, adjacencyTable },
        { t with snode, snodeParent, snodeChildren, separators })

/-- `traverse` -/
def traverse (s : CGStrategy) (t : SuperNodeTree) : MErr (CGStrategy × Option (Nat × Nat)) := do
  -- find edge with highest weight, if permissible return cliques
  let edge ← maxElem s.edges
  if ← ispermissible edge s.adjacencyTable t.snode then
    return (s, some edge)
  -- sort the weights in edges.nzval to find the permutation p
  let nz := s.edges.nzval.size
  if nz > s.p.size then throw (.panic "traverse: slice")
  let p := sortpermRev s.edges.nzval ++ s.p.extract nz s.p.size
  let s := { s with p }
  -- try edges with decreasing weight and check if the edge is permissible
  for k in [1:nz] do
    let pk ← getE p k "traverse"
    let edge ← edgeFromIndex s.edges pk
    if ← ispermissible edge s.adjacencyTable t.snode then
      return (s, some edge)
  return (s, none)

/-- `evaluate` -/
def evaluate (s : CGStrategy) (_t : SuperNodeTree) (cand : Nat × Nat) : MErr (CGStrategy × Bool) := do
  let (c1, c2) := cand
  let doMerge ← match ← s.edges.getEntry c1 c2 with
    | some v => pure (decide (v ≥ 0))
    | none => throw (.panic "evaluate: unwrap")
  if !doMerge then
    pure ({ s with stop := true }, doMerge)
  else
    pure (s, doMerge)

/-- `merge_two_cliques` -/
def mergeTwoCliques (_s : CGStrategy) (t : SuperNodeTree) (cand : Nat × Nat) : MErr SuperNodeTree := do
  let (c1, c2) := cand
  -- merge clique c2 into c1
  let snode ← setUnionIntoIndexed t.snode c1 c2
  let snode ← setE snode c2 #[] "merge_two_cliques"
  -- decrement number of mergeable / nonempty cliques in graph
  if t.nCliques == 0 then throw (.panic "merge_two_cliques: underflow")
  pure { t with snode, nCliques := t.nCliques - 1 }

/-- `update_strategy` -/
def updateStrategy (s : CGStrategy) (t : SuperNodeTree) (cand : Nat × Nat) (doMerge : Bool) :
    MErr CGStrategy := do
  if !doMerge then return s
  let (c1Ind, cRemoved) := cand
  let mut edges := s.edges
  let n := edges.n
  let mut adjacencyTable := s.adjacencyTable
  let c1 ← getE t.snode c1Ind "update_strategy"
  let neighbors ← adjacencyTable.getP c1Ind "update_strategy"
  -- neighbors exclusive to the removed clique (and not c1)
  let mut newNeighbors ← adjacencyTable.getP cRemoved "update_strategy"
  for e in neighbors do
    newNeighbors := newNeighbors.shiftRemove e
  newNeighbors := newNeighbors.shiftRemove c1Ind
  -- recalculate edge values of all of c_1's neighbors
  for nInd in neighbors do
    if nInd != cRemoved then
      let neighbor ← getE t.snode nInd "update_strategy"
      let row := max c1Ind nInd
      let col := min c1Ind nInd
      let val ← edgeMetric c1 neighbor
      edges ← edges.setEntry row col val
  -- point edges exclusive to removed clique to surviving clique 1
  for nInd in newNeighbors do
    let neighbor ← getE t.snode nInd "update_strategy"
    let row := max c1Ind nInd
    let col := min c1Ind nInd
    let val ← edgeMetric c1 neighbor
    edges ← edges.setEntry row col val
  -- overwrite the weight to any removed edges that still contain a link to c_removed
  for row in [cRemoved + 1:n] do
    edges ← edges.setEntry row cRemoved 0
  for col in [0:cRemoved] do
    edges ← edges.setEntry cRemoved col 0
  edges ← edges.dropzeros
  -- update adjacency table in a similar manner
  for newNeighbor in newNeighbors do
    let a1 ← adjacencyTable.getP c1Ind "update_strategy"
    adjacencyTable := adjacencyTable.insert c1Ind (a1.insert newNeighbor)
    let an ← adjacencyTable.getP newNeighbor "update_strategy"
    adjacencyTable := adjacencyTable.insert newNeighbor (an.insert c1Ind)
  adjacencyTable := adjacencyTable.remove cRemoved
  adjacencyTable := adjacencyTable.mapValues (fun set => set.shiftRemove cRemoved)
  pure { s with edges, adjacencyTable }

/-- `clique_tree_from_graph` -/
def cliqueTreeFromGraph (s : CGStrategy) (t : SuperNodeTree) : MErr (CGStrategy × SuperNodeTree) := do
  -- intersection value for each edge in the clique graph
  let edges ← cliqueIntersections s.edges t.snode
  -- maximum weight spanning tree of the clique graph using Kruskal's algorithm
  let edges ← kruskal edges t.nCliques
  -- determine the root clique and the parent structure
  let (snodeParent, snodeChildren) ←
    determineParentCliques t.snodeParent t.snodeChildren t.snode t.post edges
  -- recompute a postorder for the supernodes
  let (snodePost, snodeChildren) ← postOrder snodeParent snodeChildren t.nCliques
  -- clear the (graph) separators
  let separators := t.separators.map (fun _ => (#[] : VSet))
  -- split clique sets back into separators and supernodes
  let (snode, separators) ← splitCliques t.snode separators snodeParent snodePost t.nCliques
  pure ({ s with edges }, { t with snode, separators, snodeParent, snodeChildren, snodePost })

/-- `post_process_merge` -/
def postProcessMerge (s : CGStrategy) (t : SuperNodeTree) : MErr (CGStrategy × SuperNodeTree) := do
  let snodePost := positionAll t.snode (fun x => !x.isEmpty)
  let snodeParent := Array.replicate t.snode.size inactiveNode
  let t := { t with snodePost, snodeParent }
  -- recompute a clique tree from the clique graph
  let (s, t) ← if t.nCliques > 1 then s.cliqueTreeFromGraph t else pure (s, t)
  pure (s, { t with snode := t.snode.map VSet.sort, separators := t.separators.map VSet.sort })

/-- the `while !self.is_done()` loop of `merge_cliques`; every pass either merges two cliques
(`n_cliques` decreases) or sets `stop` -/
def loop : Nat → CGStrategy → SuperNodeTree → MErr (CGStrategy × SuperNodeTree)
  | 0, _, _ => throw (.panic "merge_cliques: loop does not terminate")
  | fuel + 1, s, t =>
    if s.stop then pure (s, t) else do
      -- find merge candidates
      let (s, cand?) ← s.traverse t
      match cand? with
      | none => pure (s, t) -- bail if no candidates
      | some cand =>
        -- evaluate whether to merge the candidates
        let (s, doMerge) ← s.evaluate t cand
        let t ← if doMerge then s.mergeTwoCliques t cand else pure t
        -- update strategy information after the merge
        let s ← s.updateStrategy t cand doMerge
        if t.nCliques == 1 then pure (s, t) else loop fuel s t

/-- `merge_cliques` for the clique-graph strategy -/
def mergeCliques (t : SuperNodeTree) : MErr SuperNodeTree := do
  let (s, t) ← CGStrategy.new.initialise t
  let (s, t) ← loop (t.snode.size + 2) s t
  let (_, t) ← s.postProcessMerge t
  pure t

end CGStrategy

/-- `SparsityPattern::new` for `merge_method = "clique_graph"` -/
def sparsityPatternNewCG (L : LPat) (ordering : Array Nat) : MErr (SuperNodeTree × Array Nat) := do
  let t ← SuperNodeTree.new L
  let t ← if t.nCliques > 1 then CGStrategy.mergeCliques t else pure t
  let (t, ordering) ← t.reorderSnodeConsecutively ordering
  let t ← t.calculateBlockDimensions
  pure (t, ordering)

/-- `SparsityPattern::new` for all three merge methods -/
def sparsityPatternNewAll (L : LPat) (ordering : Array Nat) (mergeMethod : String) :
    MErr (SuperNodeTree × Array Nat) :=
  if mergeMethod == "clique_graph" then sparsityPatternNewCG L ordering
  else sparsityPatternNew L ordering mergeMethod

end Clarabel.Chordal
