/-
  Model of `src/solver/chordal/decomp/{reverse_standard,reverse_compact}.rs`:
  mapping the slack / dual vectors of the decomposed problem back to the original one.
  Polymorphic over the scalar (run at `Float`, theorems over any ordered field).
-/
import ClarabelModel.Chordal.AugStd

namespace Clarabel.Chordal
variable {α : Type}

/-- `y = H x` by the CSC kernel `_csc_axpby_N` with `a = 1, b = 0`:
`y` starts at zero and column `j` adds `1 * x[j]` to row `HI[j]`, in column order -/
def hGemv [Add α] [Mul α] [OfNat α 0] [OfNat α 1] (rows : Nat) (HI : Array Nat) (x : Array α) : MErr (Array α) :=
  if x.size != HI.size then throw (.panic "gemv: assert dimensions") else
  (List.range HI.size).foldlM (fun (y : Array α) j => do
    let r := HI.getD j 0
    let yr ← getE y r "gemv"
    let xj ← getE x j "gemv"
    setE y r (yr + 1 * xj) "gemv") (Array.replicate rows 0)

/-- `row_sums` of `H` (all stored values are `1`) -/
def hRowSums [Add α] [OfNat α 0] [OfNat α 1] (rows : Nat) (HI : Array Nat) : MErr (Array α) :=
  HI.toList.foldlM (fun (y : Array α) r => do
    let yr ← getE y r "row_sums"
    setE y r (yr + 1) "row_sums") (Array.replicate rows 0)

/-- `decomp_reverse_standard` : `(s, z)` of the original problem from the tails
`s̃ = old_s[m..]`, `z̃ = old_z[m..]` of the decomposed one -/
def decompReverseStandard [Add α] [Mul α] [Div α] [OfNat α 0] [OfNat α 1] [LT α] [DecidableLT α]
    (h : ChordalInfo.StdH) (m : Nat) (oldS oldZ : Array α) : MErr (Array α × Array α) := do
  if oldS.size < m ∨ oldZ.size < m then throw (.panic "slice") else
  let s ← hGemv m h.HI (oldS.extract m oldS.size)
  let z ← hGemv m h.HI (oldZ.extract m oldZ.size)
  let nover : Array α ← hRowSums h.rows h.HI
  let z := (List.range nover.size).foldl (fun (z : Array α) ri =>
    match nover[ri]?, z[ri]? with
    | some c, some zr => if (1 : α) < c then z.setIfInBounds ri (zr / c) else z
    | _, _ => z) z
  pure (s, z)

/-- `ConeMapEntry` -/
structure ConeMapEntry where
  origIndex : Nat
  treeAndClique : Option (Nat × Nat)
  deriving Repr, BEq, Inhabited

/-- start offsets of the cones (`rng_cones_iter`) -/
def coneStarts (cones : Array Cone) : Array Nat :=
  (cones.toList.foldl (fun (acc : Array Nat × Nat) c => (acc.1.push acc.2, acc.2 + c.nvars)) (#[], 0)).1

/-- `add_blocks_with_sparsity_pattern` -/
def addBlocksWithSparsityPattern [Add α] (newS newZ oldS oldZ : Array α) (rowStart : Nat)
    (p : SPattern) (cliqueIndex rowPtr : Nat) : MErr (Array α × Array α × Nat) := do
  let clique ← p.sntree.getClique cliqueIndex
  let buf ← clique.toList.mapM (fun v => getE p.ordering v "ordering")
  let buf := (VSet.sort buf.toArray).toList
  let (s, z, _) ← buf.foldlM (fun (acc : Array α × Array α × Nat) j =>
    buf.foldlM (fun (acc : Array α × Array α × Nat) i => do
      let (s, z, counter) := acc
      if i ≤ j then
        let offset := coordToUpperTriangularIndex (i, j)
        let sv ← getE s (rowStart + offset) "add_blocks"
        let os ← getE oldS (rowPtr + counter) "add_blocks"
        let oz ← getE oldZ (rowPtr + counter) "add_blocks"
        let s ← setE s (rowStart + offset) (sv + os) "add_blocks"
        let z ← setE z (rowStart + offset) oz "add_blocks"
        pure (s, z, counter + 1)
      else pure (s, z, counter)) acc) (newS, newZ, 0)
  pure (s, z, rowPtr + triangularNumber clique.size)

/-- `decomp_reverse_compact` : `(s, z)` of length `m` from the decomposed `old_s, old_z` -/
def decompReverseCompact [Add α] [OfNat α 0] (ci : ChordalInfo) (coneMaps : Array ConeMapEntry)
    (oldCones : Array Cone) (oldS oldZ : Array α) : MErr (Array α × Array α) := do
  let m := ci.initDims.2
  let starts := coneStarts ci.initCones
  let k := min oldCones.size coneMaps.size
  let (s, z, _) ← (List.range k).foldlM (fun (acc : Array α × Array α × Nat) idx => do
    let (s, z, rowPtr) := acc
    let cone := oldCones.getD idx (.zero 0)
    let cm := coneMaps.getD idx default
    let start ← getE starts cm.origIndex "row_ranges"
    let oc ← getE ci.initCones cm.origIndex "row_ranges"
    match cm.treeAndClique with
    | none =>
      -- copy_from: lengths must agree
      if oc.nvars != cone.nvars then throw (.panic "copy_from: length") else
      if rowPtr + cone.nvars > oldS.size ∨ rowPtr + cone.nvars > oldZ.size ∨ start + cone.nvars > s.size then
        throw (.panic "add_blocks_with_cone: slice") else
      let s := (List.range cone.nvars).foldl (fun (s : Array α) i => s.setIfInBounds (start + i) (oldS.getD (rowPtr + i) 0)) s
      let z := (List.range cone.nvars).foldl (fun (z : Array α) i => z.setIfInBounds (start + i) (oldZ.getD (rowPtr + i) 0)) z
      pure (s, z, rowPtr + cone.nvars)
    | some (ti, cidx) =>
      if !cone.isPsd then throw (.panic "decomp_reverse_compact: assert PSD") else
      let p ← getE ci.spatterns ti "spatterns"
      addBlocksWithSparsityPattern s z oldS oldZ start p cidx rowPtr)
    (Array.replicate m 0, Array.replicate m 0, 0)
  pure (s, z)

end Clarabel.Chordal
