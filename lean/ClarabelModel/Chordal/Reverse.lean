/-
  Model of `src/solver/chordal/decomp/{reverse_standard,reverse_compact}.rs`:
  mapping the slack / dual vectors of the decomposed problem back to the original one.
  Polymorphic over the scalar (run at `Float`, theorems over any ordered field).
-/
import ClarabelModel.Chordal.AugStd

namespace Clarabel.Chordal
variable {α : Type}

/-- `y = H x` by the CSC kernel `_csc_axpby_N` with `a = 1, b = 0`:
`y` starts at zero and column `j` adds `1 * x[j]` to row `HI[j]`, in column order -/
def hGemv [Add α] [Mul α] [OfNat α 0] [OfNat α 1] (rows : Nat) (HI : Array Nat) (x : Array α) : MErr (Array α) :=
  if x.size != HI.size then throw (.panic "gemv: assert dimensions") else
  (List.range HI.size).foldlM (fun (y : Array α) j => do
    let r := HI.getD j 0
    let yr ← getE y r "gemv"
    let xj ← getE x j "gemv"
    setE y r (yr + 1 * xj) "gemv") (Array.replicate rows 0)

/-- `row_sums` of `H` (all stored values are `1`) -/
def hRowSums [Add α] [OfNat α 0] [OfNat α 1] (rows : Nat) (HI : Array Nat) : MErr (Array α) :=
  HI.toList.foldlM (fun (y : Array α) r => do
    let yr ← getE y r "row_sums"
    setE y r (yr + 1) "row_sums") (Array.replicate rows 0)

/-- `decomp_reverse_standard` : `(s, z)` of the original problem from the tails
`s̃ = old_s[m..]`, `z̃ = old_z[m..]` of the decomposed one -/
def decompReverseStandard [Add α] [Mul α] [Div α] [OfNat α 0] [OfNat α 1] [LT α] [DecidableLT α]
    (h : ChordalInfo.StdH) (m : Nat) (oldS oldZ : Array α) : MErr (Array α × Array α) := do
  if oldS.size < m ∨ oldZ.size < m then throw (.panic "slice") else
  let s ← hGemv m h.HI (oldS.extract m oldS.size)
  let z ← hGemv m h.HI (oldZ.extract m oldZ.size)
  let nover : Array α ← hRowSums h.rows h.HI
  let z := (List.range nover.size).foldl (fun (z : Array α) ri =>
    match nover[ri]?, z[ri]? with
    | some c, some zr => if (1 : α) < c then z.setIfInBounds ri (zr / c) else z
    | _, _ => z) z
  pure (s, z)

/-- `ConeMapEntry` -/
structure ConeMapEntry where
  origIndex : Nat
  treeAndClique : Option (Nat × Nat)
  deriving Repr, BEq, Inhabited

/-- start offsets of the cones (`rng_cones_iter`) -/
def coneStarts (cones : Array Cone) : Array Nat :=
  (cones.toList.foldl (fun (acc : Array Nat × Nat) c => (acc.1.push acc.2, acc.2 + c.nvars)) (#[], 0)).1

/-- the body of the double loop of `add_blocks_with_sparsity_pattern` (`j` outer, `i` inner):
for `i ≤ j` the entry `(i, j)` of the block, stored at `old[row_ptr + counter]`, is ADDED to `s`
and WRITTEN to `z` at the original row of `(i, j)` -/
def addBlockEntry [Add α] (oldS oldZ : Array α) (rowStart rowPtr j : Nat)
    (acc : Array α × Array α × Nat) (i : Nat) : MErr (Array α × Array α × Nat) :=
  if i ≤ j then do
    let offset := coordToUpperTriangularIndex (i, j)
    let sv ← getE acc.1 (rowStart + offset) "add_blocks"
    let os ← getE oldS (rowPtr + acc.2.2) "add_blocks"
    let oz ← getE oldZ (rowPtr + acc.2.2) "add_blocks"
    let s ← setE acc.1 (rowStart + offset) (sv + os) "add_blocks"
    let z ← setE acc.2.1 (rowStart + offset) oz "add_blocks"
    pure (s, z, acc.2.2 + 1)
  else pure acc

/-- the double loop over the sorted clique `buf` -/
def addBlockLoop [Add α] (oldS oldZ : Array α) (rowStart rowPtr : Nat) (buf : List Nat)
    (newS newZ : Array α) : MErr (Array α × Array α × Nat) :=
  buf.foldlM (fun acc j => buf.foldlM (addBlockEntry oldS oldZ rowStart rowPtr j) acc) (newS, newZ, 0)

/-- `add_blocks_with_sparsity_pattern` -/
def addBlocksWithSparsityPattern [Add α] (newS newZ oldS oldZ : Array α) (rowStart : Nat)
    (p : SPattern) (cliqueIndex rowPtr : Nat) : MErr (Array α × Array α × Nat) := do
  let clique ← p.sntree.getClique cliqueIndex
  let buf ← clique.toList.mapM (fun v => getE p.ordering v "ordering")
  let buf := (VSet.sort buf.toArray).toList
  let r ← addBlockLoop oldS oldZ rowStart rowPtr buf newS newZ
  pure (r.1, r.2.1, rowPtr + triangularNumber clique.size)

/-- `v[start .. start + n].copy_from(&old[rowPtr .. rowPtr + n])` -/
def copyRange [OfNat α 0] (v old : Array α) (start rowPtr n : Nat) : Array α :=
  (List.range n).foldl (fun (v : Array α) i => v.setIfInBounds (start + i) (old.getD (rowPtr + i) 0)) v

/-- the body of the loop of `decomp_reverse_compact` over `zip(old_cones, cone_maps)`;
state `(new_s, new_z, row_ptr)` -/
def reverseConeStep [Add α] [OfNat α 0] (ci : ChordalInfo) (oldS oldZ : Array α) (starts : Array Nat)
    (acc : Array α × Array α × Nat) (e : Cone × ConeMapEntry) : MErr (Array α × Array α × Nat) := do
  let start ← getE starts e.2.origIndex "row_ranges"
  let oc ← getE ci.initCones e.2.origIndex "row_ranges"
  match e.2.treeAndClique with
  | none =>
    -- add_blocks_with_cone / copy_from: lengths must agree
    if oc.nvars != e.1.nvars then throw (.panic "copy_from: length") else
    if acc.2.2 + e.1.nvars > oldS.size ∨ acc.2.2 + e.1.nvars > oldZ.size ∨ start + e.1.nvars > acc.1.size then
      throw (.panic "add_blocks_with_cone: slice") else
    pure (copyRange acc.1 oldS start acc.2.2 e.1.nvars, copyRange acc.2.1 oldZ start acc.2.2 e.1.nvars,
          acc.2.2 + e.1.nvars)
  | some tc =>
    if !e.1.isPsd then throw (.panic "decomp_reverse_compact: assert PSD") else do
    let p ← getE ci.spatterns tc.1 "spatterns"
    addBlocksWithSparsityPattern acc.1 acc.2.1 oldS oldZ start p tc.2 acc.2.2

/-- `decomp_reverse_compact` : `(s, z)` of length `m` from the decomposed `old_s, old_z` -/
def decompReverseCompact [Add α] [OfNat α 0] (ci : ChordalInfo) (coneMaps : Array ConeMapEntry)
    (oldCones : Array Cone) (oldS oldZ : Array α) : MErr (Array α × Array α) := do
  let m := ci.initDims.2
  let starts := coneStarts ci.initCones
  let r ← (oldCones.toList.zip coneMaps.toList).foldlM (reverseConeStep ci oldS oldZ starts)
    (Array.replicate m 0, Array.replicate m 0, 0)
  pure (r.1, r.2.1)

end Clarabel.Chordal
