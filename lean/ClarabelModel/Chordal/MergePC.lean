/-
  Model of `src/solver/chordal/merge/{mod,nomerge,parent_child}.rs` and of
  `SparsityPattern::new` (`sparsity_pattern.rs`) for the strategies `none` and
  `parent_child`.
-/
import ClarabelModel.Chordal.SuperNode

namespace Clarabel.Chordal

/-- `set_union_into_indexed(sets, c1, c2)` : `sets[c1] ∪= sets[c2]` -/
def setUnionIntoIndexed (sets : Array VSet) (c1 c2 : Nat) : MErr (Array VSet) :=
  if c1 == c2 then pure sets else do
    let t ← getE sets c1 "set_union_into_indexed"
    let s ← getE sets c2 "set_union_into_indexed"
    setE sets c1 (t.extend s.toList) "set_union_into_indexed"

/-- `ParentChildMergeStrategy` -/
structure PCStrategy where
  stop : Bool
  cliqueIndex : Nat
  tFill : Nat := 8
  tSize : Nat := 8

/-- `fill_in` -/
def fillIn (dimCliqueSnode dimCliqueSep dimParentSnode dimParentSep : Nat) : MErr Nat :=
  let dimParent := dimParentSnode + dimParentSep
  let dimClique := dimCliqueSnode + dimCliqueSep
  if dimParent < dimCliqueSep ∨ dimClique < dimCliqueSep then throw (.panic "fill_in: underflow") else
  pure ((dimParent - dimCliqueSep) * (dimClique - dimCliqueSep))

/-- `clique_dim` -/
def cliqueDim (t : SuperNodeTree) (i : Nat) : MErr (Nat × Nat) := do
  let sn ← getE t.snode i "clique_dim"
  let sp ← getE t.separators i "clique_dim"
  pure (sn.size, sp.size)

namespace PCStrategy

/-- `evaluate` -/
def evaluate (s : PCStrategy) (t : SuperNodeTree) (cand : Nat × Nat) : MErr Bool :=
  if s.stop then pure false else do
    let (parent, child) := cand
    let (dps, dpp) ← cliqueDim t parent
    let (dcs, dcp) ← cliqueDim t child
    let fill ← fillIn dcs dcp dps dpp
    let maxSnode := max dcs dps
    pure (decide (fill ≤ s.tFill) || decide (maxSnode ≤ s.tSize))

/-- `merge_two_cliques` -/
def mergeTwoCliques (t : SuperNodeTree) (cand : Nat × Nat) : MErr SuperNodeTree := do
  -- determine_parent
  let c1ch ← getE t.snodeChildren cand.1 "determine_parent"
  let (p, ch) := if c1ch.contains cand.2 then (cand.1, cand.2) else (cand.2, cand.1)
  let snode ← setUnionIntoIndexed t.snode p ch
  let snode ← setE snode ch #[] "merge_two_cliques"
  let separators ← setE t.separators ch #[] "merge_two_cliques"
  let chch ← getE t.snodeChildren ch "merge_two_cliques"
  let parent ← chch.toList.foldlM (fun (par : Array Nat) g => setE par g p "merge_two_cliques") t.snodeParent
  let parent ← setE parent ch inactiveNode "merge_two_cliques"
  let pch ← getE t.snodeChildren p "merge_two_cliques"
  let children ← setE t.snodeChildren p (pch.shiftRemove ch) "merge_two_cliques"
  let children ← setUnionIntoIndexed children p ch
  let children ← setE children ch #[] "merge_two_cliques"
  if t.nCliques = 0 then throw (.panic "merge_two_cliques: underflow") else
  pure { t with snode := snode, separators := separators, snodeParent := parent,
                snodeChildren := children, nCliques := t.nCliques - 1 }

/-- the `while !is_done` loop of `merge_cliques` (at most `fuel` passes; the strategy
visits every clique index once, so `snode.size` passes suffice) -/
def loop : Nat → PCStrategy → SuperNodeTree → MErr SuperNodeTree
  | 0, _, _ => throw (.panic "merge_cliques: loop does not terminate")
  | fuel + 1, s, t =>
    if s.stop then pure t else do
      -- traverse
      let c ← getE t.snodePost s.cliqueIndex "traverse"
      let par ← getE t.snodeParent c "traverse"
      let cand := (par, c)
      let doMerge ← s.evaluate t cand
      let t ← if doMerge then mergeTwoCliques t cand else pure t
      -- update_strategy
      let s := if s.cliqueIndex == 0 then { s with stop := true } else { s with cliqueIndex := s.cliqueIndex - 1 }
      if t.nCliques == 1 then pure t else loop fuel s t

/-- `merge_cliques` for the parent-child strategy -/
def mergeCliques (t : SuperNodeTree) : MErr SuperNodeTree := do
  -- initialise
  if t.snode.size < 2 then throw (.panic "parent_child.initialise: underflow") else
  let s : PCStrategy := { stop := false, cliqueIndex := t.snode.size - 2 }
  let t ← loop (t.snode.size + 1) s t
  -- post_process_merge
  let (post, children) ← postOrder t.snodeParent t.snodeChildren t.nCliques
  pure { t with snodePost := post, snodeChildren := children }

end PCStrategy

/-- `SparsityPattern::new` for `merge_method ∈ {"none", "parent_child"}`;
returns the tree and the final ordering -/
def sparsityPatternNew (L : LPat) (ordering : Array Nat) (mergeMethod : String) :
    MErr (SuperNodeTree × Array Nat) := do
  let t ← SuperNodeTree.new L
  let t ← if t.nCliques > 1 then
      (match mergeMethod with
       | "none" => pure t
       | "parent_child" => PCStrategy.mergeCliques t
       | _ => throw (.panic "Unrecognized merge strategy"))
    else pure t
  let (t, ordering) ← t.reorderSnodeConsecutively ordering
  let t ← t.calculateBlockDimensions
  pure (t, ordering)

end Clarabel.Chordal
