/-
  Model of `src/solver/chordal/merge/disjoint_set_union.rs` (union-find with union by rank
  and path halving), as repaired by commit eed0111.

  `root` is a `while` loop in Rust; here it takes fuel.  The fuel handed out by `root`
  (`maxRank + 1`) is never exhausted on a structure built by `new`/`union`
  (theorem `Clarabel.C17.dsu_root_spec`); running out of fuel is reported as a panic
  (the Rust loop would not terminate).
-/
import ClarabelModel.Scalar

namespace Clarabel.Chordal

structure Dsu where
  parents : Array Nat
  ranks : Array Nat
  deriving Repr, BEq, Inhabited

namespace Dsu

/-- `DisjointSetUnion::new` -/
def new (n : Nat) : Dsu := { parents := Array.range n, ranks := Array.replicate n 0 }

def maxRank (d : Dsu) : Nat := d.ranks.toList.foldl Nat.max 0

/-- the loop of `root`:
```
while x != parents[x] { parents[x] = parents[parents[x]]; x = parents[x]; }
``` -/
def rootLoop : Nat → Array Nat → Nat → MErr (Array Nat × Nat)
  | 0, _, _ => throw (.panic "dsu.root: loop does not terminate")
  | fuel + 1, ps, x => do
    let px ← getE ps x "dsu.root"
    if x == px then pure (ps, x) else
    let ppx ← getE ps px "dsu.root"
    let ps' ← setE ps x ppx "dsu.root"
    rootLoop fuel ps' ppx

/-- `root` (mutates `parents` by path halving, returns the representative) -/
def root (d : Dsu) (x : Nat) : MErr (Dsu × Nat) := do
  let (ps, r) ← rootLoop (d.maxRank + 1) d.parents x
  pure ({ d with parents := ps }, r)

/-- `union` -/
def union (d : Dsu) (x y : Nat) : MErr Dsu := do
  let (d, r) ← d.root x
  let (d, s) ← d.root y
  if r == s then pure d else
  let rr ← getE d.ranks r "dsu.union"
  let rs ← getE d.ranks s "dsu.union"
  if rr > rs then do
    let p ← setE d.parents s r "dsu.union"
    pure { d with parents := p }
  else if rr < rs then do
    let p ← setE d.parents r s "dsu.union"
    pure { d with parents := p }
  else do
    let p ← setE d.parents r s "dsu.union"
    let rk ← setE d.ranks s (rs + 1) "dsu.union"
    pure { parents := p, ranks := rk }

/-- `in_same_set` -/
def inSameSet (d : Dsu) (x y : Nat) : MErr (Dsu × Bool) := do
  let (d, r) ← d.root x
  let (d, s) ← d.root y
  pure (d, r == s)

/-- one operation of a history: `0 = union`, `1 = in_same_set`, `2 = root` -/
inductive Op where
  | union (x y : Nat)
  | same (x y : Nat)
  | root (x : Nat)
  deriving Repr, BEq, Inhabited

/-- run a history; answers: `union ↦ none`, `same ↦ 0/1`, `root ↦ r` -/
def runOps (d : Dsu) : List Op → MErr (Dsu × List (Option Nat))
  | [] => pure (d, [])
  | .union x y :: rest => do
    let d ← d.union x y
    let (d, out) ← runOps d rest
    pure (d, none :: out)
  | .same x y :: rest => do
    let (d, b) ← d.inSameSet x y
    let (d, out) ← runOps d rest
    pure (d, some (if b then 1 else 0) :: out)
  | .root x :: rest => do
    let (d, r) ← d.root x
    let (d, out) ← runOps d rest
    pure (d, some r :: out)

end Dsu
end Clarabel.Chordal
