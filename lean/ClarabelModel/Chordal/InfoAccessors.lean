/-
  Model of the functions of `src/solver/chordal/chordal_info.rs` and `src/solver/chordal/decomp/*.rs`
  that the older model files either leave out or inline without a name:

  `chordal_info.rs`     `is_decomposed`, `init_cone_count`, `init_psd_cone_count`,
                        `decomposable_cone_count`, `final_psd_cones_added`,
                        `premerge_psd_cones_added`, `final_cone_count`, `final_psd_cone_count`,
                        `premerge_psd_cone_count` (the four counters printed in the chordal block
                        of the configuration header: `headerCounts`),
                        `find_aggregate_sparsity_mask`, `analyse_psdtriangle_sparsity_pattern`,
                        `find_sparsity_patterns`, `ChordalInfo::new` (with `find_graph` — AMD
                        ordering, QDLDL's symbolic factorisation, `connect_graph` — a parameter);
  `augment_compact.rs`  `alternating_sequence`, `extra_columns`, `find_A_dimension`,
                        `get_clique_by_index`, `get_rows_vec`, `get_rows_mat`
                        (inlined in `findCompactTriplets` / `parentInfo` / `shiftSeg` / `addCliqueCols`);
  `augment_standard.rs` `decompose_with_cone`, `find_H_col_dimension`
                        (inlined in `findStandardHAndCones`);
  `reverse_compact.rs`  `add_blocks_with_cone` (inlined in `reverseConeStep`), `largest_nblk`
                        (NOT modelled before: `nblk.as_ref().unwrap()` can panic), and
                        `decompReverseCompactFull` = `largest_nblk` followed by the old model;
  `reverse_standard.rs` `number_of_overlaps_in_rows` (inlined in `decompReverseStandard`).

  The theorems that tie the named functions to the inlined code are in
  `ClarabelProofs/Lemmas/ChordalInfoAccessors.lean`.
-/
import ClarabelModel.Chordal.AugCompactFull
import ClarabelModel.Chordal.MergeCG
import ClarabelModel.PrintHeader

namespace Clarabel.Chordal
variable {α : Type}

/-- `a - b` on `usize` (a debug build panics on underflow; the code never relies on wrapping) -/
def usizeSub (a b : Nat) (site : String) : MErr Nat :=
  if a < b then throw (.panic site) else pure (a - b)

/-! ## the cone-count accessors of `ChordalInfo` -/

namespace ChordalInfo

/-- `is_decomposed` : `!self.spatterns.is_empty()` -/
def isDecomposed (ci : ChordalInfo) : Bool := !ci.spatterns.isEmpty

/-- `init_cone_count` -/
def initConeCount (ci : ChordalInfo) : Nat := ci.initCones.size

/-- `init_psd_cone_count` : the number of `PSDTriangleConeT` among the original cones -/
def initPsdConeCount (ci : ChordalInfo) : Nat := (ci.initCones.toList.filter Cone.isPsd).length

/-- `decomposable_cone_count` -/
def decomposableConeCount (ci : ChordalInfo) : Nat := ci.spatterns.size

/-- `final_psd_cones_added` : `Σ n_cliques - #patterns` -/
def finalPsdConesAdded (ci : ChordalInfo) : MErr Nat :=
  usizeSub (ci.spatterns.toList.foldl (fun acc p => acc + p.sntree.nCliques) 0)
    ci.decomposableConeCount "final_psd_cones_added: attempt to subtract with overflow"

/-- `premerge_psd_cones_added` : `Σ snode.len() - #patterns` (`snode` keeps one slot per clique of
the tree before merging; merges empty slots, they never remove them) -/
def premergePsdConesAdded (ci : ChordalInfo) : MErr Nat :=
  usizeSub (ci.spatterns.toList.foldl (fun acc p => acc + p.sntree.snode.size) 0)
    ci.decomposableConeCount "premerge_psd_cones_added: attempt to subtract with overflow"

/-- `final_cone_count` -/
def finalConeCount (ci : ChordalInfo) : MErr Nat := do
  let a ← ci.finalPsdConesAdded
  pure (ci.initConeCount + a)

/-- `final_psd_cone_count` -/
def finalPsdConeCount (ci : ChordalInfo) : MErr Nat := do
  let a ← ci.finalPsdConesAdded
  pure (ci.initPsdConeCount + a)

/-- `premerge_psd_cone_count` -/
def premergePsdConeCount (ci : ChordalInfo) : MErr Nat := do
  let a ← ci.premergePsdConesAdded
  pure (ci.initPsdConeCount + a)

/-- the four counters that `print_chordal_decomposition` writes into the configuration header,
in the record that the model of the printer (`ClarabelModel/PrintHeader.lean`, property C20) takes
as its input -/
def headerCounts (ci : ChordalInfo) : MErr Print.ChordalCounts := do
  let premerge ← ci.premergePsdConeCount
  let final ← ci.finalPsdConeCount
  pure { initPsd := ci.initPsdConeCount, decomposable := ci.decomposableConeCount,
         premerge := premerge, final := final }

/-- `largest_nblk` : `max` over the patterns of `*nblk.as_ref().unwrap().iter().max().unwrap_or(&0)` -/
def largestNblk (ci : ChordalInfo) : MErr Nat :=
  ci.spatterns.toList.foldlM (fun (maxBlock : Nat) sp =>
    match sp.sntree.nblk with
    | none => throw (.panic "largest_nblk: nblk.unwrap()")
    | some nb => pure (max maxBlock (nb.toList.foldl max 0))) 0

/-- `find_A_dimension` : `(rows, cols, num_overlaps)` of the compact `A` -/
def findADimension (ci : ChordalInfo) (A : Csc α) : MErr (Nat × Nat × Nat) := do
  let (dim, numOverlaps) ← ci.getDecomposedDimAndOverlaps
  pure (dim, A.n + numOverlaps, numOverlaps)

/-- `find_H_col_dimension` -/
def findHColDimension (ci : ChordalInfo) : MErr Nat := do
  let (cols, _) ← ci.getDecomposedDimAndOverlaps
  pure cols

/-- `decompose_with_cone` : the identity block of a cone that is not decomposed -/
def decomposeWithCone (HI : Array Nat) (conesNew : Array Cone) (cone : Cone) (row : Nat) :
    Array Nat × Array Cone :=
  ((List.range cone.nvars).foldl (fun (a : Array Nat) i => a.push (row + i)) HI, conesNew.push cone)

end ChordalInfo

/-! ## helpers of `augment_compact.rs` -/

/-- `alternating_sequence(total_length, n_start)` : all ones, `-1` at `n_start + 1, n_start + 3, …` -/
def alternatingSequence [OfNat α 1] [Neg α] (totalLength nStart : Nat) : Array α :=
  (List.range ((totalLength - (nStart + 1) + 1) / 2)).foldl
    (fun (v : Array α) k => v.setIfInBounds (nStart + 1 + 2 * k) (-1)) (Array.replicate totalLength 1)

/-- `extra_columns(total_length, n_start, start_val)` : zeros, then from `n_start` on the pairs
`start_val, start_val, start_val + 1, start_val + 1, …`; `v.len() - 1` underflows on an empty
vector -/
def extraColumns (totalLength nStart startVal : Nat) : MErr (Array Nat) :=
  if totalLength = 0 then throw (.panic "extra_columns: underflow") else
  pure ((List.range ((totalLength - 1 - nStart + 1) / 2)).foldl
    (fun (v : Array Nat) k =>
      (v.setIfInBounds (nStart + 2 * k) (startVal + k)).setIfInBounds (nStart + 2 * k + 1) (startVal + k))
    (Array.replicate totalLength 0))

/-- `get_clique_by_index(sntree, i)` : supernode and separator of the clique with TREE index `i`
(not the post-order index) -/
def getCliqueByIndex (t : SuperNodeTree) (i : Nat) : MErr VSet := do
  let sn ← getE t.snode i "get_clique_by_index"
  let sp ← getE t.separators i "get_clique_by_index"
  pure (sn.extend sp.toList)

/-- `get_rows_vec(b, row_range)` on the index vector of the sparse `b` -/
def getRowsVec (bInd : Array Nat) (rs re : Nat) : Option (Nat × Nat) :=
  getRowsSubset bInd 0 bInd.size rs re

/-- `get_rows_mat(A, col, row_range)` : the slice `A.rowval[colptr[col]..colptr[col+1]]` panics on a
malformed column range -/
def getRowsMat (A : Csc α) (col rs re : Nat) : MErr (Option (Nat × Nat)) := do
  let lo ← getE A.colptr col "get_rows_mat"
  let hi ← getE A.colptr (col + 1) "get_rows_mat"
  if hi < lo ∨ A.rowval.size < hi then throw (.panic "get_rows_mat: slice") else
  pure (getRowsSubset A.rowval lo hi rs re)

/-! ## helpers of the reversals -/

/-- `add_blocks_with_cone(new_s, old_s, new_z, old_z, row_range = rs..re, cone, row_ptr)` :
`copy_from` of the slack and the dual of a cone that was not decomposed -/
def addBlocksWithCone [OfNat α 0] (newS oldS newZ oldZ : Array α) (rs re : Nat) (cone : Cone)
    (rowPtr : Nat) : MErr (Array α × Array α × Nat) :=
  let n := cone.nvars
  if re < rs ∨ newS.size < re ∨ oldS.size < rowPtr + n then throw (.panic "add_blocks_with_cone: slice") else
  if re - rs != n then throw (.panic "copy_from: length") else
  if newZ.size < re ∨ oldZ.size < rowPtr + n then throw (.panic "add_blocks_with_cone: slice") else
  pure (copyRange newS oldS rs rowPtr n, copyRange newZ oldZ rs rowPtr n, rowPtr + n)

/-- `decomp_reverse_compact` including the allocation of the clique buffer (`largest_nblk`), which
the older model `decompReverseCompact` leaves out -/
def decompReverseCompactFull [Add α] [OfNat α 0] (ci : ChordalInfo) (coneMaps : Array ConeMapEntry)
    (oldCones : Array Cone) (oldS oldZ : Array α) : MErr (Array α × Array α) := do
  let _buf ← ci.largestNblk
  decompReverseCompact ci coneMaps oldCones oldS oldZ

/-- `row_sums` of a CSC matrix: `sums[row] += val` over `zip(rowval, nzval)` -/
def cscRowSums [Add α] [OfNat α 0] (A : Csc α) : MErr (Array α) :=
  (A.rowval.toList.zip A.nzval.toList).foldlM (fun (y : Array α) rv => do
    let yr ← getE y rv.1 "row_sums"
    setE y rv.1 (yr + rv.2) "row_sums") (Array.replicate A.m 0)

/-- `number_of_overlaps_in_rows(A)` : the rows whose sum exceeds one, and those sums -/
def numberOfOverlapsInRows [Add α] [OfNat α 0] [OfNat α 1] [LT α] [DecidableLT α] (A : Csc α) :
    MErr (Array Nat × Array α) := do
  let nOverlaps ← cscRowSums A
  let ri := (List.range nOverlaps.size).filter (fun i => decide ((1 : α) < nOverlaps.getD i 0))
  pure (ri.toArray, (ri.map (fun i => nOverlaps.getD i 0)).toArray)

/-! ## `find_sparsity_patterns` -/

/-- `find_aggregate_sparsity_mask(A, b)` : `true` in every row in which `[A b]` has a stored /
non-zero entry (all of `A.rowval` is visited) -/
def findAggregateSparsityMask [BEq α] [OfNat α 0] (A : Csc α) (b : Array α) : MErr (Array Bool) := do
  let active ← A.rowval.toList.foldlM (fun (act : Array Bool) r =>
    setE act r true "find_aggregate_sparsity_mask") (Array.replicate b.size false)
  pure ((List.range b.size).foldl (fun (act : Array Bool) i =>
    if !(b.getD i 0 == 0) then act.setIfInBounds i true else act) active)

/-- `analyse_psdtriangle_sparsity_pattern` on the slice `nz_mask[rowrange]` of one PSD cone:
force the diagonal, stop if the block is dense, otherwise `find_graph` (a parameter: AMD ordering,
QDLDL's symbolic factorisation, `connect_graph`) and `SparsityPattern::new`; the pattern is stored
unless everything was merged back into one clique -/
def analysePsdtriangleSparsityPattern (findGraph : Array Bool → MErr (LPat × Array Nat))
    (spatterns : Array SPattern) (nzMask : Array Bool) (conedim coneidx : Nat) (mergeMethod : String) :
    MErr (Array SPattern) := do
  let nzMask ← (List.range conedim).foldlM (fun (m : Array Bool) i =>
    setE m (triangularIndex i) true "nz_mask[triangular_index(i)]") nzMask
  if nzMask.all id then pure spatterns else
  let (L, ordering) ← findGraph nzMask
  let (t, ord) ← sparsityPatternNewAll L ordering mergeMethod
  if t.nCliques == 1 then pure spatterns else
  pure (spatterns.push { sntree := t, ordering := ord, origIndex := coneidx })

/-- `find_sparsity_patterns` -/
def findSparsityPatterns [BEq α] [OfNat α 0] (findGraph : Array Bool → MErr (LPat × Array Nat))
    (A : Csc α) (b : Array α) (cones : Array Cone) (mergeMethod : String) : MErr (Array SPattern) := do
  let nzMask ← findAggregateSparsityMask A b
  let starts := coneStarts cones
  (List.range cones.size).foldlM (fun (sp : Array SPattern) coneidx => do
    let cone ← getE cones coneidx "find_sparsity_patterns"
    match cone with
    | .psd dim =>
      let rs := starts.getD coneidx 0
      let re := rs + cone.nvars
      if nzMask.size < re then throw (.panic "nz_mask[rowrange]") else
      analysePsdtriangleSparsityPattern findGraph sp (nzMask.extract rs re) dim coneidx mergeMethod
    | _ => pure sp) #[]

/-- `ChordalInfo::new` : the original cones are copied only if something was decomposed -/
def ChordalInfo.new [BEq α] [OfNat α 0] (findGraph : Array Bool → MErr (LPat × Array Nat))
    (A : Csc α) (b : Array α) (cones : Array Cone) (mergeMethod : String) : MErr ChordalInfo := do
  let sp ← findSparsityPatterns findGraph A b cones mergeMethod
  let ci : ChordalInfo := { initDims := (A.n, A.m), initCones := #[], spatterns := sp }
  pure (if ci.isDecomposed then { ci with initCones := cones } else ci)

end Clarabel.Chordal
