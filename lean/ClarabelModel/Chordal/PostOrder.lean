/-
  Model of `post_order` / `children_from_parent` (`src/solver/chordal/supernode_tree.rs`).
  Vertex sets (`indexmap::IndexSet<usize>`) are arrays without repetition in insertion order.

  `post_order` walks the `children` structure with an explicit stack; on a cyclic
  structure the Rust loop never ends (this is how the repaired union-find defect showed
  up).  The model gives the walk `parent.size + 1` units of fuel, enough on any forest
  (theorem `Clarabel.C17.post_order_terminates`), and reports exhaustion as a panic.
-/
import ClarabelModel.Scalar

namespace Clarabel.Chordal

/-- `usize::MAX` : root marker -/
def noParent : Nat := 18446744073709551615
/-- `usize::MAX - 1` : merged-away clique -/
def inactiveNode : Nat := 18446744073709551614

abbrev VSet := Array Nat

/-- `IndexSet::insert` -/
def VSet.insert (s : VSet) (v : Nat) : VSet := if s.contains v then s else s.push v
/-- `extend` -/
def VSet.extend (s : VSet) (vs : List Nat) : VSet := vs.foldl VSet.insert s
/-- `shift_remove` -/
def VSet.shiftRemove (s : VSet) (v : Nat) : VSet := (s.toList.filter (· != v)).toArray
/-- `sort` -/
def VSet.sort (s : VSet) : VSet := (s.toList.mergeSort (fun a b => decide (a ≤ b))).toArray
def VSet.ofList (vs : List Nat) : VSet := VSet.extend #[] vs

/-- `children_from_parent` -/
def childrenFromParent (parent : Array Nat) : MErr (Array VSet) :=
  (List.range parent.size).foldlM (fun (ch : Array VSet) i => do
    let pi ← getE parent i "children_from_parent"
    if pi == noParent then pure ch else
    let c ← getE ch pi "children_from_parent"
    setE ch pi (c.insert i)) (Array.replicate parent.size #[])

/-- the stack loop of `post_order`; the list head is the top of the stack -/
def dfsLoop : Nat → Array VSet → List Nat → Array Nat → Nat → MErr (Array VSet × Array Nat)
  | 0, _, _, _, _ => throw (.panic "post_order: loop does not terminate")
  | _ + 1, children, [], order, _ => pure (children, order)
  | fuel + 1, children, v :: stack, order, i => do
    let order ← setE order v i "post_order"
    if i = 0 then throw (.panic "post_order: counter underflow") else
    let cv ← getE children v "post_order"
    let cv := cv.sort
    let children ← setE children v cv "post_order"
    dfsLoop fuel children (cv.toList.reverse ++ stack) order (i - 1)

/-- `post_order(post, parent, children, nc)`; returns the new `post` and the (sorted) `children` -/
def postOrder (parent : Array Nat) (children : Array VSet) (nc : Nat) : MErr (Array Nat × Array VSet) := do
  let n := parent.size
  let order := Array.replicate n (nc + 1)
  let root ← match parent.toList.findIdx? (· == noParent) with
    | some r => pure r
    | none => throw (.panic "post_order: no root")
  let (children, order) ← dfsLoop (n + 1) children [root] order nc
  let post := (List.range n).mergeSort (fun x y => decide (order.getD x 0 ≤ order.getD y 0))
  let post := if nc != n then post.take nc else post
  pure (post.toArray, children)

end Clarabel.Chordal
