/-
  Model of `src/qdldl/qdldl.rs` (the native sparse LDLᵀ engine).

  Functions keep the Rust names.  In-place mutation becomes "return the new value"; loops
  are folds over index lists in the Rust iteration order, so that the `Float` instance
  performs the same IEEE operations in the same order.  Checked indexing → `getE/setE`
  (`panic`); the `get_unchecked` sites are modelled as `panic` too (they are undefined
  behaviour in Rust; theorems/generators stay on the side where they are in range).

  Not modelled: the `amd` crate.  The ordering is an input `perm` of the model (for the
  `perm = None` path the harness passes the ordering the implementation chose).
-/
import ClarabelModel.Csc
import ClarabelModel.Perm

namespace Clarabel
namespace Qdldl

variable {α : Type}

def errIncompatibleDimension : ModelErr := .err "IncompatibleDimension"
def errEmptyColumn : ModelErr := .err "EmptyColumn"
def errNotUpperTriangular : ModelErr := .err "NotUpperTriangular"
def errZeroPivot : ModelErr := .err "ZeroPivot"

/-! ### `check_structure` -/

/-- `check_structure` -/
def checkStructure (A : Csc α) : MErr Unit :=
  if A.m != A.n then throw errIncompatibleDimension
  else if !A.isTriu then throw errNotUpperTriangular
  else if Csc.anyAdjacent (fun a b => decide (a ≥ b)) A.colptr.toList then throw errEmptyColumn
  else pure ()

/-! ### `_etree` -/

/-- `work`, `Lnz`, `etree` of `_etree`; `none` is `QDLDL_UNKNOWN` -/
structure EtreeState where
  work : Array Nat
  Lnz : Array Nat
  etree : Array (Option Nat)
  deriving Repr, BEq, Inhabited

/-- the `while work[i] != j` walk.  Every iteration marks a fresh `i` with `work[i] = j`,
so `n + 1` units of fuel are never exhausted. -/
def etreeWalk (j : Nat) : Nat → Nat → EtreeState → MErr EtreeState
  | 0, _, _ => throw (.panic "_etree: walk out of fuel")
  | fuel + 1, i, s => do
    let wi ← getE s.work i "_etree: work[i]"
    if wi == j then pure s else
    let ei ← getE s.etree i "_etree: etree[i]"
    let et ← if ei.isNone then setE s.etree i (some j) "_etree: etree[i]" else pure s.etree
    let li ← getE s.Lnz i "_etree: Lnz[i]"
    let Lnz ← setE s.Lnz i (li + 1) "_etree: Lnz[i]"
    let work ← setE s.work i j "_etree: work[i]"
    match (← getE et i "_etree: etree[i]") with
    | some nxt => etreeWalk j fuel nxt { work := work, Lnz := Lnz, etree := et }
    | none => throw (.panic "_etree: unreachable")

/-- body of `for j in 0..n` -/
def etreeCol (n : Nat) (Ap Ai : Array Nat) (s : EtreeState) (j : Nat) : MErr EtreeState := do
  let work ← setE s.work j j "_etree: work[j]"
  let lo ← getE Ap j "_etree: Ap[j]"
  let hi ← getE Ap (j + 1) "_etree: Ap[j+1]"
  ((Ai.toList.take hi).drop lo).foldlM (fun s i => etreeWalk j (n + 1) i s) { s with work := work }

/-- `_etree(n, Ap, Ai, work, Lnz, etree)` with `work` of length `3n` (the `iwork` buffer) -/
def etree (n : Nat) (Ap Ai : Array Nat) : MErr EtreeState :=
  (List.range n).foldlM (etreeCol n Ap Ai)
    { work := Array.replicate (3 * n) 0, Lnz := Array.replicate n 0, etree := Array.replicate n none }

/-! ### `permute_symmetric` / `_permute_symmetric_inner` -/

/-- the encoding on which `permute_symmetric` is modelled: `colptr` starts at 0, is
monotone, has `n+1` entries and ends at `|rowval| = |nzval|`. -/
def wellFormed (A : Csc α) : Bool :=
  A.colptr.size == A.n + 1 && A.colptr.getD 0 1 == 0
    && !Csc.anyAdjacent (fun a b => decide (a > b)) A.colptr.toList
    && A.colptr.getD A.n 0 == A.rowval.size && A.rowval.size == A.nzval.size

/-- column index of every stored entry, in storage order -/
def colOf (colptr : Array Nat) (n : Nat) : List Nat :=
  ((List.range n).map (fun c => List.replicate (colptr.getD (c + 1) 0 - colptr.getD c 0) c)).flatten

/-- pass 1: `num_entries[col_idx] += 1` for every entry -/
def countInto (n : Nat) (dests : List Nat) : Array Nat :=
  dests.foldl (fun ne d => ne.modify d (· + 1)) (Array.replicate n 0)

/-- pass 2: `Pc[0] = 0; Pc[k+1] = Pc[k] + num_entries[k]` -/
def cumsum (counts : Array Nat) : Array Nat :=
  counts.toList.foldl (fun (acc : Array Nat) c => acc.push (acc.back! + c)) #[0]

/-- pass 3: every entry takes the next free slot `row_starts[col_idx]` of its column -/
def assignPositions : List Nat → Array Nat → List Nat
  | [], _ => []
  | d :: rest, rs => rs.getD d 0 :: assignPositions rest (rs.modify d (· + 1))

/-- `out[pos[k]] = vals[k]` for `k = 0, 1, …` in order -/
def scatter {β : Type} (init : Array β) (pos : List Nat) (vals : List β) : Array β :=
  (pos.zip vals).foldl (fun acc pv => acc.setIfInBounds pv.1 pv.2) init

/-- the value-independent part of `permute_symmetric`: `(P.colptr, P.rowval, AtoPAPt)` -/
def permutePattern (n : Nat) (colptr rowval iperm : Array Nat) :
    MErr (Array Nat × Array Nat × List Nat) := do
  if iperm.size < n then throw (.panic "permute_symmetric: iperm[colA]")
  let ip := fun j => iperm.getD j 0
  let rows := rowval.toList
  let cols := colOf colptr n
  -- implied by `wellFormed` (telescoping sum of the column lengths); kept explicit
  if cols.length != rows.length then throw (.panic "permute_symmetric: malformed input (not modelled)")
  let dests := List.zipWith (fun r c => max (ip r) (ip c)) rows cols
  let prs := List.zipWith (fun r c => min (ip r) (ip c)) rows cols
  if !dests.all (fun d => decide (d < n)) then throw (.panic "permute_symmetric: num_entries[col_idx]")
  let Pc := cumsum (countInto n dests)
  let pos := assignPositions dests (Pc.extract 0 n)
  pure (Pc, scatter (Array.replicate rowval.size 0) pos prs, pos)

/-- `permute_symmetric(A, iperm)` → `(P, AtoPAPt)`.  Modelled on square, well-formed,
upper-triangular input (what `check_structure` and the callers guarantee). -/
def permuteSymmetric [OfNat α 0] (A : Csc α) (iperm : Array Nat) : MErr (Csc α × Array Nat) := do
  if !wellFormed A || A.m != A.n then throw (.panic "permute_symmetric: malformed input (not modelled)")
  if !A.isTriu then throw (.panic "permute_symmetric: lower-triangular entry (not modelled)")
  let (Pc, Pr, pos) ← permutePattern A.n A.colptr A.rowval iperm
  let Pv := scatter (Array.replicate A.nzval.size 0) pos A.nzval.toList
  pure ({ m := A.n, n := A.n, colptr := Pc, rowval := Pr, nzval := Pv }, pos.toArray)

/-! ### `_factor_inner` -/

section numeric
variable [Add α] [Sub α] [Mul α] [Div α] [Neg α] [OfNat α 0] [OfNat α 1] [LT α] [DecidableLT α]
  [BEq α] [FloatLike α]

/-- `T::from_i8(sign)` -/
def signT (s : Int) : α :=
  if s < 0 then -(FloatLike.ofNat (-s).toNat) else FloatLike.ofNat s.toNat

/-- the dynamic regularisation rule: `if D[k]*sign < eps { D[k] = delta*sign; count += 1 }` -/
def regularizePivot (enable : Bool) (eps delta : α) (sign : Int) (d : α) : α × Bool :=
  if enable then
    let s : α := signT sign
    if d * s < eps then (delta * s, true) else (d, false)
  else (d, false)

/-- everything `_factor_inner` reads or writes -/
structure FState (α : Type) where
  Lp : Array Nat
  Li : Array Nat
  Lx : Array α
  D : Array α
  Dinv : Array α
  yMarkers : Array Bool
  nextColspace : Array Nat
  yVals : Array α
  regularizeCount : Nat
  positive : Nat

/-- regularisation parameters of the workspace -/
structure RegParams (α : Type) where
  Dsigns : Array Int
  enable : Bool
  eps : α
  delta : α

/-- tail of an iteration of `_factor_inner` (also used for `D[0]`): regularise, reject a
zero pivot, count positive pivots, invert. -/
def finishPivot (rp : RegParams α) (k : Nat) (s : FState α) : MErr (FState α) := do
  let dk ← getE s.D k "_factor_inner: D[k]"
  let (dk, bumped) ←
    if rp.enable then do
      let sg ← getE rp.Dsigns k "_factor_inner: Dsigns[k]"
      pure (regularizePivot true rp.eps rp.delta sg dk)
    else pure (dk, false)
  let D ← setE s.D k dk "_factor_inner: D[k]"
  let cnt := if bumped then s.regularizeCount + 1 else s.regularizeCount
  if dk == (0 : α) then throw errZeroPivot
  let pos := if (0 : α) < dk then s.positive + 1 else s.positive
  let Dinv ← setE s.Dinv k ((1 : α) / dk) "_factor_inner: Dinv[k]"
  pure { s with D := D, Dinv := Dinv, regularizeCount := cnt, positive := pos }

/-- the `while next_idx != UNKNOWN && next_idx < k` walk up the elimination tree;
returns the buffered path (in `elim_buffer` order) and the markers -/
def elimPath (etree : Array (Option Nat)) (k : Nat) :
    Nat → Option Nat → Array Bool → List Nat → MErr (List Nat × Array Bool)
  | 0, _, _, _ => throw (.panic "_factor_inner: elimination path out of fuel")
  | fuel + 1, next, markers, buf =>
    match next with
    | none => pure (buf, markers)
    | some nx =>
      if nx < k then do
        let used ← getE markers nx "_factor_inner: y_markers[next_idx]"
        if used then pure (buf, markers) else
        let markers ← setE markers nx true "_factor_inner: y_markers[next_idx]"
        let nxt ← getE etree nx "_factor_inner: etree[next_idx]"
        elimPath etree k fuel nxt markers (buf ++ [nx])
      else pure (buf, markers)

/-- first loop of iteration `k` (`for i in Ap[k]..Ap[k+1]`): loads column `k` of `A` into
`D[k]` / `y_vals` and collects the row pattern `y_idx[0..nnz_y]` -/
def rowPattern (n : Nat) (Ai : Array Nat) (Ax : Array α) (etree : Array (Option Nat)) (k : Nat)
    (sy : FState α × List Nat) (i : Nat) : MErr (FState α × List Nat) := do
  let (s, yIdx) := sy
  let bidx ← getE Ai i "_factor_inner: Ai[i]"
  let axi ← getE Ax i "_factor_inner: Ax[i]"
  if bidx == k then
    let D ← setE s.D k axi "_factor_inner: D[k]"
    pure ({ s with D := D }, yIdx)
  else
    let yVals ← setE s.yVals bidx axi "_factor_inner: y_vals[bidx]"
    let used ← getE s.yMarkers bidx "_factor_inner: y_markers[bidx]"
    if used then pure ({ s with yVals := yVals }, yIdx) else
    let markers ← setE s.yMarkers bidx true "_factor_inner: y_markers[bidx]"
    let nxt ← getE etree bidx "_factor_inner: etree[bidx]"
    let (buf, markers) ← elimPath etree k (n + 1) nxt markers [bidx]
    -- `while nnz_e != 0 { nnz_e -= 1; y_idx[nnz_y] = elim_buffer[nnz_e]; nnz_y += 1 }`
    if yIdx.length + buf.length > n then throw (.panic "_factor_inner: y_idx overflow")
    pure ({ s with yVals := yVals, yMarkers := markers }, yIdx ++ buf.reverse)

/-- second loop of iteration `k` (`for i in (0..nnz_y).rev()`), one column `cidx` -/
def rowEliminate (logical : Bool) (k : Nat) (s : FState α) (cidx : Nat) : MErr (FState α) := do
  let tmpIdx ← getE s.nextColspace cidx "_factor_inner: next_colspace[cidx]"
  let s ←
    if !logical then do
      let yc ← getE s.yVals cidx "_factor_inner: y_vals[cidx]"
      let f ← getE s.Lp cidx "_factor_inner: Lp[cidx]"
      if !(f ≤ tmpIdx && tmpIdx ≤ s.Lx.size && tmpIdx ≤ s.Li.size) then
        throw (.panic "_factor_inner: slice Lx[f..l]")
      let yVals ← (List.range' f (tmpIdx - f)).foldlM (fun (yv : Array α) j => do
          let lij ← getE s.Li j "_factor_inner: Li[j]"
          let lxj ← getE s.Lx j "_factor_inner: Lx[j]"
          let cur ← getE yv lij "_factor_inner: y_vals[Lij] (unchecked)"
          setE yv lij (cur - lxj * yc) "_factor_inner: y_vals[Lij] (unchecked)") s.yVals
      let dinv ← getE s.Dinv cidx "_factor_inner: Dinv[cidx] (unchecked)"
      let lxTmp := yc * dinv
      let Lx ← setE s.Lx tmpIdx lxTmp "_factor_inner: Lx[tmp_idx] (unchecked)"
      let dk ← getE s.D k "_factor_inner: D[k] (unchecked)"
      let D ← setE s.D k (dk - yc * lxTmp) "_factor_inner: D[k] (unchecked)"
      pure { s with yVals := yVals, Lx := Lx, D := D }
    else pure s
  let Li ← setE s.Li tmpIdx k "_factor_inner: Li[tmp_idx]"
  let nc ← setE s.nextColspace cidx (tmpIdx + 1) "_factor_inner: next_colspace[cidx]"
  let yVals ← setE s.yVals cidx (0 : α) "_factor_inner: y_vals[cidx]"
  let markers ← setE s.yMarkers cidx false "_factor_inner: y_markers[cidx]"
  pure { s with Li := Li, nextColspace := nc, yVals := yVals, yMarkers := markers }

/-- iteration `k ≥ 1` of the main loop -/
def factorRow (n : Nat) (Ap Ai : Array Nat) (Ax : Array α) (etree : Array (Option Nat))
    (logical : Bool) (rp : RegParams α) (s : FState α) (k : Nat) : MErr (FState α) := do
  let lo ← getE Ap k "_factor_inner: Ap[k]"
  let hi ← getE Ap (k + 1) "_factor_inner: Ap[k+1]"
  let (s, yIdx) ← (List.range' lo (hi - lo)).foldlM (rowPattern n Ai Ax etree k) (s, [])
  let s ← yIdx.reverse.foldlM (rowEliminate logical k) s
  if !logical then finishPivot rp k s else pure s

/-- `_factor_inner`.  `L`, `D`, `Dinv` come in with their previous contents (they are only
partially re-initialised by the Rust code). -/
def factorInner (n : Nat) (Ap Ai : Array Nat) (Ax : Array α) (Li : Array Nat) (Lx D Dinv : Array α)
    (Lnz : Array Nat) (etree : Array (Option Nat)) (logical : Bool) (rp : RegParams α) :
    MErr (FState α) := do
  if Lnz.size != n || D.size != n || Dinv.size != n || etree.size != n then
    throw (.panic "_factor_inner: workspace sizes (not modelled)")
  -- Lp = cumsum(Lnz) starting from zero
  let Lp := cumsum Lnz
  let s0 : FState α :=
    { Lp := Lp, Li := Li, Lx := Lx, D := Array.replicate n 0, Dinv := Dinv,
      yMarkers := Array.replicate n false, nextColspace := Lp.extract 0 n,
      yVals := Array.replicate n 0, regularizeCount := 0, positive := 0 }
  -- `if n == 0 { return Ok(positiveValuesInD); }`: nothing to eliminate in an empty matrix
  -- (repaired defect C12-empty-matrix-panic, /repo 6c94e42: the code below reads `Ap[1]`, `D[0]`)
  if n == 0 then pure s0 else
  let s ←
    if !logical then do
      -- `if Ap[1] > Ap[0] { D[0] = Ax[Ap[0]] }`: the pivot is read only when column 0 of the
      -- permuted matrix is non-empty (its only possible entry is then (0,0)); otherwise `D[0]`
      -- stays `0` and `finishPivot` reports `ZeroPivot` or regularises it.  (Repaired defect
      -- C12-first-pivot-missing-diagonal: the old code read `Ax[0]` unconditionally; see
      -- `C12.finding_first_column_can_be_empty`.)
      let ap0 ← getE Ap 0 "_factor_inner: Ap[0]"
      let ap1 ← getE Ap 1 "_factor_inner: Ap[1]"
      let D ←
        if ap0 < ap1 then do
          let a0 ← getE Ax ap0 "_factor_inner: Ax[Ap[0]]"
          setE s0.D 0 a0 "_factor_inner: D[0]"
        else pure s0.D
      finishPivot rp 0 { s0 with D := D }
    else pure s0
  (List.range' 1 (n - 1)).foldlM (factorRow n Ap Ai Ax etree logical rp) s

/-! ### `_solve` -/

/-- innermost statement of `_lsolve`: `x[Li[j]] -= Lx[j] * xi` -/
def lsolveEntry (Li : Array Nat) (Lx : Array α) (xi : α) (x : Array α) (j : Nat) : MErr (Array α) := do
  let lij ← getE Li j "_lsolve: Li[j]"
  let lxj ← getE Lx j "_lsolve: Lx[j]"
  let cur ← getE x lij "_lsolve: x[Lij] (unchecked)"
  setE x lij (cur - lxj * xi) "_lsolve: x[Lij] (unchecked)"

/-- body of `for i in 0..x.len()` of `_lsolve`: column `i` of `L` is subtracted `x[i]` times -/
def lsolveStep (Lp Li : Array Nat) (Lx : Array α) (x : Array α) (i : Nat) : MErr (Array α) := do
  let xi ← getE x i "_lsolve: x[i]"
  let f ← getE Lp i "_lsolve: Lp[i] (unchecked)"
  let l ← getE Lp (i + 1) "_lsolve: Lp[i+1] (unchecked)"
  if !(f ≤ l && l ≤ Lx.size && l ≤ Li.size) then throw (.panic "_lsolve: slice Lx[f..l]")
  (List.range' f (l - f)).foldlM (lsolveEntry Li Lx xi) x

/-- `_lsolve_unsafe`: solves `(L+I)x = b` in place, column by column -/
def lsolve (Lp Li : Array Nat) (Lx : Array α) (x : Array α) : MErr (Array α) :=
  (List.range x.size).foldlM (lsolveStep Lp Li Lx) x

/-- innermost statement of `_dltsolve` / `_ltsolve`: `s += Lx[j] * x[Li[j]]` -/
def dotEntry (Li : Array Nat) (Lx : Array α) (x : Array α) (s : α) (j : Nat) : MErr α := do
  let lij ← getE Li j "_dltsolve: Li[j]"
  let lxj ← getE Lx j "_dltsolve: Lx[j]"
  let xv ← getE x lij "_dltsolve: x[Lij] (unchecked)"
  pure (s + lxj * xv)

/-- body of `for i in (0..x.len()).rev()` of `_dltsolve`: `x[i] = x[i]*Dinv[i] - Σ Lx[j]*x[Li[j]]` -/
def dltsolveStep (Lp Li : Array Nat) (Lx Dinv : Array α) (x : Array α) (i : Nat) : MErr (Array α) := do
  let f ← getE Lp i "_dltsolve: Lp[i] (unchecked)"
  let l ← getE Lp (i + 1) "_dltsolve: Lp[i+1] (unchecked)"
  if !(f ≤ l && l ≤ Lx.size && l ≤ Li.size) then throw (.panic "_dltsolve: slice Lx[f..l]")
  let s ← (List.range' f (l - f)).foldlM (dotEntry Li Lx x) (0 : α)
  let xi ← getE x i "_dltsolve: x[i]"
  let di ← getE Dinv i "_dltsolve: Dinv[i] (unchecked)"
  setE x i (xi * di - s) "_dltsolve: x[i]"

/-- `_dltsolve_unsafe`: solves `D(L+I)'x = b` in place, last row first -/
def dltsolve (Lp Li : Array Nat) (Lx Dinv : Array α) (x : Array α) : MErr (Array α) :=
  (List.range x.size).reverse.foldlM (dltsolveStep Lp Li Lx Dinv) x

/-- `_ltsolve_unsafe`: solves `(L+I)'x = b` in place -/
def ltsolve (Lp Li : Array Nat) (Lx : Array α) (x : Array α) : MErr (Array α) :=
  (List.range x.size).reverse.foldlM (fun (x : Array α) i => do
    let f ← getE Lp i "_ltsolve: Lp[i] (unchecked)"
    let l ← getE Lp (i + 1) "_ltsolve: Lp[i+1] (unchecked)"
    if !(f ≤ l && l ≤ Lx.size && l ≤ Li.size) then throw (.panic "_ltsolve: slice Lx[f..l]")
    let s ← (List.range' f (l - f)).foldlM (fun (s : α) j => do
      let lij ← getE Li j "_ltsolve: Li[j]"
      let lxj ← getE Lx j "_ltsolve: Lx[j]"
      let xv ← getE x lij "_ltsolve: x[Lij] (unchecked)"
      pure (s + lxj * xv)) (0 : α)
    let xi ← getE x i "_ltsolve: x[i]"
    setE x i (xi - s) "_ltsolve: x[i]") x

/-- `_solve` -/
def solveRaw (Lp Li : Array Nat) (Lx Dinv : Array α) (b : Array α) : MErr (Array α) := do
  let y ← lsolve Lp Li Lx b
  dltsolve Lp Li Lx Dinv y

/-! ### `QDLDLFactorisation` -/

/-- `QDLDLFactorisation` together with the fields of its private workspace that survive a
call (the scratch buffers `iwork/bwork/fwork` are fully re-initialised before use). -/
structure Factorisation (α : Type) where
  perm : Array Nat
  iperm : Array Nat
  L : Csc α
  D : Array α
  Dinv : Array α
  etree : Array (Option Nat)
  Lnz : Array Nat
  triuA : Csc α
  AtoPAPt : Array Nat
  rp : RegParams α
  positiveInertia : Nat
  regularizeCount : Nat
  isSymbolic : Bool

/-- `_factor` -/
def factor (F : Factorisation α) (logical : Bool) : MErr (Factorisation α) := do
  let (Lx, D, Dinv) :=
    if logical then
      (Array.replicate F.L.nzval.size (1 : α), Array.replicate F.D.size (1 : α),
       Array.replicate F.Dinv.size (1 : α))
    else (F.L.nzval, F.D, F.Dinv)
  let A := F.triuA
  let s ← factorInner A.n A.colptr A.rowval A.nzval F.L.rowval Lx D Dinv F.Lnz F.etree logical F.rp
  pure { F with
    L := { F.L with colptr := s.Lp, rowval := s.Li, nzval := s.Lx },
    D := s.D, Dinv := s.Dinv, positiveInertia := s.positive, regularizeCount := s.regularizeCount }

/-- `_qdldl_new` after the ordering has been chosen (`perm`, `iperm`) -/
def newWithOrdering (Ain : Csc α) (perm iperm : Array Nat) (dsigns : Option (Array Int))
    (enable : Bool) (eps delta : α) (logical : Bool) : MErr (Factorisation α) := do
  let n := Ain.m
  let (A, AtoPAPt) ← permuteSymmetric Ain iperm
  let Dsigns ← match dsigns with
    | some ds => Perm.permute (Array.replicate n (1 : Int)) ds perm
    | none => pure (Array.replicate n (1 : Int))
  -- QDLDLWorkspace::new
  let es ← etree A.m A.colptr A.rowval
  let sumLnz := es.Lnz.toList.foldl (· + ·) 0
  let L : Csc α :=
    { m := n, n := n, colptr := (Array.replicate (n + 1) 0).setIfInBounds n sumLnz,
      rowval := Array.replicate sumLnz 0, nzval := Array.replicate sumLnz 0 }
  let F : Factorisation α :=
    { perm := perm, iperm := iperm, L := L, D := Array.replicate n 0, Dinv := Array.replicate n 0,
      etree := es.etree, Lnz := es.Lnz, triuA := A, AtoPAPt := AtoPAPt,
      rp := { Dsigns := Dsigns, enable := enable, eps := eps, delta := delta },
      positiveInertia := 0, regularizeCount := 0, isSymbolic := logical }
  factor F logical

/-- `QDLDLFactorisation::new` with a user-supplied ordering (`opts.perm = Some(perm)`) -/
def new (Ain : Csc α) (perm : Array Nat) (dsigns : Option (Array Int))
    (enable : Bool) (eps delta : α) (logical : Bool) : MErr (Factorisation α) := do
  checkStructure Ain
  let iperm ← Perm.invperm perm
  newWithOrdering Ain perm iperm dsigns enable eps delta logical

/-- `QDLDLFactorisation::new` with `opts.perm = None`: `(perm, iperm)` is what AMD returned -/
def newAmd (Ain : Csc α) (perm iperm : Array Nat) (dsigns : Option (Array Int))
    (enable : Bool) (eps delta : α) (logical : Bool) : MErr (Factorisation α) := do
  checkStructure Ain
  newWithOrdering Ain perm iperm dsigns enable eps delta logical

/-- `solve` -/
def solve (F : Factorisation α) (b : Array α) : MErr (Array α) := do
  if F.isSymbolic then throw (.panic "solve: assert!(!self.is_symbolic)")
  if b.size != F.D.size then throw (.panic "solve: assert_eq!(b.len(), self.D.len())")
  let tmp ← Perm.permute (Array.replicate F.triuA.n (0 : α)) b F.perm
  let tmp ← solveRaw F.L.colptr F.L.rowval F.L.nzval F.Dinv tmp
  Perm.ipermute b tmp F.perm

/-- apply `f` to `triuA.nzval[AtoPAPt[idx]]` -/
def modifyEntry (F : Factorisation α) (idx : Nat) (f : α → α) : MErr (Factorisation α) := do
  let k ← getE F.AtoPAPt idx "AtoPAPt[idx]"
  let v ← getE F.triuA.nzval k "nzval[AtoPAPt[idx]]"
  let nz ← setE F.triuA.nzval k (f v) "nzval[AtoPAPt[idx]]"
  pure { F with triuA := { F.triuA with nzval := nz } }

/-- `update_values` -/
def updateValues (F : Factorisation α) (indices : Array Nat) (values : Array α) :
    MErr (Factorisation α) :=
  (List.range indices.size).foldlM (fun F i => do
    let idx ← getE indices i
    let k ← getE F.AtoPAPt idx "update_values: AtoPAPt[idx]"
    let v ← getE values i "update_values: values[i]"
    let nz ← setE F.triuA.nzval k v "update_values: nzval[AtoPAPt[idx]]"
    pure { F with triuA := { F.triuA with nzval := nz } }) F

/-- `scale_values` -/
def scaleValues (F : Factorisation α) (indices : Array Nat) (scale : α) : MErr (Factorisation α) :=
  indices.toList.foldlM (fun F idx => modifyEntry F idx (· * scale)) F

/-- `offset_values` -/
def offsetValues (F : Factorisation α) (indices : Array Nat) (offset : α) (signs : Array Int) :
    MErr (Factorisation α) := do
  if indices.size != signs.size then throw (.panic "offset_values: assert_eq!(indices.len(), signs.len())")
  (indices.toList.zip signs.toList).foldlM (fun F (is : Nat × Int) =>
    if is.2 > 0 then modifyEntry F is.1 (· + offset)
    else if is.2 < 0 then modifyEntry F is.1 (· - offset)
    else pure F) F

/-- `refactor` -/
def refactor (F : Factorisation α) : MErr (Factorisation α) :=
  factor { F with isSymbolic := false } false

end numeric

end Qdldl
end Clarabel
