/-
  Model of the permutation helpers of `src/qdldl/qdldl.rs` (`_invperm`, `permute`,
  `ipermute`) and of `src/algebra/utils.rs` (`invperm`, the asserting variant).

  The Rust `permute` / `ipermute` use unchecked indexing (`get_unchecked`): an out-of-range
  index is undefined behaviour there and a `panic` here (the harness never feeds such
  inputs to the implementation; the model can still exhibit them).
-/
import ClarabelModel.Scalar

namespace Clarabel
namespace Perm

/-- the error `QDLDLError::InvalidPermutation` -/
def invalidPermutation : ModelErr := .err "InvalidPermutation"

/-- loop of `_invperm`: `i` is the position, `b` the inverse under construction, `seen`
the marker vector (the repaired code tracks "seen" separately from `b`). -/
def invpermLoop (n : Nat) : List Nat → Nat → Array Nat → Array Bool → MErr (Array Nat)
  | [], _, b, _ => pure b
  | j :: rest, i, b, seen =>
    if j < n && !(seen.getD j true) then
      invpermLoop n rest (i + 1) (b.setIfInBounds j i) (seen.setIfInBounds j true)
    else throw invalidPermutation

/-- `_invperm` -/
def invperm (p : Array Nat) : MErr (Array Nat) :=
  invpermLoop p.size p.toList 0 (Array.replicate p.size 0) (Array.replicate p.size false)

/-- loop of `algebra::utils::invperm`: `assert!(*j < p.len() && b[*j] == 0); b[*j] = i`.
NB this variant still uses `b[j] == 0` as "unset" (it only sees internally generated
permutations); the model reproduces it as it is. -/
def utilsInvpermLoop (n : Nat) : List Nat → Nat → Array Nat → MErr (Array Nat)
  | [], _, b => pure b
  | j :: rest, i, b =>
    if j < n && b.getD j 1 == 0 then utilsInvpermLoop n rest (i + 1) (b.setIfInBounds j i)
    else throw (.panic "invperm: assertion failed")

/-- `algebra::utils::invperm` -/
def utilsInvperm (p : Array Nat) : MErr (Array Nat) :=
  utilsInvpermLoop p.size p.toList 0 (Array.replicate p.size 0)

variable {β : Type}

/-- `permute(x, b, p)`: `zip(p, x).for_each(|(p, x)| *x = b[*p])` — the first
`min(|p|,|x|)` slots of `x` are overwritten, the rest is kept. -/
def permute (x b : Array β) (p : Array Nat) : MErr (Array β) :=
  let ps := p.toList.take x.size
  if ps.all (fun j => decide (j < b.size)) then
    pure ((ps.filterMap (fun j => b[j]?)) ++ x.toList.drop p.size).toArray
  else throw (.panic "permute: unchecked read out of range (UB in the Rust code)")

/-- `ipermute(x, b, p)`: `zip(p, b).for_each(|(p, b)| x[*p] = *b)` -/
def ipermute (x b : Array β) (p : Array Nat) : MErr (Array β) :=
  (p.toList.zip b.toList).foldlM
    (fun (x : Array β) (pb : Nat × β) =>
      setE x pb.1 pb.2 "ipermute: unchecked write out of range (UB in the Rust code)") x

end Perm
end Clarabel
