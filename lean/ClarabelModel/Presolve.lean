/-
  Model of `src/solver/implementations/default/presolver.rs` (removal of rows with an
  infinite bound in nonnegative cones, and its reversal) and of the module-level infinity
  bound `src/utils/infbounds.rs`.

  The row bookkeeping is on lists (structural recursion along the cone list); `A` is a
  `Csc` and is reduced with `Csc.selectRows` (C16).
-/
import ClarabelModel.Scalar
import ClarabelModel.Vec
import ClarabelModel.Csc
import ClarabelModel.Collapse

namespace Clarabel
namespace Presolve

variable {α : Type}

section
variable [Sub α] [Mul α] [OfNat α 1] [LT α] [DecidableLT α] [FloatLike α]

/-- the slightly contracted bound of `make_reduction_map`:
`(T::one() - T::epsilon() * 10) * infbound` -/
def threshold (infbound : α) : α := (1 - FloatLike.eps * FloatLike.ofNat 10) * infbound

/-- `keep_logical` of `make_reduction_map`, cone by cone.  `bs` is the not yet consumed
tail of `b`.  A nonnegative cone reads its `n` entries (`b[idx]` panics when out of range)
and drops those with `b[idx] > thr`; every other cone only advances `idx`.  Rows beyond
the last cone keep their initial `true`. -/
def keepFlags (thr : α) : List (ConeT α) → List α → MErr (List Bool)
  | [], bs => pure (bs.map (fun _ => true))
  | c :: cs, bs =>
    match c with
    | .nonneg n =>
      if bs.length < n then throw (.panic "make_reduction_map: b index out of range")
      else do
        let rest ← keepFlags thr cs (bs.drop n)
        pure ((bs.take n).map (fun v => if thr < v then false else true) ++ rest)
    | _ => do
      let rest ← keepFlags thr cs (bs.drop c.nvars)
      pure ((bs.take c.nvars).map (fun _ => true) ++ rest)

/-- `make_reduction_map`: `(Some keep_logical | None, mreduced)` -/
def makeReductionMap (cones : List (ConeT α)) (b : Array α) (infbound : α) :
    MErr (Option (Array Bool) × Nat) := do
  let keep ← keepFlags (threshold infbound) cones b.toList
  let mreduced := keep.count true
  if mreduced < b.size then pure (some keep.toArray, mreduced) else pure (none, mreduced)

end

/-- `Presolver<T>` (the unused `_init_cones` copy is omitted) -/
structure Presolver (α : Type) where
  /-- `reduce_map.keep_logical` -/
  keep : Option (Array Bool)
  mfull : Nat
  mreduced : Nat
  /-- the module-level bound captured at construction -/
  infbound : α
  deriving Repr, BEq, Inhabited

section
variable [Sub α] [Mul α] [OfNat α 1] [LT α] [DecidableLT α] [FloatLike α]

/-- `Presolver::new`; `infbound` is the value of `get_infinity()` at the call. -/
def Presolver.new (b : Array α) (cones : List (ConeT α)) (infbound : α) : MErr (Presolver α) := do
  let (keep, mreduced) ← makeReductionMap cones b infbound
  pure { keep, mfull := b.size, mreduced, infbound }

end

def Presolver.isReduced (p : Presolver α) : Bool := p.keep.isSome
def Presolver.countReduced (p : Presolver α) : Nat := p.mfull - p.mreduced

/-- `reduce_cones` on an explicit keep vector: each nonnegative cone is replaced by its
kept count (removed when that is 0); the markers of every other cone are skipped.
(`take` on an exhausted iterator yields fewer markers — no panic.) -/
def reduceConesWith : List Bool → List (ConeT α) → List (ConeT α)
  | _, [] => []
  | keep, c :: cs =>
    match c with
    | .nonneg n =>
      let nkeep := (keep.take n).count true
      if nkeep > 0 then .nonneg nkeep :: reduceConesWith (keep.drop n) cs
      else reduceConesWith (keep.drop n) cs
    | _ => c :: reduceConesWith (keep.drop c.nvars) cs

/-- `Presolver::reduce_cones` (`assert!(self.reduce_map.is_some())`) -/
def Presolver.reduceCones (p : Presolver α) (cones : List (ConeT α)) : MErr (List (ConeT α)) :=
  match p.keep with
  | none => throw (.panic "reduce_cones: no reduce_map")
  | some keep => pure (reduceConesWith keep.toList cones)

/-- `Presolver::reduce_A_b`: `A.select_rows(keep)`, `b.select(keep)`
(`select` asserts equal lengths) -/
def Presolver.reduceAb (p : Presolver α) (A : Csc α) (b : Array α) : MErr (Csc α × Array α) :=
  match p.keep with
  | none => throw (.panic "reduce_A_b: no reduce_map")
  | some keep => do
    let A' ← A.selectRows keep
    if b.size != keep.size then throw (.panic "select: length mismatch")
    pure (A', Vec.select b keep)

/-- `Presolver::presolve` -/
def Presolver.presolve (p : Presolver α) (A : Csc α) (b : Array α) (cones : List (ConeT α)) :
    MErr (Csc α × Array α × List (ConeT α)) := do
  let (A', b') ← p.reduceAb A b
  let cones' ← p.reduceCones cones
  pure (A', b', cones')

/-- The row loop of `reverse_presolve` on lists: `keep`, reduced `s`, reduced `z` ↦ the
values written to positions `0 .. keep.length-1` of the full `s`, `z`.  Reading
`variables.s[ctr]` / `variables.z[ctr]` past the end panics. -/
def reverseRows [OfNat α 0] (inf : α) : List Bool → List α → List α → MErr (List α × List α)
  | [], _, _ => pure ([], [])
  | true :: ks, s :: ss, z :: zs => do
    let (rs, rz) ← reverseRows inf ks ss zs
    pure (s :: rs, z :: rz)
  | true :: _, _, _ => throw (.panic "reverse_presolve: reduced vector too short")
  | false :: ks, ss, zs => do
    let (rs, rz) ← reverseRows inf ks ss zs
    pure (inf :: rs, 0 :: rz)

/-- `Presolver::reverse_presolve`.  `(x0, s0, z0)` are the current contents of the user
facing `solution` vectors (length `n`, `mfull`, `mfull`), `(x, s, z)` the variables of the
reduced problem.  `x` is copied (`copy_from_slice` panics on a length mismatch); writing
`solution.s[idx]` past the end panics; positions beyond `keep` are left as they were. -/
def Presolver.reversePresolve [OfNat α 0] (p : Presolver α)
    (x0 s0 z0 : Array α) (x s z : Array α) : MErr (Array α × Array α × Array α) :=
  if x0.size != x.size then throw (.panic "copy_from_slice: length mismatch") else
  match p.keep with
  | none => throw (.panic "reverse_presolve: no reduce_map")
  | some keep =>
    if s0.size < keep.size || z0.size < keep.size then
      throw (.panic "reverse_presolve: solution index out of range")
    else do
      let (rs, rz) ← reverseRows p.infbound keep.toList s.toList z.toList
      pure (x, (rs ++ s0.toList.drop keep.size).toArray, (rz ++ z0.toList.drop keep.size).toArray)

/-! ### the module-level infinity bound (`src/utils/infbounds.rs`) -/

/-- operations on the global bound and on solvers that capture it -/
inductive InfOp (α : Type) where
  /-- `set_infinity(v)` -/
  | set (v : α)
  /-- `default_infinity()` -/
  | default
  /-- construct a solver (it receives the next free solver id) -/
  | new
  deriving Repr, Inhabited

/-- global state: the current bound and, per constructed solver (in construction order),
the bound it captured -/
structure InfWorld (α : Type) where
  current : α
  captured : List α
  deriving Repr, Inhabited

/-- one operation; `dflt` is `INFINITY_DEFAULT` -/
def InfWorld.step (dflt : α) (w : InfWorld α) : InfOp α → InfWorld α
  | .set v => { w with current := v }
  | .default => { w with current := dflt }
  | .new => { w with captured := w.captured ++ [w.current] }

/-- run a history from the initial state (`INFINITY = INFINITY_DEFAULT`, no solvers) -/
def InfWorld.run (dflt : α) (ops : List (InfOp α)) : InfWorld α :=
  ops.foldl (InfWorld.step dflt) { current := dflt, captured := [] }

end Presolve
end Clarabel

/-! ### the hand reduction a user would perform (round 3: `presolve.hand_reduced`)

Not a function of `presolver.rs`: the *specification-side* reduction against which
`DefaultProblemData::new` with presolve on is compared (the harness oracle of the channels
`presolve.solve` / `presolve.hand_reduced` builds exactly this problem). -/

namespace Clarabel
namespace Presolve

variable {α : Type}

/-- the hand reduction a user would do on the ORIGINAL (uncollapsed) cone list: every cone that
`new_collapsed` treats as nonnegative (`NonnegativeConeT(d)`, `SecondOrderConeT(1)`,
`PSDTriangleConeT(1)`) is replaced by `NonnegativeConeT(k)`, `k` = number of its kept rows
(possibly 0); every other cone is copied and its markers skipped -/
def handReduceCones : List Bool → List (ConeT α) → List (ConeT α)
  | _, [] => []
  | keep, c :: cs =>
    match c.collapsibleDim? with
    | some d => .nonneg ((keep.take d).count true) :: handReduceCones (keep.drop d) cs
    | none => c :: handReduceCones (keep.drop c.nvars) cs

/-- the user's hand-reduced problem: rows of `A`, `b` with `keep = false` deleted, cones
shrunk -/
def handReduce (keep : List Bool) (A : Csc α) (b : Array α) (cones : List (ConeT α)) :
    MErr (Csc α × Array α × List (ConeT α)) := do
  let A' ← A.selectRows keep.toArray
  pure (A', Vec.select b keep.toArray, handReduceCones keep cones)

end Presolve
end Clarabel
