/-
  Model of `src/solver/implementations/default/residuals.rs` (`DefaultResiduals::update`)
  together with private copies of the sparse kernels it calls
  (`_csc_axpby_N`, `_csc_axpby_T`, `_csc_symv_*` of `src/algebra/csc/matrix_math.rs`).

  Same floating point operation order as the Rust code (column by column, entries in
  storage order, `y[row] += a*Aij*x[col]` evaluated as `(a*Aij)*x[col]`).
  Rust index panics / `assert!`s are `throw (.panic _)`.
-/
import ClarabelModel.Scalar
import ClarabelModel.Vec
import ClarabelModel.Csc

namespace Clarabel
namespace Residuals

variable {α : Type}

section kernels
variable [Add α] [Sub α] [Mul α] [Neg α] [OfNat α 0] [OfNat α 1] [BEq α]

/-- the `b*y` prologue shared by `_csc_axpby_N/_T` -/
def scaleY (y : Array α) (b : α) : Array α :=
  if b == 0 then y.map (fun _ => 0)
  else if b == 1 then y
  else if b == -1 then y.map (fun v => -v)
  else y.map (fun v => v * b)

/-- which accumulation the `a`-dispatch of `_csc_axpby_*` selects -/
@[inline] def accum (a : α) (acc aij xv : α) : α :=
  if a == 1 then acc + aij * xv
  else if a == -1 then acc - aij * xv
  else acc + a * aij * xv

/-- `_csc_axpby_N`: `y ← a·A·x + b·y` -/
def gemvN (A : Csc α) (y x : Array α) (a b : α) : MErr (Array α) := do
  let mut y := scaleY y b
  if a == 0 then return y
  if A.colptr.size == 0 then throw (.panic "gemv: empty colptr")
  if A.nzval.size != A.colptr.getD (A.colptr.size - 1) 0 then throw (.panic "gemv: nzval length")
  if x.size != A.n then throw (.panic "gemv: x length")
  for j in [0:A.n] do
    let xj ← getE x j "gemv: x"
    let lo ← getE A.colptr j "gemv: colptr"
    let hi ← getE A.colptr (j + 1) "gemv: colptr"
    for k in [lo:hi] do
      let r ← getE A.rowval k "gemv: rowval"
      let v ← getE A.nzval k "gemv: nzval"
      let yr ← getE y r "gemv: y"
      y ← setE y r (accum a yr v xj) "gemv: y"
  return y

/-- `_csc_axpby_T`: `y ← a·Aᵀ·x + b·y` -/
def gemvT (A : Csc α) (y x : Array α) (a b : α) : MErr (Array α) := do
  let mut y := scaleY y b
  if a == 0 then return y
  if A.colptr.size == 0 then throw (.panic "gemv: empty colptr")
  if A.nzval.size != A.colptr.getD (A.colptr.size - 1) 0 then throw (.panic "gemv: nzval length")
  if x.size != A.m then throw (.panic "gemv: x length")
  -- `y.iter_mut().enumerate().take(A.n)`: silently stops at the shorter of the two
  for j in [0:min A.n y.size] do
    let lo ← getE A.colptr j "gemv: colptr"
    let hi ← getE A.colptr (j + 1) "gemv: colptr"
    let mut yj ← getE y j "gemv: y"
    for k in [lo:hi] do
      let r ← getE A.rowval k "gemv: rowval"
      let v ← getE A.nzval k "gemv: nzval"
      let xr ← getE x r "gemv: x"
      yj := accum a yj v xr
    y ← setE y j yj "gemv: y"
  return y

/-- `_csc_symv_*`: `y ← a·sym(A)·x + b·y`, `A` holding one triangle.  Since /repo 1706c1f
the prologue is, as in gemv, `y.fill(0)` when `b == 0` (`y` is not read: it may hold NaN/Inf
left by an earlier solve) and `y.scale(b)` otherwise. -/
def symv (A : Csc α) (y x : Array α) (a b : α) : MErr (Array α) := do
  let mut y := if b == 0 then y.map (fun _ => 0) else y.map (fun v => v * b)
  if x.size != A.n then throw (.panic "symv: x length")
  if y.size != A.n then throw (.panic "symv: y length")
  if A.n != A.m then throw (.panic "symv: not square")
  for col in [0:A.n] do
    let xcol ← getE x col "symv: x"
    let lo ← getE A.colptr col "symv: colptr"
    let hi ← getE A.colptr (col + 1) "symv: colptr"
    if hi < lo then throw (.panic "symv: slice")
    if A.rowval.size < hi || A.nzval.size < hi then throw (.panic "symv: slice")
    for k in [lo:hi] do
      let row ← getE A.rowval k "symv: rowval"
      let aij ← getE A.nzval k "symv: nzval"
      let yr ← getE y row "symv: y"
      y ← setE y row (yr + a * aij * xcol) "symv: y"
      if row != col then
        let xr ← getE x row "symv: x"
        let yc ← getE y col "symv: y"
        y ← setE y col (yc + a * aij * xr) "symv: y"
  return y

end kernels

/-- `DefaultResiduals` -/
structure Resid (α : Type) where
  rx : Array α
  rz : Array α
  rτ : α
  rx_inf : Array α
  rz_inf : Array α
  dot_qx : α
  dot_bz : α
  dot_sz : α
  dot_xPx : α
  Px : Array α
  deriving Repr, Inhabited

/-- `DefaultVariables` -/
structure Vars (α : Type) where
  x : Array α
  s : Array α
  z : Array α
  τ : α
  κ : α
  deriving Repr, Inhabited

/-- the part of `DefaultProblemData` read by `update` -/
structure Data (α : Type) where
  P : Csc α
  q : Array α
  A : Csc α
  b : Array α
  deriving Repr, Inhabited

section update
variable [Add α] [Sub α] [Mul α] [Div α] [Neg α] [OfNat α 0] [OfNat α 1] [BEq α]

/-- `[T]::waxpby` into a destination of length `len` (`assert_eq!` on both lengths) -/
def waxpbyInto (len : Nat) (a : α) (x : Array α) (b : α) (y : Array α) : MErr (Array α) :=
  if len != x.size || len != y.size then throw (.panic "waxpby: length")
  else pure (Vec.waxpby a x b y)

/-- `[T]::axpby` (`assert_eq!(self.len(), x.len())`) -/
def axpbyInto (a : α) (x : Array α) (b : α) (y : Array α) : MErr (Array α) :=
  if y.size != x.size then throw (.panic "axpby: length")
  else pure (Vec.axpby a x b y)

/-- `DefaultResiduals::update`.  `r` is the previous content (only `Px`, `rx`, `rz`,
`rx_inf`, `rz_inf` lengths and the old `Px` values — which are multiplied by `0` — matter). -/
def update (r : Resid α) (v : Vars α) (d : Data α) : MErr (Resid α) := do
  let qx := Vec.dot d.q v.x
  let bz := Vec.dot d.b v.z
  let sz := Vec.dot v.s v.z
  let Px ← symv d.P r.Px v.x 1 0
  let xPx := Vec.dot v.x Px
  let rx_inf ← gemvT d.A r.rx_inf v.z (-1) 0
  -- `copy_from_slice` panics on a length mismatch
  if r.rz_inf.size != v.s.size then throw (.panic "copy_from: length")
  let rz_inf ← gemvN d.A v.s v.x 1 1
  let rx0 ← waxpbyInto r.rx.size (-1) Px (-v.τ) d.q
  let rx ← axpbyInto 1 rx_inf 1 rx0
  let rz ← waxpbyInto r.rz.size 1 rz_inf (-v.τ) d.b
  let rτ := qx + bz + v.κ + xPx / v.τ
  pure { rx, rz, rτ, rx_inf, rz_inf, dot_qx := qx, dot_bz := bz, dot_sz := sz, dot_xPx := xPx, Px }

/-- `DefaultVariables::calc_mu` (`degree` = `cones.degree()`) -/
def calcMu [FloatLike α] (r : Resid α) (v : Vars α) (degree : Nat) : α :=
  (r.dot_sz + v.τ * v.κ) / FloatLike.ofNat (degree + 1)

end update

end Residuals
end Clarabel
