/-
  Scalar carrier of the model.

  Every numeric definition of the model is polymorphic over a carrier `α` and uses only the
  operator classes of core Lean (`Add Sub Mul Div Neg LT LE BEq OfNat`) plus the small class
  `FloatLike` below.  Instantiated at `Float` the model performs the same IEEE operations in
  the same order as the Rust code (this is what the correspondence check runs); instantiated
  at an ordered field / `ℝ` (instances in `ClarabelProofs/Lemmas/ScalarInst.lean`) the same
  definitions are the subject of the theorems.

  This file imports nothing, so that the driver executables link.
-/

namespace Clarabel

/-- What the model needs from the scalar type beyond the core operator classes. -/
class FloatLike (α : Type) where
  sqrt : α → α
  exp  : α → α
  log  : α → α
  powf : α → α → α
  /-- Rust `f64::max` (returns the non-NaN argument) | `max` -/
  fmax : α → α → α
  /-- Rust `f64::min` | `min` -/
  fmin : α → α → α
  fabs : α → α
  isNaN : α → Bool
  isFinite : α → Bool
  /-- `T::epsilon()` -/
  eps  : α
  /-- `usize as T` -/
  ofNat : Nat → α

export FloatLike (sqrt exp log powf fmax fmin fabs)

/-- Rust `f64::max`: if one argument is NaN the other is returned. -/
@[inline] def floatMaxRust (a b : Float) : Float :=
  if a.isNaN then b else if b.isNaN then a else if a < b then b else a

@[inline] def floatMinRust (a b : Float) : Float :=
  if a.isNaN then b else if b.isNaN then a else if b < a then b else a

instance : FloatLike Float where
  sqrt := Float.sqrt
  exp  := Float.exp
  log  := Float.log
  powf := Float.pow
  fmax := floatMaxRust
  fmin := floatMinRust
  fabs := Float.abs
  isNaN := Float.isNaN
  isFinite := Float.isFinite
  eps  := 2.220446049250313e-16
  ofNat := Float.ofNat

/-- Errors of the model.  `panic` stands for any Rust panic (index out of range,
`assert!`, `unreachable!`); the model never totalises such a site silently. -/
inductive ModelErr where
  | panic (site : String)
  | err (kind : String)
  deriving Repr, BEq, DecidableEq, Inhabited

abbrev MErr := Except ModelErr

@[inline] def getE {β : Type} (xs : Array β) (i : Nat) (site : String := "index") : MErr β :=
  match xs[i]? with
  | some v => pure v
  | none => throw (.panic site)

@[inline] def setE {β : Type} (xs : Array β) (i : Nat) (v : β) (site : String := "index") : MErr (Array β) :=
  if h : i < xs.size then pure (xs.set i v h) else throw (.panic site)

end Clarabel
