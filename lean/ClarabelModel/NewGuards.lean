/-
  The construction guards of `DefaultSolver::new` (implementations/default/solver.rs): every
  documented panic between the call and the first numerical stage, as a function of the SHAPES
  of `(P, q, A, b)` and of the cone list.

    1. `_check_dimensions`: five `assert!`s, in order                      (`Loop.checkDimensions`)
    2. `DefaultProblemData::new` → `SupportedConeT::new_collapsed`         (`Cones.newCollapsed`)
       (presolve only shrinks / removes nonnegative cones, chordal decomposition only replaces
       PSD cones by PSD cones: neither touches a second-order or generalized power cone)
    3. `CompositeCone::new(&data.cones)` → `make_cone` per cone, in order (cones/supportedcone.rs):
         `SecondOrderCone::new(dim)`     `assert!(dim >= 2)`                        (socone.rs)
         `GenPowerConeData::new(α, _)`   `assert!(α.iter().all(|r| *r > 0))`,
                                         `assert!((1 - α.sum()).abs() < ε·len·0.5)`  (genpowcone.rs)
       `ZeroCone`, `NonnegativeCone`, `ExponentialCone`, `PowerCone` (NO check of `α ∈ (0,1)`: the
       constructor stores the exponent as it is) and `PSDTriangleCone` ("n >= 0 guaranteed by
       type limit") assert nothing.
    4. `assert_eq!(cones.numel, data.m)`.

  This file imports only `ClarabelModel.*`.
-/
import ClarabelModel.Loop
import ClarabelModel.Collapse
import ClarabelModel.Cones.GenPow

namespace Clarabel
namespace NewGuards

variable {α : Type}

section
variable [Add α] [Sub α] [Mul α] [Div α] [OfNat α 0] [OfNat α 1] [OfScientific α]
  [LT α] [DecidableLT α] [FloatLike α]

/-- the assertions of the constructor `make_cone` dispatches to -/
def coneGuard : ConeT α → MErr Unit
  | .soc dim => if dim < 2 then throw (.panic "assert dim >= 2") else pure ()
  | .genpow al _ => do
    let _ ← GenPow.new al
    pure ()
  | _ => pure ()

/-- `CompositeCone::new`: `make_cone` on every cone of the internal list, in order (the first
failing assertion is the one that is reported) -/
def coneGuards : List (ConeT α) → MErr Unit
  | [] => pure ()
  | c :: cs => do
    coneGuard c
    coneGuards cs

/-- all guards of `DefaultSolver::new`, in the order in which the code reaches them; arguments
are the shapes only: `P : Pm × Pn`, `q : qlen`, `A : Am × An`, `b : blen` -/
def newGuards (Pm Pn qlen Am An blen : Nat) (cones : List (ConeT α)) : MErr Unit := do
  Loop.checkDimensions Pm Pn qlen Am An blen (cones.map ConeT.nvars)
  coneGuards (Cones.newCollapsed cones)

end

/-! ### wire helpers -/
namespace Wire

/-- cone tokens of the harness: `z3 n2 q3 e p<float> g<dim2>_<a1>_<a2>… t3`, separated by `/`
(`-` = empty list); `fl` parses a float token -/
def parseCone (fl : String → Option α) (t : String) : Option (ConeT α) :=
  let h := t.take 1
  let r := (t.drop 1).toString
  match h.toString with
  | "z" => r.toNat?.map .zero
  | "n" => r.toNat?.map .nonneg
  | "q" => r.toNat?.map .soc
  | "t" => r.toNat?.map .psd
  | "e" => some .exp
  | "p" => (fl r).map .pow
  | "g" =>
    match r.splitOn "_" with
    | d2 :: as => do
      let d ← d2.toNat?
      let al ← as.mapM fl
      pure (.genpow al.toArray d)
    | [] => none
  | _ => none

def parseCones (fl : String → Option α) (s : String) : Option (List (ConeT α)) :=
  if s == "-" || s.isEmpty then some [] else (s.splitOn "/").mapM (parseCone fl)

end Wire

end NewGuards
end Clarabel
