/-
  Model of `src/solver/implementations/default/data_updating.rs` together with the parts of
  `problemdata.rs` (norm caches), `kktsystem.rs` / `directldlkktsolver.rs`
  (`update_P/update_A` → `_update_values`) and `qdldl.rs` (`update_values`) that data
  updating touches.

  The state holds the *internal* (equilibrated) data `P̂ q̂ Â b̂` with fixed sparsity
  patterns, the equilibration vectors, the two cached unscaled norms, the
  presolve / decomposition flags and — as plain value arrays written through index maps —
  the KKT matrix of `DirectLDLKKTSolver` (`kkt`, `mapP`, `mapA`, `diagFull`) and QDLDL's
  permuted copy (`ldl = triuA.nzval`, `atoPAPt`).

  A failing update may already have modified the data (partial `(index,value)` forms), so
  every function returns the new value *and* the `Result`.

  Reads that are in range for every state a real solver can be in (`WfB` below) use `getD`
  in the arithmetic core; `stepChecked` — what the driver runs — first evaluates `WfB` and
  answers `panic` when it fails, so no silent default is reachable on a checked path.
  (`ClarabelProofs.Lemmas.Update.wfB_step`: `step` preserves `WfB`.)
-/
import ClarabelModel.Vec
import ClarabelModel.Csc

namespace Clarabel
namespace Update

variable {α : Type}

/-- `DataUpdateError` -/
inductive DataUpdateError where
  | presolveIsActive
  | chordalDecompositionIsActive
  | badFormat (e : Csc.FormatError)
  deriving Repr, BEq, DecidableEq, Inhabited

def DataUpdateError.toString : DataUpdateError → String
  | .presolveIsActive => "PresolveIsActive"
  | .chordalDecompositionIsActive => "ChordalDecompositionIsActive"
  | .badFormat e => "BadFormat:" ++ e.toString

/-- argument forms of `VectorProblemDataUpdate` -/
inductive VecArg (α : Type) where
  /-- `[T;0]` -/
  | empty0
  /-- `[T]` / `Vec<T>` -/
  | slice (v : Array α)
  /-- `zip(&index,&values)` / `(Vec<usize>,Vec<T>)` (the zip stops at the shorter one) -/
  | pairs (idx : Array Nat) (vals : Array α)
  deriving Repr, Inhabited

/-- argument forms of `MatrixProblemDataUpdate` -/
inductive MatArg (α : Type) where
  | empty0
  | slice (v : Array α)
  /-- `CscMatrix` (pattern must match) -/
  | matrix (M : Csc α)
  | pairs (idx : Array Nat) (vals : Array α)
  deriving Repr, Inhabited

/-- `Result<(), SparseFormatError>` -/
abbrev FmtRes := Except Csc.FormatError Unit

/-! ### index ↦ coordinates -/

/-- column of `index_to_coord`: `colptr.partition_point(|c| idx + 1 > c) - 1` -/
def colOf (colptr : Array Nat) (k : Nat) : Nat :=
  (colptr.toList.takeWhile (fun c => decide (c ≤ k))).length - 1

/-- row of `index_to_coord` -/
def rowOf (M : Csc α) (k : Nat) : Nat := M.rowval.getD k 0

/-! ### sequential `(index,value)` writes -/

/-- the loop `for (&idx,&value) in zip { if idx >= len { return Err } ; v[idx] = f idx value }`;
the flag is `false` when the loop returned the error (earlier writes stay) -/
def applyPairs (f : Nat → α → α) : List (Nat × α) → Array α → Array α × Bool
  | [], v => (v, true)
  | (i, x) :: rest, v =>
    if v.size ≤ i then (v, false) else applyPairs f rest (v.setIfInBounds i (f i x))

/-- `check_equal_sparsity` (`self` is the user's matrix, `other` the internal one) -/
def checkEqualSparsity (self other : Csc α) : FmtRes :=
  if self.m ≠ other.m ∨ self.n ≠ other.n then .error .incompatibleDimension
  else if self.colptr ≠ other.colptr ∨ self.rowval ≠ other.rowval then .error .sparsityMismatch
  else .ok ()

section arith
variable [Mul α] [OfNat α 0]

/-- value stored by the whole-vector forms: `copy_from_slice; lrscale(l,r); scale(c)?` -/
def scaleFull (M : Csc α) (l r : Array α) (cs : Option α) (k : Nat) (v : α) : α :=
  let t := v * (l.getD (rowOf M k) 0 * r.getD (colOf M.colptr k) 0)
  match cs with
  | some c => t * c
  | none => t

/-- value stored by the `(index,value)` forms: `lscale[row] * rscale[col] * c * value` -/
def scalePair (M : Csc α) (l r : Array α) (cs : Option α) (k : Nat) (v : α) : α :=
  match cs with
  | some c => l.getD (rowOf M k) 0 * r.getD (colOf M.colptr k) 0 * c * v
  | none => l.getD (rowOf M k) 0 * r.getD (colOf M.colptr k) 0 * v

/-- `impl MatrixProblemDataUpdate for [T]` -/
def updateMatrixSlice (data : Array α) (M : Csc α) (l r : Array α) (cs : Option α) : Csc α × FmtRes :=
  if data.size = 0 then (M, .ok ())
  else if data.size ≠ M.nzval.size then (M, .error .incompatibleDimension)
  else ({ M with nzval := data.mapIdx (fun k v => scaleFull M l r cs k v) }, .ok ())

/-- `update_matrix` for every argument form -/
def updateMatrix (arg : MatArg α) (M : Csc α) (l r : Array α) (cs : Option α) : Csc α × FmtRes :=
  match arg with
  | .empty0 => (M, .ok ())
  | .slice v => updateMatrixSlice v M l r cs
  | .matrix U =>
    match checkEqualSparsity U M with
    | .error e => (M, .error e)
    | .ok () => updateMatrixSlice U.nzval M l r cs
  | .pairs idx vals =>
    let (nz, ok) := applyPairs (scalePair M l r cs) (idx.toList.zip vals.toList) M.nzval
    ({ M with nzval := nz }, if ok then .ok () else .error .incompatibleDimension)

/-- value stored by the whole-vector forms: `copy; hadamard(vscale); scale(c)?` -/
def vscaleFull (vscale : Array α) (cs : Option α) (k : Nat) (x : α) : α :=
  let t := x * vscale.getD k 0
  match cs with
  | some c => t * c
  | none => t

/-- `update_vector` for every argument form (the pair form computes `value*vscale[idx]*c`,
the same expression) -/
def updateVector (arg : VecArg α) (v vscale : Array α) (cs : Option α) : Array α × FmtRes :=
  match arg with
  | .empty0 => (v, .ok ())
  | .slice data =>
    if data.size = 0 then (v, .ok ())
    else if data.size ≠ v.size then (v, .error .incompatibleDimension)
    else (data.mapIdx (fun k x => vscaleFull vscale cs k x), .ok ())
  | .pairs idx vals =>
    let (w, ok) := applyPairs (vscaleFull vscale cs) (idx.toList.zip vals.toList) v
    (w, if ok then .ok () else .error .incompatibleDimension)

end arith

/-! ### KKT value copies -/

/-- `_update_values_KKT`: `for (idx,v) in zip(index,values) { KKT.nzval[idx] = v }` -/
def updateValuesKKT (kkt : Array α) (index : Array Nat) (values : Array α) : Array α :=
  (index.toList.zip values.toList).foldl (fun a p => a.setIfInBounds p.1 p.2) kkt

/-- `QDLDLFactorisation::update_values`: `nzval[AtoPAPt[idx]] = values[i]` -/
def ldlUpdateValues (ldl : Array α) (atoPAPt index : Array Nat) (values : Array α) : Array α :=
  (index.toList.zip values.toList).foldl
    (fun a p => a.setIfInBounds (atoPAPt.getD p.1 0) p.2) ldl

/-! ### solver state seen by data updating -/

structure State (α : Type) where
  P : Csc α
  q : Array α
  A : Csc α
  b : Array α
  d : Array α
  dinv : Array α
  e : Array α
  einv : Array α
  c : α
  normq : Option α
  normb : Option α
  presolved : Bool
  decomposed : Bool
  /-- `KKT.nzval` -/
  kkt : Array α
  mapP : Array Nat
  mapA : Array Nat
  diagFull : Array Nat
  /-- `triuA.nzval` inside QDLDL -/
  ldl : Array α
  atoPAPt : Array Nat
  /-- the last refactorisation left the statically regularised diagonal in `ldl`
  (`regularize_and_refactor` restores `KKT` only) -/
  ldlDiagShifted : Bool
  deriving Inhabited

/-- the index facts under which none of the Rust reads/writes of this file can panic -/
def State.WfB (st : State α) : Bool :=
  st.P.rowval.size == st.P.nzval.size && st.A.rowval.size == st.A.nzval.size
  && st.d.size == st.q.size && st.dinv.size == st.q.size
  && st.e.size == st.b.size && st.einv.size == st.b.size
  && st.P.n == st.q.size && st.A.n == st.q.size && st.A.m == st.b.size
  && st.P.colptr.size == st.P.n + 1 && st.A.colptr.size == st.A.n + 1
  && st.P.colptr.getD 0 1 == 0 && st.A.colptr.getD 0 1 == 0
  && st.P.colptr.getD st.P.n 0 == st.P.nzval.size && st.A.colptr.getD st.A.n 0 == st.A.nzval.size
  && st.P.rowval.all (fun r => decide (r < st.q.size))
  && st.A.rowval.all (fun r => decide (r < st.b.size))
  && st.mapP.size == st.P.nzval.size && st.mapA.size == st.A.nzval.size
  && st.mapP.all (fun i => decide (i < st.kkt.size)) && st.mapA.all (fun i => decide (i < st.kkt.size))
  && st.atoPAPt.size == st.kkt.size && st.ldl.size == st.kkt.size
  && st.atoPAPt.all (fun i => decide (i < st.ldl.size))

/-- operations of a history -/
inductive Op (α : Type) where
  | updateP (a : MatArg α)
  | updateQ (a : VecArg α)
  | updateA (a : MatArg α)
  | updateB (a : VecArg α)
  | updateData (p : MatArg α) (q : VecArg α) (a : MatArg α) (b : VecArg α)
  /-- what a `solve()` does to *this* state: fills the norm caches (`info.update`), and
  leaves the regularised diagonal in the LDL copy when static regularisation is on -/
  | solve (staticReg : Bool)
  /-- `get_normq(); get_normb()` only -/
  | norms
  deriving Inhabited

abbrev Res := Except DataUpdateError Unit

def fmtToRes : FmtRes → Res
  | .ok () => .ok ()
  | .error e => .error (.badFormat e)

/-- `check_data_update_allowed` -/
def checkDataUpdateAllowed (st : State α) : Res :=
  if st.presolved then .error .presolveIsActive
  else if st.decomposed then .error .chordalDecompositionIsActive
  else .ok ()

section ops
variable [Mul α] [Div α] [OfNat α 0] [OfNat α 1] [LT α] [DecidableLT α] [Add α] [Sub α] [FloatLike α]

/-- `update_P` -/
def updateP (st : State α) (arg : MatArg α) : State α × Res :=
  match checkDataUpdateAllowed st with
  | .error e => (st, .error e)
  | .ok () =>
    match updateMatrix arg st.P st.d st.d (some st.c) with
    | (P', .error e) => ({ st with P := P' }, .error (.badFormat e))
    | (P', .ok ()) =>
      ({ st with P := P',
                 kkt := updateValuesKKT st.kkt st.mapP P'.nzval,
                 ldl := ldlUpdateValues st.ldl st.atoPAPt st.mapP P'.nzval,
                 ldlDiagShifted := false }, .ok ())

/-- `update_A` -/
def updateA (st : State α) (arg : MatArg α) : State α × Res :=
  match checkDataUpdateAllowed st with
  | .error e => (st, .error e)
  | .ok () =>
    match updateMatrix arg st.A st.e st.d none with
    | (A', .error e) => ({ st with A := A' }, .error (.badFormat e))
    | (A', .ok ()) =>
      ({ st with A := A',
                 kkt := updateValuesKKT st.kkt st.mapA A'.nzval,
                 ldl := ldlUpdateValues st.ldl st.atoPAPt st.mapA A'.nzval }, .ok ())

/-- `update_q` -/
def updateQ (st : State α) (arg : VecArg α) : State α × Res :=
  match checkDataUpdateAllowed st with
  | .error e => (st, .error e)
  | .ok () =>
    match updateVector arg st.q st.d (some st.c) with
    | (q', .error e) => ({ st with q := q' }, .error (.badFormat e))
    | (q', .ok ()) => ({ st with q := q', normq := none }, .ok ())

/-- `update_b` -/
def updateB (st : State α) (arg : VecArg α) : State α × Res :=
  match checkDataUpdateAllowed st with
  | .error e => (st, .error e)
  | .ok () =>
    match updateVector arg st.b st.e none with
    | (b', .error e) => ({ st with b := b' }, .error (.badFormat e))
    | (b', .ok ()) => ({ st with b := b', normb := none }, .ok ())

/-- `update_data`: `update_P(P)?; update_q(q)?; update_A(A)?; update_b(b)?` -/
def updateData (st : State α) (p : MatArg α) (q : VecArg α) (a : MatArg α) (b : VecArg α) : State α × Res :=
  match updateP st p with
  | (s1, .error e) => (s1, .error e)
  | (s1, .ok ()) =>
    match updateQ s1 q with
    | (s2, .error e) => (s2, .error e)
    | (s2, .ok ()) =>
      match updateA s2 a with
      | (s3, .error e) => (s3, .error e)
      | (s3, .ok ()) => updateB s3 b

/-- `get_normq` -/
def getNormq (st : State α) : α :=
  match st.normq with
  | some v => v
  | none => Vec.normInfScaled st.q st.dinv * (1 / st.c)

/-- `get_normb` -/
def getNormb (st : State α) : α :=
  match st.normb with
  | some v => v
  | none => Vec.normInfScaled st.b st.einv

def fillNorms (st : State α) : State α :=
  { st with normq := some (getNormq st), normb := some (getNormb st) }

/-- one operation of a history -/
def step (st : State α) : Op α → State α × Res
  | .updateP a => updateP st a
  | .updateQ a => updateQ st a
  | .updateA a => updateA st a
  | .updateB a => updateB st a
  | .updateData p q a b => updateData st p q a b
  | .solve sr => ({ fillNorms st with ldlDiagShifted := st.ldlDiagShifted || sr }, .ok ())
  | .norms => (fillNorms st, .ok ())

/-- a whole history; the results are collected in order -/
def run (st : State α) : List (Op α) → State α × List Res
  | [] => (st, [])
  | op :: rest =>
    let (s1, r) := step st op
    let (s2, rs) := run s1 rest
    (s2, r :: rs)

/-- what the driver runs: a state that violates the index facts stands for a Rust panic -/
def stepChecked (st : State α) (op : Op α) : MErr (State α × Res) :=
  if st.WfB then pure (step st op) else throw (.panic "update: ill-formed solver state")

end ops

/-! ### user-level view (the abstraction function of `C08.refines_spec`) -/

section abs
variable [Mul α] [Div α] [OfNat α 0]

/-- user-level value arrays `(P, q, A, b)`; the patterns never change -/
structure UserData (α : Type) where
  P : Array α
  q : Array α
  A : Array α
  b : Array α

/-- `P̂ₖ / (c·d_row·d_col)` etc. -/
def absMat (M : Csc α) (l r : Array α) (cs : Option α) : Array α :=
  M.nzval.mapIdx (fun k v =>
    let s := l.getD (rowOf M k) 0 * r.getD (colOf M.colptr k) 0
    match cs with
    | some c => v / (s * c)
    | none => v / s)

def absVec (v vscale : Array α) (cs : Option α) : Array α :=
  v.mapIdx (fun k x =>
    match cs with
    | some c => x / (vscale.getD k 0 * c)
    | none => x / vscale.getD k 0)

def State.abs (st : State α) : UserData α :=
  { P := absMat st.P st.d st.d (some st.c),
    q := absVec st.q st.d (some st.c),
    A := absMat st.A st.e st.d none,
    b := absVec st.b st.e none }

end abs

/-! ### specification: plain overwrite of user-level data -/

/-- overwrite by a vector argument; mirrors only the *acceptance* rules -/
def specVec (arg : VecArg α) (v : Array α) : Array α × FmtRes :=
  match arg with
  | .empty0 => (v, .ok ())
  | .slice data =>
    if data.size = 0 then (v, .ok ())
    else if data.size ≠ v.size then (v, .error .incompatibleDimension)
    else (data, .ok ())
  | .pairs idx vals =>
    let (w, ok) := applyPairs (fun _ x => x) (idx.toList.zip vals.toList) v
    (w, if ok then .ok () else .error .incompatibleDimension)

/-- overwrite by a matrix argument, given the (fixed) pattern -/
def specMat (pat : Csc α) (arg : MatArg α) (v : Array α) : Array α × FmtRes :=
  match arg with
  | .empty0 => (v, .ok ())
  | .slice data => specVec (.slice data) v
  | .matrix U =>
    match checkEqualSparsity U pat with
    | .error e => (v, .error e)
    | .ok () => specVec (.slice U.nzval) v
  | .pairs idx vals => specVec (.pairs idx vals) v

end Update
end Clarabel

/-! ### invariants (statements used by `C08`) -/

namespace Clarabel
namespace Update
variable {α : Type}

/-- the index facts about the data maps under which the value copies are faithful:
`map.P`, `map.A` have one entry per stored value, point into the KKT value array, are
jointly injective; `AtoPAPt` is an injective map into the LDL value array.  (The harness
checks these on every live solver; they are consequences of KKT assembly / `permute_symmetric`,
properties C11 / C12.) -/
structure State.MapsOK (st : State α) : Prop where
  sizeP : st.mapP.size = st.P.nzval.size
  sizeA : st.mapA.size = st.A.nzval.size
  nodup : (st.mapP.toList ++ st.mapA.toList).Nodup
  bound : ∀ i ∈ st.mapP.toList ++ st.mapA.toList, i < st.kkt.size
  atopSize : st.atoPAPt.size = st.kkt.size
  atopBound : ∀ i ∈ st.atoPAPt.toList, i < st.ldl.size
  atopInj : ∀ i j, i < st.atoPAPt.size → j < st.atoPAPt.size →
    st.atoPAPt.getD i 0 = st.atoPAPt.getD j 0 → i = j

/-- `KKT.nzval[map.P[k]] = P̂.nzval[k]`, `KKT.nzval[map.A[k]] = Â.nzval[k]`, and the same for
QDLDL's permuted copy through `AtoPAPt` — except that after a `solve` the diagonal positions
of the LDL copy hold the statically regularised values until `update_P` copies `P` again
(`regularize_and_refactor` re-reads the diagonal from `KKT` before every factorisation). -/
structure State.KktSync (st : State α) : Prop where
  kktP : ∀ k, k < st.P.nzval.size → st.kkt[st.mapP.getD k 0]? = st.P.nzval[k]?
  kktA : ∀ k, k < st.A.nzval.size → st.kkt[st.mapA.getD k 0]? = st.A.nzval[k]?
  ldlP : ∀ k, k < st.P.nzval.size →
    (st.ldlDiagShifted = false ∨ st.mapP.getD k 0 ∉ st.diagFull.toList) →
    st.ldl[st.atoPAPt.getD (st.mapP.getD k 0) 0]? = st.P.nzval[k]?
  ldlA : ∀ k, k < st.A.nzval.size → st.ldl[st.atoPAPt.getD (st.mapA.getD k 0) 0]? = st.A.nzval[k]?

section
variable [Mul α] [Div α] [OfNat α 0] [OfNat α 1] [LT α] [DecidableLT α] [FloatLike α]

/-- the value `get_normq` recomputes from the current internal data -/
def freshNormq (st : State α) : α := Vec.normInfScaled st.q st.dinv * (1 / st.c)
/-- the value `get_normb` recomputes from the current internal data -/
def freshNormb (st : State α) : α := Vec.normInfScaled st.b st.einv

/-- a cached norm is absent or is the norm of the *current* vector -/
def State.NormCacheOK (st : State α) : Prop :=
  (st.normq = none ∨ st.normq = some (freshNormq st)) ∧
  (st.normb = none ∨ st.normb = some (freshNormb st))
end

/-- an argument in one of the whole-vector forms (`[T;0]`, `[T]`, `Vec<T>`) -/
def VecArg.isWhole : VecArg α → Bool
  | .pairs _ _ => false
  | _ => true

/-- an argument in one of the whole-matrix forms (`[T;0]`, `[T]`, `Vec<T>`, `CscMatrix`) -/
def MatArg.isWhole : MatArg α → Bool
  | .pairs _ _ => false
  | _ => true

end Update
end Clarabel
