/-
  Model of `src/algebra/csc/core.rs` (compressed-sparse-column matrices).

  Functions keep the Rust names.  Loops are folds over `List.range`; reads that the Rust
  code performs with a panicking index are `getE` (so the model can exhibit the panic).
-/
import ClarabelModel.Scalar

namespace Clarabel

structure Csc (α : Type) where
  m : Nat
  n : Nat
  colptr : Array Nat
  rowval : Array Nat
  nzval : Array α
  deriving Repr, BEq, Inhabited

namespace Csc
variable {α : Type}

/-- Entries `(row, value)` of column `j` as a list (storage order). -/
def col (M : Csc α) (j : Nat) : List (Nat × α) :=
  let lo := M.colptr.getD j 0
  let hi := M.colptr.getD (j + 1) 0
  ((M.rowval.extract lo hi).toList).zip ((M.nzval.extract lo hi).toList)

/-- Row indices of column `j` (storage order). -/
def colRows (M : Csc α) (j : Nat) : List Nat :=
  (M.rowval.extract (M.colptr.getD j 0) (M.colptr.getD (j + 1) 0)).toList

/-- Dense meaning: the sum of all stored entries at `(i,j)` (duplicates add). -/
def toDense [Add α] [OfNat α 0] (M : Csc α) (i j : Nat) : α :=
  ((M.col j).filter (fun e => e.1 == i)).foldl (fun acc e => acc + e.2) 0

def nnz (M : Csc α) : Nat := M.colptr.getD M.n 0

/-- `windows(2).any(|c| bad c[0] c[1])` -/
def anyAdjacent (bad : Nat → Nat → Bool) : List Nat → Bool
  | a :: b :: rest => bad a b || anyAdjacent bad (b :: rest)
  | _ => false

inductive FormatError where
  | incompatibleDimension | badColptr | badRowval | sparsityMismatch
  deriving Repr, BEq, DecidableEq, Inhabited

def FormatError.toString : FormatError → String
  | .incompatibleDimension => "IncompatibleDimension"
  | .badColptr => "BadColptr"
  | .badRowval => "BadRowval"
  | .sparsityMismatch => "SparsityMismatch"

/-- `check_dimensions` -/
def checkDimensions (M : Csc α) : Except FormatError Unit :=
  if M.rowval.size != M.nzval.size then .error .incompatibleDimension
  else if M.colptr.size == 0 || M.colptr.size - 1 != M.n || M.colptr.getD M.n 0 != M.rowval.size then
    .error .incompatibleDimension
  else if anyAdjacent (fun a b => decide (a > b)) M.colptr.toList then .error .badColptr
  else .ok ()

/-- `check_format` -/
def checkFormat (M : Csc α) : Except FormatError Unit :=
  match M.checkDimensions with
  | .error e => .error e
  | .ok () =>
    if (List.range M.n).any (fun j => anyAdjacent (fun a b => decide (a ≥ b)) (M.colRows j)) then
      .error .badRowval
    else if !(M.rowval.toList.all (fun r => decide (r < M.m))) then .error .badRowval
    else .ok ()

/-- Build a matrix from per-column entry lists. -/
def ofCols (m n : Nat) (cols : List (List (Nat × α))) : Csc α :=
  let counts := cols.map List.length
  let colptr := counts.foldl (fun (acc : Array Nat) c => acc.push (acc.back! + c)) #[0]
  let all := cols.flatten
  { m := m, n := n, colptr := colptr,
    rowval := (all.map (·.1)).toArray, nzval := (all.map (·.2)).toArray }

/-- `to_triu`: keeps, per column, the leading `count(row ≤ col)` entries (the Rust code
counts the entries on or above the diagonal and copies that many from the *start* of the
column, which is the upper triangle when rows are sorted). -/
def toTriu (M : Csc α) : MErr (Csc α) :=
  if M.m != M.n then throw (.panic "to_triu: not square") else
  let cols := (List.range M.n).map (fun j =>
    let c := M.col j
    c.take ((c.filter (fun e => decide (e.1 ≤ j))).length))
  pure (ofCols M.m M.n cols)

/-- `is_triu` -/
def isTriu (M : Csc α) : Bool :=
  (List.range M.n).all (fun j => (M.colRows j).all (fun r => decide (r ≤ j)))

/-- number of `true` among the first `i` flags: the reduced row index of row `i` -/
def rankBefore (keep : Array Bool) (i : Nat) : Nat :=
  ((keep.toList.take i).filter id).length

/-- `select_rows` -/
def selectRows (M : Csc α) (keep : Array Bool) : MErr (Csc α) :=
  if keep.size != M.m then throw (.panic "select_rows: dimension") else
  if !(M.rowval.toList.all (fun r => decide (r < M.m))) then throw (.panic "select_rows: row index") else
  let mred := (keep.toList.filter id).length
  let cols := (List.range M.n).map (fun j =>
    ((M.col j).filter (fun e => keep.getD e.1 false)).map (fun e => (rankBefore keep e.1, e.2)))
  pure (ofCols mred M.n cols)

/-- transpose (`From<Adjoint>`): column `i` of the result lists, in increasing `j`, the
entries of row `i`. -/
def transpose (M : Csc α) : Csc α :=
  let cols := (List.range M.m).map (fun i =>
    ((List.range M.n).map (fun j =>
      ((M.col j).filter (fun e => e.1 == i)).map (fun e => (j, e.2)))).flatten)
  ofCols M.n M.m cols

end Csc
end Clarabel
