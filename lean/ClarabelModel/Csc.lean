/-
  Model of `src/algebra/csc/core.rs` (compressed-sparse-column matrices).

  Functions keep the Rust names.  Loops are folds over `List.range`; reads that the Rust
  code performs with a panicking index are `getE` (so the model can exhibit the panic).
-/
import ClarabelModel.Scalar

namespace Clarabel

structure Csc (α : Type) where
  m : Nat
  n : Nat
  colptr : Array Nat
  rowval : Array Nat
  nzval : Array α
  deriving Repr, BEq, Inhabited

namespace Csc
variable {α : Type}

/-- Entries `(row, value)` of column `j` as a list (storage order). -/
def col (M : Csc α) (j : Nat) : List (Nat × α) :=
  let lo := M.colptr.getD j 0
  let hi := M.colptr.getD (j + 1) 0
  ((M.rowval.extract lo hi).toList).zip ((M.nzval.extract lo hi).toList)

/-- Row indices of column `j` (storage order). -/
def colRows (M : Csc α) (j : Nat) : List Nat :=
  (M.rowval.extract (M.colptr.getD j 0) (M.colptr.getD (j + 1) 0)).toList

/-- Dense meaning: the sum of all stored entries at `(i,j)` (duplicates add). -/
def toDense [Add α] [OfNat α 0] (M : Csc α) (i j : Nat) : α :=
  ((M.col j).filter (fun e => e.1 == i)).foldl (fun acc e => acc + e.2) 0

def nnz (M : Csc α) : Nat := M.colptr.getD M.n 0

/-- `windows(2).any(|c| bad c[0] c[1])` -/
def anyAdjacent (bad : Nat → Nat → Bool) : List Nat → Bool
  | a :: b :: rest => bad a b || anyAdjacent bad (b :: rest)
  | _ => false

inductive FormatError where
  | incompatibleDimension | badColptr | badRowval | sparsityMismatch
  deriving Repr, BEq, DecidableEq, Inhabited

def FormatError.toString : FormatError → String
  | .incompatibleDimension => "IncompatibleDimension"
  | .badColptr => "BadColptr"
  | .badRowval => "BadRowval"
  | .sparsityMismatch => "SparsityMismatch"

/-- `check_dimensions`.  (Since /repo 190e6c4 the code also rejects `colptr[0] != 0` with
`BadColptr`, right after the dimension tests: an encoding whose first column does not start
at the first stored entry owns entries that belong to no column.) -/
def checkDimensions (M : Csc α) : Except FormatError Unit :=
  if M.rowval.size != M.nzval.size then .error .incompatibleDimension
  else if M.colptr.size == 0 || M.colptr.size - 1 != M.n || M.colptr.getD M.n 0 != M.rowval.size then
    .error .incompatibleDimension
  else if M.colptr.getD 0 0 != 0 then .error .badColptr
  else if anyAdjacent (fun a b => decide (a > b)) M.colptr.toList then .error .badColptr
  else .ok ()

/-- `check_format` -/
def checkFormat (M : Csc α) : Except FormatError Unit :=
  match M.checkDimensions with
  | .error e => .error e
  | .ok () =>
    if (List.range M.n).any (fun j => anyAdjacent (fun a b => decide (a ≥ b)) (M.colRows j)) then
      .error .badRowval
    else if !(M.rowval.toList.all (fun r => decide (r < M.m))) then .error .badRowval
    else .ok ()

/-- Build a matrix from per-column entry lists. -/
def ofCols (m n : Nat) (cols : List (List (Nat × α))) : Csc α :=
  let counts := cols.map List.length
  let colptr := counts.foldl (fun (acc : Array Nat) c => acc.push (acc.back! + c)) #[0]
  let all := cols.flatten
  { m := m, n := n, colptr := colptr,
    rowval := (all.map (·.1)).toArray, nzval := (all.map (·.2)).toArray }

/-- `to_triu`: keeps, per column, the leading `count(row ≤ col)` entries (the Rust code
counts the entries on or above the diagonal and copies that many from the *start* of the
column, which is the upper triangle when rows are sorted). -/
def toTriu (M : Csc α) : MErr (Csc α) :=
  if M.m != M.n then throw (.panic "to_triu: not square") else
  let cols := (List.range M.n).map (fun j =>
    let c := M.col j
    c.take ((c.filter (fun e => decide (e.1 ≤ j))).length))
  pure (ofCols M.m M.n cols)

/-- `is_triu` -/
def isTriu (M : Csc α) : Bool :=
  (List.range M.n).all (fun j => (M.colRows j).all (fun r => decide (r ≤ j)))

/-- number of `true` among the first `i` flags: the reduced row index of row `i` -/
def rankBefore (keep : Array Bool) (i : Nat) : Nat :=
  ((keep.toList.take i).filter id).length

/-- `select_rows` -/
def selectRows (M : Csc α) (keep : Array Bool) : MErr (Csc α) :=
  if keep.size != M.m then throw (.panic "select_rows: dimension") else
  if !(M.rowval.toList.all (fun r => decide (r < M.m))) then throw (.panic "select_rows: row index") else
  let mred := (keep.toList.filter id).length
  let cols := (List.range M.n).map (fun j =>
    ((M.col j).filter (fun e => keep.getD e.1 false)).map (fun e => (rankBefore keep e.1, e.2)))
  pure (ofCols mred M.n cols)

/-- transpose (`From<Adjoint>`): column `i` of the result lists, in increasing `j`, the
entries of row `i`. -/
def transpose (M : Csc α) : Csc α :=
  let cols := (List.range M.m).map (fun i =>
    ((List.range M.n).map (fun j =>
      ((M.col j).filter (fun e => e.1 == i)).map (fun e => (j, e.2)))).flatten)
  ofCols M.n M.m cols


/-! ### Further operations of `core.rs` (added after the exemplar)

Domain of the definitions below (and of `toTriu/selectRows/transpose` above): encodings
that pass `check_dimensions` (which includes `colptr[0] = 0`; "well-dimensioned").  Columns may
be unsorted / contain duplicates / out-of-range rows unless stated otherwise.  The
correspondence generators stay inside this domain (malformed encodings are only sent to
`check_format` and `canonicalize`). -/

/-- all columns as entry lists -/
def cols (M : Csc α) : List (List (Nat × α)) := (List.range M.n).map M.col

/-- `let value = rows[r][c]; if value != T::zero() { push (r, value) }` -/
def fromRowsEntry [BEq α] [OfNat α 0] (c : Nat) (p : Array α × Nat) : Option (Nat × α) :=
  match (p.1[c]? : Option α) with
  | some v => if v != (0 : α) then some (p.2, v) else none
  | none => none

/-- `rows.iter().map(|r| r.len()).next().unwrap_or(0)` -/
def rowsWidth (rows : Array (Array α)) : Nat :=
  match rows[0]? with
  | some r => r.size
  | none => 0

/-- `CscMatrix::from(rows)`; `assert!(rows.iter().all(|r| r.len() == n))` -/
def fromRows [BEq α] [OfNat α 0] (rows : Array (Array α)) : MErr (Csc α) :=
  let m := rows.size
  let n := rowsWidth rows
  if !(rows.toList.all (fun r => r.size == n)) then throw (.panic "from: ragged rows") else
  let cols : List (List (Nat × α)) := (List.range n).map (fun c =>
    rows.toList.zipIdx.filterMap (fromRowsEntry c))
  pure (ofCols m n cols)

/-- stable insertion of `e` into a list sorted by row (before the first entry whose row is
`≥ e.1`; used from the right, so equal rows keep their original order) -/
def insertByRow (e : Nat × α) : List (Nat × α) → List (Nat × α)
  | [] => [e]
  | x :: xs => if e.1 ≤ x.1 then e :: x :: xs else x :: insertByRow e xs

/-- stable sort by row index (`sort_by_key(|(r,_)| r)` / `sortperm_by` are stable) -/
def sortByRow (l : List (Nat × α)) : List (Nat × α) := l.foldr insertByRow []

/-- merge runs of equal row indices, adding the values left to right
(`accum = accum + nzval[ptr]`) -/
def dedupeGo [Add α] (r : Nat) (acc : α) : List (Nat × α) → List (Nat × α)
  | [] => [(r, acc)]
  | e :: rest => if e.1 == r then dedupeGo r (acc + e.2) rest else (r, acc) :: dedupeGo e.1 e.2 rest

def dedupeRows [Add α] : List (Nat × α) → List (Nat × α)
  | [] => []
  | e :: rest => dedupeGo e.1 e.2 rest

/-- `new_from_triplets`.  Follows the code: a triplet with `J = n` is counted into the
spare `colptr[n]` slot and then never read (silently dropped); `J > n` is an index panic;
row indices are not checked. -/
def newFromTriplets [Add α] (m n : Nat) (I J : Array Nat) (V : Array α) : MErr (Csc α) :=
  if I.size != J.size || I.size != V.size then throw (.panic "new_from_triplets: lengths") else
  if J.toList.any (fun c => decide (c > n)) then throw (.panic "new_from_triplets: colptr[c]") else
  let trip := I.toList.zip (J.toList.zip V.toList)
  let cols := (List.range n).map (fun c =>
    dedupeRows (sortByRow ((trip.filter (fun t => t.2.1 == c)).map (fun t => (t.1, t.2.2)))))
  pure (ofCols m n cols)

/-- `spalloc` -/
def spalloc [OfNat α 0] (m n nnz : Nat) : Csc α :=
  { m := m, n := n, colptr := (Array.replicate n 0).push nnz,
    rowval := Array.replicate nnz 0, nzval := Array.replicate nnz 0 }

/-- `zeros` -/
def zeros [OfNat α 0] (m n : Nat) : Csc α := spalloc m n 0

/-- `identity` -/
def identity [OfNat α 1] (n : Nat) : Csc α :=
  { m := n, n := n, colptr := (List.range (n + 1)).toArray, rowval := (List.range n).toArray,
    nzval := Array.replicate n 1 }

/-- `dropzeros` (`val != T::zero()` keeps NaN, drops `-0.0`) -/
def dropzeros [BEq α] [OfNat α 0] (M : Csc α) : Csc α :=
  ofCols M.m M.n (M.cols.map (fun c => c.filter (fun e => e.2 != 0)))

/-- `findnz` -/
def findnz (M : Csc α) : Array Nat × Array Nat × Array α :=
  let J := ((List.range M.n).map (fun c =>
    List.replicate (M.colptr.getD (c + 1) 0 - M.colptr.getD c 0) c)).flatten.toArray
  (M.rowval, J, M.nzval)

/-- `sort_indices` -/
def sortIndices (M : Csc α) : Csc α := ofCols M.m M.n (M.cols.map sortByRow)

/-- `deduplicate` -/
def deduplicate [Add α] (M : Csc α) : Csc α := ofCols M.m M.n (M.cols.map dedupeRows)

/-- `canonicalize` -/
def canonicalize [Add α] (M : Csc α) : Except FormatError (Csc α) :=
  match M.checkDimensions with
  | .error e => .error e
  | .ok () => .ok (M.sortIndices.deduplicate)

/-- `is_equal_sparsity` -/
def isEqualSparsity (A B : Csc α) : Bool :=
  A.m == B.m && A.n == B.n && A.colptr == B.colptr && A.rowval == B.rowval

/-- `check_equal_sparsity` -/
def checkEqualSparsity (A B : Csc α) : Except FormatError Unit :=
  if !(A.m == B.m && A.n == B.n) then .error .incompatibleDimension
  else if A.colptr != B.colptr || A.rowval != B.rowval then .error .sparsityMismatch
  else .ok ()

/-- `get_entry` (binary search; the column must be sorted and duplicate free) -/
def getEntry (M : Csc α) (row col : Nat) : MErr (Option α) :=
  if !(decide (row < M.m) && decide (col < M.n)) then throw (.panic "get_entry: bounds") else
  pure (((M.col col).find? (fun e => e.1 == row)).map (·.2))

/-- `i < len && rows[i] == row` -/
def rowAt (c : List (Nat × α)) (i row : Nat) : Bool :=
  match c[i]? with
  | some e => e.1 == row
  | none => false

/-- `set_entry`: overwrite an existing structural entry, insert a new one in sorted
position unless the value is zero ("no new zeros").  The column must be sorted. -/
def setEntry [BEq α] [OfNat α 0] (M : Csc α) (row col : Nat) (v : α) : MErr (Csc α) :=
  if !(decide (row < M.m) && decide (col < M.n)) then throw (.panic "set_entry: bounds") else
  let c := M.col col
  let i := (c.takeWhile (fun e => decide (e.1 < row))).length
  let found := rowAt c i row
  if found then
    pure (ofCols M.m M.n ((List.range M.n).map (fun j =>
      if j == col then c.take i ++ (row, v) :: c.drop (i + 1) else M.col j)))
  else if v == 0 then pure M
  else
    pure (ofCols M.m M.n ((List.range M.n).map (fun j =>
      if j == col then c.take i ++ (row, v) :: c.drop i else M.col j)))

/-- `index_to_coord` -/
def indexToCoord (M : Csc α) (idx : Nat) : MErr (Nat × Nat) :=
  if !(decide (idx < M.nnz)) then throw (.panic "index_to_coord: bounds") else
  match M.rowval[idx]? with
  | none => throw (.panic "index_to_coord: rowval")
  | some row =>
    let pp := (M.colptr.toList.takeWhile (fun c => decide (idx + 1 > c))).length
    pure (row, pp - 1)

/-! ### Round 3 additions (C16) -/

/-- `CscMatrix::new`: the three `assert_eq!`s of the constructor, in order -/
def new (m n : Nat) (colptr rowval : Array Nat) (nzval : Array α) : MErr (Csc α) :=
  if rowval.size != nzval.size then throw (.panic "new: assert_eq rowval.len nzval.len")
  else if colptr.size != n + 1 then throw (.panic "new: assert_eq colptr.len n+1")
  else match colptr[n]? with
    | none => throw (.panic "new: colptr[n]")
    | some l =>
      if l != rowval.size then throw (.panic "new: assert_eq colptr[n] rowval.len")
      else pure { m := m, n := n, colptr := colptr, rowval := rowval, nzval := nzval }

/-- the derived `PartialEq` of `CscMatrix`: field-wise comparison in declaration order
(`nzval` with the scalar's `==`, so at `f64` a stored NaN makes a matrix unequal to itself
and `0.0 == -0.0`) -/
def isEqual [BEq α] (A B : Csc α) : Bool :=
  A.m == B.m && A.n == B.n && A.colptr == B.colptr && A.rowval == B.rowval && A.nzval == B.nzval

/-- `nnz` with Rust's index panic (`self.colptr[self.n]`) -/
def nnzE (M : Csc α) : MErr Nat := getE M.colptr M.n "nnz: colptr[n]"

/-- `ShapedMatrix::{nrows, ncols, is_square}` -/
def isSquare (M : Csc α) : Bool := M.m == M.n

end Csc
end Clarabel
