import ClarabelProofs.Props.C13
import ClarabelProofs.AuditTool
#audit_namespace Clarabel.C13
