import ClarabelProofs.Props.C20
import ClarabelProofs.AuditTool
#audit_namespace Clarabel.C20
