import ClarabelProofs.Props.C07
import ClarabelProofs.AuditTool
#audit_namespace Clarabel.C07
