import ClarabelProofs.Props.C15
import ClarabelProofs.AuditTool
#audit_namespace Clarabel.C15
