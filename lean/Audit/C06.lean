import ClarabelProofs.Props.C06
import ClarabelProofs.AuditTool
#audit_namespace Clarabel.C06
