import ClarabelProofs.Props.C19
import ClarabelProofs.AuditTool
#audit_namespace Clarabel.C19
