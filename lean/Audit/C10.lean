import ClarabelProofs.Props.C10
import ClarabelProofs.AuditTool
#audit_namespace Clarabel.C10
