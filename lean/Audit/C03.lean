import ClarabelProofs.Props.C03
import ClarabelProofs.AuditTool
#audit_namespace Clarabel.C03
