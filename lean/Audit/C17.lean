import ClarabelProofs.Props.C17
import ClarabelProofs.AuditTool
#audit_namespace Clarabel.C17
