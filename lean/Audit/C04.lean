import ClarabelProofs.Props.C04
import ClarabelProofs.AuditTool
#audit_namespace Clarabel.C04
