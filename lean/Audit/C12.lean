import ClarabelProofs.Props.C12
import ClarabelProofs.AuditTool
#audit_namespace Clarabel.C12
