import ClarabelProofs.Props.C01
import ClarabelProofs.AuditTool
#audit_namespace Clarabel.C01
