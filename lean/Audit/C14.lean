import ClarabelProofs.Props.C14
import ClarabelProofs.AuditTool
#audit_namespace Clarabel.C14
