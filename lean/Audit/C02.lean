import ClarabelProofs.Props.C02
import ClarabelProofs.AuditTool
#audit_namespace Clarabel.C02
