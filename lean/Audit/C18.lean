import ClarabelProofs.Props.C18
import ClarabelProofs.AuditTool
#audit_namespace Clarabel.C18
