import ClarabelProofs.Props.C05
import ClarabelProofs.AuditTool
#audit_namespace Clarabel.C05
