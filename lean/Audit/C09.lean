import ClarabelProofs.Props.C09
import ClarabelProofs.AuditTool
#audit_namespace Clarabel.C09
