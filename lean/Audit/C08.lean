import ClarabelProofs.Props.C08
import ClarabelProofs.AuditTool
#audit_namespace Clarabel.C08
