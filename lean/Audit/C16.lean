import ClarabelProofs.Props.C16
import ClarabelProofs.AuditTool
#audit_namespace Clarabel.C16
