import ClarabelProofs.Props.C11
import ClarabelProofs.AuditTool
#audit_namespace Clarabel.C11
