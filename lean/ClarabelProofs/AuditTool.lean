/-
  `#audit_namespace N` prints, for every theorem whose name starts with `N`, one line
  `AUDIT <name> | <axioms, comma separated>`; `/verif/check` parses these lines, counts the
  obligations and rejects any axiom outside {propext, Classical.choice, Quot.sound}.
-/
import Lean
open Lean Elab Command

elab "#audit_namespace " ns:ident : command => do
  let env ← getEnv
  let nsName := ns.getId
  let mut names : Array Name := #[]
  for (n, ci) in env.constants.toList do
    if nsName.isPrefixOf n && !n.isInternal then
      match ci with
      | .thmInfo _ =>
        let last := match n with
          | .str _ s => s
          | _ => ""
        let auto := last.startsWith "eq_" || last == "injEq" || last == "sizeOf_spec"
          || last == "inj" || last.startsWith "noConfusion" || last.startsWith "match_"
        let isProj := (env.getProjectionFnInfo? n).isSome
        let hasRange := (← liftCoreM (findDeclarationRanges? n)).isSome
        if !auto && !isProj && hasRange then names := names.push n
      | _ => pure ()
  let sorted := names.qsort (fun a b => a.toString < b.toString)
  for n in sorted do
    let axs ← liftCoreM (collectAxioms n)
    let axs := axs.qsort (fun a b => a.toString < b.toString)
    logInfo m!"AUDIT {n} | {", ".intercalate (axs.toList.map toString)}"
