/-
  C03 — the solver's report is truthful, END TO END on the whole-solver model WITH NONSYMMETRIC CONES
  (`ClarabelModel/SolverNS/*.lean`: zero / nonnegative / second-order / exponential / power /
  generalised power cones, the `PrimalDual → Dual` strategy switch, barrier backtracking; tied bit for
  bit to the implementation by the channels `solvens.*`).

  `Props/C03Full2.lean` lifted to that model.  The chain on the user's data (`chain_figures`:
  equilibrate → `Residuals.update` → `Info.update` → `unscale` over ℝ, `UserData` from `InputOK`) is
  SHARED with the first model and reused by import; new are
  * `ns_full_report_figures_of_returned_iterate` [S]: WHOSE figures and vectors the report carries in
    the NS loop — the last pass's, or after the insufficient-progress rollback those of the last pass
    that reached `add_step` (`prev_vars` is then possibly more than one pass old: the strategy
    checkpoints `continue` without `save_prev_iterate`);
  * `τ > 0` of every recorded iterate, PROVED from C07's interior theorems bridged to the model
    (`Lemmas/SolverNSBridge{Step,Init}.lean`).

  A file of its own (imported by `Props/C03.lean`) because of its import chain.
-/
import ClarabelProofs.Lemmas.SolverNSFullCompose
import ClarabelProofs.Lemmas.SolverNSBridgeStep
import ClarabelProofs.Lemmas.SolverNSBridgeInit
import ClarabelProofs.Lemmas.SolverNSFullExample
import ClarabelProofs.Lemmas.SolverNSFullPresolvedCert

namespace Clarabel.C03
open Clarabel Clarabel.InfoUser Clarabel.Dense

section ns
variable {α : Type} [Add α] [Sub α] [Mul α] [Div α] [Neg α] [LT α] [LE α] [DecidableLT α]
  [DecidableLE α] [BEq α] [OfNat α 0] [OfNat α 1] [OfNat α 2] [OfNat α 3] [OfNat α 4] [OfNat α 100]
  [OfNat α 1000] [OfScientific α] [FloatLike α]

/-- **[S] `C03.ns_full_report_figures_of_returned_iterate`** — whose figures the report of a `solve()`
of the model with nonsymmetric cones carries (any scalar type, `Float` included).  There are a record
`l` — the LAST pass's — and a record `p` of THIS solve's trajectory such that (`SolverNS.Returned`):
the returned variables are `unscale p.vars` (normalised by `κ` for an infeasibility status, by `τ`
otherwise); the six figures of the final `info` and `obj_val`, `obj_val_dual`, `r_prim`, `r_dual` of the
solution are the ones `Info.update` assigned to `p.vars` in `p`'s pass (`NaN` objectives exactly for the
infeasibility statuses); `solution.status`, `solution.iterations` are `info`'s; without a presolver row
map the solution vectors are the returned variables; the final status is `Info::post_process` of an
info that is `l.info` up to its status (`check_termination`'s, or a strategy checkpoint's
`NumericalError` / `InsufficientProgress`) and then `p = l` — or, after the insufficient-progress
rollback, `reset_to_prev` of it, and then `p` is the record of the LAST PASS THAT REACHED `add_step`
(`p.smCp = some NoUpdate`): `r.traj = pre ++ p :: post ++ [l]` where `post` has at most ONE record (a
pass that `continue`d after a switch of the scaling strategy, without `save_prev_iterate`) and no pass
of `post` reached `add_step`.  So in the NS loop the restored iterate may be the last but TWO. -/
theorem ns_full_report_figures_of_returned_iterate {S : SolverNS.Solver α} {st : SolverNS.Settings α}
    {r : SolverNS.SolveResult α} (h : S.solve st = .ok r) :
    ∃ p l, SolverNS.Returned st S r p l :=
  SolverNS.solve_returnedN h

/-- **[S] `C03.ns_full_status_truthful`** — the reported status of the model with nonsymmetric cones:
`Solved` / `PrimalInfeasible` / `DualInfeasible` are reported only when `check_convergence_full` said so
on the figures of the LAST recorded iterate, which is then the one returned; `AlmostSolved` only when
the REDUCED `is_solved` test holds on the figures of the returned iterate `p` (also after a rollback);
`solution.status = info.status`, `solution.iterations = info.iterations`. -/
theorem ns_full_status_truthful {S : SolverNS.Solver α} {st : SolverNS.Settings α}
    {r : SolverNS.SolveResult α} (h : S.solve st = .ok r) :
    ∃ p l, SolverNS.Returned st S r p l
      ∧ r.S.solution.status = r.S.st.info.status ∧ r.S.solution.iterations = r.S.st.info.iterations
      ∧ (∀ X, X = .solved ∨ X = .primalInfeasible ∨ X = .dualInfeasible → r.S.solution.status = X →
            p = l ∧ (Info.checkConvergenceFull l.info l.dotBz l.dotQx st.info).status = X)
      ∧ (r.S.solution.status = .almostSolved →
            (p.info.gap_abs < st.info.reduced.gap_abs ∨ p.info.gap_rel < st.info.reduced.gap_rel)
              ∧ p.info.res_primal < st.info.reduced.feas ∧ p.info.res_dual < st.info.reduced.feas) := by
  obtain ⟨p, l, hR⟩ := SolverNS.solve_returnedN h
  refine ⟨p, l, hR, hR.status, hR.iterations, fun X hX hs => ?_, fun hs => ?_⟩
  · obtain ⟨a, b, -⟩ := hR.full_verdict hX hs
    exact ⟨a, b⟩
  · obtain ⟨a, b, c, -⟩ := hR.almost_solved_verdict hs
    exact ⟨a, b, c⟩

end ns

/-- **[R] `C03.ns_full_report_on_user_data`** — the report of the whole solver with nonsymmetric cones
on the USER's data.

Let `DefaultSolver::new(P, q, A, b, cones, settings)` succeed on well-formed input (`InputOK`;
`ValidCones`: power cone `0 < α < 1`, generalised power cone `αᵢ > 0`, `Σ αᵢ = 1`) with zero /
nonnegative / second-order / exponential / power / generalised power cones, presolve off — or on
without dropping a row —, positive equilibration bounds, `0 < max_step_fraction < 1`,
`T::max_value() > 0`, `0 ≤ linesearch_backtrack_step ≤ 1`; let `solve()` return with a status that is not
an infeasibility status (`Solved`, `AlmostSolved`, `MaxIterations`, `MaxTime`, `NumericalError`,
`InsufficientProgress`).  Then for the RETURNED `x, s, z` and the user's data (`P` = the symmetric
matrix whose triangle `P.to_triu()` holds, `b` capped at the infinity bound), in exact arithmetic:
`obj_val = ½xᵀPx + qᵀx`, `obj_val_dual = −bᵀz − ½xᵀPx`,
`r_prim = ‖Ax+s−b‖₂ / max(1, ‖b‖∞+‖x‖₂+‖s‖₂)`, `r_dual = ‖Px+Aᵀz+q‖₂ / max(1, ‖q‖∞+‖x‖₂+‖z‖₂)`,
`info.gap_abs = |obj_val − obj_val_dual|`, `info.gap_rel = gap_abs / max(1, min(|obj_val|,
|obj_val_dual|))`, and `|x| = n`, `|s| = |z| = m`.  Also after an insufficient-progress rollback and
after strategy switches (the figures and the point are then those of the restored iterate, see
`ns_full_report_figures_of_returned_iterate`).  `τ > 0` of the reported iterate is proved, not assumed. -/
theorem ns_full_report_on_user_data {P : Csc ℝ} {q : Array ℝ} {A : Csc ℝ} {b : Array ℝ}
    {cones : List (ConeT ℝ)} {st : SolverNS.Settings ℝ} {perm : Array Nat} {S : SolverNS.Solver ℝ}
    {r : SolverNS.SolveResult ℝ}
    (hin : Solver.InputOK P q A b cones) (hvc : Equil.ValidCones cones)
    (hpre : st.presolveEnable = false ∨ ∃ keep,
      Presolve.keepFlags (Presolve.threshold st.infbound) (Cones.newCollapsed cones) b.toList = .ok keep
        ∧ keep.count true = b.size)
    (hlo : 0 < st.equil.minScaling) (hhi : 0 < st.equil.maxScaling)
    (hf0 : 0 < st.maxStepFraction) (hf1 : st.maxStepFraction < 1) (hmv : 0 < st.maxValue)
    (hb0 : 0 ≤ st.linesearchBacktrackStep) (hb1 : st.linesearchBacktrackStep ≤ 1)
    (hnew : SolverNS.Solver.new P q A b cones st perm = .ok S) (hr : S.solve st = .ok r)
    (hst : r.S.solution.status.isInfeasible = false) :
    ∃ Pn, ProblemData.triuStep P = .ok Pn ∧
      let bc := ProblemData.capB b st.infbound
      let p := problemOf Pn q A bc A.n A.m
      let x := vecFn r.S.solution.x A.n
      let sv := vecFn r.S.solution.s A.m
      let z := vecFn r.S.solution.z A.m
      let pobj := dot x (mulV p.P x) / 2 + dot p.q x
      let dobj := -dot p.b z - dot x (mulV p.P x) / 2
      r.S.solution.obj_val = some pobj
      ∧ r.S.solution.obj_val_dual = some dobj
      ∧ r.S.solution.r_prim
          = some (nrm (fun k => mulV p.A x k + sv k - p.b k) / max 1 (Vec.normInf bc + nrm x + nrm sv))
      ∧ r.S.solution.r_dual
          = some (nrm (fun j => mulV p.P x j + mulVT p.A z j + p.q j) / max 1 (Vec.normInf q + nrm x + nrm z))
      ∧ r.S.st.info.gap_abs = |pobj - dobj|
      ∧ r.S.st.info.gap_rel = |pobj - dobj| / max 1 (min |pobj| |dobj|)
      ∧ r.S.solution.x.size = A.n ∧ r.S.solution.s.size = A.m ∧ r.S.solution.z.size = A.m :=
  SolverNS.full_report_chainN (SolverNS.interiorN_stepHyp st hf0 hf1 hmv hb0 hb1)
    (fun S0 hS hv => SolverNS.interiorN_initHyp st S0 hS hv) (fun _ _ h => h.pos.1)
    ⟨hin, hvc, hpre, hlo, hhi⟩ hnew hr hst

/-- **[R] `C03.ns_full_report_truthful`** — the whole report, every terminal status.  Under the
hypotheses of `ns_full_report_on_user_data` (without the restriction on the status):
`solution.status = info.status`, `solution.iterations = info.iterations`; `|x| = n`, `|s| = |z| = m`;
`obj_val` and `obj_val_dual` are `NaN` (`none`) exactly for the infeasibility statuses; and for every
other status the four reported figures and the two gaps are the documented expressions of the returned
`x, s, z` on the user's data. -/
theorem ns_full_report_truthful {P : Csc ℝ} {q : Array ℝ} {A : Csc ℝ} {b : Array ℝ}
    {cones : List (ConeT ℝ)} {st : SolverNS.Settings ℝ} {perm : Array Nat} {S : SolverNS.Solver ℝ}
    {r : SolverNS.SolveResult ℝ}
    (hin : Solver.InputOK P q A b cones) (hvc : Equil.ValidCones cones)
    (hpre : st.presolveEnable = false ∨ ∃ keep,
      Presolve.keepFlags (Presolve.threshold st.infbound) (Cones.newCollapsed cones) b.toList = .ok keep
        ∧ keep.count true = b.size)
    (hlo : 0 < st.equil.minScaling) (hhi : 0 < st.equil.maxScaling)
    (hf0 : 0 < st.maxStepFraction) (hf1 : st.maxStepFraction < 1) (hmv : 0 < st.maxValue)
    (hb0 : 0 ≤ st.linesearchBacktrackStep) (hb1 : st.linesearchBacktrackStep ≤ 1)
    (hnew : SolverNS.Solver.new P q A b cones st perm = .ok S) (hr : S.solve st = .ok r) :
    r.S.solution.status = r.S.st.info.status ∧ r.S.solution.iterations = r.S.st.info.iterations
    ∧ (r.S.solution.x.size = A.n ∧ r.S.solution.s.size = A.m ∧ r.S.solution.z.size = A.m)
    ∧ (r.S.solution.status.isInfeasible = true →
        r.S.solution.obj_val = none ∧ r.S.solution.obj_val_dual = none)
    ∧ (r.S.solution.status.isInfeasible = false →
        ∃ Pn, ProblemData.triuStep P = .ok Pn ∧
          let bc := ProblemData.capB b st.infbound
          let p := problemOf Pn q A bc A.n A.m
          let x := vecFn r.S.solution.x A.n
          let sv := vecFn r.S.solution.s A.m
          let z := vecFn r.S.solution.z A.m
          let pobj := dot x (mulV p.P x) / 2 + dot p.q x
          let dobj := -dot p.b z - dot x (mulV p.P x) / 2
          r.S.solution.obj_val = some pobj
          ∧ r.S.solution.obj_val_dual = some dobj
          ∧ r.S.solution.r_prim
              = some (nrm (fun k => mulV p.A x k + sv k - p.b k) / max 1 (Vec.normInf bc + nrm x + nrm sv))
          ∧ r.S.solution.r_dual
              = some (nrm (fun j => mulV p.P x j + mulVT p.A z j + p.q j)
                  / max 1 (Vec.normInf q + nrm x + nrm z))
          ∧ r.S.st.info.gap_abs = |pobj - dobj|
          ∧ r.S.st.info.gap_rel = |pobj - dobj| / max 1 (min |pobj| |dobj|)) := by
  obtain ⟨p, l, hR⟩ := SolverNS.solve_returnedN hr
  obtain ⟨-, -, -, -, -, -, hx, hs, hz⟩ := SolverNS.solve_inv hr
  have hsol := SolverNS.new_solution_sizes hnew
  refine ⟨hR.status, hR.iterations, ⟨?_, ?_, ?_⟩, fun hi => ?_, fun hi => ?_⟩
  · rw [hx, hsol]; simp [Unscale.Solution.new]
  · rw [hs, hsol]; simp [Unscale.Solution.new]
  · rw [hz, hsol]; simp [Unscale.Solution.new]
  · have hi' : r.S.st.info.status.isInfeasible = true := by rw [← hR.status]; exact hi
    have o1 := hR.objv
    have o2 := hR.objd
    rw [hi'] at o1 o2
    exact ⟨o1, o2⟩
  · obtain ⟨Pn, hPn, h1, h2, h3, h4, h5, h6, -, -, -⟩ :=
      ns_full_report_on_user_data hin hvc hpre hlo hhi hf0 hf1 hmv hb0 hb1 hnew hr hi
    exact ⟨Pn, hPn, h1, h2, h3, h4, h5, h6⟩

/-! ### non-vacuity -/

section nsExamples
open Clarabel.SolverNS

/-- the input hypotheses hold on a real-valued instance WITH an exponential cone AND a power cone
(`cones = [nonneg 1, exp, pow ½]`, 7 rows, one variable) and the `DefaultSettings` defaults -/
example : Solver.InputOK FullExample.P FullExample.q FullExample.A FullExample.b FullExample.cones :=
  FullExample.inputOK
example : Equil.ValidCones FullExample.cones := FullExample.validCones
example : FullExample.stR.presolveEnable = false ∧ 0 < FullExample.stR.equil.minScaling
    ∧ 0 < FullExample.stR.equil.maxScaling ∧ 0 < FullExample.stR.maxStepFraction
    ∧ FullExample.stR.maxStepFraction < 1 ∧ 0 < FullExample.stR.maxValue
    ∧ 0 ≤ FullExample.stR.linesearchBacktrackStep ∧ FullExample.stR.linesearchBacktrackStep ≤ 1 :=
  FullExample.stR_ok

/-- `ns_full_report_on_user_data` / `ns_full_report_truthful` applied to that instance: every
hypothesis about the input and the settings is discharged; what remains are the run hypotheses -/
example {perm : Array Nat} {S : Solver ℝ} {r : SolveResult ℝ}
    (hnew : Solver.new FullExample.P FullExample.q FullExample.A FullExample.b FullExample.cones
      FullExample.stR perm = .ok S)
    (hr : S.solve FullExample.stR = .ok r) :
    r.S.solution.x.size = 1 ∧ r.S.solution.s.size = 7 ∧ r.S.solution.z.size = 7 := by
  obtain ⟨h0, h1, h2, h3, h4, h5, h6, h7⟩ := FullExample.stR_ok
  exact (ns_full_report_truthful FullExample.inputOK FullExample.validCones (Or.inl h0) h1 h2 h3 h4 h5
    h6 h7 hnew hr).2.2.1
example {perm : Array Nat} {S : Solver ℝ} {r : SolveResult ℝ}
    (hnew : Solver.new FullExample.P FullExample.q FullExample.A FullExample.b FullExample.cones
      FullExample.stR perm = .ok S)
    (hr : S.solve FullExample.stR = .ok r) (hst : r.S.solution.status.isInfeasible = false) :
    r.S.solution.obj_val.isSome = true := by
  obtain ⟨h0, h1, h2, h3, h4, h5, h6, h7⟩ := FullExample.stR_ok
  obtain ⟨_, _, a, _⟩ := ns_full_report_on_user_data FullExample.inputOK FullExample.validCones
    (Or.inl h0) h1 h2 h3 h4 h5 h6 h7 hnew hr hst
  rw [a]; rfl

section
open Clarabel.SolverNS.Example
attribute [local instance] intFloatLike intSci
/-- the run hypotheses (`new` succeeds, `solve()` returns, a non-infeasibility status) hold on an
instance with an EXPONENTIAL cone at integer data, evaluated by the kernel; and the structural theorems
apply to those runs -/
example : ∃ S r, FullExample.newSolverT #[1, 1, 1, 1] (FullExample.stT FullExample.tolsBig tols 3) = .ok S
    ∧ S.solve (FullExample.stT FullExample.tolsBig tols 3) = .ok r
    ∧ r.S.solution.status.isInfeasible = false := by
  obtain ⟨S, r, h1, h2, h3⟩ := FullExample.solved_hyps
  exact ⟨S, r, h1, h2, by rw [h3]; rfl⟩
example : ∃ S r p l, newSolver 3 = .ok S ∧ S.solve (Example.st 3) = .ok r
    ∧ r.S.solution.status = .insufficientProgress ∧ Returned (Example.st 3) S r p l := by
  obtain ⟨S, r, h1, h2, h3⟩ := FullExample.insufficientProgress_hyps
  obtain ⟨p, l, hR⟩ := ns_full_report_figures_of_returned_iterate h2
  exact ⟨S, r, p, l, h1, h2, h3, hR⟩
example : ∃ S r, FullExample.newSolverT #[1, 1, 1, 1] (FullExample.stT tols FullExample.tolsBig 0) = .ok S
    ∧ S.solve (FullExample.stT tols FullExample.tolsBig 0) = .ok r
    ∧ r.S.solution.status = .almostSolved ∧ r.S.solution.status = r.S.st.info.status := by
  obtain ⟨S, r, h1, h2, h3⟩ := FullExample.almostSolved_hyps
  obtain ⟨p, l, -, h4, -⟩ := ns_full_status_truthful h2
  exact ⟨S, r, h1, h2, h3, h4⟩
end

end nsExamples


/-! ### presolve DROPS rows (model with nonsymmetric cones) -/

/-- **[R] `C03.ns_full_report_on_user_data_presolved`** — `ns_full_report_on_user_data` when PRESOLVE
DROPS ROWS.  Presolve enabled, `keep` the keep vector of `make_reduction_map` on the collapsed cone list,
at least one row dropped; `new` succeeds (zero / nonnegative / second-order / exponential / power /
generalised power cones, admissible parameters) and `solve()` returns a non-infeasibility status.  Then,
for the full-length `x, s, z` the user receives (`reverse_presolve`) and the user's FULL `P`
(`P.to_triu()`), `q`, `A`, `b` (capped): `obj_val = ½xᵀPx + qᵀx`, `obj_val_dual = −bᵀz − ½xᵀPx` (dropped
rows have `z = 0`), `r_dual = ‖Px+Aᵀz+q‖₂ / max(1, ‖q‖∞+‖x‖₂+‖z‖₂)` verbatim, and
`r_prim = ‖Ax+s−b‖ / max(1, normb+‖x‖₂+‖s‖)` with the residual norm and `‖s‖` taken over the KEPT rows
(`nrmKept`) and `normb = ‖b[keep]‖∞` (capped) — the dropped rows carry `(s, z) = (infbound, 0)`.
Composition of `C09.ns_presolve_transparent_full`, `ns_full_report_on_user_data` on the hand-reduced
problem, and the arithmetic of `C03.report_on_user_data_presolved`. -/
theorem ns_full_report_on_user_data_presolved {P : Csc ℝ} {q : Array ℝ} {A : Csc ℝ} {b : Array ℝ}
    {cones : List (ConeT ℝ)} {st : SolverNS.Settings ℝ} {perm : Array Nat} {S : SolverNS.Solver ℝ}
    {r : SolverNS.SolveResult ℝ} {keep : List Bool}
    (hin : Solver.InputOK P q A b cones) (hvc : Equil.ValidCones cones)
    (hpe : st.presolveEnable = true)
    (hk : Presolve.keepFlags (Presolve.threshold st.infbound) (Cones.newCollapsed cones) b.toList = .ok keep)
    (hc : keep.count true < b.size)
    (hlo : 0 < st.equil.minScaling) (hhi : 0 < st.equil.maxScaling)
    (hf0 : 0 < st.maxStepFraction) (hf1 : st.maxStepFraction < 1) (hmv : 0 < st.maxValue)
    (hb0 : 0 ≤ st.linesearchBacktrackStep) (hb1 : st.linesearchBacktrackStep ≤ 1)
    (hnew : SolverNS.Solver.new P q A b cones st perm = .ok S) (hr : S.solve st = .ok r)
    (hst : r.S.solution.status.isInfeasible = false) :
    ∃ Pn, ProblemData.triuStep P = .ok Pn ∧
      let n := A.n
      let m := A.m
      let bc := ProblemData.capB b st.infbound
      let Pd := symFn Pn n
      let qd := vecFn q n
      let x := vecFn r.S.solution.x n
      let s := vecFn r.S.solution.s m
      let z := vecFn r.S.solution.z m
      let kp := InfoPresolve.keepFn keep m
      let normb := Vec.normInf (ProblemData.capB (Vec.select b keep.toArray) st.infbound)
      let pobj := dot x (mulV Pd x) / 2 + dot qd x
      let dobj := -dot (vecFn bc m) z - dot x (mulV Pd x) / 2
      r.S.solution.obj_val = some pobj
      ∧ r.S.solution.obj_val_dual = some dobj
      ∧ r.S.solution.r_prim = some (InfoPresolve.nrmKept kp (fun i => mulV (matFn A m n) x i + s i - vecFn bc m i)
            / max 1 (normb + nrm x + InfoPresolve.nrmKept kp s))
      ∧ r.S.solution.r_dual = some (nrm (fun j => mulV Pd x j + mulVT (matFn A m n) z j + qd j)
            / max 1 (Vec.normInf q + nrm x + nrm z))
      ∧ (∀ i, kp i = false → s i = st.infbound ∧ z i = 0) :=
  SolverNS.full_report_presolved_chainN hin hvc hpe hk hc hlo hhi hf0 hf1 hmv hb0 hb1 hnew hr hst

/-- non-vacuity of the presolve hypotheses (over `ℝ`, the instance of the first model's `…_presolved`
theorems: cones `[nonneg 2]`, `b = (1, 2·10²⁰)`, bound `10²⁰` — `make_reduction_map` drops row 1; the
cone parameters are admissible); the run hypotheses on an instance with an EXPONENTIAL cone and a dropped
row: `C09.ns_presolve_transparent_full`'s example (`new` evaluated by the kernel) -/
example : Presolve.keepFlags (Presolve.threshold (1e20 : ℝ)) (Cones.newCollapsed [ConeT.nonneg 2])
      (#[1, 2e20] : Array ℝ).toList = .ok [true, false]
    ∧ [true, false].count true < (#[1, 2e20] : Array ℝ).size ∧ (0 : ℝ) ≤ 1e20
    ∧ Equil.ValidCones [ConeT.nonneg (α := ℝ) 2] :=
  ⟨Solver.keepFlags_example, by decide, by norm_num, fun c hc => by
    rcases List.mem_singleton.mp hc with rfl; trivial⟩

end Clarabel.C03
