/-
  C05 — weak duality with residual slack for ALL seven cone kinds: pairing nonnegativity
  `⟨s,z⟩ ≥ 0` (`s ∈ K`, `z ∈ K*`) for the power, generalised power, closed exponential and
  PSD-triangle cones, for arbitrary cone lists, and the resulting weak-duality theorems with
  no cone hypothesis left.  Property theorems only (helpers: `Lemmas/DualityPow.lean`,
  `DualityGenPow.lean`, `DualityExp.lean`, `DualityPsd.lean`, `DualityAllCones.lean`,
  `DualityAllConesExample.lean`).  Imported by `Props/C05.lean`.
-/
import ClarabelProofs.Lemmas.DualityAllCones
import ClarabelProofs.Lemmas.DualityAllConesExample
import Mathlib.LinearAlgebra.Matrix.Notation
import Mathlib.Tactic.NormNum
import Mathlib.Tactic.FinCases

namespace Clarabel.C05
open Clarabel Clarabel.Lemmas Matrix

/-! ## power cone -/

/-- [R] **Power cone pairing.**  For `(x,y,z)` in the closed power cone
`K_a = {x^a·y^(1−a) ≥ |z|, x,y ≥ 0}` of `powcone.rs` and `(u,v,w)` in its dual
`K_a* = {(u/a)^a·(v/(1−a))^(1−a) ≥ |w|, u,v ≥ 0}`, `0 < a < 1`: `⟨s,z⟩ ≥ 0` (weighted AM–GM;
all of the closed cones, boundary included). -/
theorem pow_cone_pairing_nonneg (a x y z u v w : ℝ) (ha0 : 0 < a) (ha1 : a < 1) (hx : 0 ≤ x)
    (hy : 0 ≤ y) (hs : |z| ≤ x ^ a * y ^ (1 - a)) (hu : 0 ≤ u) (hv : 0 ≤ v)
    (hd : |w| ≤ (u / a) ^ a * (v / (1 - a)) ^ (1 - a)) : 0 ≤ x * u + y * v + z * w :=
  pow_pair_nonneg ha0 ha1 ⟨hx, hy, hs⟩ ⟨hu, hv, hd⟩

/-- non-vacuity: `a = ½`, `(1,1,−½) ∈ K_a`, `(½,½,1) ∈ K_a*` (on the boundary of the dual) -/
example : (0 : ℝ) ≤ 1 * (1 / 2) + 1 * (1 / 2) + (-1 / 2) * 1 := by
  refine pow_cone_pairing_nonneg (1 / 2) 1 1 (-1 / 2) (1 / 2) (1 / 2) 1 (by norm_num)
    (by norm_num) (by norm_num) (by norm_num) ?_ (by norm_num) (by norm_num) ?_
  · rw [Real.one_rpow, Real.one_rpow, abs_le]; constructor <;> norm_num
  · rw [show ((1 : ℝ) / 2 / (1 / 2)) = 1 by norm_num,
      show ((1 : ℝ) / 2 / (1 - 1 / 2)) = 1 by norm_num, Real.one_rpow, Real.one_rpow]
    norm_num

/-! ## generalised power cone -/

/-- [R] **Generalised power cone pairing, all dimensions.**  For `(u,w)` in the closed
generalised power cone `{∏ uᵢ^{aᵢ} ≥ ‖w‖₂, u ≥ 0}` of `genpowcone.rs` (`aᵢ > 0`, `Σ aᵢ = 1`,
`u ∈ ℝᵏ`, `w ∈ ℝᵈ`) and `(v,y)` in its dual `{∏ (vᵢ/aᵢ)^{aᵢ} ≥ ‖y‖₂, v ≥ 0}`:
`u·v + w·y ≥ 0` (weighted AM–GM + Cauchy–Schwarz).  Membership in squared-norm form
`Σ wⱼ² ≤ (∏ uᵢ^{aᵢ})²` (no square root; the product is `≥ 0`). -/
theorem genpow_cone_pairing_nonneg {k d : ℕ} (a u v : Fin k → ℝ) (w y : Fin d → ℝ)
    (ha : ∀ i, 0 < a i) (hsum : ∑ i, a i = 1) (hu : ∀ i, 0 ≤ u i) (hv : ∀ i, 0 ≤ v i)
    (hw : ∑ j, w j ^ 2 ≤ (∏ i, u i ^ a i) ^ 2)
    (hy : ∑ j, y j ^ 2 ≤ (∏ i, (v i / a i) ^ a i) ^ 2) : 0 ≤ u ⬝ᵥ v + w ⬝ᵥ y :=
  genpow_pair_nonneg Finset.univ Finset.univ a u v w y (fun i _ => ha i) hsum (fun i _ => hu i)
    (fun i _ => hv i) hw hy

/-- [R] the same with the Euclidean norm written as a square root -/
theorem genpow_cone_pairing_nonneg_norm {k d : ℕ} (a u v : Fin k → ℝ) (w y : Fin d → ℝ)
    (ha : ∀ i, 0 < a i) (hsum : ∑ i, a i = 1) (hu : ∀ i, 0 ≤ u i) (hv : ∀ i, 0 ≤ v i)
    (hw : Real.sqrt (∑ j, w j ^ 2) ≤ ∏ i, u i ^ a i)
    (hy : Real.sqrt (∑ j, y j ^ 2) ≤ ∏ i, (v i / a i) ^ a i) : 0 ≤ u ⬝ᵥ v + w ⬝ᵥ y :=
  genpow_pair_nonneg_sqrt Finset.univ Finset.univ a u v w y (fun i _ => ha i) hsum
    (fun i _ => hu i) (fun i _ => hv i) hw hy

/-- non-vacuity (both forms): `a = (½,¼,¼)`, `(u;w) = (1,1,1; ½,½)`, `(v;y) = (½,¼,¼; −½,½)` -/
example :
    (0 : ℝ) ≤ (![1, 1, 1] : Fin 3 → ℝ) ⬝ᵥ ![1 / 2, 1 / 4, 1 / 4]
        + (![1 / 2, 1 / 2] : Fin 2 → ℝ) ⬝ᵥ ![-1 / 2, 1 / 2]
    ∧ (0 : ℝ) ≤ (![1, 1, 1] : Fin 3 → ℝ) ⬝ᵥ ![1 / 2, 1 / 4, 1 / 4]
        + (![1 / 2, 1 / 2] : Fin 2 → ℝ) ⬝ᵥ ![-1 / 2, 1 / 2] := by
  have ha : ∀ i : Fin 3, (0 : ℝ) < (![1 / 2, 1 / 4, 1 / 4] : Fin 3 → ℝ) i := by
    intro i; fin_cases i <;> simp
  have hsum : ∑ i : Fin 3, (![1 / 2, 1 / 4, 1 / 4] : Fin 3 → ℝ) i = 1 := by
    simp [Fin.sum_univ_succ]; norm_num
  have hu : ∀ i : Fin 3, (0 : ℝ) ≤ (![1, 1, 1] : Fin 3 → ℝ) i := by
    intro i; fin_cases i <;> simp
  have hv : ∀ i : Fin 3, (0 : ℝ) ≤ (![1 / 2, 1 / 4, 1 / 4] : Fin 3 → ℝ) i := fun i => (ha i).le
  have hP : ∏ i : Fin 3, (![1, 1, 1] : Fin 3 → ℝ) i ^ (![1 / 2, 1 / 4, 1 / 4] : Fin 3 → ℝ) i
      = 1 := by
    simp [Fin.prod_univ_succ, Real.one_rpow]
  have hQ : ∏ i : Fin 3, ((![1 / 2, 1 / 4, 1 / 4] : Fin 3 → ℝ) i
      / (![1 / 2, 1 / 4, 1 / 4] : Fin 3 → ℝ) i) ^ (![1 / 2, 1 / 4, 1 / 4] : Fin 3 → ℝ) i
      = 1 := by
    apply Finset.prod_eq_one
    intro i _
    rw [div_self (ha i).ne', Real.one_rpow]
  have hw : ∑ j : Fin 2, (![1 / 2, 1 / 2] : Fin 2 → ℝ) j ^ 2 = 1 / 2 := by
    simp [Fin.sum_univ_succ]; norm_num
  have hy : ∑ j : Fin 2, (![-1 / 2, 1 / 2] : Fin 2 → ℝ) j ^ 2 = 1 / 2 := by
    simp [Fin.sum_univ_succ]; norm_num
  constructor
  · exact genpow_cone_pairing_nonneg _ _ _ _ _ ha hsum hu hv (by rw [hw, hP]; norm_num)
      (by rw [hy, hQ]; norm_num)
  · refine genpow_cone_pairing_nonneg_norm _ _ _ _ _ ha hsum hu hv ?_ ?_
    · rw [hw, hP]; exact Real.sqrt_le_iff.mpr ⟨by norm_num, by norm_num⟩
    · rw [hy, hQ]; exact Real.sqrt_le_iff.mpr ⟨by norm_num, by norm_num⟩

/-! ## positive semidefinite cone -/

section psd
variable {α : Type} [Field α] [LinearOrder α] [IsStrictOrderedRing α]

/-- [F] **PSD cone pairing, matrix form.**  For symmetric `S`, `Z` with nonnegative quadratic
forms, `⟨S,Z⟩ = tr(S Z) ≥ 0` — over every linearly ordered field (elementary proof by
Schur-complement elimination, no spectral theorem). -/
theorem psd_cone_pairing_nonneg {n : ℕ} (S Z : Matrix (Fin n) (Fin n) α) (hS : Sᵀ = S)
    (hZ : Zᵀ = Z) (hSq : ∀ x : Fin n → α, 0 ≤ x ⬝ᵥ S *ᵥ x)
    (hZq : ∀ x : Fin n → α, 0 ≤ x ⬝ᵥ Z *ᵥ x) : 0 ≤ (S * Z).trace :=
  psd_trace_mul_nonneg S Z hS hZ hSq hZq

end psd

/-- non-vacuity: `S = [[2,1],[1,2]]`, `Z = [[1,−1],[−1,1]]` (singular) over `ℚ` -/
example : (0 : ℚ) ≤ ((!![2, 1; 1, 2] : Matrix (Fin 2) (Fin 2) ℚ) * !![1, -1; -1, 1]).trace := by
  refine psd_cone_pairing_nonneg _ _ ?_ ?_ ?_ ?_
  · ext i j; fin_cases i <;> fin_cases j <;> rfl
  · ext i j; fin_cases i <;> fin_cases j <;> rfl
  · intro x
    simp only [dotProduct, Matrix.mulVec, Fin.sum_univ_two, Matrix.of_apply, Matrix.cons_val',
      Matrix.cons_val_zero, Matrix.cons_val_one, Matrix.cons_val_fin_one]
    nlinarith [sq_nonneg (x 0 + x 1), sq_nonneg (x 0), sq_nonneg (x 1)]
  · intro x
    simp only [dotProduct, Matrix.mulVec, Fin.sum_univ_two, Matrix.of_apply, Matrix.cons_val',
      Matrix.cons_val_zero, Matrix.cons_val_one, Matrix.cons_val_fin_one]
    nlinarith [sq_nonneg (x 0 - x 1)]

/-- [R] **PSD cone pairing on the stored vectors.**  `x`, `y` are svecs of order `n` (scaled
packed upper triangles of length `n(n+1)/2`, off-diagonals times `√2`, as
`psdtrianglecone.rs` stores them) whose matrices `svec_to_mat x`, `svec_to_mat y` have
nonnegative quadratic forms (`qfN n M v = Σ_{i,j<n} vᵢMᵢⱼvⱼ`): then `Vec.dot x y ≥ 0`
(`Vec.dot` = the model of the solver's `dot`). -/
theorem psd_svec_pairing_nonneg (n : ℕ) (x y : Array ℝ) (hx : x.size = PsdIndex.triangularNumber n)
    (hy : y.size = PsdIndex.triangularNumber n) (hX : ∀ v : ℕ → ℝ, 0 ≤ qfN n (PsdTri.svecToMat x) v)
    (hY : ∀ v : ℕ → ℝ, 0 ≤ qfN n (PsdTri.svecToMat y) v) : 0 ≤ Vec.dot x y :=
  psd_svec_pair_nonneg n x y hx hy hX hY

/-- non-vacuity: the svecs `(1,1,1)` and `(1,−1,1)` of `[[1, ±1/√2],[±1/√2, 1]] ⪰ 0` -/
example : 0 ≤ Vec.dot (#[1, 1, 1] : Array ℝ) #[1, -1, 1] :=
  psd_svec_pairing_nonneg 2 _ _ rfl rfl (ex_psd2 1 (by norm_num)) (ex_psd2 (-1) (by norm_num))

/-! ## closed exponential cone -/

/-- [R] **Exponential cone pairing, closed cones.**  For `(x,y,z)` in the closed exponential
cone `{y > 0, y·exp(x/y) ≤ z} ∪ {x ≤ 0, y = 0, z ≥ 0}` and `(u,v,w)` in its dual
`{u < 0, −u·exp(v/u) ≤ e·w} ∪ {u = 0, v ≥ 0, w ≥ 0}`: `⟨s,z⟩ ≥ 0` (all four combinations of
interior and boundary pieces; extends `exp_cone_pairing_nonneg`). -/
theorem exp_cone_pairing_nonneg_closed (x y z u v w : ℝ)
    (hs : (0 < y ∧ y * Real.exp (x / y) ≤ z) ∨ (x ≤ 0 ∧ y = 0 ∧ 0 ≤ z))
    (hz : (u < 0 ∧ -u * Real.exp (v / u) ≤ Real.exp 1 * w) ∨ (u = 0 ∧ 0 ≤ v ∧ 0 ≤ w)) :
    0 ≤ x * u + y * v + z * w :=
  exp_pair_nonneg_closed (x := x) (y := y) (z := z) (u := u) (v := v) (w := w) hs hz

/-- non-vacuity: a primal boundary point `(−1,0,2)` against a dual interior point `(−1,3,1)`,
and a primal interior point `(0,1,1)` against a dual boundary point `(0,2,3)` -/
example : (0 : ℝ) ≤ (-1) * (-1) + 0 * 3 + 2 * 1 ∧ (0 : ℝ) ≤ 0 * 0 + 1 * 2 + 1 * 3 := by
  constructor
  · refine exp_cone_pairing_nonneg_closed (-1) 0 2 (-1) 3 1
      (Or.inr ⟨by norm_num, rfl, by norm_num⟩) (Or.inl ⟨by norm_num, ?_⟩)
    have h : Real.exp (3 / -1) ≤ Real.exp 1 := Real.exp_le_exp.mpr (by norm_num)
    linarith
  · exact exp_cone_pairing_nonneg_closed 0 1 1 0 2 3 (Or.inl ⟨by norm_num, by simp⟩)
      (Or.inr ⟨rfl, by norm_num, by norm_num⟩)

/-! ## arbitrary lists of cones of all seven kinds -/

/-- [R] **`s ∈ K`, `z ∈ K*` ⟹ `⟨s,z⟩ ≥ 0` for every cone list.**  `K = K₁ × … × K_p` with each
`Kᵢ` a zero, nonnegative, second-order, (closed) exponential, (closed) power, (closed)
generalised power or PSD-triangle cone (`ConeSpec7`, parameters admissible: `ConeSpec7.Valid`);
`InK7 cs s` / `InKdual7 cs z` say that the consecutive blocks of `s` / `z` of lengths
`Kᵢ.dim` lie in `Kᵢ` / `Kᵢ*` (`Lemmas/DualityAllCones.lean`).  `listDot` is the Euclidean inner
product of two lists. -/
theorem cone_pairing_nonneg_all (cs : List ConeSpec7) (hv : ∀ c ∈ cs, c.Valid) (s z : List ℝ)
    (hs : InK7 cs s) (hz : InKdual7 cs z) : 0 ≤ listDot s z :=
  pairing_nonneg_all cs hv s z hs hz

/-- [R] the same for vectors `Fin m → ℝ` and `⬝ᵥ` — discharges hypothesis `hK` of
`weak_duality_slack` / `weak_duality_slack_tol` for every cone list. -/
theorem cone_pairing_nonneg_all_vec {m : ℕ} (cs : List ConeSpec7) (hv : ∀ c ∈ cs, c.Valid)
    (s z : Fin m → ℝ) (hs : InK7 cs (List.ofFn s)) (hz : InKdual7 cs (List.ofFn z)) :
    0 ≤ s ⬝ᵥ z :=
  pairing_nonneg_all_vec cs hv s z hs hz

/-- non-vacuity: `exCones = zero(1) × nonneg(2) × soc(3) × exp × pow(½) × genpow((½,¼,¼); 2) ×
psd(2)` (one cone of each of the seven kinds, 20 rows), `exS ∈ K`, `exZ ∈ K*`
(`Lemmas/DualityAllConesExample.lean`) -/
example : 0 ≤ listDot exS exZ ∧ 0 ≤ exSv ⬝ᵥ exZv :=
  ⟨cone_pairing_nonneg_all exCones exCones_valid exS exZ exS_mem exZ_mem,
   cone_pairing_nonneg_all_vec exCones exCones_valid exSv exZv exSv_mem exZv_mem⟩

/-! ## weak duality with residual slack, all cones -/

section duality
variable {n m : ℕ}

/-- [R] **Weak duality with residual slack, all seven cone kinds.**  `weak_duality_slack` with
its hypothesis `hK : 0 ≤ s₁·z₂` replaced by cone membership: for any two points `(x₁,s₁)`,
`(x₂,z₂)` of one problem with symmetric `P ⪰ 0`, `s₁ ∈ K`, `z₂ ∈ K*`, `K` any product of
zero / nonnegative / second-order / exponential / power / generalised power / PSD cones:

  `pobj₁ − dobj₂ = ½(x₁−x₂)ᵀP(x₁−x₂) + s₁·z₂ − rp₁·z₂ + rd₂·x₁`   and
  `dobj₂ − pobj₁ ≤ rp₁·z₂ − rd₂·x₁`. -/
theorem weak_duality_slack_all_cones (P : Matrix (Fin n) (Fin n) ℝ) (hsym : Pᵀ = P)
    (hpsd : ∀ d : Fin n → ℝ, 0 ≤ d ⬝ᵥ P *ᵥ d) (A : Matrix (Fin m) (Fin n) ℝ) (q : Fin n → ℝ)
    (b : Fin m → ℝ) (x₁ : Fin n → ℝ) (s₁ : Fin m → ℝ) (x₂ : Fin n → ℝ) (z₂ : Fin m → ℝ)
    (cs : List ConeSpec7) (hv : ∀ c ∈ cs, c.Valid) (hs : InK7 cs (List.ofFn s₁))
    (hz : InKdual7 cs (List.ofFn z₂)) :
    pobj P q x₁ - dobj P b x₂ z₂ =
        2⁻¹ * ((x₁ - x₂) ⬝ᵥ P *ᵥ (x₁ - x₂)) + s₁ ⬝ᵥ z₂ - rp A b x₁ s₁ ⬝ᵥ z₂
          + rd P A q x₂ z₂ ⬝ᵥ x₁
    ∧ dobj P b x₂ z₂ - pobj P q x₁ ≤ rp A b x₁ s₁ ⬝ᵥ z₂ - rd P A q x₂ z₂ ⬝ᵥ x₁ :=
  weak_duality_slack_all P hsym hpsd A q b x₁ s₁ x₂ z₂ cs hv hs hz

/-- [R] **… in the tolerance form** used with the residual bounds of a `Solved` verdict
(`‖rp₁‖∞ ≤ Tp`, `‖rd₂‖∞ ≤ Td`): `dobj₂ − pobj₁ ≤ Tp‖z₂‖₁ + Td‖x₁‖₁`, for all seven cone
kinds. -/
theorem weak_duality_slack_tol_all_cones (P : Matrix (Fin n) (Fin n) ℝ) (hsym : Pᵀ = P)
    (hpsd : ∀ d : Fin n → ℝ, 0 ≤ d ⬝ᵥ P *ᵥ d) (A : Matrix (Fin m) (Fin n) ℝ) (q : Fin n → ℝ)
    (b : Fin m → ℝ) (x₁ : Fin n → ℝ) (s₁ : Fin m → ℝ) (x₂ : Fin n → ℝ) (z₂ : Fin m → ℝ)
    (cs : List ConeSpec7) (hv : ∀ c ∈ cs, c.Valid) (hs : InK7 cs (List.ofFn s₁))
    (hz : InKdual7 cs (List.ofFn z₂)) (Tp Td : ℝ) (hp : ∀ i, |rp A b x₁ s₁ i| ≤ Tp)
    (hd : ∀ j, |rd P A q x₂ z₂ j| ≤ Td) :
    dobj P b x₂ z₂ - pobj P q x₁ ≤ Tp * ∑ i, |z₂ i| + Td * ∑ j, |x₁ j| :=
  weak_duality_slack_tol_all P hsym hpsd A q b x₁ s₁ x₂ z₂ cs hv hs hz Tp Td hp hd

/-- non-vacuity of both: a problem with one variable (`P = 2`), 20 rows (`A = 1`, `b = 0`,
`q = −1`) over the seven-kind cone list `exCones`, with `s₁ = exSv ∈ K`, `z₂ = exZv ∈ K*`; the
residual bounds `Tp`, `Td` are the actual `∞`-norms' upper bounds `∑|rp|`, `∑|rd|`. -/
example :
    let P : Matrix (Fin 1) (Fin 1) ℝ := fun _ _ => 2
    let A : Matrix (Fin 20) (Fin 1) ℝ := fun _ _ => 1
    let q : Fin 1 → ℝ := fun _ => -1
    let b : Fin 20 → ℝ := fun _ => 0
    let x₁ : Fin 1 → ℝ := fun _ => 1 / 3
    let x₂ : Fin 1 → ℝ := fun _ => 1 / 2
    let Tp : ℝ := ∑ i, |rp A b x₁ exSv i|
    let Td : ℝ := ∑ j, |rd P A q x₂ exZv j|
    dobj P b x₂ exZv - pobj P q x₁ ≤ rp A b x₁ exSv ⬝ᵥ exZv - rd P A q x₂ exZv ⬝ᵥ x₁
    ∧ dobj P b x₂ exZv - pobj P q x₁ ≤ Tp * ∑ i, |exZv i| + Td * ∑ j, |x₁ j| := by
  intro P A q b x₁ x₂ Tp Td
  have hsym : Pᵀ = P := by ext i j; rfl
  have hpsd : ∀ d : Fin 1 → ℝ, 0 ≤ d ⬝ᵥ P *ᵥ d := by
    intro d
    simp only [dotProduct, Matrix.mulVec, Finset.univ_unique, Finset.sum_singleton, P]
    nlinarith [sq_nonneg (d default)]
  refine ⟨(weak_duality_slack_all_cones P hsym hpsd A q b x₁ exSv x₂ exZv exCones exCones_valid
      exSv_mem exZv_mem).2,
    weak_duality_slack_tol_all_cones P hsym hpsd A q b x₁ exSv x₂ exZv exCones exCones_valid
      exSv_mem exZv_mem Tp Td ?_ ?_⟩
  · intro i
    exact Finset.single_le_sum (f := fun i => |rp A b x₁ exSv i|) (fun _ _ => abs_nonneg _)
      (Finset.mem_univ i)
  · intro j
    exact Finset.single_le_sum (f := fun j => |rd P A q x₂ exZv j|) (fun _ _ => abs_nonneg _)
      (Finset.mem_univ j)

end duality

end Clarabel.C05
