/-
  C04 — every solve terminates cleanly within its limits: first theorems about the FULL model
  WITH NONSYMMETRIC CONES (`ClarabelModel/SolverNS/Solve.lean`: `DefaultSolver::new` + `solve()`
  for zero / nonnegative / second-order / exponential / power / generalised power cones with the
  QDLDL backend — the executable model the correspondence channels `solvens.setup / solvens.init /
  solvens.full / solvens.twice / solvens.state` of `harness/src/bin/solverns.rs` compare bit for
  bit with the implementation).

  All theorems are class [S]: no arithmetic law of the scalar type is used, so they hold at
  `Float`, i.e. they are statements about the f64 computation as it runs.
  Helper lemmas: `ClarabelProofs/Lemmas/SolverNSLoop.lean`.

  (A file of its own, imported by `Props/C04.lean`.)

  Second half of the file: PANIC-FREEDOM of this model (`ns_no_panic` and its parts), the analogue of
  `C04.full_no_panic` (`Props/C04NoPanic.lean`).  Helper lemmas: `Lemmas/SolverNSNoPanic*.lean`.
-/
import ClarabelProofs.Lemmas.SolverNSLoop
import ClarabelProofs.Lemmas.SolverNSExample
import ClarabelProofs.Lemmas.SolverNSNoPanicExample

namespace Clarabel.C04
open Clarabel Clarabel.SolverNS
open Clarabel.Info (SolverStatus InfoS)

set_option linter.unusedSectionVars false

section ns
variable {α : Type} [Add α] [Sub α] [Mul α] [Div α] [Neg α] [LT α] [LE α] [DecidableLT α]
  [DecidableLE α] [BEq α] [OfNat α 0] [OfNat α 1] [OfNat α 2] [OfNat α 3] [OfNat α 4] [OfNat α 100]
  [OfNat α 1000] [OfScientific α] [FloatLike α]

/-- [S] `C04.ns_pass_counters`: what one pass of the loop does to the loop-carried control state,
whatever the numerics answer.  A pass appends exactly one trajectory record.  Either the iteration
counter stays — and then a pass that goes on to the next one has switched the scaling strategy
`PrimalDual → Dual` (the `continue` of `strategy_checkpoint_insufficient_progress`) — or it goes
up by one, and then `check_termination` had let the pass through, so the counter was not at
`max_iter`.  The strategy never goes back from `Dual` to `PrimalDual`.  `info.iterations` is the
counter at the top of the pass, and a pass that leaves the loop leaves a terminal status. -/
theorem ns_pass_counters {st : SolverNS.Settings α} {L L' : SolverNS.LoopSt α} {c : Bool}
    (hp : SolverNS.pass st L = .ok (c, L')) :
    (∃ r, L'.traj = L.traj ++ [r])
    ∧ ((L'.iter = L.iter ∧ (c = true → L.scaling = .PrimalDual ∧ L'.scaling = .Dual))
       ∨ (L'.iter = L.iter + 1 ∧ st.info.max_iter ≠ L.iter))
    ∧ (L'.scaling = L.scaling ∨ L'.scaling = .Dual)
    ∧ L'.S.info.iterations = L.iter
    ∧ (c = false → L'.S.info.status ≠ .unsolved) := by
  obtain ⟨h1, h2, h3, h4, h5⟩ := pass_spec hp
  exact ⟨h1, h2, h3, h4, h5⟩

/-- [S] `C04.ns_terminates`: on the full model with nonsymmetric cones,
* the pass budget `max_iter + 3` that `runSolve` hands to its loop is never exhausted: `runSolve`
  is `runSolveO` (the same computation with "budget exhausted" observable as `none` instead of the
  `panic` of the `0` case) and `runSolveO` never returns `none` — an error of `runSolve` is an error
  of the numerics of some pass, never the budget.  (Every pass that goes on decreases
  `(max_iter − iter) + [scaling = PrimalDual]`: the three strategy checkpoints can `continue`, but
  two of them only after `iter += 1` and the third only by giving up `PrimalDual` for good.)
* when the loop is left, at least one and at most `max_iter + 2` passes have been made (one more
  than with symmetric cones only: the switch at the insufficient-progress checkpoint costs a pass
  that does not count as an iteration), `iter ≤ max_iter`, and the status / iteration count
  reported after `info.post_process` are a terminal status (never `Unsolved`) and at most
  `max_iter`. -/
theorem ns_terminates (S : SolverNS.SolverSt α) (st : SolverNS.Settings α) :
    S.runSolve st = S.runSolveO st >>= SolverNS.liftO ∧ S.runSolveO st ≠ .ok none
    ∧ ∀ L, S.runSolve st = .ok L →
        1 ≤ L.traj.length ∧ L.traj.length ≤ st.info.max_iter + 2 ∧ L.iter ≤ st.info.max_iter
        ∧ (SolverNS.finishInfo st L).info.status ≠ .unsolved
        ∧ (SolverNS.finishInfo st L).info.iterations ≤ st.info.max_iter := by
  refine ⟨runSolve_eq_runSolveO S st, runSolveO_spec S st, fun L hL => ?_⟩
  obtain ⟨h1, h2, h3, h4, h5⟩ := runSolve_exit hL
  obtain ⟨f1, f2⟩ := finishInfo_spec h1 h4 h5
  exact ⟨h2, h3, h1, f1, f2⟩

/-- [S] `C04.ns_solve_terminal`: `C04.ns_terminates` as seen by the caller of `solve()`: the
returned `solution` carries a terminal status (the one left in `info`), at most `max_iter`
iterations, the trajectory has between `1` and `max_iter + 2` passes, and the solution vectors
keep the lengths `DefaultSolver::new` gave them. -/
theorem ns_solve_terminal {S : SolverNS.Solver α} {st : SolverNS.Settings α} {r : SolverNS.SolveResult α}
    (h : S.solve st = .ok r) :
    r.S.solution.status ≠ .unsolved ∧ r.S.solution.status = r.S.st.info.status
      ∧ r.S.solution.iterations ≤ st.info.max_iter
      ∧ 1 ≤ r.passes ∧ r.passes ≤ st.info.max_iter + 2
      ∧ r.S.solution.x.size = S.solution.x.size ∧ r.S.solution.s.size = S.solution.s.size
      ∧ r.S.solution.z.size = S.solution.z.size := by
  obtain ⟨L, hL, ht, hi, hs, hit, hx, hss, hz⟩ := SolverNS.solve_inv h
  obtain ⟨h1, h2, _, h4, h5⟩ := (ns_terminates S.st st).2.2 L hL
  unfold SolverNS.SolveResult.passes
  rw [hs, hit, hi, ht]
  exact ⟨h4, rfl, h5, h1, h2, hx, hss, hz⟩

/-- [S] `C04.ns_solution_lengths`: `new` followed by `solve()` returns `x` of the user's `n = A.n`
and `s`, `z` of the user's `m = A.m` entries, whatever presolve removed and whatever the cones. -/
theorem ns_solution_lengths {P : Csc α} {q : Array α} {A : Csc α} {b : Array α} {cones : List (ConeT α)}
    {st : SolverNS.Settings α} {perm : Array Nat} {S : SolverNS.Solver α} {r : SolverNS.SolveResult α}
    (hn : SolverNS.Solver.new P q A b cones st perm = .ok S) (h : S.solve st = .ok r) :
    r.S.solution.x.size = A.n ∧ r.S.solution.s.size = A.m ∧ r.S.solution.z.size = A.m := by
  obtain ⟨_, _, _, _, _, hx, hs, hz⟩ := ns_solve_terminal h
  rw [hx, hs, hz, new_solution_sizes hn]
  exact ⟨by simp [Unscale.Solution.new], by simp [Unscale.Solution.new], by simp [Unscale.Solution.new]⟩

end ns


/-! ## Panic-freedom of the model with nonsymmetric cones

  In the model every Rust panic is the error `ModelErr.panic site`.  With exponential / power /
  generalised power cones there are two sites that are conditions on the NUMBERS and that no
  structural invariant can exclude for the f64 computation (`SolverNS.NumSite`):
    * `"argument not in supported range"` — the `panic!` of `ExponentialCone::_wright_omega(z)` for
      `z < 0` (`gradient_primal` under the primal–dual scaling, `barrier_primal` in
      `backtrack_step_to_barrier`); exact arithmetic gives `z > 1` on the interior of the cone, the
      f64 evaluation of `1 − s₁/s₂ − log(s₂/s₃)` is not covered by any scalar law used here;
    * `"backtrack_search: fuel"` — the model's fuel for the UNBOUNDED Rust `loop` of
      `backtrack_search` (in the code: non-termination, e.g. for a NaN step, not a panic).
  EVERYTHING ELSE is excluded for all well-formed inputs, at class [S]: every index read (dense
  3×3 blocks, the generalised power cone's sparse expansion maps `p, q, r, D` into the KKT value
  array, the per-cone slices of `z, s, dz, ds`, `Hsblocks`), every length `assert`, every
  `unreachable!()` arm of the nonsymmetric cones (`margins`, `scaled_unit_shift`,
  `set_identity_scaling`: only reached when every cone is symmetric), `assert!(ζ > 0)` of
  `GenPowerCone::update_dual_grad_H` (guarded by the same test in `update_scaling`),
  `backtrack_step_to_barrier` (50 contractions at most), the model's pass budget `max_iter + 3`. -/
section nsnopanic
variable {α : Type} [Add α] [Sub α] [Mul α] [Div α] [Neg α] [LT α] [LE α] [DecidableLT α]
  [DecidableLE α] [BEq α] [OfNat α 0] [OfNat α 1] [OfNat α 2] [OfNat α 3] [OfNat α 4] [OfNat α 100]
  [OfNat α 1000] [OfScientific α] [FloatLike α]
open Clarabel.Solver (NoPanic FmaxOK PivotOK)

/-- [S] `C04.ns_new_no_panic`: `DefaultSolver::new` never panics on well-formed input — `InputOKN`:
`P`, `A` canonical CSC, consistent dimensions, `Σ nvars = m`, and every generalised power cone passes
its construction guard (`GenPowerConeData::new`: exponents `> 0`, `|1 − Σα| < ε·len/2`; the power
cone's exponent is not checked by the code and needs nothing) —, `n ≥ 1`, `perm` a permutation of the
KKT dimension of the internal problem (`PermForN`: 2 extra rows per sparse second-order cone, 3 per
generalised power cone) and `PivotOK`.  It may return `.err` (PSD cone), never `.panic`. -/
theorem ns_new_no_panic {P : Csc α} {q : Array α} {A : Csc α} {b : Array α}
    {cones : List (ConeT α)} {st : SolverNS.Settings α} {perm : Array Nat}
    (hin : SolverNS.InputOKN P q A b cones) (hn : 0 < P.n)
    (hperm : SolverNS.PermForN P q A b cones st perm) (hpiv : PivotOK st.lin) :
    NoPanic (SolverNS.Solver.new P q A b cones st perm) :=
  SolverNS.solverNew_noPanicQ hin hn hperm hpiv

/-- [S] `C04.ns_new_establishes_invariant`: every solver object `new` returns satisfies the state
invariant `SolverNS.SolverInvN`: lengths of the iterate / residual / step / previous-iterate vectors
and of the seven work vectors of the KKT system; cone objects consistently sized (`ConeFull`: for a
generalised power cone `grad, p, z` of length `dim1 + dim2`, `q, d1` of length `dim1`, `r` of length
`dim2`) and covering the `m` rows; well-formed data; for the linear solver object the lengths of
`x, b, work1, work2, dsigns, Hsblocks`, every index of the `Hs` / diagonal / expansion maps (soc
`u, v, D`; genpow `p, q, r, D`) a slot of the KKT value array, the QDLDL workspace; the solution
object sized for the user's problem. -/
theorem ns_new_establishes_invariant {P : Csc α} {q : Array α} {A : Csc α} {b : Array α}
    {cones : List (ConeT α)} {st : SolverNS.Settings α} {perm : Array Nat}
    (hin : SolverNS.InputOKN P q A b cones) (hn : 0 < P.n)
    (hperm : SolverNS.PermForN P q A b cones st perm) (hpiv : PivotOK st.lin)
    {S : SolverNS.Solver α} (h : SolverNS.Solver.new P q A b cones st perm = .ok S) :
    SolverNS.SolverInvN S :=
  SolverNS.solverNew_invQ hin hn hperm hpiv h

/-- [S] `C04.ns_solve_keeps_invariant`: on every solver object satisfying the invariant — the ones
`new` builds, and the ones an earlier `solve()` left behind — `solve()` returns `.ok` and the
invariant holds again (so the second, third, … `solve()` are covered), or it stops at one of the two
numerical-domain sites.  It never returns `.err`. -/
theorem ns_solve_keeps_invariant (hf : FmaxOK α) {S : SolverNS.Solver α} (st : SolverNS.Settings α)
    (h : SolverNS.SolverInvN S) :
    SolverNS.OkOr SolverNS.NumSite (S.solve st) (fun r => SolverNS.SolverInvN r.S) :=
  SolverNS.solve_okOrN hf (Or.inl rfl) (Or.inr rfl) st h

/-- [S] `C04.ns_invariant_kept`: whatever a `solve()` that returns leaves behind satisfies the invariant
again — with NO hypothesis on the scalar type (not even `FmaxOK`: the statement is about a call that
did return). -/
theorem ns_invariant_kept {S : SolverNS.Solver α} {st : SolverNS.Settings α} {r : SolverNS.SolveResult α}
    (h : SolverNS.SolverInvN S) (hr : S.solve st = .ok r) : SolverNS.SolverInvN r.S :=
  (SolverNS.solve_inv_of_ok h hr).2

/-- [S] `C04.ns_no_panic` (the analogue of `C04.full_no_panic` for the model with exponential /
power / generalised power cones): for all well-formed inputs `new` does not panic; the object it
returns satisfies the invariant; and every `solve()` on an object satisfying the invariant
* returns `.ok r` with the invariant on `r.S` again, or
* returns `.error (.panic site)` with `site` one of the two numerical-domain sites
  (`"argument not in supported range"`: `_wright_omega` of an exponential cone;
  `"backtrack_search: fuel"`: the model's fuel for the unbounded `loop` of `backtrack_search`),
and nothing else (no `.err`, no other `.panic`: every index read in range, every assert of the
nonsymmetric code paths satisfied, the barrier back-tracking within its 50 contractions, the pass
budget not exhausted).
(`ns_no_panic_by_cone_kind`: the first site needs an exponential cone in the problem, the second a
nonsymmetric cone; `ns_no_panic_symmetric`: none ⇒ no exception.)
NOT PROVED (and not provable at class [S]): that the two remaining sites are unreachable.  The first
needs floating-point reasoning about `1 − s₁/s₂ − log(s₂/s₃)` on the points `step_length` accepted;
the second is a termination statement about `α ← step·α` until `α < α_min`, false for a NaN `α`. -/
theorem ns_no_panic {P : Csc α} {q : Array α} {A : Csc α} {b : Array α}
    {cones : List (ConeT α)} {st : SolverNS.Settings α} {perm : Array Nat}
    (hin : SolverNS.InputOKN P q A b cones) (hn : 0 < P.n)
    (hperm : SolverNS.PermForN P q A b cones st perm) (hpiv : PivotOK st.lin) (hf : FmaxOK α) :
    NoPanic (SolverNS.Solver.new P q A b cones st perm) ∧
      ∀ S, SolverNS.Solver.new P q A b cones st perm = .ok S → SolverNS.SolverInvN S ∧
        SolverNS.OkOr SolverNS.NumSite (S.solve st) (fun r => SolverNS.SolverInvN r.S) :=
  SolverNS.solver_noPanicN hin hn hperm hpiv hf (Or.inl rfl) (Or.inr rfl)

/-- [S] `ns_no_panic` in the literal form: a panic of `solve()` is at one of the two
numerical-domain sites, and `solve()` never answers "outside the model" -/
theorem ns_solve_panics_only_numerically {P : Csc α} {q : Array α} {A : Csc α} {b : Array α}
    {cones : List (ConeT α)} {st : SolverNS.Settings α} {perm : Array Nat}
    (hin : SolverNS.InputOKN P q A b cones) (hn : 0 < P.n)
    (hperm : SolverNS.PermForN P q A b cones st perm) (hpiv : PivotOK st.lin) (hf : FmaxOK α)
    {S : SolverNS.Solver α} (h : SolverNS.Solver.new P q A b cones st perm = .ok S) :
    (∀ site, S.solve st = .error (.panic site) →
        site = "argument not in supported range" ∨ site = "backtrack_search: fuel")
      ∧ (∀ kind, S.solve st ≠ .error (.err kind))
      ∧ (∀ r, S.solve st = .ok r → SolverNS.SolverInvN r.S) := by
  have hs := ((ns_no_panic hin hn hperm hpiv hf).2 S h).2
  exact ⟨fun site hp => hs.panic_site hp, fun k => hs.not_err k, fun r hr => hs.of_ok hr⟩

/-- [S] `C04.ns_no_panic_by_cone_kind` (sharp form of `ns_no_panic`): **which cones a problem must
contain for a numerical-domain site to be reachable.**  For a solver object built by `new` on
well-formed input, a panic of `solve()` is
* `"argument not in supported range"` (`_wright_omega`) — and then the USER's cone list contains an
  exponential cone, or
* `"backtrack_search: fuel"` — and then the user's cone list contains an exponential, power or
  generalised power cone.
Every assert / index / `unreachable!()` of the power and generalised power cone code paths is
satisfied unconditionally; of the exponential cone's everything but `_wright_omega`'s range check. -/
theorem ns_no_panic_by_cone_kind {P : Csc α} {q : Array α} {A : Csc α} {b : Array α}
    {cones : List (ConeT α)} {st : SolverNS.Settings α} {perm : Array Nat}
    (hin : SolverNS.InputOKN P q A b cones) (hn : 0 < P.n)
    (hperm : SolverNS.PermForN P q A b cones st perm) (hpiv : PivotOK st.lin) (hf : FmaxOK α)
    {S : SolverNS.Solver α} (h : SolverNS.Solver.new P q A b cones st perm = .ok S) {site : String}
    (hp : S.solve st = .error (.panic site)) :
    (site = "argument not in supported range" ∧ SolverNS.userHasExp cones)
      ∨ (site = "backtrack_search: fuel" ∧ SolverNS.userHasNonsym cones) := by
  have hk := SolverNS.new_cone_kinds h
  rcases (SolverNS.solve_okOrFor hf st (SolverNS.solverNew_invQ hin hn hperm hpiv h)).panic_site hp with h1 | h2
  · exact Or.inl ⟨h1.1, hk.1 h1.2⟩
  · exact Or.inr ⟨h2.1, hk.2 h2.2⟩

/-- [S] `C04.ns_no_panic_symmetric`: a problem whose cones are all symmetric (zero / nonnegative /
second-order), run through the model WITH nonsymmetric cones, returns from every `solve()` — no
exception at all: on such problems the extended model proves what `C04.full_no_panic` proves for the
symmetric model. -/
theorem ns_no_panic_symmetric {P : Csc α} {q : Array α} {A : Csc α} {b : Array α}
    {cones : List (ConeT α)} {st : SolverNS.Settings α} {perm : Array Nat}
    (hin : SolverNS.InputOKN P q A b cones) (hn : 0 < P.n)
    (hperm : SolverNS.PermForN P q A b cones st perm) (hpiv : PivotOK st.lin) (hf : FmaxOK α)
    (hsym : ¬ SolverNS.userHasNonsym cones)
    {S : SolverNS.Solver α} (h : SolverNS.Solver.new P q A b cones st perm = .ok S) :
    ∃ r, S.solve st = .ok r ∧ SolverNS.SolverInvN r.S := by
  obtain ⟨r, hr, hI⟩ := SolverNS.solve_ok_symmetric hf st (SolverNS.solverNew_invQ hin hn hperm hpiv h)
    (fun hns => hsym ((SolverNS.new_cone_kinds h).2 hns))
  exact ⟨r, hr, hI⟩

/-- [S] `C04.ns_no_panic_without_exp`: without an exponential cone in the user's list (power and
generalised power cones allowed) the only way `solve()` does not return is the exhaustion of the
model's fuel for the unbounded `loop` of `backtrack_search` (non-termination in the code). -/
theorem ns_no_panic_without_exp {P : Csc α} {q : Array α} {A : Csc α} {b : Array α}
    {cones : List (ConeT α)} {st : SolverNS.Settings α} {perm : Array Nat}
    (hin : SolverNS.InputOKN P q A b cones) (hn : 0 < P.n)
    (hperm : SolverNS.PermForN P q A b cones st perm) (hpiv : PivotOK st.lin) (hf : FmaxOK α)
    (hne : ¬ SolverNS.userHasExp cones)
    {S : SolverNS.Solver α} (h : SolverNS.Solver.new P q A b cones st perm = .ok S) :
    SolverNS.OkOr (fun s => s = "backtrack_search: fuel") (S.solve st) (fun r => SolverNS.SolverInvN r.S) :=
  SolverNS.solve_okOr_noExp hf st (SolverNS.solverNew_invQ hin hn hperm hpiv h)
    (fun he => hne ((SolverNS.new_cone_kinds h).1 he))

/-- [S] `C04.ns_solve_iterate`: any number of successive `solve()` calls on one solver object: each
of them is covered (the invariant is re-established by every successful call) -/
theorem ns_solve_iterate (hf : FmaxOK α) (st : SolverNS.Settings α) (k : Nat) {S : SolverNS.Solver α}
    (h : SolverNS.SolverInvN S) :
    SolverNS.OkOr SolverNS.NumSite
      (Nat.rec (motive := fun _ => MErr (SolverNS.Solver α)) (pure S)
        (fun _ acc => acc >>= fun T => (T.solve st).map (·.S)) k) SolverNS.SolverInvN :=
  SolverNS.solve_iterate_okOrN hf (Or.inl rfl) (Or.inr rfl) st k h

end nsnopanic

/-! ### non-vacuity: concrete runs of the model with an exponential cone, evaluated by the kernel
at `Int` (`Lemmas/SolverNSExample.lean`) -/
namespace NSExamples
open Clarabel.SolverNS.Example
attribute [local instance] intFloatLike intSci

/-- the hypotheses `… = .ok …` are satisfiable: with `max_iter = 3` the model makes two passes —
the first switches the strategy `PrimalDual → Dual` and continues (a pass that goes on *and*
`iter += 1`), the second leaves the loop under `Dual` with `InsufficientProgress` … -/
example : (run 3).toOption.map summary = some (2, .insufficientProgress, 2, [false, true]) := run3
/-- … with `max_iter = 1` it makes `max_iter + 1` passes … -/
example : (run 1).toOption.map summary = some (2, .maxIterations, 1, [false, true]) := run1
/-- … and with `max_iter = 0` one pass -/
example : (run 0).toOption.map summary = some (1, .maxIterations, 0, [false]) := run0
/-- `new` succeeds on the example (hypothesis `hn` of `ns_solution_lengths`) -/
example : (newSolver 3).toOption.isSome = true := by decide +kernel

/-- the hypotheses of `ns_no_panic` hold on the example (one variable, a nonnegative and an exponential
cone): well-formed input, the ordering, the two scalar laws … -/
example : SolverNS.InputOKN P #[1] A #[1, 1, 1, 1] ([.nonneg 1, .exp] : List (ConeT Int)) := exInputOKN
example : SolverNS.PermForN P #[1] A #[1, 1, 1, 1] ([.nonneg 1, .exp] : List (ConeT Int)) (st 3) #[0, 1, 2, 3, 4] :=
  exPermForN
example : Clarabel.Solver.PivotOK (st 3).lin := exPivotOK 3
example : Clarabel.Solver.FmaxOK Int := exFmaxOK
/-- … `new` returns a solver object satisfying the invariant, its `solve()` returns `.ok` (neither
numerical-domain site is hit on this run) and the invariant holds on the object it leaves -/
example : ∃ S r, newSolver 3 = .ok S ∧ SolverNS.SolverInvN S ∧ S.solve (st 3) = .ok r ∧ SolverNS.SolverInvN r.S :=
  exSolve_inv

/-- the cone-kind hypotheses of `ns_no_panic_symmetric` / `ns_no_panic_without_exp` are satisfiable -/
example : ¬ SolverNS.userHasNonsym ([.nonneg 1, .soc 3, .zero 2] : List (ConeT Int)) := by
  rintro ⟨c, hc, h⟩
  simp only [List.mem_cons, List.not_mem_nil, or_false] at hc
  rcases hc with rfl | rfl | rfl <;> rcases h with h | ⟨a, h⟩ | ⟨al, d2, h⟩ <;> cases h
example : ¬ SolverNS.userHasExp ([.nonneg 1, .pow 2, .genpow #[1] 1] : List (ConeT Int)) := by
  intro h
  simp only [SolverNS.userHasExp, List.mem_cons, List.not_mem_nil, or_false] at h
  rcases h with h | h | h <;> cases h

end NSExamples

end Clarabel.C04
