/-
  C04 — every solve terminates cleanly within its limits: first theorems about the FULL model
  WITH NONSYMMETRIC CONES (`ClarabelModel/SolverNS/Solve.lean`: `DefaultSolver::new` + `solve()`
  for zero / nonnegative / second-order / exponential / power / generalised power cones with the
  QDLDL backend — the executable model the correspondence channels `solvens.setup / solvens.init /
  solvens.full / solvens.twice / solvens.state` of `harness/src/bin/solverns.rs` compare bit for
  bit with the implementation).

  All theorems are class [S]: no arithmetic law of the scalar type is used, so they hold at
  `Float`, i.e. they are statements about the f64 computation as it runs.
  Helper lemmas: `ClarabelProofs/Lemmas/SolverNSLoop.lean`.

  (A file of its own; NOT yet imported by `Props/C04.lean`.)
-/
import ClarabelProofs.Lemmas.SolverNSLoop
import ClarabelProofs.Lemmas.SolverNSExample

namespace Clarabel.C04
open Clarabel Clarabel.SolverNS
open Clarabel.Info (SolverStatus InfoS)

set_option linter.unusedSectionVars false

section ns
variable {α : Type} [Add α] [Sub α] [Mul α] [Div α] [Neg α] [LT α] [LE α] [DecidableLT α]
  [DecidableLE α] [BEq α] [OfNat α 0] [OfNat α 1] [OfNat α 2] [OfNat α 3] [OfNat α 4] [OfNat α 100]
  [OfNat α 1000] [OfScientific α] [FloatLike α]

/-- [S] `C04.ns_pass_counters`: what one pass of the loop does to the loop-carried control state,
whatever the numerics answer.  A pass appends exactly one trajectory record.  Either the iteration
counter stays — and then a pass that goes on to the next one has switched the scaling strategy
`PrimalDual → Dual` (the `continue` of `strategy_checkpoint_insufficient_progress`) — or it goes
up by one, and then `check_termination` had let the pass through, so the counter was not at
`max_iter`.  The strategy never goes back from `Dual` to `PrimalDual`.  `info.iterations` is the
counter at the top of the pass, and a pass that leaves the loop leaves a terminal status. -/
theorem ns_pass_counters {st : SolverNS.Settings α} {L L' : SolverNS.LoopSt α} {c : Bool}
    (hp : SolverNS.pass st L = .ok (c, L')) :
    (∃ r, L'.traj = L.traj ++ [r])
    ∧ ((L'.iter = L.iter ∧ (c = true → L.scaling = .PrimalDual ∧ L'.scaling = .Dual))
       ∨ (L'.iter = L.iter + 1 ∧ st.info.max_iter ≠ L.iter))
    ∧ (L'.scaling = L.scaling ∨ L'.scaling = .Dual)
    ∧ L'.S.info.iterations = L.iter
    ∧ (c = false → L'.S.info.status ≠ .unsolved) := by
  obtain ⟨h1, h2, h3, h4, h5⟩ := pass_spec hp
  exact ⟨h1, h2, h3, h4, h5⟩

/-- [S] `C04.ns_terminates`: on the full model with nonsymmetric cones,
* the pass budget `max_iter + 3` that `runSolve` hands to its loop is never exhausted: `runSolve`
  is `runSolveO` (the same computation with "budget exhausted" observable as `none` instead of the
  `panic` of the `0` case) and `runSolveO` never returns `none` — an error of `runSolve` is an error
  of the numerics of some pass, never the budget.  (Every pass that goes on decreases
  `(max_iter − iter) + [scaling = PrimalDual]`: the three strategy checkpoints can `continue`, but
  two of them only after `iter += 1` and the third only by giving up `PrimalDual` for good.)
* when the loop is left, at least one and at most `max_iter + 2` passes have been made (one more
  than with symmetric cones only: the switch at the insufficient-progress checkpoint costs a pass
  that does not count as an iteration), `iter ≤ max_iter`, and the status / iteration count
  reported after `info.post_process` are a terminal status (never `Unsolved`) and at most
  `max_iter`. -/
theorem ns_terminates (S : SolverNS.SolverSt α) (st : SolverNS.Settings α) :
    S.runSolve st = S.runSolveO st >>= SolverNS.liftO ∧ S.runSolveO st ≠ .ok none
    ∧ ∀ L, S.runSolve st = .ok L →
        1 ≤ L.traj.length ∧ L.traj.length ≤ st.info.max_iter + 2 ∧ L.iter ≤ st.info.max_iter
        ∧ (SolverNS.finishInfo st L).info.status ≠ .unsolved
        ∧ (SolverNS.finishInfo st L).info.iterations ≤ st.info.max_iter := by
  refine ⟨runSolve_eq_runSolveO S st, runSolveO_spec S st, fun L hL => ?_⟩
  obtain ⟨h1, h2, h3, h4, h5⟩ := runSolve_exit hL
  obtain ⟨f1, f2⟩ := finishInfo_spec h1 h4 h5
  exact ⟨h2, h3, h1, f1, f2⟩

/-- [S] `C04.ns_solve_terminal`: `C04.ns_terminates` as seen by the caller of `solve()`: the
returned `solution` carries a terminal status (the one left in `info`), at most `max_iter`
iterations, the trajectory has between `1` and `max_iter + 2` passes, and the solution vectors
keep the lengths `DefaultSolver::new` gave them. -/
theorem ns_solve_terminal {S : SolverNS.Solver α} {st : SolverNS.Settings α} {r : SolverNS.SolveResult α}
    (h : S.solve st = .ok r) :
    r.S.solution.status ≠ .unsolved ∧ r.S.solution.status = r.S.st.info.status
      ∧ r.S.solution.iterations ≤ st.info.max_iter
      ∧ 1 ≤ r.passes ∧ r.passes ≤ st.info.max_iter + 2
      ∧ r.S.solution.x.size = S.solution.x.size ∧ r.S.solution.s.size = S.solution.s.size
      ∧ r.S.solution.z.size = S.solution.z.size := by
  obtain ⟨L, hL, ht, hi, hs, hit, hx, hss, hz⟩ := SolverNS.solve_inv h
  obtain ⟨h1, h2, _, h4, h5⟩ := (ns_terminates S.st st).2.2 L hL
  unfold SolverNS.SolveResult.passes
  rw [hs, hit, hi, ht]
  exact ⟨h4, rfl, h5, h1, h2, hx, hss, hz⟩

/-- [S] `C04.ns_solution_lengths`: `new` followed by `solve()` returns `x` of the user's `n = A.n`
and `s`, `z` of the user's `m = A.m` entries, whatever presolve removed and whatever the cones. -/
theorem ns_solution_lengths {P : Csc α} {q : Array α} {A : Csc α} {b : Array α} {cones : List (ConeT α)}
    {st : SolverNS.Settings α} {perm : Array Nat} {S : SolverNS.Solver α} {r : SolverNS.SolveResult α}
    (hn : SolverNS.Solver.new P q A b cones st perm = .ok S) (h : S.solve st = .ok r) :
    r.S.solution.x.size = A.n ∧ r.S.solution.s.size = A.m ∧ r.S.solution.z.size = A.m := by
  obtain ⟨_, _, _, _, _, hx, hs, hz⟩ := ns_solve_terminal h
  rw [hx, hs, hz, new_solution_sizes hn]
  exact ⟨by simp [Unscale.Solution.new], by simp [Unscale.Solution.new], by simp [Unscale.Solution.new]⟩

end ns

/-! ### non-vacuity: concrete runs of the model with an exponential cone, evaluated by the kernel
at `Int` (`Lemmas/SolverNSExample.lean`) -/
namespace NSExamples
open Clarabel.SolverNS.Example
attribute [local instance] intFloatLike intSci

/-- the hypotheses `… = .ok …` are satisfiable: with `max_iter = 3` the model makes two passes —
the first switches the strategy `PrimalDual → Dual` and continues (a pass that goes on *and*
`iter += 1`), the second leaves the loop under `Dual` with `InsufficientProgress` … -/
example : (run 3).toOption.map summary = some (2, .insufficientProgress, 2, [false, true]) := run3
/-- … with `max_iter = 1` it makes `max_iter + 1` passes … -/
example : (run 1).toOption.map summary = some (2, .maxIterations, 1, [false, true]) := run1
/-- … and with `max_iter = 0` one pass -/
example : (run 0).toOption.map summary = some (1, .maxIterations, 0, [false]) := run0
/-- `new` succeeds on the example (hypothesis `hn` of `ns_solution_lengths`) -/
example : (newSolver 3).toOption.isSome = true := by decide +kernel

end NSExamples

end Clarabel.C04
