/-
  C04 — every solve terminates cleanly within its limits: first theorems about the FULL model
  WITH NONSYMMETRIC CONES (`ClarabelModel/SolverNS/Solve.lean`: `DefaultSolver::new` + `solve()`
  for zero / nonnegative / second-order / exponential / power / generalised power cones with the
  QDLDL backend — the executable model the correspondence channels `solvens.setup / solvens.init /
  solvens.full / solvens.twice / solvens.state` of `harness/src/bin/solverns.rs` compare bit for
  bit with the implementation).

  All theorems are class [S]: no arithmetic law of the scalar type is used, so they hold at
  `Float`, i.e. they are statements about the f64 computation as it runs.
  Helper lemmas: `ClarabelProofs/Lemmas/SolverNSLoop.lean`.

  (A file of its own, imported by `Props/C04.lean`.)

  Second half of the file: PANIC-FREEDOM of this model (`ns_no_panic` and its parts), the analogue of
  `C04.full_no_panic` (`Props/C04NoPanic.lean`).  Helper lemmas: `Lemmas/SolverNSNoPanic*.lean`.
-/
import ClarabelProofs.Lemmas.SolverNSLoop
import ClarabelProofs.Lemmas.SolverNSExample
import ClarabelProofs.Lemmas.SolverNSNoPanicExample
import ClarabelProofs.Lemmas.SolverNSWrightRealSolve
import ClarabelProofs.Lemmas.SolverNSTotalReal

namespace Clarabel.C04
open Clarabel Clarabel.SolverNS
open Clarabel.Info (SolverStatus InfoS)

set_option linter.unusedSectionVars false

section ns
variable {α : Type} [Add α] [Sub α] [Mul α] [Div α] [Neg α] [LT α] [LE α] [DecidableLT α]
  [DecidableLE α] [BEq α] [OfNat α 0] [OfNat α 1] [OfNat α 2] [OfNat α 3] [OfNat α 4] [OfNat α 100]
  [OfNat α 1000] [OfScientific α] [FloatLike α]

/-- [S] `C04.ns_pass_counters`: what one pass of the loop does to the loop-carried control state,
whatever the numerics answer.  A pass appends exactly one trajectory record.  Either the iteration
counter stays — and then a pass that goes on to the next one has switched the scaling strategy
`PrimalDual → Dual` (the `continue` of `strategy_checkpoint_insufficient_progress`) — or it goes
up by one, and then `check_termination` had let the pass through, so the counter was not at
`max_iter`.  The strategy never goes back from `Dual` to `PrimalDual`.  `info.iterations` is the
counter at the top of the pass, and a pass that leaves the loop leaves a terminal status. -/
theorem ns_pass_counters {st : SolverNS.Settings α} {L L' : SolverNS.LoopSt α} {c : Bool}
    (hp : SolverNS.pass st L = .ok (c, L')) :
    (∃ r, L'.traj = L.traj ++ [r])
    ∧ ((L'.iter = L.iter ∧ (c = true → L.scaling = .PrimalDual ∧ L'.scaling = .Dual))
       ∨ (L'.iter = L.iter + 1 ∧ st.info.max_iter ≠ L.iter))
    ∧ (L'.scaling = L.scaling ∨ L'.scaling = .Dual)
    ∧ L'.S.info.iterations = L.iter
    ∧ (c = false → L'.S.info.status ≠ .unsolved) := by
  obtain ⟨h1, h2, h3, h4, h5⟩ := pass_spec hp
  exact ⟨h1, h2, h3, h4, h5⟩

/-- [S] `C04.ns_terminates`: on the full model with nonsymmetric cones,
* the pass budget `max_iter + 3` that `runSolve` hands to its loop is never exhausted: `runSolve`
  is `runSolveO` (the same computation with "budget exhausted" observable as `none` instead of the
  `panic` of the `0` case) and `runSolveO` never returns `none` — an error of `runSolve` is an error
  of the numerics of some pass, never the budget.  (Every pass that goes on decreases
  `(max_iter − iter) + [scaling = PrimalDual]`: the three strategy checkpoints can `continue`, but
  two of them only after `iter += 1` and the third only by giving up `PrimalDual` for good.)
* when the loop is left, at least one and at most `max_iter + 2` passes have been made (one more
  than with symmetric cones only: the switch at the insufficient-progress checkpoint costs a pass
  that does not count as an iteration), `iter ≤ max_iter`, and the status / iteration count
  reported after `info.post_process` are a terminal status (never `Unsolved`) and at most
  `max_iter`. -/
theorem ns_terminates (S : SolverNS.SolverSt α) (st : SolverNS.Settings α) :
    S.runSolve st = S.runSolveO st >>= SolverNS.liftO ∧ S.runSolveO st ≠ .ok none
    ∧ ∀ L, S.runSolve st = .ok L →
        1 ≤ L.traj.length ∧ L.traj.length ≤ st.info.max_iter + 2 ∧ L.iter ≤ st.info.max_iter
        ∧ (SolverNS.finishInfo st L).info.status ≠ .unsolved
        ∧ (SolverNS.finishInfo st L).info.iterations ≤ st.info.max_iter := by
  refine ⟨runSolve_eq_runSolveO S st, runSolveO_spec S st, fun L hL => ?_⟩
  obtain ⟨h1, h2, h3, h4, h5⟩ := runSolve_exit hL
  obtain ⟨f1, f2⟩ := finishInfo_spec h1 h4 h5
  exact ⟨h2, h3, h1, f1, f2⟩

/-- [S] `C04.ns_solve_terminal`: `C04.ns_terminates` as seen by the caller of `solve()`: the
returned `solution` carries a terminal status (the one left in `info`), at most `max_iter`
iterations, the trajectory has between `1` and `max_iter + 2` passes, and the solution vectors
keep the lengths `DefaultSolver::new` gave them. -/
theorem ns_solve_terminal {S : SolverNS.Solver α} {st : SolverNS.Settings α} {r : SolverNS.SolveResult α}
    (h : S.solve st = .ok r) :
    r.S.solution.status ≠ .unsolved ∧ r.S.solution.status = r.S.st.info.status
      ∧ r.S.solution.iterations ≤ st.info.max_iter
      ∧ 1 ≤ r.passes ∧ r.passes ≤ st.info.max_iter + 2
      ∧ r.S.solution.x.size = S.solution.x.size ∧ r.S.solution.s.size = S.solution.s.size
      ∧ r.S.solution.z.size = S.solution.z.size := by
  obtain ⟨L, hL, ht, hi, hs, hit, hx, hss, hz⟩ := SolverNS.solve_inv h
  obtain ⟨h1, h2, _, h4, h5⟩ := (ns_terminates S.st st).2.2 L hL
  unfold SolverNS.SolveResult.passes
  rw [hs, hit, hi, ht]
  exact ⟨h4, rfl, h5, h1, h2, hx, hss, hz⟩

/-- [S] `C04.ns_solution_lengths`: `new` followed by `solve()` returns `x` of the user's `n = A.n`
and `s`, `z` of the user's `m = A.m` entries, whatever presolve removed and whatever the cones. -/
theorem ns_solution_lengths {P : Csc α} {q : Array α} {A : Csc α} {b : Array α} {cones : List (ConeT α)}
    {st : SolverNS.Settings α} {perm : Array Nat} {S : SolverNS.Solver α} {r : SolverNS.SolveResult α}
    (hn : SolverNS.Solver.new P q A b cones st perm = .ok S) (h : S.solve st = .ok r) :
    r.S.solution.x.size = A.n ∧ r.S.solution.s.size = A.m ∧ r.S.solution.z.size = A.m := by
  obtain ⟨_, _, _, _, _, hx, hs, hz⟩ := ns_solve_terminal h
  rw [hx, hs, hz, new_solution_sizes hn]
  exact ⟨by simp [Unscale.Solution.new], by simp [Unscale.Solution.new], by simp [Unscale.Solution.new]⟩

end ns


/-! ## Panic-freedom of the model with nonsymmetric cones

  In the model every Rust panic is the error `ModelErr.panic site`.  With exponential / power /
  generalised power cones there are two sites that are conditions on the NUMBERS and that no
  structural invariant can exclude for the f64 computation (`SolverNS.NumSite`):
    * `"argument not in supported range"` — the `panic!` of `ExponentialCone::_wright_omega(z)` for
      `z < 0` (`gradient_primal` under the primal–dual scaling, `barrier_primal` in
      `backtrack_step_to_barrier`); exact arithmetic gives `z > 1` on the interior of the cone, the
      f64 evaluation of `1 − s₁/s₂ − log(s₂/s₃)` is not covered by any scalar law used here;
    * `"backtrack_search: fuel"` — the model's fuel for the UNBOUNDED Rust `loop` of
      `backtrack_search` (in the code: non-termination, e.g. for a NaN step, not a panic).
  EVERYTHING ELSE is excluded for all well-formed inputs, at class [S]: every index read (dense
  3×3 blocks, the generalised power cone's sparse expansion maps `p, q, r, D` into the KKT value
  array, the per-cone slices of `z, s, dz, ds`, `Hsblocks`), every length `assert`, every
  `unreachable!()` arm of the nonsymmetric cones (`margins`, `scaled_unit_shift`,
  `set_identity_scaling`: only reached when every cone is symmetric), `assert!(ζ > 0)` of
  `GenPowerCone::update_dual_grad_H` (guarded by the same test in `update_scaling`),
  `backtrack_step_to_barrier` (50 contractions at most), the model's pass budget `max_iter + 3`. -/
section nsnopanic
variable {α : Type} [Add α] [Sub α] [Mul α] [Div α] [Neg α] [LT α] [LE α] [DecidableLT α]
  [DecidableLE α] [BEq α] [OfNat α 0] [OfNat α 1] [OfNat α 2] [OfNat α 3] [OfNat α 4] [OfNat α 100]
  [OfNat α 1000] [OfScientific α] [FloatLike α]
open Clarabel.Solver (NoPanic FmaxOK PivotOK)

/-- [S] `C04.ns_new_no_panic`: `DefaultSolver::new` never panics on well-formed input — `InputOKN`:
`P`, `A` canonical CSC, consistent dimensions, `Σ nvars = m`, and every generalised power cone passes
its construction guard (`GenPowerConeData::new`: exponents `> 0`, `|1 − Σα| < ε·len/2`; the power
cone's exponent is not checked by the code and needs nothing) —, `n ≥ 1`, `perm` a permutation of the
KKT dimension of the internal problem (`PermForN`: 2 extra rows per sparse second-order cone, 3 per
generalised power cone) and `PivotOK`.  It may return `.err` (PSD cone), never `.panic`. -/
theorem ns_new_no_panic {P : Csc α} {q : Array α} {A : Csc α} {b : Array α}
    {cones : List (ConeT α)} {st : SolverNS.Settings α} {perm : Array Nat}
    (hin : SolverNS.InputOKN P q A b cones) (hn : 0 < P.n)
    (hperm : SolverNS.PermForN P q A b cones st perm) (hpiv : PivotOK st.lin) :
    NoPanic (SolverNS.Solver.new P q A b cones st perm) :=
  SolverNS.solverNew_noPanicQ hin hn hperm hpiv

/-- [S] `C04.ns_new_establishes_invariant`: every solver object `new` returns satisfies the state
invariant `SolverNS.SolverInvN`: lengths of the iterate / residual / step / previous-iterate vectors
and of the seven work vectors of the KKT system; cone objects consistently sized (`ConeFull`: for a
generalised power cone `grad, p, z` of length `dim1 + dim2`, `q, d1` of length `dim1`, `r` of length
`dim2`) and covering the `m` rows; well-formed data; for the linear solver object the lengths of
`x, b, work1, work2, dsigns, Hsblocks`, every index of the `Hs` / diagonal / expansion maps (soc
`u, v, D`; genpow `p, q, r, D`) a slot of the KKT value array, the QDLDL workspace; the solution
object sized for the user's problem. -/
theorem ns_new_establishes_invariant {P : Csc α} {q : Array α} {A : Csc α} {b : Array α}
    {cones : List (ConeT α)} {st : SolverNS.Settings α} {perm : Array Nat}
    (hin : SolverNS.InputOKN P q A b cones) (hn : 0 < P.n)
    (hperm : SolverNS.PermForN P q A b cones st perm) (hpiv : PivotOK st.lin)
    {S : SolverNS.Solver α} (h : SolverNS.Solver.new P q A b cones st perm = .ok S) :
    SolverNS.SolverInvN S :=
  SolverNS.solverNew_invQ hin hn hperm hpiv h

/-- [S] `C04.ns_solve_keeps_invariant`: on every solver object satisfying the invariant — the ones
`new` builds, and the ones an earlier `solve()` left behind — `solve()` returns `.ok` and the
invariant holds again (so the second, third, … `solve()` are covered), or it stops at one of the two
numerical-domain sites.  It never returns `.err`. -/
theorem ns_solve_keeps_invariant (hf : FmaxOK α) {S : SolverNS.Solver α} (st : SolverNS.Settings α)
    (h : SolverNS.SolverInvN S) :
    SolverNS.OkOr SolverNS.NumSite (S.solve st) (fun r => SolverNS.SolverInvN r.S) :=
  SolverNS.solve_okOrN hf (Or.inl rfl) (Or.inr rfl) st h

/-- [S] `C04.ns_invariant_kept`: whatever a `solve()` that returns leaves behind satisfies the invariant
again — with NO hypothesis on the scalar type (not even `FmaxOK`: the statement is about a call that
did return). -/
theorem ns_invariant_kept {S : SolverNS.Solver α} {st : SolverNS.Settings α} {r : SolverNS.SolveResult α}
    (h : SolverNS.SolverInvN S) (hr : S.solve st = .ok r) : SolverNS.SolverInvN r.S :=
  (SolverNS.solve_inv_of_ok h hr).2

/-- [S] `C04.ns_no_panic` (the analogue of `C04.full_no_panic` for the model with exponential /
power / generalised power cones): for all well-formed inputs `new` does not panic; the object it
returns satisfies the invariant; and every `solve()` on an object satisfying the invariant
* returns `.ok r` with the invariant on `r.S` again, or
* returns `.error (.panic site)` with `site` one of the two numerical-domain sites
  (`"argument not in supported range"`: `_wright_omega` of an exponential cone;
  `"backtrack_search: fuel"`: the model's fuel for the unbounded `loop` of `backtrack_search`),
and nothing else (no `.err`, no other `.panic`: every index read in range, every assert of the
nonsymmetric code paths satisfied, the barrier back-tracking within its 50 contractions, the pass
budget not exhausted).
(`ns_no_panic_by_cone_kind`: the first site needs an exponential cone in the problem, the second a
nonsymmetric cone; `ns_no_panic_symmetric`: none ⇒ no exception.)
NOT PROVED (and not provable at class [S]): that the two remaining sites are unreachable.  The first
needs floating-point reasoning about `1 − s₁/s₂ − log(s₂/s₃)` on the points `step_length` accepted;
the second is a termination statement about `α ← step·α` until `α < α_min`, false for a NaN `α`. -/
theorem ns_no_panic {P : Csc α} {q : Array α} {A : Csc α} {b : Array α}
    {cones : List (ConeT α)} {st : SolverNS.Settings α} {perm : Array Nat}
    (hin : SolverNS.InputOKN P q A b cones) (hn : 0 < P.n)
    (hperm : SolverNS.PermForN P q A b cones st perm) (hpiv : PivotOK st.lin) (hf : FmaxOK α) :
    NoPanic (SolverNS.Solver.new P q A b cones st perm) ∧
      ∀ S, SolverNS.Solver.new P q A b cones st perm = .ok S → SolverNS.SolverInvN S ∧
        SolverNS.OkOr SolverNS.NumSite (S.solve st) (fun r => SolverNS.SolverInvN r.S) :=
  SolverNS.solver_noPanicN hin hn hperm hpiv hf (Or.inl rfl) (Or.inr rfl)

/-- [S] `ns_no_panic` in the literal form: a panic of `solve()` is at one of the two
numerical-domain sites, and `solve()` never answers "outside the model" -/
theorem ns_solve_panics_only_numerically {P : Csc α} {q : Array α} {A : Csc α} {b : Array α}
    {cones : List (ConeT α)} {st : SolverNS.Settings α} {perm : Array Nat}
    (hin : SolverNS.InputOKN P q A b cones) (hn : 0 < P.n)
    (hperm : SolverNS.PermForN P q A b cones st perm) (hpiv : PivotOK st.lin) (hf : FmaxOK α)
    {S : SolverNS.Solver α} (h : SolverNS.Solver.new P q A b cones st perm = .ok S) :
    (∀ site, S.solve st = .error (.panic site) →
        site = "argument not in supported range" ∨ site = "backtrack_search: fuel")
      ∧ (∀ kind, S.solve st ≠ .error (.err kind))
      ∧ (∀ r, S.solve st = .ok r → SolverNS.SolverInvN r.S) := by
  have hs := ((ns_no_panic hin hn hperm hpiv hf).2 S h).2
  exact ⟨fun site hp => hs.panic_site hp, fun k => hs.not_err k, fun r hr => hs.of_ok hr⟩

/-- [S] `C04.ns_no_panic_by_cone_kind` (sharp form of `ns_no_panic`): **which cones a problem must
contain for a numerical-domain site to be reachable.**  For a solver object built by `new` on
well-formed input, a panic of `solve()` is
* `"argument not in supported range"` (`_wright_omega`) — and then the USER's cone list contains an
  exponential cone, or
* `"backtrack_search: fuel"` — and then the user's cone list contains an exponential, power or
  generalised power cone.
Every assert / index / `unreachable!()` of the power and generalised power cone code paths is
satisfied unconditionally; of the exponential cone's everything but `_wright_omega`'s range check. -/
theorem ns_no_panic_by_cone_kind {P : Csc α} {q : Array α} {A : Csc α} {b : Array α}
    {cones : List (ConeT α)} {st : SolverNS.Settings α} {perm : Array Nat}
    (hin : SolverNS.InputOKN P q A b cones) (hn : 0 < P.n)
    (hperm : SolverNS.PermForN P q A b cones st perm) (hpiv : PivotOK st.lin) (hf : FmaxOK α)
    {S : SolverNS.Solver α} (h : SolverNS.Solver.new P q A b cones st perm = .ok S) {site : String}
    (hp : S.solve st = .error (.panic site)) :
    (site = "argument not in supported range" ∧ SolverNS.userHasExp cones)
      ∨ (site = "backtrack_search: fuel" ∧ SolverNS.userHasNonsym cones) := by
  have hk := SolverNS.new_cone_kinds h
  rcases (SolverNS.solve_okOrFor hf st (SolverNS.solverNew_invQ hin hn hperm hpiv h)).panic_site hp with h1 | h2
  · exact Or.inl ⟨h1.1, hk.1 h1.2⟩
  · exact Or.inr ⟨h2.1, hk.2 h2.2⟩

/-- [S] `C04.ns_no_panic_symmetric`: a problem whose cones are all symmetric (zero / nonnegative /
second-order), run through the model WITH nonsymmetric cones, returns from every `solve()` — no
exception at all: on such problems the extended model proves what `C04.full_no_panic` proves for the
symmetric model. -/
theorem ns_no_panic_symmetric {P : Csc α} {q : Array α} {A : Csc α} {b : Array α}
    {cones : List (ConeT α)} {st : SolverNS.Settings α} {perm : Array Nat}
    (hin : SolverNS.InputOKN P q A b cones) (hn : 0 < P.n)
    (hperm : SolverNS.PermForN P q A b cones st perm) (hpiv : PivotOK st.lin) (hf : FmaxOK α)
    (hsym : ¬ SolverNS.userHasNonsym cones)
    {S : SolverNS.Solver α} (h : SolverNS.Solver.new P q A b cones st perm = .ok S) :
    ∃ r, S.solve st = .ok r ∧ SolverNS.SolverInvN r.S := by
  obtain ⟨r, hr, hI⟩ := SolverNS.solve_ok_symmetric hf st (SolverNS.solverNew_invQ hin hn hperm hpiv h)
    (fun hns => hsym ((SolverNS.new_cone_kinds h).2 hns))
  exact ⟨r, hr, hI⟩

/-- [S] `C04.ns_no_panic_without_exp`: without an exponential cone in the user's list (power and
generalised power cones allowed) the only way `solve()` does not return is the exhaustion of the
model's fuel for the unbounded `loop` of `backtrack_search` (non-termination in the code). -/
theorem ns_no_panic_without_exp {P : Csc α} {q : Array α} {A : Csc α} {b : Array α}
    {cones : List (ConeT α)} {st : SolverNS.Settings α} {perm : Array Nat}
    (hin : SolverNS.InputOKN P q A b cones) (hn : 0 < P.n)
    (hperm : SolverNS.PermForN P q A b cones st perm) (hpiv : PivotOK st.lin) (hf : FmaxOK α)
    (hne : ¬ SolverNS.userHasExp cones)
    {S : SolverNS.Solver α} (h : SolverNS.Solver.new P q A b cones st perm = .ok S) :
    SolverNS.OkOr (fun s => s = "backtrack_search: fuel") (S.solve st) (fun r => SolverNS.SolverInvN r.S) :=
  SolverNS.solve_okOr_noExp hf st (SolverNS.solverNew_invQ hin hn hperm hpiv h)
    (fun he => hne ((SolverNS.new_cone_kinds h).1 he))

/-- [S] `C04.ns_solve_iterate`: any number of successive `solve()` calls on one solver object: each
of them is covered (the invariant is re-established by every successful call) -/
theorem ns_solve_iterate (hf : FmaxOK α) (st : SolverNS.Settings α) (k : Nat) {S : SolverNS.Solver α}
    (h : SolverNS.SolverInvN S) :
    SolverNS.OkOr SolverNS.NumSite
      (Nat.rec (motive := fun _ => MErr (SolverNS.Solver α)) (pure S)
        (fun _ acc => acc >>= fun T => (T.solve st).map (·.S)) k) SolverNS.SolverInvN :=
  SolverNS.solve_iterate_okOrN hf (Or.inl rfl) (Or.inr rfl) st k h

end nsnopanic

/-! ### non-vacuity: concrete runs of the model with an exponential cone, evaluated by the kernel
at `Int` (`Lemmas/SolverNSExample.lean`) -/
namespace NSExamples
open Clarabel.SolverNS.Example
attribute [local instance] intFloatLike intSci

/-- the hypotheses `… = .ok …` are satisfiable: with `max_iter = 3` the model makes two passes —
the first switches the strategy `PrimalDual → Dual` and continues (a pass that goes on *and*
`iter += 1`), the second leaves the loop under `Dual` with `InsufficientProgress` … -/
example : (run 3).toOption.map summary = some (2, .insufficientProgress, 2, [false, true]) := run3
/-- … with `max_iter = 1` it makes `max_iter + 1` passes … -/
example : (run 1).toOption.map summary = some (2, .maxIterations, 1, [false, true]) := run1
/-- … and with `max_iter = 0` one pass -/
example : (run 0).toOption.map summary = some (1, .maxIterations, 0, [false]) := run0
/-- `new` succeeds on the example (hypothesis `hn` of `ns_solution_lengths`) -/
example : (newSolver 3).toOption.isSome = true := by decide +kernel

/-- the hypotheses of `ns_no_panic` hold on the example (one variable, a nonnegative and an exponential
cone): well-formed input, the ordering, the two scalar laws … -/
example : SolverNS.InputOKN P #[1] A #[1, 1, 1, 1] ([.nonneg 1, .exp] : List (ConeT Int)) := exInputOKN
example : SolverNS.PermForN P #[1] A #[1, 1, 1, 1] ([.nonneg 1, .exp] : List (ConeT Int)) (st 3) #[0, 1, 2, 3, 4] :=
  exPermForN
example : Clarabel.Solver.PivotOK (st 3).lin := exPivotOK 3
example : Clarabel.Solver.FmaxOK Int := exFmaxOK
/-- … `new` returns a solver object satisfying the invariant, its `solve()` returns `.ok` (neither
numerical-domain site is hit on this run) and the invariant holds on the object it leaves -/
example : ∃ S r, newSolver 3 = .ok S ∧ SolverNS.SolverInvN S ∧ S.solve (st 3) = .ok r ∧ SolverNS.SolverInvN r.S :=
  exSolve_inv

/-- the cone-kind hypotheses of `ns_no_panic_symmetric` / `ns_no_panic_without_exp` are satisfiable -/
example : ¬ SolverNS.userHasNonsym ([.nonneg 1, .soc 3, .zero 2] : List (ConeT Int)) := by
  rintro ⟨c, hc, h⟩
  simp only [List.mem_cons, List.not_mem_nil, or_false] at hc
  rcases hc with rfl | rfl | rfl <;> rcases h with h | ⟨a, h⟩ | ⟨al, d2, h⟩ <;> cases h
example : ¬ SolverNS.userHasExp ([.nonneg 1, .pow 2, .genpow #[1] 1] : List (ConeT Int)) := by
  intro h
  simp only [SolverNS.userHasExp, List.mem_cons, List.not_mem_nil, or_false] at h
  rcases h with h | h | h <;> cases h

end NSExamples

/-! ## Over ℝ: the `_wright_omega` site (`"argument not in supported range"`)

  `ns_no_panic` leaves two numerical-domain sites.  Over ℝ (`FloatLike ℝ`: `exp`/`log` are `Real.exp`/
  `Real.log`) the first needs no floating-point reasoning: at every point `is_primal_feasible` accepts the
  argument handed to `_wright_omega` is `> 1` (`C14.exp_wright_argument_pos`).

  CALL-SITE ANALYSIS (code = model).  `_wright_omega` is reached in `solve()` from
    (a) `update_scaling → update_Hs → use_primal_dual_scaling → gradient_primal(s)` — the current iterate
        `s`, `PrimalDual` strategy only (`SolverNS.scaleCones → updateScaling → updateScaling1 (.exp _)`);
    (b) `get_step_length → backtrack_step_to_barrier(α) → variables.barrier → cones.compute_barrier →
        barrier_primal(s + α·ds)` — combined step, `Dual` strategy, nonsymmetric problem only
        (`SolverNS.getStepLength → backtrackStepToBarrier → barrier → computeBarrier → computeBarrier1`).
  NEITHER site evaluates a point that `is_primal_feasible` was called on: `step_length` accepts
  `s + αs·ds` for this cone, but the `α` that reaches (b) is `min` over all cones, times
  `max_step_fraction`, times `stepᵏ` — shorter (or `0`, when a search gave up) —, and (a) sees the iterate
  `s + α·ds` of the previous pass (the constants of `unit_initialization` on the first).  Both are
  nevertheless safe over ℝ because the open exponential cone is convex; what is proved below is the
  cone-level induction step of that invariant, the start, and the two call sites on the solver's cone
  objects; then — with Round 7's interior invariant (`InteriorN`) threaded through `solve()` next to the
  shape invariant — the solve-level statements `ns_wright_sites_safe_on_reached`,
  `ns_wright_site_unreachable_real` and `ns_no_panic_real` at the end of the section.
-/
section nsreal
open Clarabel.Nonsym

/-- [R] `C04.ns_wright_site_unreachable_real_partial` (cone-level induction step; the solve-level
statement is `ns_wright_site_unreachable_real` below).  Over ℝ, from an iterate `s` of an exponential cone that
`is_primal_feasible` accepts, after `step_length` returned `(αz, αs)`, for EVERY step `t ∈ [0, αs]`
(the solver's final `α` is one of them):
* the new iterate `s + t·ds` is accepted again;
* `compute_barrier(z, s, dz, ds, t)` returns — call site (b) cannot hit the range panic;
* `update_scaling(s + t·ds, z', μ, strategy)` returns for all `z'`, `μ`, strategy — call site (a) of the
  next pass cannot hit it. -/
theorem ns_wright_site_unreachable_real_partial (dz ds z s : V3 ℝ) (step amin amax : ℝ) (fuel : Nat)
    (az as : ℝ) (h : Exp.stepLength dz ds z s step amin amax fuel = .ok (az, as))
    (hs : Exp.isPrimalFeasible s.1 s.2.1 s.2.2 = true) (t : ℝ) (ht0 : 0 ≤ t) (ht : t ≤ as) :
    Exp.isPrimalFeasible (SolverNS.segPt s ds t).1 (SolverNS.segPt s ds t).2.1
        (SolverNS.segPt s ds t).2.2 = true ∧
    (∃ b, Exp.computeBarrier z s dz ds t = .ok b) ∧
    (∀ (z' : V3 ℝ) (mu : ℝ) (dual : Bool),
      ∃ K, Exp.updateScaling (SolverNS.segPt s ds t) z' mu dual = .ok K) :=
  SolverNS.exp_step_keeps_wright_safe dz ds z s step amin amax fuel az as h hs t ht0 ht

/-- non-vacuity: from `z = s = (−1, 1, 1)` with a zero direction `step_length` returns `(1, 1)`, and
`s` passes `is_primal_feasible` -/
example : Exp.stepLength (0, 0, 0) (0, 0, 0) (-1, 1, 1) (-1, 1, 1) (4 / 5 : ℝ) (1 / 10000) 1 1
      = .ok (1, 1) ∧ Exp.isPrimalFeasible (-1 : ℝ) 1 1 = true := by
  constructor
  · simp [Exp.stepLength, Nonsym.backtrackSearch, Exp.inDual, Exp.inPrimal, Vec.waxpby, v3toArray,
      v3ofArray?, Exp.isDualFeasible, Exp.isPrimalFeasible, logsafe, bind, Except.bind, pure,
      Except.pure]
    norm_num
  · exact (C14.exp_isPrimalFeasible_iff (-1) 1 1).mpr ⟨by norm_num, by norm_num, by
      rw [one_mul]
      calc Real.exp (-1 / 1) < Real.exp 0 := Real.exp_lt_exp.mpr (by norm_num)
        _ = 1 := Real.exp_zero⟩

/-- [R] `C04.ns_wright_start_real`: the first pass — the exponential cone's `unit_initialization`
constants pass `is_primal_feasible`, so `update_scaling` on the starting point returns for every `z`,
`μ` and strategy. -/
theorem ns_wright_start_real (z : V3 ℝ) (mu : ℝ) (dual : Bool) :
    Exp.isPrimalFeasible (Exp.unitInitialization (α := ℝ)).1 (Exp.unitInitialization (α := ℝ)).2.1
      (Exp.unitInitialization (α := ℝ)).2.2 = true ∧
    ∃ K, Exp.updateScaling (Exp.unitInitialization (α := ℝ)) z mu dual = .ok K :=
  ⟨SolverNS.exp_unit_start_feasible,
    Exp.updateScaling_ok_of_feasible _ z mu dual (Or.inr SolverNS.exp_unit_start_feasible)⟩

/-- [R] `C04.ns_wright_call_sites_real`: the two call sites on the SOLVER's cone objects (`ConeSt.exp`,
3-element slices).  `update_scaling` returns when the strategy is `Dual` or the `s` slice passes
`is_primal_feasible`; `compute_barrier` returns when the candidate `s + α·ds` passes it; conversely a
panic of either (at any site) means the evaluated point is one `is_primal_feasible` rejects. -/
theorem ns_wright_call_sites_real (K : Exp.State ℝ) {z s dz ds : Array ℝ} {zv sv dzv dsv : V3 ℝ}
    (hz : v3ofArray? z = some zv) (hs : v3ofArray? s = some sv) (hdz : v3ofArray? dz = some dzv)
    (hds : v3ofArray? ds = some dsv) (mu a : ℝ) (dual : Bool) :
    ((dual = true ∨ Exp.isPrimalFeasible sv.1 sv.2.1 sv.2.2 = true) →
      ∃ K', SolverNS.updateScaling1 (.exp K) s z mu dual = .ok (true, .exp K')) ∧
    (Exp.isPrimalFeasible (SolverNS.segPt sv dsv a).1 (SolverNS.segPt sv dsv a).2.1
        (SolverNS.segPt sv dsv a).2.2 = true →
      ∃ b, SolverNS.computeBarrier1 (.exp K) z s dz ds a = .ok b) ∧
    (∀ site, SolverNS.updateScaling1 (.exp K) s z mu dual = .error (.panic site) →
      dual = false ∧ Exp.isPrimalFeasible sv.1 sv.2.1 sv.2.2 = false) ∧
    (∀ site, SolverNS.computeBarrier1 (.exp K) z s dz ds a = .error (.panic site) →
      Exp.isPrimalFeasible (SolverNS.segPt sv dsv a).1 (SolverNS.segPt sv dsv a).2.1
        (SolverNS.segPt sv dsv a).2.2 = false) :=
  ⟨SolverNS.updateScaling1_exp_ok_real K hs hz mu dual,
    SolverNS.computeBarrier1_exp_ok_real K hz hs hdz hds a,
    fun site => (SolverNS.exp_cone_wright_panic_rejected K hz hs hdz hds mu a dual site).1,
    fun site => (SolverNS.exp_cone_wright_panic_rejected K hz hs hdz hds mu a dual site).2⟩

/-- non-vacuity: 3-element slices parse -/
example : v3ofArray? (#[-1, 1, 1] : Array ℝ) = some (-1, 1, 1) := rfl

/-- [R] `C04.ns_no_panic_real_partial`: `ns_no_panic_by_cone_kind` over ℝ, where `FmaxOK ℝ` is a
theorem: for a solver object built by `new` on well-formed input a panic of `solve()` is the
`_wright_omega` range check (and then the user's list has an exponential cone) or the
`backtrack_search` fuel (and then it has a nonsymmetric cone); never `.err`.  (`_partial`: no hypothesis on the
settings or the cone parameters; with them the first alternative is excluded: `ns_no_panic_real`.) -/
theorem ns_no_panic_real_partial {P : Csc ℝ} {q : Array ℝ} {A : Csc ℝ} {b : Array ℝ}
    {cones : List (ConeT ℝ)} {st : SolverNS.Settings ℝ} {perm : Array Nat}
    (hin : SolverNS.InputOKN P q A b cones) (hn : 0 < P.n)
    (hperm : SolverNS.PermForN P q A b cones st perm) (hpiv : Clarabel.Solver.PivotOK st.lin)
    {S : SolverNS.Solver ℝ} (h : SolverNS.Solver.new P q A b cones st perm = .ok S) :
    (∀ site, S.solve st = .error (.panic site) →
      (site = "argument not in supported range" ∧ SolverNS.userHasExp cones)
        ∨ (site = "backtrack_search: fuel" ∧ SolverNS.userHasNonsym cones))
    ∧ (∀ kind, S.solve st ≠ .error (.err kind))
    ∧ (∀ r, S.solve st = .ok r → SolverNS.SolverInvN r.S) :=
  ⟨fun _ hp => ns_no_panic_by_cone_kind hin hn hperm hpiv SolverNS.fmaxOK_real_ns h hp,
    (ns_solve_panics_only_numerically hin hn hperm hpiv SolverNS.fmaxOK_real_ns h).2.1,
    (ns_solve_panics_only_numerically hin hn hperm hpiv SolverNS.fmaxOK_real_ns h).2.2⟩

/-- [R] `C04.ns_wright_composite_real`: the two call sites on the COMPOSITE cone and up to
`backtrack_step_to_barrier`, over ℝ, with NO exception left (no panic at any site, no `.err`).  On
consistently sized cone objects (`ConesFull`, what `new` builds and every pass keeps) and vectors of
the problem's dimension:
(a) `CompositeCone::update_scaling(s, z, μ, strategy)` (= `scale_cones`) returns when the strategy is
    `Dual` or the `s` slice of every exponential constituent passes `is_primal_feasible`;
(b) `CompositeCone::compute_barrier(z, s, dz, ds, α)` returns when the candidate `s + α·ds` of every
    exponential constituent passes it;
(b′) `backtrack_step_to_barrier(α)` returns — none of its up to 50 `barrier_primal` evaluations hits
    the range check — when `0 ≤ step ≤ 1`, `0 ≤ α` and the exponential slices of the current iterate
    and of `s + α·ds` pass it (every evaluated point `s + stepᵏ·α·ds` lies between: convexity). -/
theorem ns_wright_composite_real (cones : List (SolverNS.ConeSt ℝ)) (hc : SolverNS.ConesFull cones)
    {n m : Nat} (hm : SolverNS.numelAll cones = m) {v lhs : Clarabel.Residuals.Vars ℝ}
    (hv : Clarabel.Solver.VarsSized n m v) (hl : Clarabel.Solver.VarsSized n m lhs) :
    (∀ (mu : ℝ) (dual : Bool),
      (dual = true ∨ ∀ ss, SolverNS.cutE cones v.s "update_scaling s" = .ok ss →
        SolverNS.ExpSlicesOK cones ss) →
      ∃ r, SolverNS.scaleCones v cones mu dual = .ok r) ∧
    (∀ a : ℝ, SolverNS.ExpCandidatesOK cones v.z v.s lhs.z lhs.s a →
      ∃ b, SolverNS.computeBarrier cones v.z v.s lhs.z lhs.s a = .ok b) ∧
    (∀ (step a : ℝ) (fuel k : Nat), 0 ≤ step → step ≤ 1 → 0 ≤ a →
      SolverNS.ExpCandidatesOK cones v.z v.s lhs.z lhs.s 0 →
      SolverNS.ExpCandidatesOK cones v.z v.s lhs.z lhs.s a →
      ∃ r, SolverNS.backtrackStepToBarrier step v lhs cones fuel a k = .ok r) := by
  refine ⟨fun mu dual hf => ?_, fun a hf => ?_, fun step a fuel k h0 h1 ha hf0 hfa => ?_⟩
  · exact SolverNS.updateScaling_ok_real cones v.s v.z mu dual hc (by rw [hm]; exact hv.s)
      (by rw [hm]; exact hv.z) hf
  · exact SolverNS.computeBarrier_ok_real cones v.z v.s lhs.z lhs.s a hc (by rw [hm]; exact hv.z)
      (by rw [hm]; exact hv.s) (by rw [hm]; exact hl.z) (by rw [hm]; exact hl.s) hf
  · exact SolverNS.okOr_false_exists
      (SolverNS.backtrackStepToBarrier_ok_real hc hm hv hl h0 h1 hf0 fuel a k ha hfa)

/-- non-vacuity: on the composite `[exp]` with `z = s = (−1, 1, 1)` and a zero direction the
hypotheses of (a), (b), (b′) hold for every `α` -/
example (K : Exp.State ℝ) (a : ℝ) :
    SolverNS.ExpCandidatesOK [SolverNS.ConeSt.exp K] #[-1, 1, 1] #[-1, 1, 1] #[0, 0, 0] #[0, 0, 0] a :=
  SolverNS.expCandidatesOK_single K rfl rfl (sv := (-1, 1, 1)) (dsv := (0, 0, 0)) rfl rfl rfl rfl a
    (SolverNS.exp_feasible_example_seg a)

example (K : Exp.State ℝ) : ∀ ss, SolverNS.cutE [SolverNS.ConeSt.exp K] (#[-1, 1, 1] : Array ℝ)
    "update_scaling s" = .ok ss → SolverNS.ExpSlicesOK [SolverNS.ConeSt.exp K] ss :=
  SolverNS.expSlicesOK_single K (sv := (-1, 1, 1)) rfl rfl SolverNS.exp_feasible_example

example (K : Exp.State ℝ) : SolverNS.ConesFull [SolverNS.ConeSt.exp K] := by
  intro c hc
  simp only [List.mem_singleton] at hc
  subst hc
  trivial

/-! ### the solve-level statements (the interior invariant of Round 7 threaded through `solve()`) -/

/-- [R] `C04.ns_wright_sites_safe_on_reached`: the two `_wright_omega` call sites at every loop state
a `solve()` REACHES.  On a sized solver state with admissible cone parameters (`ValidCones`:
`0 < a < 1` for power cones, positive exponents summing to one for generalised power cones), with
`0 < max_step_fraction < 1`, `T::max_value() > 0`, `0 ≤ linesearch_backtrack_step ≤ 1`: for every loop
state `Lm` reached from `default_start()` through passes that go on to the next one, the iterate is
strictly interior (`InteriorN`), (a) `scale_cones` on it returns whatever `μ` and the strategy, and
(b) `backtrack_step_to_barrier(a0)` returns for the `a0` that `calc_step_length(Combined)` returned,
whatever the direction and the (consistently sized, same layout) scaled cone list. -/
theorem ns_wright_sites_safe_on_reached {st : SolverNS.Settings ℝ} (hf0 : 0 < st.maxStepFraction)
    (hf1 : st.maxStepFraction < 1) (hmv : 0 < st.maxValue) (hb0 : 0 ≤ st.linesearchBacktrackStep)
    (hb1 : st.linesearchBacktrackStep ≤ 1) {S S0 : SolverNS.SolverSt ℝ} {Lm : SolverNS.LoopSt ℝ}
    (hS : SolverNS.SizedN S) (hv : Equil.ValidCones (SolverNS.layoutN S))
    (hds : (SolverNS.resetInfo S).defaultStart st = .ok S0)
    (hreach : SolverNS.Reach st (SolverNS.initLoopSt S0) Lm) :
    SolverNS.InteriorN (SolverNS.layoutN S) Lm.S.variables ∧
    (∀ (mu : ℝ) (dual : Bool), ∃ r, SolverNS.scaleCones Lm.S.variables Lm.S.cones mu dual = .ok r) ∧
    (∀ (cs : List (SolverNS.ConeSt ℝ)) (d : Clarabel.Residuals.Vars ℝ) (a0 : ℝ),
      cs.map SolverNS.ConeSt.typ = SolverNS.layoutN S → SolverNS.ConesFull cs →
      SolverNS.numelAll cs = Lm.S.data.m → Clarabel.Solver.VarsSized Lm.S.data.n Lm.S.data.m d →
      SolverNS.calcStepLength st.ls Lm.S.variables d cs st.maxValue st.maxStepFraction .combined
        = .ok a0 →
      ∀ fuel k, ∃ r, SolverNS.backtrackStepToBarrier st.linesearchBacktrackStep Lm.S.variables d cs
        fuel a0 k = .ok r) :=
  SolverNS.wright_sites_safe_on_reached hf0 hf1 hmv hb0 hb1 hS hv hds hreach

/-- [R] `C04.ns_wright_site_unreachable_real`: **over ℝ a `solve()` of the model with nonsymmetric
cones never stops at `panic!("argument not in supported range")`** (`_wright_omega`).  Hypotheses:
those of `ns_no_panic` (well-formed input, `n ≥ 1`, `perm` a permutation, `PivotOK`), admissible cone
parameters of the solver's cone layout (`ValidCones`), `0 < max_step_fraction < 1`,
`T::max_value() > 0`, `0 ≤ linesearch_backtrack_step ≤ 1` (the defaults: 0.99, f64::MAX, 0.8).
Proof: the interior invariant of `C01.ns_full_interior_invariant` holds at every REACHED loop state
(not only on the records of a returned solve), and at an interior iterate both call sites are safe
(`ns_wright_sites_safe_on_reached`); every other stage is total or stops at the fuel only. -/
theorem ns_wright_site_unreachable_real {P : Csc ℝ} {q : Array ℝ} {A : Csc ℝ} {b : Array ℝ}
    {cones : List (ConeT ℝ)} {st : SolverNS.Settings ℝ} {perm : Array Nat}
    (hin : SolverNS.InputOKN P q A b cones) (hn : 0 < P.n)
    (hperm : SolverNS.PermForN P q A b cones st perm) (hpiv : Clarabel.Solver.PivotOK st.lin)
    (hf0 : 0 < st.maxStepFraction) (hf1 : st.maxStepFraction < 1) (hmv : 0 < st.maxValue)
    (hb0 : 0 ≤ st.linesearchBacktrackStep) (hb1 : st.linesearchBacktrackStep ≤ 1)
    {S : SolverNS.Solver ℝ} (h : SolverNS.Solver.new P q A b cones st perm = .ok S)
    (hv : Equil.ValidCones (SolverNS.layoutN S.st)) :
    S.solve st ≠ .error (.panic "argument not in supported range") := by
  intro hp
  have hs := SolverNS.solve_noW hf0 hf1 hmv hb0 hb1 (SolverNS.solverNew_invQ hin hn hperm hpiv h)
    (SolverNS.SizedN.of_new h) hv
  have : SolverNS.FuelSite "argument not in supported range" := hs.panic_site hp
  exact absurd this (by unfold SolverNS.FuelSite; decide)

/-- [R] `C04.ns_no_panic_real`: `ns_no_panic` over ℝ with the first numerical-domain site removed —
for all well-formed inputs `new` does not panic, the object it returns satisfies the invariant, and
`solve()` on it returns `.ok r` with the invariant on `r.S` again, or stops at
`"backtrack_search: fuel"` (the model's fuel for the unbounded `loop` of `backtrack_search`:
non-termination in the code) — and nothing else. -/
theorem ns_no_panic_real {P : Csc ℝ} {q : Array ℝ} {A : Csc ℝ} {b : Array ℝ}
    {cones : List (ConeT ℝ)} {st : SolverNS.Settings ℝ} {perm : Array Nat}
    (hin : SolverNS.InputOKN P q A b cones) (hn : 0 < P.n)
    (hperm : SolverNS.PermForN P q A b cones st perm) (hpiv : Clarabel.Solver.PivotOK st.lin)
    (hf0 : 0 < st.maxStepFraction) (hf1 : st.maxStepFraction < 1) (hmv : 0 < st.maxValue)
    (hb0 : 0 ≤ st.linesearchBacktrackStep) (hb1 : st.linesearchBacktrackStep ≤ 1) :
    Clarabel.Solver.NoPanic (SolverNS.Solver.new P q A b cones st perm) ∧
      ∀ S, SolverNS.Solver.new P q A b cones st perm = .ok S →
        Equil.ValidCones (SolverNS.layoutN S.st) → SolverNS.SolverInvN S ∧
        SolverNS.OkOr (fun s => s = "backtrack_search: fuel") (S.solve st)
          (fun r => SolverNS.SolverInvN r.S) :=
  ⟨SolverNS.solverNew_noPanicQ hin hn hperm hpiv, fun S h hv =>
    ⟨SolverNS.solverNew_invQ hin hn hperm hpiv h,
      SolverNS.solve_noW hf0 hf1 hmv hb0 hb1 (SolverNS.solverNew_invQ hin hn hperm hpiv h)
        (SolverNS.SizedN.of_new h) hv⟩⟩

/-- non-vacuity of the settings hypotheses (the defaults) and of `ValidCones` on a layout with an
exponential and a power cone -/
example : (0 : ℝ) < 0.99 ∧ (0.99 : ℝ) < 1 ∧ (0 : ℝ) ≤ 0.8 ∧ (0.8 : ℝ) ≤ 1 := by norm_num

example : Equil.ValidCones ([.nonneg 1, .exp, .pow (1 / 2)] : List (ConeT ℝ)) := by
  intro c hc
  simp only [List.mem_cons, List.not_mem_nil, or_false] at hc
  rcases hc with rfl | rfl | rfl
  · trivial
  · trivial
  · exact ⟨by norm_num, by norm_num⟩

/-- [R] `C04.ns_solve_keeps_invariant_real` (the second, third, … `solve()`): over ℝ, on EVERY solver
object satisfying the state invariant, sized and with admissible cone parameters — the ones `new` builds
and the ones an earlier `solve()` left behind —, `solve()` returns `.ok r` and `r.S` satisfies the same
three conditions again (same cone layout), or it stops at the fuel of `backtrack_search`; never at
`_wright_omega`'s range check, never `.err`. -/
theorem ns_solve_keeps_invariant_real {st : SolverNS.Settings ℝ} (hf0 : 0 < st.maxStepFraction)
    (hf1 : st.maxStepFraction < 1) (hmv : 0 < st.maxValue) (hb0 : 0 ≤ st.linesearchBacktrackStep)
    (hb1 : st.linesearchBacktrackStep ≤ 1) {S : SolverNS.Solver ℝ} (h : SolverNS.SolverInvN S)
    (hS : SolverNS.SizedN S.st) (hv : Equil.ValidCones (SolverNS.layoutN S.st)) :
    SolverNS.OkOr (fun s => s = "backtrack_search: fuel") (S.solve st)
      (fun r => SolverNS.SolverInvN r.S ∧ SolverNS.SizedN r.S.st
        ∧ Equil.ValidCones (SolverNS.layoutN r.S.st)) := by
  have hs := SolverNS.solve_noW hf0 hf1 hmv hb0 hb1 h hS hv
  cases hres : S.solve st with
  | ok r =>
    rw [hres] at hs
    obtain ⟨g1, _, g3⟩ := SolverNS.solve_sizedN hS hres
    exact ⟨hs, g1, by rw [g3]; exact hv⟩
  | error e =>
    rw [hres] at hs
    cases e with
    | panic site => exact hs
    | err k => exact hs.elim

/-! ### the last site: the model's fuel for the unbounded `loop` of `backtrack_search` suffices

Rust (`nonsymmetric_common.rs:164`): `α = α_init; loop { work = q + α·dq; if in_cone(work) {break};
α *= step; if α < α_min { α = 0; break } }`.  Call sites (`step_length` of `expcone.rs:152`, `powcone.rs:155`,
`genpowcone.rs:243`, dual then primal; model `SolverNS.stepFns`):

| | model | Rust |
|---|---|---|
| fuel | `st.btFuel` (model only; drivers: 200000) | — (unbounded `loop`) |
| `α_init` | running `α` of `innerfcn(α, true)`, `≤ αmax = min(ατ, ακ, 1) ≤ 1` | `αmax` argument |
| `α_min` | `st.minTerminateStepLength` | `settings.min_terminate_step_length` (1e-4) |
| `step` | `st.linesearchBacktrackStep` | `settings.linesearch_backtrack_step` (0.8) |

`SolverNS.FuelOK st.ls` : `0 < btFuel ∧ 0 ≤ step ∧ step ^ btFuel < α_min`.  Defaults: fuel `≥ 42` suffices and
`41` does not (`backtrack_fuel_default`).  OBSERVATION (code, not a panic): for `step = 1` — not excluded by
any settings validation — the loop NEVER ends when the start is infeasible and `α_init ≥ α_min`
(`backtrack_search_step_one_never_returns`); likewise for a NaN `α_init`/`step`/`α_min` in `f64`
(`work` is NaN, the `>`-tests of the cones fail, `NaN < α_min` is false).  `FuelOK` with `α_min ≤ 1` forces
`step < 1`. -/

/-- [R] `C04.backtrack_search_fuel_suffices`: with positive fuel `N` and `α_init·step^N < α_min` the model's
`backtrack_search` returns — whatever the cone test answers, with no sign condition on `step`, `α_init`
— a value that is `0` or `α_init·step^k`, `k < N`, accepted by the cone test; in particular the
result is never the fuel panic. -/
theorem backtrack_search_fuel_suffices (dq q : Array ℝ) (aInit aMin step : ℝ)
    (inCone : Array ℝ → Bool) {N : Nat} (hN : 0 < N) (h : aInit * step ^ N < aMin) :
    ∃ r, Nonsym.backtrackSearch dq q aInit aMin step inCone N = .ok r
      ∧ (r = 0 ∨ ∃ k, k < N ∧ r = aInit * step ^ k
          ∧ inCone (Vec.waxpby 1 q (aInit * step ^ k) dq) = true) := by
  obtain ⟨r, hr⟩ := SolverNS.backtrackSearch_fuel_ok' dq q aInit aMin step inCone hN h
  exact ⟨r, hr, SolverNS.backtrackSearch_value dq q aMin step inCone N aInit r hr⟩

example : (0 : ℕ) < 42 ∧ (1 : ℝ) * 0.8 ^ 42 < 1e-4 := by norm_num

/-- [R] `C04.backtrack_search_fuel_sharp`: the inequality is sharp — when the cone test never accepts and
`α_min ≤ α_init·step^k` for `1 ≤ k ≤ N`, fuel `N` IS exhausted (the Rust loop is still running after `N`
rounds). -/
theorem backtrack_search_fuel_sharp (dq q : Array ℝ) (aInit aMin step : ℝ) (inCone : Array ℝ → Bool)
    (hC : ∀ w, inCone w = false) (N : Nat) (h : ∀ k, 1 ≤ k → k ≤ N → aMin ≤ aInit * step ^ k) :
    Nonsym.backtrackSearch dq q aInit aMin step inCone N = .error (.panic "backtrack_search: fuel") :=
  SolverNS.backtrackSearch_fuel_exhausted dq q aMin step inCone hC N aInit h

/-- [R] `C04.backtrack_search_step_one_never_returns` (observation on the code): for `step = 1`, a start
that is not in the cone (here: a test that never accepts) and `α_min ≤ α_init`, NO fuel suffices —
`backtrack_search` in the code does not terminate. -/
theorem backtrack_search_step_one_never_returns (dq q : Array ℝ) (aInit aMin : ℝ)
    (inCone : Array ℝ → Bool) (hC : ∀ w, inCone w = false) (h : aMin ≤ aInit) (N : Nat) :
    Nonsym.backtrackSearch dq q aInit aMin 1 inCone N = .error (.panic "backtrack_search: fuel") :=
  SolverNS.backtrackSearch_step_one_never dq q aInit aMin inCone hC h N

example : (1e-4 : ℝ) ≤ 0.99 := by norm_num

/-- [R] `C04.backtrack_fuel_default`: for the default settings (`linesearch_backtrack_step = 0.8`,
`min_terminate_step_length = 1e-4`) every fuel `≥ 42` satisfies `FuelOK` (the drivers' 200000 does), and
fuel `41` is exhausted by a start `α_init = 1` whose direction never enters the cone. -/
theorem backtrack_fuel_default :
    (∀ N, 42 ≤ N → SolverNS.FuelOK (⟨0.8, 1e-4, N⟩ : SolverNS.LineSearch ℝ))
    ∧ ∀ (dq q : Array ℝ) (inCone : Array ℝ → Bool), (∀ w, inCone w = false) →
        Nonsym.backtrackSearch dq q 1 1e-4 0.8 inCone 41 = .error (.panic "backtrack_search: fuel") :=
  ⟨fun _ hN => SolverNS.fuelOK_default hN, SolverNS.default_fuel_41_exhausted⟩

/-- [R] `C04.backtrack_fuel_ok_of_le`: in general, `0 ≤ step ≤ 1`, a witness exponent `0 < n ≤ fuel` with
`step^n < α_min` (for `0 < step < 1`: any `n > log α_min / log step`) give `FuelOK`. -/
theorem backtrack_fuel_ok_of_le {ls : SolverNS.LineSearch ℝ} (h0 : 0 ≤ ls.step) (h1 : ls.step ≤ 1)
    {n : Nat} (hn : 0 < n) (hle : n ≤ ls.fuel) (h : ls.step ^ n < ls.amin) : SolverNS.FuelOK ls :=
  SolverNS.FuelOK.of_le h0 h1 hn hle h

example : SolverNS.FuelOK (⟨0.8, 1e-4, 200000⟩ : SolverNS.LineSearch ℝ) :=
  backtrack_fuel_ok_of_le (n := 42) (by norm_num) (by norm_num) (by norm_num) (by norm_num)
    (by norm_num)

/-- [R] `C04.ns_solve_total_real`: TOTAL panic-freedom of the whole-solver model with nonsymmetric
cones over ℝ — under the hypotheses of `ns_no_panic_real` plus `FuelOK st.ls` (`0 < btFuel`,
`linesearch_backtrack_step ^ btFuel < min_terminate_step_length`): `new` does not panic, the object it
returns satisfies the invariant, and `solve()` on it returns `.ok r` with the invariant on `r.S` again.
No exception is left (no panic at any site, no `.err`). -/
theorem ns_solve_total_real {P : Csc ℝ} {q : Array ℝ} {A : Csc ℝ} {b : Array ℝ}
    {cones : List (ConeT ℝ)} {st : SolverNS.Settings ℝ} {perm : Array Nat}
    (hin : SolverNS.InputOKN P q A b cones) (hn : 0 < P.n)
    (hperm : SolverNS.PermForN P q A b cones st perm) (hpiv : Clarabel.Solver.PivotOK st.lin)
    (hf0 : 0 < st.maxStepFraction) (hf1 : st.maxStepFraction < 1) (hmv : 0 < st.maxValue)
    (hb0 : 0 ≤ st.linesearchBacktrackStep) (hb1 : st.linesearchBacktrackStep ≤ 1)
    (hF : SolverNS.FuelOK st.ls) :
    Clarabel.Solver.NoPanic (SolverNS.Solver.new P q A b cones st perm) ∧
      ∀ S, SolverNS.Solver.new P q A b cones st perm = .ok S →
        Equil.ValidCones (SolverNS.layoutN S.st) → SolverNS.SolverInvN S ∧
        ∃ r, S.solve st = .ok r ∧ SolverNS.SolverInvN r.S :=
  ⟨SolverNS.solverNew_noPanicQ hin hn hperm hpiv, fun S h hv =>
    ⟨SolverNS.solverNew_invQ hin hn hperm hpiv h,
      SolverNS.solve_total_real hf0 hf1 hmv hb0 hb1 hF (SolverNS.solverNew_invQ hin hn hperm hpiv h)
        (SolverNS.SizedN.of_new h) hv⟩⟩

/-- [R] `C04.ns_solve_total_keeps_invariant_real` (the second, third, … `solve()`): over ℝ, under `FuelOK`,
on EVERY solver object satisfying the state invariant, sized and with admissible cone parameters,
`solve()` returns `.ok r` and `r.S` satisfies the same three conditions again. -/
theorem ns_solve_total_keeps_invariant_real {st : SolverNS.Settings ℝ} (hf0 : 0 < st.maxStepFraction)
    (hf1 : st.maxStepFraction < 1) (hmv : 0 < st.maxValue) (hb0 : 0 ≤ st.linesearchBacktrackStep)
    (hb1 : st.linesearchBacktrackStep ≤ 1) (hF : SolverNS.FuelOK st.ls) {S : SolverNS.Solver ℝ}
    (h : SolverNS.SolverInvN S) (hS : SolverNS.SizedN S.st)
    (hv : Equil.ValidCones (SolverNS.layoutN S.st)) :
    ∃ r, S.solve st = .ok r ∧ SolverNS.SolverInvN r.S ∧ SolverNS.SizedN r.S.st
        ∧ Equil.ValidCones (SolverNS.layoutN r.S.st) := by
  obtain ⟨r, hr, hI⟩ := SolverNS.solve_total_real hf0 hf1 hmv hb0 hb1 hF h hS hv
  obtain ⟨g1, _, g3⟩ := SolverNS.solve_sizedN hS hr
  exact ⟨r, hr, hI, g1, by rw [g3]; exact hv⟩

end nsreal

end Clarabel.C04
