/-
  C02 — infeasibility verdicts carry a valid Farkas-type certificate.
  Property theorems and non-vacuity examples only.
-/
import ClarabelProofs.Lemmas.InfoConv
import ClarabelProofs.Lemmas.InfoCert
import ClarabelModel.Unscale
import ClarabelProofs.Lemmas.ScalarInst
import Mathlib.Tactic.NormNum
import Mathlib.Data.Fin.VecNotation
import Mathlib.Algebra.BigOperators.Fin
import ClarabelProofs.Lemmas.InfoEndToEnd
import ClarabelProofs.Lemmas.InfoEndToEndExample
import Mathlib.Tactic.FinCases
import ClarabelProofs.Lemmas.InfoConesAll
import ClarabelProofs.Lemmas.InfoPresolveUser
import ClarabelProofs.Lemmas.InfoRollback
import ClarabelProofs.Props.C02Full
import ClarabelProofs.Props.C02NS
import ClarabelProofs.Props.C02Total
import ClarabelProofs.Props.C02NSTotal

namespace Clarabel.C02
open Clarabel.Dense Clarabel.Info Finset

variable {n m : ℕ}

/-- **[F] `C02.primal_cert`** (over `ℝ`, exact arithmetic).  If `is_primal_infeasible` holds
for an `info` whose `res_primal_inf` is the value `Info.update` assigns, then the
κ-normalised certificate `z = Eẑ/(cκ)` returned by `unscale` satisfies, on the USER's data,
`c·κ·bᵀz < −tol_abs` (so `bᵀz < 0`) and
`‖Aᵀz‖₂ < tol_rel · c · (−bᵀz) · max(1, κ‖z‖₂)` — with the constants `c`, `κ` exactly as
the code's test contains them. -/
theorem primal_cert (p : Problem ℝ n m) (sc : Scaling ℝ n m) (zh : Fin m → ℝ)
    (κ tabs trel : ℝ) (i : InfoS ℝ)
    (hd : ∀ j, 0 < sc.d j) (hc : 0 < sc.c) (hκ : 0 < κ) (htabs : 0 ≤ tabs)
    (hres : i.res_primal_inf = resPrimalInf p sc zh)
    (h : isPrimalInfeasible i (dot (p.scaled sc).b zh) tabs trel = true) :
    sc.c * κ * dot p.b (unZ sc κ zh) < -tabs
    ∧ dot p.b (unZ sc κ zh) < 0
    ∧ nrm (mulVT p.A (unZ sc κ zh))
        < trel * sc.c * (-(dot p.b (unZ sc κ zh))) * max 1 (κ * nrm (unZ sc κ zh)) := by
  obtain ⟨h1, h2⟩ := (isPrimalInfeasible_iff i _ _ _).mp h
  rw [dot_bz_unscale p sc zh κ hc.ne' hκ.ne'] at h1 h2
  set bz := dot p.b (unZ sc κ zh) with hbz
  have hck : 0 < sc.c * κ := mul_pos hc hκ
  have hneg : bz < 0 := by
    by_contra hcon
    have : 0 ≤ sc.c * κ * bz := mul_nonneg hck.le (not_lt.mp hcon)
    linarith
  refine ⟨h1, hneg, ?_⟩
  rw [hres] at h2
  unfold resPrimalInf at h2
  rw [nrm_Atz p sc zh κ hd hc hκ, nrm_unZ sc zh κ hc hκ]
  set N := nrm (fun j => rxInf (p.scaled sc) zh j * (1 / sc.d j)) with hN
  set Z := nrm (fun i => zh i * sc.e i) with hZ
  have hM : 0 < max 1 (Z * (1 / sc.c)) := lt_of_lt_of_le one_pos (le_max_left _ _)
  have h3 : N * (1 / sc.c) < -trel * (sc.c * κ * bz) * max 1 (Z * (1 / sc.c)) := by
    rwa [div_lt_iff₀ hM] at h2
  have e1 : κ * (Z * (1 / κ * (1 / sc.c))) = Z * (1 / sc.c) := by
    field_simp
  rw [e1]
  have h4 : N * (1 / sc.c) * (1 / κ) < -trel * (sc.c * κ * bz) * max 1 (Z * (1 / sc.c)) * (1 / κ) :=
    mul_lt_mul_of_pos_right h3 (by positivity)
  calc N * (1 / sc.c * (1 / κ)) = N * (1 / sc.c) * (1 / κ) := by ring
    _ < -trel * (sc.c * κ * bz) * max 1 (Z * (1 / sc.c)) * (1 / κ) := h4
    _ = trel * sc.c * (-bz) * max 1 (Z * (1 / sc.c)) := by field_simp

/-- **[F] `C02.dual_cert`.**  If `is_dual_infeasible` holds for an `info` whose
`res_dual_inf` is the value `Info.update` assigns, the κ-normalised `x = Dx̂/κ`,
`s = E⁻¹ŝ/κ` satisfy on the user's data: `c·κ·qᵀx < −tol_abs`, `qᵀx < 0`,
`‖Px‖₂ < tol_rel·(−qᵀx)·max(1, κ‖x‖₂)` (here `c` cancels) and
`‖Ax+s‖₂ < tol_rel·c·(−qᵀx)·max(1, κ(‖x‖₂+‖s‖₂))` (here it does not). -/
theorem dual_cert (p : Problem ℝ n m) (sc : Scaling ℝ n m) (xh : Fin n → ℝ) (sh : Fin m → ℝ)
    (κ tabs trel : ℝ) (i : InfoS ℝ)
    (hd : ∀ j, 0 < sc.d j) (he : ∀ i, 0 < sc.e i) (hc : 0 < sc.c) (hκ : 0 < κ) (htabs : 0 ≤ tabs)
    (hres : i.res_dual_inf = resDualInf p sc xh sh)
    (h : isDualInfeasible i (dot (p.scaled sc).q xh) tabs trel = true) :
    sc.c * κ * dot p.q (unX sc κ xh) < -tabs
    ∧ dot p.q (unX sc κ xh) < 0
    ∧ nrm (mulV p.P (unX sc κ xh))
        < trel * (-(dot p.q (unX sc κ xh))) * max 1 (κ * nrm (unX sc κ xh))
    ∧ nrm (fun i => mulV p.A (unX sc κ xh) i + unS sc κ sh i)
        < trel * sc.c * (-(dot p.q (unX sc κ xh)))
            * max 1 (κ * (nrm (unX sc κ xh) + nrm (unS sc κ sh))) := by
  obtain ⟨h1, h2⟩ := (isDualInfeasible_iff i _ _ _).mp h
  rw [dot_qx_unscale p sc xh κ hκ.ne'] at h1 h2
  set qx := dot p.q (unX sc κ xh) with hqx
  have hck : 0 < sc.c * κ := mul_pos hc hκ
  have hneg : qx < 0 := by
    by_contra hcon
    have : 0 ≤ sc.c * κ * qx := mul_nonneg hck.le (not_lt.mp hcon)
    linarith
  refine ⟨h1, hneg, ?_, ?_⟩
  · rw [hres] at h2
    unfold resDualInf at h2
    have h3 := lt_of_le_of_lt (le_max_left _ _) h2
    rw [nrm_Px p sc xh κ hd hc hκ, nrm_unX sc xh κ hκ]
    set N := nrm (fun j => mulV (p.scaled sc).P xh j * (1 / sc.d j)) with hN
    set X := nrm (fun j => xh j * sc.d j) with hX
    have hM : 0 < max 1 X := lt_of_lt_of_le one_pos (le_max_left _ _)
    rw [div_lt_iff₀ hM] at h3
    have e1 : κ * (X * (1 / κ)) = X := by field_simp
    rw [e1]
    have h4 : N * (1 / sc.c * (1 / κ)) < -trel * (sc.c * κ * qx) * max 1 X * (1 / sc.c * (1 / κ)) :=
      mul_lt_mul_of_pos_right h3 (by positivity)
    calc N * (1 / sc.c * (1 / κ)) < -trel * (sc.c * κ * qx) * max 1 X * (1 / sc.c * (1 / κ)) := h4
      _ = trel * (-qx) * max 1 X := by field_simp
  · rw [hres] at h2
    unfold resDualInf at h2
    have h3 := lt_of_le_of_lt (le_max_right _ _) h2
    rw [nrm_Axs p sc xh sh κ he hκ, nrm_unX sc xh κ hκ, nrm_unS sc sh κ hκ]
    set N := nrm (fun i => rzInf (p.scaled sc) xh sh i * (1 / sc.e i)) with hN
    set X := nrm (fun j => xh j * sc.d j) with hX
    set S := nrm (fun i => sh i * (1 / sc.e i)) with hS
    have hM : 0 < max 1 (X + S) := lt_of_lt_of_le one_pos (le_max_left _ _)
    rw [div_lt_iff₀ hM] at h3
    have e1 : κ * (X * (1 / κ) + S * (1 / κ)) = X + S := by field_simp
    rw [e1]
    have h4 : N * (1 / κ) < -trel * (sc.c * κ * qx) * max 1 (X + S) * (1 / κ) :=
      mul_lt_mul_of_pos_right h3 (by positivity)
    calc N * (1 / κ) < -trel * (sc.c * κ * qx) * max 1 (X + S) * (1 / κ) := h4
      _ = trel * sc.c * (-qx) * max 1 (X + S) := by field_simp

/-- **[F] `C02.cone_of_cert`** (nonnegative cone): the κ-normalised certificate keeps the
signs of the internal iterate. -/
theorem cone_of_cert_nonneg (sc : Scaling ℝ n m) (sh zh : Fin m → ℝ) (κ : ℝ) (i : Fin m)
    (he : 0 < sc.e i) (hc : 0 < sc.c) (hκ : 0 < κ) (hs : 0 ≤ sh i) (hz : 0 ≤ zh i) :
    0 ≤ unS sc κ sh i ∧ 0 ≤ unZ sc κ zh i := by
  unfold unS unZ
  constructor <;> positivity

section structural
variable {β : Type} [Mul β] [Div β] [OfNat β 0] [OfNat β 1]

/-- **[S] `C02.nan_objectives`** (any scalar type): after `Solution.post_process` both
objective values are NaN (`none`) exactly when the status is one of the four
infeasibility statuses; otherwise they are `info.cost_primal`, `info.cost_dual`. -/
theorem nan_objectives (sol : Unscale.Solution β) (eq : Equil β) (pm : Option (Unscale.PresolveMap β))
    (v : Residuals.Vars β) (i : InfoS β) (r : Unscale.Solution β × Residuals.Vars β)
    (h : Unscale.postProcess sol eq pm v i = .ok r) :
    (i.status.isInfeasible = true → r.1.obj_val = none ∧ r.1.obj_val_dual = none)
    ∧ (i.status.isInfeasible = false →
        r.1.obj_val = some i.cost_primal ∧ r.1.obj_val_dual = some i.cost_dual) := by
  have key : r.1.obj_val = (if i.status.isInfeasible then none else some i.cost_primal)
      ∧ r.1.obj_val_dual = (if i.status.isInfeasible then none else some i.cost_dual) := by
    unfold Unscale.postProcess at h
    cases pm with
    | some p =>
      simp only [bind, Except.bind, pure, Except.pure] at h
      split at h
      · cases h
      · rename_i sol' hs
        unfold Unscale.reversePresolve at hs
        simp only [bind, Except.bind, pure, Except.pure] at hs
        split at hs
        · cases hs
        · split at hs
          · cases hs
          · cases hs; cases h; exact ⟨rfl, rfl⟩
    | none =>
      simp only [bind, Except.bind, pure, Except.pure] at h
      repeat' split at h
      all_goals first | (cases h; first | exact ⟨rfl, rfl⟩ | simp_all) | cases h
  constructor
  · intro hi; rw [hi] at key; simpa using key
  · intro hi; rw [hi] at key; simpa using key

/-- **[S]** the certificate is the κ-normalisation: for an infeasible status `unscale`
divides by `κ` (and by `τ` otherwise). -/
theorem cert_is_kappa_normalised (v : Residuals.Vars β) (eq : Equil β) :
    (Unscale.unscale v eq true).κ = v.κ * (1 / v.κ)
    ∧ (Unscale.unscale v eq true).x = Vec.scale (Unscale.hadamardInPlace v.x eq.d) (1 / v.κ)
    ∧ (Unscale.unscale v eq true).z = Vec.scale (Unscale.hadamardInPlace v.z eq.e) (1 / v.κ * (1 / eq.c))
    ∧ (Unscale.unscale v eq true).s = Vec.scale (Unscale.hadamardInPlace v.s eq.einv) (1 / v.κ)
    ∧ (Unscale.unscale v eq false).τ = v.τ * (1 / v.τ) :=
  ⟨rfl, rfl, rfl, rfl, rfl⟩

end structural


section rollback
variable {α : Type} [Add α] [Sub α] [Mul α] [Div α] [Neg α] [OfNat α 0] [OfNat α 1] [OfNat α 2]
  [OfNat α 100] [OfNat α 1000] [LT α] [DecidableLT α] [LE α] [DecidableLE α] [FloatLike α]

/-- the un-scaled variables `Solution.post_process` hands back -/
theorem post_process_vars {β : Type} [Mul β] [Div β] [OfNat β 0] [OfNat β 1]
    (sol : Unscale.Solution β) (eq : Equil β) (pm : Option (Unscale.PresolveMap β))
    (v : Residuals.Vars β) (i : InfoS β) (r : Unscale.Solution β × Residuals.Vars β)
    (h : Unscale.postProcess sol eq pm v i = .ok r) :
    r.2 = Unscale.unscale v eq i.status.isInfeasible ∧ r.1.status = i.status := by
  unfold Unscale.postProcess at h
  cases pm with
  | some p =>
    simp only [bind, Except.bind, pure, Except.pure] at h
    split at h
    · cases h
    · rename_i sol' hs
      unfold Unscale.reversePresolve at hs
      simp only [bind, Except.bind, pure, Except.pure] at hs
      split at hs
      · cases hs
      · split at hs
        · cases hs
        · cases hs; cases h; exact ⟨rfl, rfl⟩
  | none =>
    simp only [bind, Except.bind, pure, Except.pure] at h
    repeat' split at h
    all_goals first | (cases h; exact ⟨rfl, rfl⟩) | cases h

/-- **[S] `C02.rollback_consistency` — paths WITHOUT rollback** (any scalar type).  The
infeasibility decision and the returned certificate come from ONE iterate: let `info'` be
what `Info.update` assigns for the iterate `v` with residuals `r` (status not yet an
infeasibility status), let the convergence check — `full` tolerances in the loop, `reduced`
ones in `post_process` — run on `info'` with `r.dot_bz`, `r.dot_qx`, and let
`Solution.post_process` run on the same `v`.  If the verdict is (Almost)PrimalInfeasible
then the test that fired is `r.dot_bz < −tol_abs` and
`‖D⁻¹·r.rx_inf‖/c / max(1,‖E·v.z‖/c) < −tol_rel·r.dot_bz` — quantities of that very `v`,
`r` — and the returned certificate is `unscale v` by `v.κ`; likewise for (Almost)Dual. -/
theorem rollback_consistency_no_rollback (almost : Bool) (i i' : InfoS α) (eq : Equil α)
    (normq normb : α) (v : Residuals.Vars α) (r : Residuals.Resid α) (s : Settings α)
    (hup : Info.update i eq normq normb v r = .ok i')
    (h0 : i'.status.isInfeasible = false)
    (sol : Unscale.Solution α) (pm : Option (Unscale.PresolveMap α))
    (out : Unscale.Solution α × Residuals.Vars α)
    (hpost : Unscale.postProcess sol eq pm v
      (if almost then checkConvergenceAlmost i' r.dot_bz r.dot_qx s
       else checkConvergenceFull i' r.dot_bz r.dot_qx s) = .ok out) :
    let t := if almost then s.reduced else s.full
    let cinv := 1 / eq.c
    let nz := Vec.normScaled v.z eq.e * cinv
    let nx := Vec.normScaled v.x eq.d
    let ns := Vec.normScaled v.s eq.einv
    (out.1.status = (if almost then .almostPrimalInfeasible else .primalInfeasible) →
        r.dot_bz < -t.infeas_abs
        ∧ (Vec.normScaled r.rx_inf eq.dinv * cinv) / fmax 1 nz < -t.infeas_rel * r.dot_bz
        ∧ v.κ * (1 / v.τ) > (1 / t.ktratio) * 1000
        ∧ out.2 = Unscale.unscale v eq true)
    ∧ (out.1.status = (if almost then .almostDualInfeasible else .dualInfeasible) →
        r.dot_qx < -t.infeas_abs
        ∧ fmax (Vec.normScaled r.Px eq.dinv / fmax 1 nx)
               (Vec.normScaled r.rz_inf eq.einv / fmax 1 (nx + ns)) < -t.infeas_rel * r.dot_qx
        ∧ v.κ * (1 / v.τ) > (1 / t.ktratio) * 1000
        ∧ out.2 = Unscale.unscale v eq true) := by
  intro t cinv nz nx ns
  have hf := Info.update_fields i i' eq normq normb v r hup
  simp only at hf
  obtain ⟨_, _, hpi, hdi, _, _, _, _, hkt, _, _⟩ := hf
  obtain ⟨hv, hst⟩ := post_process_vars sol eq pm v _ out hpost
  have hne2 : ∀ st : SolverStatus, st.isInfeasible = true → i'.status ≠ st := by
    intro st h1 h2; rw [h2] at h0; rw [h0] at h1; cases h1
  cases almost with
  | false =>
    simp only [Bool.false_eq_true, ↓reduceIte] at hpost hv hst ⊢
    constructor
    · intro h
      rw [hst] at h
      obtain ⟨a, b, c⟩ := conv_pinf i' _ _ s.full .solved .primalInfeasible .dualInfeasible h
        (hne2 _ rfl) (by decide) (by decide)
      rw [hpi] at c; rw [hkt] at a
      refine ⟨b, c, a, ?_⟩
      rw [hv, h]; rfl
    · intro h
      rw [hst] at h
      obtain ⟨a, b, c⟩ := conv_dinf i' _ _ s.full .solved .primalInfeasible .dualInfeasible h
        (hne2 _ rfl) (by decide) (by decide)
      rw [hdi] at c; rw [hkt] at a
      refine ⟨b, c, a, ?_⟩
      rw [hv, h]; rfl
  | true =>
    simp only [↓reduceIte] at hpost hv hst ⊢
    constructor
    · intro h
      rw [hst] at h
      obtain ⟨a, b, c⟩ := conv_pinf i' _ _ s.reduced .almostSolved .almostPrimalInfeasible
        .almostDualInfeasible h (hne2 _ rfl) (by decide) (by decide)
      rw [hpi] at c; rw [hkt] at a
      refine ⟨b, c, a, ?_⟩
      rw [hv, h]; rfl
    · intro h
      rw [hst] at h
      obtain ⟨a, b, c⟩ := conv_dinf i' _ _ s.reduced .almostSolved .almostPrimalInfeasible
        .almostDualInfeasible h (hne2 _ rfl) (by decide) (by decide)
      rw [hdi] at c; rw [hkt] at a
      refine ⟨b, c, a, ?_⟩
      rw [hv, h]; rfl

/-- **[S] `C02.rollback_stale_fields` — the rollback path, stated precisely.**  After an
insufficient-progress rollback (`reset_to_prev_iterate` on the info `j` of the DISCARDED
iterate, the variables being replaced by the previous ones), `Info.post_process` decides
`Almost*Infeasible` from `j.ktratio`, `j.res_primal_inf` / `j.res_dual_inf` and the
`dot_bz` / `dot_qx` of the residual object — all still those of the discarded iterate —
whereas cost, residual and gap figures (and the point that is returned) are the previous
iterate's.  So on this path the certificate that is returned is NOT the one that was
tested; the consistency theorem above does not extend to it (the oracle covers it). -/
theorem rollback_stale_fields (j : InfoS α) (bz qx : α) (s : Settings α)
    (h0 : j.status.isInfeasible = false) :
    ((Info.postProcess (resetToPrev j) bz qx s).status = .almostPrimalInfeasible →
        j.ktratio > (1 / s.reduced.ktratio) * 1000 ∧ bz < -s.reduced.infeas_abs
        ∧ j.res_primal_inf < -s.reduced.infeas_rel * bz)
    ∧ ((Info.postProcess (resetToPrev j) bz qx s).status = .almostDualInfeasible →
        j.ktratio > (1 / s.reduced.ktratio) * 1000 ∧ qx < -s.reduced.infeas_abs
        ∧ j.res_dual_inf < -s.reduced.infeas_rel * qx)
    ∧ (resetToPrev j).cost_primal = j.prev_cost_primal
    ∧ (resetToPrev j).res_primal = j.prev_res_primal
    ∧ (resetToPrev j).res_dual = j.prev_res_dual := by
  have hst : (resetToPrev j).status = j.status := rfl
  have hne : ∀ st : SolverStatus, st.isInfeasible = true → (resetToPrev j).status ≠ st := by
    intro st h1 h2; rw [hst] at h2; rw [h2] at h0; rw [h0] at h1; cases h1
  refine ⟨?_, ?_, rfl, rfl, rfl⟩
  · intro h
    unfold Info.postProcess at h
    split at h
    · exact conv_pinf (resetToPrev j) bz qx s.reduced .almostSolved .almostPrimalInfeasible
        .almostDualInfeasible h (hne _ rfl) (by decide) (by decide)
    · exact absurd h (hne _ rfl)
  · intro h
    unfold Info.postProcess at h
    split at h
    · exact conv_dinf (resetToPrev j) bz qx s.reduced .almostSolved .almostPrimalInfeasible
        .almostDualInfeasible h (hne _ rfl) (by decide) (by decide)
    · exact absurd h (hne _ rfl)

end rollback

/-! ## Round 3 — end to end on the USER's data, all cone kinds, the rollback path decided -/

section endtoend
open Clarabel.InfoUser Clarabel.Residuals

/-- **[R] `C02.primal_infeasible_certifies_user_problem`** — end to end, no assumed relation
between internal and user data.  `dt`: the data as `DefaultProblemData::new` leaves them
(`UserData`); `dt'`: what the model's own `Equil.equilibrate` returns; `r`: what
`Residuals.update` returns on the internal data for the iterate `v` (`κ > 0`); `info'`: what
`Info.update` assigns.  If the convergence check — `check_convergence_full`
(`almost = false`) or `check_convergence_almost` (`almost = true`, reduced tolerances) —
newly assigns (Almost)PrimalInfeasible, then the κ-normalised `z` that `Variables.unscale`
returns satisfies on the USER's `A`, `b` (dense meaning of `dt.A`, `dt.b`):
`c·κ·bᵀz < −tol_infeas_abs`, hence `bᵀz < 0`, and
`‖Aᵀz‖₂ < tol_infeas_rel · c · (−bᵀz) · max(1, κ‖z‖₂)`, with `c = dt'.equilibration.c` and
`κ = v.κ` exactly as the code's test contains them; moreover `κ/τ > 1000/tol_ktratio` and
`|z| = m`.  Composition of C10 (`scaled_data`, `inverse_scalings`, `scalings_positive`), C16
(`gemvT_spec`, …) and `primal_cert`. -/
theorem primal_infeasible_certifies_user_problem (almost : Bool)
    (dt dt' : ProblemData ℝ) (cones : List (ConeT ℝ)) (es : Equil.Settings ℝ)
    (hu : UserData dt cones es) (heq : Equil.equilibrate dt cones es = .ok dt')
    (v : Vars ℝ) (r0 r : Resid ℝ) (hsh : StateShapes dt.n dt.m v r0) (hκ : 0 < v.κ)
    (hr : Residuals.update r0 v (toResidData dt') = .ok r)
    (i i' : InfoS ℝ) (normq normb : ℝ)
    (hi : Info.update i (toInfoEquil dt'.equilibration) normq normb v r = .ok i')
    (s : Settings ℝ)
    (htabs : 0 ≤ (if almost then s.reduced else s.full).infeas_abs)
    (h0 : i'.status ≠ (if almost then .almostPrimalInfeasible else .primalInfeasible))
    (h : (if almost then checkConvergenceAlmost i' r.dot_bz r.dot_qx s
          else checkConvergenceFull i' r.dot_bz r.dot_qx s).status
        = (if almost then .almostPrimalInfeasible else .primalInfeasible)) :
    let t := if almost then s.reduced else s.full
    let out := Unscale.unscale v (toInfoEquil dt'.equilibration) true
    let p := problemOf dt.P dt.q dt.A dt.b dt.n dt.m
    let z := vecFn out.z dt.m
    let c := dt'.equilibration.c
    c * v.κ * dot p.b z < -t.infeas_abs
    ∧ dot p.b z < 0
    ∧ nrm (mulVT p.A z) < t.infeas_rel * c * (-(dot p.b z)) * max 1 (v.κ * nrm z)
    ∧ v.κ * (1 / v.τ) > (1 / t.ktratio) * 1000
    ∧ out.z.size = dt.m := by
  intro t out p z c
  have cf := chain_facts dt dt' cones es hu heq v r0 r hsh hr i i' normq normb hi true
  simp only [↓reduceIte] at cf
  have hconv : i'.ktratio > (1 / t.ktratio) * 1000 ∧ r.dot_bz < -t.infeas_abs
      ∧ i'.res_primal_inf < -t.infeas_rel * r.dot_bz := by
    cases almost with
    | false =>
      simp only [Bool.false_eq_true, ↓reduceIte] at h h0 ⊢
      exact conv_pinf i' _ _ s.full .solved .primalInfeasible .dualInfeasible h h0 (by decide) (by decide)
    | true =>
      simp only [↓reduceIte] at h h0 ⊢
      exact conv_pinf i' _ _ s.reduced .almostSolved .almostPrimalInfeasible .almostDualInfeasible h h0
        (by decide) (by decide)
  obtain ⟨hk, hbz, hres⟩ := hconv
  have hpi : isPrimalInfeasible i' (dot ((p.scaled (scalingOf dt'.equilibration dt.n dt.m)).b) (vecFn v.z dt.m))
      t.infeas_abs t.infeas_rel = true := by
    rw [isPrimalInfeasible_iff, ← cf.dot_bz]; exact ⟨hbz, hres⟩
  obtain ⟨c1, c2, c3⟩ := primal_cert p (scalingOf dt'.equilibration dt.n dt.m) (vecFn v.z dt.m) v.κ
    t.infeas_abs t.infeas_rel i' cf.dpos cf.cpos hκ htabs cf.res_primal_inf hpi
  have hz : z = unZ (scalingOf dt'.equilibration dt.n dt.m) v.κ (vecFn v.z dt.m) := cf.z
  rw [hz]
  refine ⟨c1, c2, c3, ?_, cf.szz⟩
  rw [← cf.ktratio]; exact hk

/-- **[R] `C02.dual_infeasible_certifies_user_problem`** — the dual analogue, end to end: if
the convergence check (full or reduced tolerances) newly assigns (Almost)DualInfeasible, the
κ-normalised `x`, `s` that `unscale` returns satisfy on the USER's `P`, `q`, `A`:
`c·κ·qᵀx < −tol_infeas_abs`, `qᵀx < 0`,
`‖Px‖₂ < tol_infeas_rel·(−qᵀx)·max(1, κ‖x‖₂)` and
`‖Ax+s‖₂ < tol_infeas_rel·c·(−qᵀx)·max(1, κ(‖x‖₂+‖s‖₂))`; `κ/τ > 1000/tol_ktratio`;
`|x| = n`, `|s| = m`. -/
theorem dual_infeasible_certifies_user_problem (almost : Bool)
    (dt dt' : ProblemData ℝ) (cones : List (ConeT ℝ)) (es : Equil.Settings ℝ)
    (hu : UserData dt cones es) (heq : Equil.equilibrate dt cones es = .ok dt')
    (v : Vars ℝ) (r0 r : Resid ℝ) (hsh : StateShapes dt.n dt.m v r0) (hκ : 0 < v.κ)
    (hr : Residuals.update r0 v (toResidData dt') = .ok r)
    (i i' : InfoS ℝ) (normq normb : ℝ)
    (hi : Info.update i (toInfoEquil dt'.equilibration) normq normb v r = .ok i')
    (s : Settings ℝ)
    (htabs : 0 ≤ (if almost then s.reduced else s.full).infeas_abs)
    (h0 : i'.status ≠ (if almost then .almostDualInfeasible else .dualInfeasible))
    (h : (if almost then checkConvergenceAlmost i' r.dot_bz r.dot_qx s
          else checkConvergenceFull i' r.dot_bz r.dot_qx s).status
        = (if almost then .almostDualInfeasible else .dualInfeasible)) :
    let t := if almost then s.reduced else s.full
    let out := Unscale.unscale v (toInfoEquil dt'.equilibration) true
    let p := problemOf dt.P dt.q dt.A dt.b dt.n dt.m
    let x := vecFn out.x dt.n
    let sv := vecFn out.s dt.m
    let c := dt'.equilibration.c
    c * v.κ * dot p.q x < -t.infeas_abs
    ∧ dot p.q x < 0
    ∧ nrm (mulV p.P x) < t.infeas_rel * (-(dot p.q x)) * max 1 (v.κ * nrm x)
    ∧ nrm (fun k => mulV p.A x k + sv k)
        < t.infeas_rel * c * (-(dot p.q x)) * max 1 (v.κ * (nrm x + nrm sv))
    ∧ v.κ * (1 / v.τ) > (1 / t.ktratio) * 1000
    ∧ out.x.size = dt.n ∧ out.s.size = dt.m := by
  intro t out p x sv c
  have cf := chain_facts dt dt' cones es hu heq v r0 r hsh hr i i' normq normb hi true
  simp only [↓reduceIte] at cf
  have hconv : i'.ktratio > (1 / t.ktratio) * 1000 ∧ r.dot_qx < -t.infeas_abs
      ∧ i'.res_dual_inf < -t.infeas_rel * r.dot_qx := by
    cases almost with
    | false =>
      simp only [Bool.false_eq_true, ↓reduceIte] at h h0 ⊢
      exact conv_dinf i' _ _ s.full .solved .primalInfeasible .dualInfeasible h h0 (by decide) (by decide)
    | true =>
      simp only [↓reduceIte] at h h0 ⊢
      exact conv_dinf i' _ _ s.reduced .almostSolved .almostPrimalInfeasible .almostDualInfeasible h h0
        (by decide) (by decide)
  obtain ⟨hk, hqx, hres⟩ := hconv
  have hdi : isDualInfeasible i' (dot ((p.scaled (scalingOf dt'.equilibration dt.n dt.m)).q) (vecFn v.x dt.n))
      t.infeas_abs t.infeas_rel = true := by
    rw [isDualInfeasible_iff, ← cf.dot_qx]; exact ⟨hqx, hres⟩
  obtain ⟨c1, c2, c3, c4⟩ := dual_cert p (scalingOf dt'.equilibration dt.n dt.m) (vecFn v.x dt.n)
    (vecFn v.s dt.m) v.κ t.infeas_abs t.infeas_rel i' cf.dpos cf.epos cf.cpos hκ htabs
    cf.res_dual_inf hdi
  have hx : x = unX (scalingOf dt'.equilibration dt.n dt.m) v.κ (vecFn v.x dt.n) := cf.x
  have hs : sv = unS (scalingOf dt'.equilibration dt.n dt.m) v.κ (vecFn v.s dt.m) := cf.s
  rw [hx, hs]
  refine ⟨c1, c2, c3, c4, ?_, cf.szx, cf.szs⟩
  rw [← cf.ktratio]; exact hk

/-- **[R] `C02.cone_of_cert_all`** — cone membership of the κ-normalised certificate, ALL
SEVEN cone kinds: for the scalings the model's own `equilibrate` returns and a cone list with
admissible parameters, `ŝ ∈ K`, `ẑ ∈ K*` for the internal iterate (`κ > 0`) imply `s ∈ K`,
`z ∈ K*` for the vectors `unscale` returns under an infeasibility status (per-cone tests as in
`C01.returned_point_in_cones`: the model's `is_primal_feasible`/`is_dual_feasible` for
exp / pow / genpow, the quadratic form for PSD, …). -/
theorem cone_of_cert_all (dt dt' : ProblemData ℝ) (cones : List (ConeT ℝ))
    (es : Equil.Settings ℝ) (hlo : 0 < es.minScaling) (hhi : 0 < es.maxScaling)
    (hfresh : dt.equilibration = EquilData.new dt.n dt.m) (hv : Equil.ValidCones cones)
    (heq : Equil.equilibrate dt cones es = .ok dt')
    (v : Vars ℝ) (hs : v.s.size = dt.m) (hz : v.z.size = dt.m) (hκ : 0 < v.κ)
    (hsK : Equil.CompositeMem Equil.ConeMem cones v.s.toList)
    (hzK : Equil.CompositeMem Equil.ConeMemDual cones v.z.toList) :
    let out := Unscale.unscale v (toInfoEquil dt'.equilibration) true
    Equil.CompositeMem Equil.ConeMem cones out.s.toList
    ∧ Equil.CompositeMem Equil.ConeMemDual cones out.z.toList :=
  InfoCone.unscaled_point_in_cones dt dt' cones es hlo hhi hfresh hv heq v hs hz true
    (by simpa using hκ) hsK hzK

end endtoend

section rollback3
variable {α : Type} [Field α] [LinearOrder α] [IsStrictOrderedRing α] [FloatLike α]

/-- **[F] `C02.rollback_never_infeasible` — the rollback path, decided (1/2).**  The only way
`Info::post_process` runs on a rolled-back iterate is: `check_termination` reports
`InsufficientProgress`, the checkpoint restores the previous iterate and fails.
`check_termination` assigns `InsufficientProgress` only under `ktratio < ε·100` or
`ktratio < 1`, `reset_to_prev_iterate` leaves `ktratio` alone, and `check_convergence` looks
at the infeasibility tests only for `ktratio > 1000/tol_ktratio`.  Hence, whenever
`1 ≤ (1/reduced_tol_ktratio)·1000` (every `reduced_tol_ktratio ≤ 1000`; default `1e-4`) and
`ε·100 ≤ 1`: the verdict after a rollback is NEVER `Almost{Primal,Dual}Infeasible`; it is
`AlmostSolved` — and then the reduced optimality test holds on the RESTORED (`prev_*`)
figures, those of the returned iterate — or stays `InsufficientProgress`. -/
theorem rollback_never_infeasible (i : InfoS α) (bz qx : α) (s : Settings α) (iter : Nat)
    (tov : Bool) (h0 : i.status = .unsolved)
    (hip : (checkTermination i bz qx s iter tov).1.status = .insufficientProgress)
    (heps : (FloatLike.eps : α) * 100 ≤ 1)
    (hgate : 1 ≤ (1 / s.reduced.ktratio) * 1000) :
    let j := (checkTermination i bz qx s iter tov).1
    let out := Info.postProcess (resetToPrev j) bz qx s
    j.ktratio < 1
    ∧ out.status ≠ .almostPrimalInfeasible ∧ out.status ≠ .almostDualInfeasible
    ∧ (out.status = .almostSolved ∨ out.status = .insufficientProgress)
    ∧ (out.status = .almostSolved →
        (j.prev_gap_abs < s.reduced.gap_abs ∨ j.prev_gap_rel < s.reduced.gap_rel)
        ∧ j.prev_res_primal < s.reduced.feas ∧ j.prev_res_dual < s.reduced.feas) :=
  Info.rollback_never_infeasible i bz qx s iter tov h0 hip heps hgate

end rollback3

/-- **[R] `C02.rollback_counterexample` — the rollback path, decided (2/2).**  With
`reduced_tol_ktratio = 10⁶ > 1000` (no validation rejects it) the gate opens below 1 and the
skeleton returns `AlmostPrimalInfeasible` for a restored iterate that FAILS the reduced test:
pass `k` (`cxPrev`: `res_primal_inf = 3/5`, `b̂ᵀẑ = −4`) is not terminal; pass `k+1`
(`cxDisc`: residuals 1000× worse, `ktratio = 1/2`, `res_primal_inf = 0`, `b̂ᵀẑ = −1`) is
`InsufficientProgress`; after `reset_to_prev_iterate`, `Info::post_process` says
`AlmostPrimalInfeasible` from the DISCARDED iterate's `ktratio`, `res_primal_inf`, `dot_bz`,
while the figures reported and the certificate returned are the restored iterate's, for which
`is_primal_infeasible` with the reduced tolerances is `false`.  (Replayed on the
implementation: see the harness family `rollback-gate-open`.) -/
theorem rollback_counterexample :
    (checkTermination Info.cxPrev (-4) 0 Info.cxSettings 5 false).2 = false
    ∧ (checkTermination Info.cxDisc (-1) 0 Info.cxSettings 6 false).1.status = .insufficientProgress
    ∧ (Info.postProcess (resetToPrev (checkTermination Info.cxDisc (-1) 0 Info.cxSettings 6 false).1)
          (-1) 0 Info.cxSettings).status = .almostPrimalInfeasible
    ∧ (resetToPrev (checkTermination Info.cxDisc (-1) 0 Info.cxSettings 6 false).1).res_primal
        = Info.cxPrev.res_primal
    ∧ isPrimalInfeasible Info.cxPrev (-4) Info.cxReduced.infeas_abs Info.cxReduced.infeas_rel = false :=
  Info.rollback_counterexample

section presolved
open Clarabel.InfoUser Clarabel.InfoPresolve

/-- **[R] `C02.primal_cert_presolved`** — rows dropped by presolve: a Farkas certificate for
the REDUCED problem is one for the USER's full problem.  With `emb` the enumeration of the
kept rows (`InfoPresolve.embFin` builds it from the presolver's `keep_logical`;
`reversal_fn_facts_of_transparent` supplies `z (emb r) = z' r` and `z = 0` on dropped rows
from `C01.presolve_transparent`; C09's `reduced_problem_dense` supplies `A' r = A (emb r)`):
`b'ᵀz' < 0` and `‖A'ᵀz'‖ < bnd(b'ᵀz', ‖z'‖)` give `bᵀz < 0` and `‖Aᵀz‖ < bnd(bᵀz, ‖z‖)` with the
SAME numbers (`Aᵀz = A'ᵀz'`, `bᵀz = b'ᵀz'`, `‖z‖ = ‖z'‖`); `bnd` is any bound in these two
quantities, e.g. `tol·c·(−bᵀz)·max(1, κ‖z‖)` of `primal_cert`. -/
theorem primal_cert_presolved {n m mr : ℕ} (emb : Fin mr → Fin m) (keep : Fin m → Bool)
    (hinj : Function.Injective emb) (hkeep : ∀ i, keep i = true ↔ ∃ r, emb r = i)
    (A : Fin m → Fin n → ℝ) (b z : Fin m → ℝ)
    (A' : Fin mr → Fin n → ℝ) (b' z' : Fin mr → ℝ)
    (hA' : ∀ r j, A' r j = A (emb r) j) (hb' : ∀ r, b' r = b (emb r))
    (hz' : ∀ r, z (emb r) = z' r) (hz : ∀ i, keep i = false → z i = 0)
    (bnd : ℝ → ℝ → ℝ)
    (hbz : dot b' z' < 0) (hAtz : nrm (mulVT A' z') < bnd (dot b' z') (nrm z')) :
    dot b z < 0 ∧ nrm (mulVT A z) < bnd (dot b z) (nrm z)
    ∧ (∀ j, mulVT A z j = mulVT A' z' j) ∧ dot b z = dot b' z' ∧ nrm z = nrm z' :=
  primal_infeasible_full_problem emb keep hinj hkeep A b z A' b' z' hA' hb' hz' hz bnd hbz hAtz

/-- **[R] `C02.dual_cert_presolved`** — the dual-infeasibility certificate and dropped rows:
`qᵀx < 0`, `‖Px‖ < bndP` do not involve the rows; `‖A'x+s'‖ < bnd(‖s'‖)` gives
`‖(Ax+s)|kept‖ < bnd(‖s|kept‖)` with the same numbers; on the dropped rows `s = infbound`
(so there the row of `Ax + s` is NOT small — exactly the exception the property states). -/
theorem dual_cert_presolved {n m mr : ℕ} (emb : Fin mr → Fin m) (keep : Fin m → Bool)
    (hinj : Function.Injective emb) (hkeep : ∀ i, keep i = true ↔ ∃ r, emb r = i)
    (P : Fin n → Fin n → ℝ) (q : Fin n → ℝ) (A : Fin m → Fin n → ℝ) (s : Fin m → ℝ)
    (A' : Fin mr → Fin n → ℝ) (s' : Fin mr → ℝ)
    (hA' : ∀ r j, A' r j = A (emb r) j) (hs' : ∀ r, s (emb r) = s' r)
    (infbound : ℝ) (hdrop : ∀ i, keep i = false → s i = infbound)
    (x : Fin n → ℝ) (bndP : ℝ) (bnd : ℝ → ℝ)
    (hqx : dot q x < 0) (hPx : nrm (mulV P x) < bndP)
    (hAxs : nrm (fun r => mulV A' x r + s' r) < bnd (nrm s')) :
    dot q x < 0 ∧ nrm (mulV P x) < bndP
    ∧ nrmKept keep (fun i => mulV A x i + s i) < bnd (nrmKept keep s)
    ∧ nrmKept keep (fun i => mulV A x i + s i) = nrm (fun r => mulV A' x r + s' r)
    ∧ nrmKept keep s = nrm s'
    ∧ ∀ i, keep i = false → s i = infbound :=
  dual_infeasible_full_problem emb keep hinj hkeep P q A s A' s' hA' hs' infbound hdrop x bndP bnd
    hqx hPx hAxs

end presolved

/-! ### non-vacuity -/

/-- witness: a 1×1 problem `0·x + s = −1, s ≥ 0` with `ẑ = 1`, trivial scaling -/
noncomputable def exP : Problem ℝ 1 1 := { P := fun _ _ => 0, q := fun _ => 0, A := fun _ _ => 0, b := fun _ => -1 }
noncomputable def exSc : Scaling ℝ 1 1 := { d := fun _ => 1, e := fun _ => 1, c := 1 }

/-- the hypotheses of `primal_cert` are satisfiable (so the theorem is not vacuous):
`b̂ᵀẑ = −1 < −tol`, `res_primal_inf = 0` -/
example : isPrimalInfeasible
    ({ cost_primal := 0, cost_dual := 0, res_primal := 0, res_dual := 0,
       res_primal_inf := resPrimalInf exP exSc (fun _ => 1), res_dual_inf := 0, gap_abs := 0,
       gap_rel := 0, ktratio := 0, prev_cost_primal := 0, prev_cost_dual := 0, prev_res_primal := 0,
       prev_res_dual := 0, prev_gap_abs := 0, prev_gap_rel := 0, iterations := 0,
       status := .unsolved } : InfoS ℝ)
    (dot (exP.scaled exSc).b (fun _ => 1)) (1/100) (1/100) = true := by
  rw [isPrimalInfeasible_iff]
  have hN : nrm (fun j : Fin 1 => rxInf (exP.scaled exSc) (fun _ => 1) j * (1 / exSc.d j)) = 0 := by
    unfold nrm sumsq rxInf mulVT Problem.scaled exP exSc
    simp
  have hb : dot (exP.scaled exSc).b (fun _ : Fin 1 => (1:ℝ)) = -1 := by
    unfold dot Problem.scaled exP exSc
    simp
  refine ⟨by rw [hb]; norm_num, ?_⟩
  show resPrimalInf exP exSc (fun _ => 1) < _
  unfold resPrimalInf
  rw [hN, hb]
  norm_num


/-- witness data for `rollback_consistency_no_rollback` -/
noncomputable def rbInfo : InfoS ℝ :=
  { cost_primal := 0, cost_dual := 0, res_primal := 0, res_dual := 0, res_primal_inf := 0,
    res_dual_inf := 0, gap_abs := 0, gap_rel := 0, ktratio := 0, prev_cost_primal := 0,
    prev_cost_dual := 0, prev_res_primal := 0, prev_res_dual := 0, prev_gap_abs := 0,
    prev_gap_rel := 0, iterations := 1, status := .unsolved }
noncomputable def rbTols : Tols ℝ :=
  { gap_abs := 1, gap_rel := 1, feas := 1, infeas_abs := 1/2, infeas_rel := 1, ktratio := 1 }
noncomputable def rbVars : Residuals.Vars ℝ := { x := #[], s := #[], z := #[], τ := 1, κ := 2000 }
noncomputable def rbRes : Residuals.Resid ℝ :=
  { rx := #[], rz := #[], rτ := 0, rx_inf := #[], rz_inf := #[], dot_qx := 0, dot_bz := -1,
    dot_sz := 0, dot_xPx := 0, Px := #[] }
noncomputable def rbEq : Equil ℝ := { d := #[], dinv := #[], e := #[], einv := #[], c := 1 }

theorem rb_post_ok (j : InfoS ℝ) :
    ∃ out, Unscale.postProcess (Unscale.Solution.new 0 0) rbEq none rbVars j = .ok out := by
  unfold Unscale.postProcess
  simp [Unscale.copyFrom, Unscale.unscale, Unscale.hadamardInPlace, Vec.scale, rbVars, rbEq,
    Unscale.Solution.new, bind, Except.bind, pure, Except.pure]

/-- the hypotheses of `rollback_consistency_no_rollback` are satisfiable and its first
implication is not vacuous: an iterate (empty vectors, κ/τ = 2000, b̂ᵀẑ = −1) on which
`Info.update` succeeds, the full check says PrimalInfeasible and `post_process` succeeds -/
example : ∃ i' out,
    Info.update rbInfo rbEq 0 0 rbVars rbRes = .ok i'
    ∧ i'.status.isInfeasible = false
    ∧ Unscale.postProcess (Unscale.Solution.new 0 0) rbEq none rbVars
        (checkConvergenceFull i' rbRes.dot_bz rbRes.dot_qx { full := rbTols, reduced := rbTols, max_iter := 9 })
        = .ok out
    ∧ out.1.status = .primalInfeasible := by
  obtain ⟨i', hi⟩ : ∃ i', Info.update rbInfo rbEq 0 0 rbVars rbRes = .ok i' := ⟨_, rfl⟩
  obtain ⟨out, ho⟩ := rb_post_ok
    (checkConvergenceFull i' rbRes.dot_bz rbRes.dot_qx { full := rbTols, reduced := rbTols, max_iter := 9 })
  have hf := Info.update_fields _ _ _ _ _ _ _ hi
  simp only at hf
  obtain ⟨_, _, hpi, _, hrp, hrd, hga, hgr, hkt, hst, _⟩ := hf
  have hst' : i'.status = .unsolved := hst
  refine ⟨i', out, hi, by rw [hst']; rfl, ho, ?_⟩
  rw [(post_process_vars _ _ _ _ _ _ ho).2]
  have hk : i'.ktratio = 2000 := by rw [hkt]; norm_num [rbVars]
  have hp : i'.res_primal_inf = 0 := by
    rw [hpi]; simp [Vec.normScaled, Vec.sumsqScaled, rbRes, rbEq]
  unfold checkConvergenceFull checkConvergence isSolved isPrimalInfeasible
  rw [hk, hp]
  norm_num [rbTols, rbRes]

/-- witness `info` over `ℕ` (structural theorems hold for every scalar type) -/
def exInfoNat : InfoS Nat :=
  { cost_primal := 7, cost_dual := 6, res_primal := 1, res_dual := 2, res_primal_inf := 0,
    res_dual_inf := 0, gap_abs := 1, gap_rel := 1, ktratio := 0, prev_cost_primal := 0,
    prev_cost_dual := 0, prev_res_primal := 0, prev_res_dual := 0, prev_gap_abs := 0,
    prev_gap_rel := 0, iterations := 4, status := .primalInfeasible }

/-- `Solution.post_process` succeeds on a concrete input with a presolve map (3 rows, the
middle one dropped): the hypotheses `… = .ok r` of the structural theorems are satisfiable,
the objective is NaN (`none`) for the infeasible status, lengths are `1, 3, 3`. -/
example :
    (Unscale.postProcess (Unscale.Solution.new 1 3)
      { d := #[2], dinv := #[1], e := #[1, 3], einv := #[1, 1], c := 1 }
      (some { keep := #[true, false, true], infbound := 99 })
      { x := #[5], s := #[1, 2], z := #[3, 4], τ := 1, κ := 1 } exInfoNat).toOption.map
        (fun r => (r.1.x, r.1.s, r.1.z, r.1.obj_val, r.1.iterations))
    = some (#[10], #[1, 99, 2], #[3, 0, 12], none, 4) := by
  decide +kernel

/-! ### non-vacuity of the round-3 theorems -/

section examples3
open Clarabel.InfoUser Clarabel.Residuals Clarabel.InfoPresolve

/-- ALL hypotheses of `primal_infeasible_certifies_user_problem` (`almost = false`) hold on a
concrete instance (`0·x + s = −1, s ≥ 0`, `ẑ = 1`, `κ/τ = 2000`; `InfoUser.chain_example_pinf`) -/
example : ∃ (dt dt' : ProblemData ℝ) (cones : List (ConeT ℝ)) (es : Equil.Settings ℝ) (v : Vars ℝ)
    (r0 r : Resid ℝ) (i i' : InfoS ℝ) (normq normb : ℝ) (s : Settings ℝ),
    UserData dt cones es ∧ Equil.equilibrate dt cones es = .ok dt'
    ∧ StateShapes dt.n dt.m v r0 ∧ 0 < v.κ
    ∧ Residuals.update r0 v (toResidData dt') = .ok r
    ∧ Info.update i (toInfoEquil dt'.equilibration) normq normb v r = .ok i'
    ∧ 0 ≤ s.full.infeas_abs
    ∧ i'.status ≠ .primalInfeasible
    ∧ (checkConvergenceFull i' r.dot_bz r.dot_qx s).status = .primalInfeasible :=
  let ⟨r, i', h⟩ := chain_example_pinf
  ⟨iData, iData, _, zEs, iVarsP, zRes0, r, zInfo, i', 1, 1, iSettings, h⟩

/-- ALL hypotheses of `dual_infeasible_certifies_user_problem` (`almost = false`) hold on a
concrete instance (`q = −1`, `x̂ = 1`, `κ/τ = 2000`; `InfoUser.chain_example_dinf`) -/
example : ∃ (dt dt' : ProblemData ℝ) (cones : List (ConeT ℝ)) (es : Equil.Settings ℝ) (v : Vars ℝ)
    (r0 r : Resid ℝ) (i i' : InfoS ℝ) (normq normb : ℝ) (s : Settings ℝ),
    UserData dt cones es ∧ Equil.equilibrate dt cones es = .ok dt'
    ∧ StateShapes dt.n dt.m v r0 ∧ 0 < v.κ
    ∧ Residuals.update r0 v (toResidData dt') = .ok r
    ∧ Info.update i (toInfoEquil dt'.equilibration) normq normb v r = .ok i'
    ∧ 0 ≤ s.full.infeas_abs
    ∧ i'.status ≠ .dualInfeasible
    ∧ (checkConvergenceFull i' r.dot_bz r.dot_qx s).status = .dualInfeasible :=
  let ⟨r, i', h⟩ := chain_example_dinf
  ⟨iData, iData, _, zEs, iVarsD, zRes0, r, zInfo, i', 1, 1, iSettings, h⟩

/-- `cone_of_cert_all`: its hypotheses are satisfiable (`ŝ = 0`, `ẑ = 1` in `ℝ₊`, `κ = 2000`) -/
example : Equil.ValidCones [ConeT.nonneg 1]
    ∧ Equil.equilibrate iData [.nonneg 1] zEs = .ok iData ∧ 0 < iVarsP.κ
    ∧ Equil.CompositeMem Equil.ConeMem [ConeT.nonneg 1] iVarsP.s.toList
    ∧ Equil.CompositeMem Equil.ConeMemDual [ConeT.nonneg 1] iVarsP.z.toList := by
  refine ⟨?_, iData_equil, by norm_num [iVarsP], ?_, ?_⟩
  · intro c hc; simp at hc; subst hc; simp [Equil.ValidCone]
  · simp [Equil.CompositeMem, Equil.ConeMem, ConeT.nvars, iVarsP]
  · simp [Equil.CompositeMem, Equil.ConeMemDual, ConeT.nvars, iVarsP]

/-- the hypotheses of `rollback_never_infeasible` are satisfiable (over ℝ, default gate) -/
example :
    let s : Settings ℝ := { Info.cxSettings with reduced := { Info.cxReduced with ktratio := 1/10000 } }
    Info.cxDisc.status = .unsolved
    ∧ (checkTermination Info.cxDisc (-1) 0 s 6 false).1.status = .insufficientProgress
    ∧ (FloatLike.eps : ℝ) * 100 ≤ 1
    ∧ 1 ≤ (1 / s.reduced.ktratio) * 1000 :=
  Info.rollback_hyps_example

/-- the hypotheses of `primal_cert_presolved` / `dual_cert_presolved` on the enumeration of the
kept rows are satisfiable: `m = 3`, row 1 dropped, `emb = ![0, 2]`, `z` vanishing there -/
example :
    let emb : Fin 2 → Fin 3 := ![0, 2]
    let keep : Fin 3 → Bool := ![true, false, true]
    let z : Fin 3 → ℝ := ![5, 0, -7]
    Function.Injective emb ∧ (∀ i, keep i = true ↔ ∃ r, emb r = i)
      ∧ (∀ i, keep i = false → z i = 0) := by
  intro emb keep z
  refine ⟨by decide, by decide, ?_⟩
  intro i
  fin_cases i <;> simp [keep, z]

end examples3

end Clarabel.C02
