/-
  C02 — infeasibility verdicts carry a valid Farkas-type certificate.
  Property theorems and non-vacuity examples only.
-/
import ClarabelProofs.Lemmas.InfoConv
import ClarabelProofs.Lemmas.InfoCert
import ClarabelModel.Unscale
import Mathlib.Tactic.NormNum
import Mathlib.Data.Fin.VecNotation
import Mathlib.Algebra.BigOperators.Fin

namespace Clarabel.C02
open Clarabel.Dense Clarabel.Info Finset

variable {n m : ℕ}

/-- **[F] `C02.primal_cert`** (over `ℝ`, exact arithmetic).  If `is_primal_infeasible` holds
for an `info` whose `res_primal_inf` is the value `Info.update` assigns, then the
κ-normalised certificate `z = Eẑ/(cκ)` returned by `unscale` satisfies, on the USER's data,
`c·κ·bᵀz < −tol_abs` (so `bᵀz < 0`) and
`‖Aᵀz‖₂ < tol_rel · c · (−bᵀz) · max(1, κ‖z‖₂)` — with the constants `c`, `κ` exactly as
the code's test contains them. -/
theorem primal_cert (p : Problem ℝ n m) (sc : Scaling ℝ n m) (zh : Fin m → ℝ)
    (κ tabs trel : ℝ) (i : InfoS ℝ)
    (hd : ∀ j, 0 < sc.d j) (hc : 0 < sc.c) (hκ : 0 < κ) (htabs : 0 ≤ tabs)
    (hres : i.res_primal_inf = resPrimalInf p sc zh)
    (h : isPrimalInfeasible i (dot (p.scaled sc).b zh) tabs trel = true) :
    sc.c * κ * dot p.b (unZ sc κ zh) < -tabs
    ∧ dot p.b (unZ sc κ zh) < 0
    ∧ nrm (mulVT p.A (unZ sc κ zh))
        < trel * sc.c * (-(dot p.b (unZ sc κ zh))) * max 1 (κ * nrm (unZ sc κ zh)) := by
  obtain ⟨h1, h2⟩ := (isPrimalInfeasible_iff i _ _ _).mp h
  rw [dot_bz_unscale p sc zh κ hc.ne' hκ.ne'] at h1 h2
  set bz := dot p.b (unZ sc κ zh) with hbz
  have hck : 0 < sc.c * κ := mul_pos hc hκ
  have hneg : bz < 0 := by
    by_contra hcon
    have : 0 ≤ sc.c * κ * bz := mul_nonneg hck.le (not_lt.mp hcon)
    linarith
  refine ⟨h1, hneg, ?_⟩
  rw [hres] at h2
  unfold resPrimalInf at h2
  rw [nrm_Atz p sc zh κ hd hc hκ, nrm_unZ sc zh κ hc hκ]
  set N := nrm (fun j => rxInf (p.scaled sc) zh j * (1 / sc.d j)) with hN
  set Z := nrm (fun i => zh i * sc.e i) with hZ
  have hM : 0 < max 1 (Z * (1 / sc.c)) := lt_of_lt_of_le one_pos (le_max_left _ _)
  have h3 : N * (1 / sc.c) < -trel * (sc.c * κ * bz) * max 1 (Z * (1 / sc.c)) := by
    rwa [div_lt_iff₀ hM] at h2
  have e1 : κ * (Z * (1 / κ * (1 / sc.c))) = Z * (1 / sc.c) := by
    field_simp
  rw [e1]
  have h4 : N * (1 / sc.c) * (1 / κ) < -trel * (sc.c * κ * bz) * max 1 (Z * (1 / sc.c)) * (1 / κ) :=
    mul_lt_mul_of_pos_right h3 (by positivity)
  calc N * (1 / sc.c * (1 / κ)) = N * (1 / sc.c) * (1 / κ) := by ring
    _ < -trel * (sc.c * κ * bz) * max 1 (Z * (1 / sc.c)) * (1 / κ) := h4
    _ = trel * sc.c * (-bz) * max 1 (Z * (1 / sc.c)) := by field_simp

/-- **[F] `C02.dual_cert`.**  If `is_dual_infeasible` holds for an `info` whose
`res_dual_inf` is the value `Info.update` assigns, the κ-normalised `x = Dx̂/κ`,
`s = E⁻¹ŝ/κ` satisfy on the user's data: `c·κ·qᵀx < −tol_abs`, `qᵀx < 0`,
`‖Px‖₂ < tol_rel·(−qᵀx)·max(1, κ‖x‖₂)` (here `c` cancels) and
`‖Ax+s‖₂ < tol_rel·c·(−qᵀx)·max(1, κ(‖x‖₂+‖s‖₂))` (here it does not). -/
theorem dual_cert (p : Problem ℝ n m) (sc : Scaling ℝ n m) (xh : Fin n → ℝ) (sh : Fin m → ℝ)
    (κ tabs trel : ℝ) (i : InfoS ℝ)
    (hd : ∀ j, 0 < sc.d j) (he : ∀ i, 0 < sc.e i) (hc : 0 < sc.c) (hκ : 0 < κ) (htabs : 0 ≤ tabs)
    (hres : i.res_dual_inf = resDualInf p sc xh sh)
    (h : isDualInfeasible i (dot (p.scaled sc).q xh) tabs trel = true) :
    sc.c * κ * dot p.q (unX sc κ xh) < -tabs
    ∧ dot p.q (unX sc κ xh) < 0
    ∧ nrm (mulV p.P (unX sc κ xh))
        < trel * (-(dot p.q (unX sc κ xh))) * max 1 (κ * nrm (unX sc κ xh))
    ∧ nrm (fun i => mulV p.A (unX sc κ xh) i + unS sc κ sh i)
        < trel * sc.c * (-(dot p.q (unX sc κ xh)))
            * max 1 (κ * (nrm (unX sc κ xh) + nrm (unS sc κ sh))) := by
  obtain ⟨h1, h2⟩ := (isDualInfeasible_iff i _ _ _).mp h
  rw [dot_qx_unscale p sc xh κ hκ.ne'] at h1 h2
  set qx := dot p.q (unX sc κ xh) with hqx
  have hck : 0 < sc.c * κ := mul_pos hc hκ
  have hneg : qx < 0 := by
    by_contra hcon
    have : 0 ≤ sc.c * κ * qx := mul_nonneg hck.le (not_lt.mp hcon)
    linarith
  refine ⟨h1, hneg, ?_, ?_⟩
  · rw [hres] at h2
    unfold resDualInf at h2
    have h3 := lt_of_le_of_lt (le_max_left _ _) h2
    rw [nrm_Px p sc xh κ hd hc hκ, nrm_unX sc xh κ hκ]
    set N := nrm (fun j => mulV (p.scaled sc).P xh j * (1 / sc.d j)) with hN
    set X := nrm (fun j => xh j * sc.d j) with hX
    have hM : 0 < max 1 X := lt_of_lt_of_le one_pos (le_max_left _ _)
    rw [div_lt_iff₀ hM] at h3
    have e1 : κ * (X * (1 / κ)) = X := by field_simp
    rw [e1]
    have h4 : N * (1 / sc.c * (1 / κ)) < -trel * (sc.c * κ * qx) * max 1 X * (1 / sc.c * (1 / κ)) :=
      mul_lt_mul_of_pos_right h3 (by positivity)
    calc N * (1 / sc.c * (1 / κ)) < -trel * (sc.c * κ * qx) * max 1 X * (1 / sc.c * (1 / κ)) := h4
      _ = trel * (-qx) * max 1 X := by field_simp
  · rw [hres] at h2
    unfold resDualInf at h2
    have h3 := lt_of_le_of_lt (le_max_right _ _) h2
    rw [nrm_Axs p sc xh sh κ he hκ, nrm_unX sc xh κ hκ, nrm_unS sc sh κ hκ]
    set N := nrm (fun i => rzInf (p.scaled sc) xh sh i * (1 / sc.e i)) with hN
    set X := nrm (fun j => xh j * sc.d j) with hX
    set S := nrm (fun i => sh i * (1 / sc.e i)) with hS
    have hM : 0 < max 1 (X + S) := lt_of_lt_of_le one_pos (le_max_left _ _)
    rw [div_lt_iff₀ hM] at h3
    have e1 : κ * (X * (1 / κ) + S * (1 / κ)) = X + S := by field_simp
    rw [e1]
    have h4 : N * (1 / κ) < -trel * (sc.c * κ * qx) * max 1 (X + S) * (1 / κ) :=
      mul_lt_mul_of_pos_right h3 (by positivity)
    calc N * (1 / κ) < -trel * (sc.c * κ * qx) * max 1 (X + S) * (1 / κ) := h4
      _ = trel * sc.c * (-qx) * max 1 (X + S) := by field_simp

/-- **[F] `C02.cone_of_cert`** (nonnegative cone): the κ-normalised certificate keeps the
signs of the internal iterate. -/
theorem cone_of_cert_nonneg (sc : Scaling ℝ n m) (sh zh : Fin m → ℝ) (κ : ℝ) (i : Fin m)
    (he : 0 < sc.e i) (hc : 0 < sc.c) (hκ : 0 < κ) (hs : 0 ≤ sh i) (hz : 0 ≤ zh i) :
    0 ≤ unS sc κ sh i ∧ 0 ≤ unZ sc κ zh i := by
  unfold unS unZ
  constructor <;> positivity

section structural
variable {β : Type} [Mul β] [Div β] [OfNat β 0] [OfNat β 1]

/-- **[S] `C02.nan_objectives`** (any scalar type): after `Solution.post_process` both
objective values are NaN (`none`) exactly when the status is one of the four
infeasibility statuses; otherwise they are `info.cost_primal`, `info.cost_dual`. -/
theorem nan_objectives (sol : Unscale.Solution β) (eq : Equil β) (pm : Option (Unscale.PresolveMap β))
    (v : Residuals.Vars β) (i : InfoS β) (r : Unscale.Solution β × Residuals.Vars β)
    (h : Unscale.postProcess sol eq pm v i = .ok r) :
    (i.status.isInfeasible = true → r.1.obj_val = none ∧ r.1.obj_val_dual = none)
    ∧ (i.status.isInfeasible = false →
        r.1.obj_val = some i.cost_primal ∧ r.1.obj_val_dual = some i.cost_dual) := by
  have key : r.1.obj_val = (if i.status.isInfeasible then none else some i.cost_primal)
      ∧ r.1.obj_val_dual = (if i.status.isInfeasible then none else some i.cost_dual) := by
    unfold Unscale.postProcess at h
    cases pm with
    | some p =>
      simp only [bind, Except.bind, pure, Except.pure] at h
      split at h
      · cases h
      · rename_i sol' hs
        unfold Unscale.reversePresolve at hs
        simp only [bind, Except.bind, pure, Except.pure] at hs
        split at hs
        · cases hs
        · split at hs
          · cases hs
          · cases hs; cases h; exact ⟨rfl, rfl⟩
    | none =>
      simp only [bind, Except.bind, pure, Except.pure] at h
      repeat' split at h
      all_goals first | (cases h; first | exact ⟨rfl, rfl⟩ | simp_all) | cases h
  constructor
  · intro hi; rw [hi] at key; simpa using key
  · intro hi; rw [hi] at key; simpa using key

/-- **[S]** the certificate is the κ-normalisation: for an infeasible status `unscale`
divides by `κ` (and by `τ` otherwise). -/
theorem cert_is_kappa_normalised (v : Residuals.Vars β) (eq : Equil β) :
    (Unscale.unscale v eq true).κ = v.κ * (1 / v.κ)
    ∧ (Unscale.unscale v eq true).x = Vec.scale (Unscale.hadamardInPlace v.x eq.d) (1 / v.κ)
    ∧ (Unscale.unscale v eq true).z = Vec.scale (Unscale.hadamardInPlace v.z eq.e) (1 / v.κ * (1 / eq.c))
    ∧ (Unscale.unscale v eq true).s = Vec.scale (Unscale.hadamardInPlace v.s eq.einv) (1 / v.κ)
    ∧ (Unscale.unscale v eq false).τ = v.τ * (1 / v.τ) :=
  ⟨rfl, rfl, rfl, rfl, rfl⟩

end structural

/-! ### non-vacuity -/

/-- witness: a 1×1 problem `0·x + s = −1, s ≥ 0` with `ẑ = 1`, trivial scaling -/
noncomputable def exP : Problem ℝ 1 1 := { P := fun _ _ => 0, q := fun _ => 0, A := fun _ _ => 0, b := fun _ => -1 }
noncomputable def exSc : Scaling ℝ 1 1 := { d := fun _ => 1, e := fun _ => 1, c := 1 }

/-- the hypotheses of `primal_cert` are satisfiable (so the theorem is not vacuous):
`b̂ᵀẑ = −1 < −tol`, `res_primal_inf = 0` -/
example : isPrimalInfeasible
    ({ cost_primal := 0, cost_dual := 0, res_primal := 0, res_dual := 0,
       res_primal_inf := resPrimalInf exP exSc (fun _ => 1), res_dual_inf := 0, gap_abs := 0,
       gap_rel := 0, ktratio := 0, prev_cost_primal := 0, prev_cost_dual := 0, prev_res_primal := 0,
       prev_res_dual := 0, prev_gap_abs := 0, prev_gap_rel := 0, iterations := 0,
       status := .unsolved } : InfoS ℝ)
    (dot (exP.scaled exSc).b (fun _ => 1)) (1/100) (1/100) = true := by
  rw [isPrimalInfeasible_iff]
  have hN : nrm (fun j : Fin 1 => rxInf (exP.scaled exSc) (fun _ => 1) j * (1 / exSc.d j)) = 0 := by
    unfold nrm sumsq rxInf mulVT Problem.scaled exP exSc
    simp
  have hb : dot (exP.scaled exSc).b (fun _ : Fin 1 => (1:ℝ)) = -1 := by
    unfold dot Problem.scaled exP exSc
    simp
  refine ⟨by rw [hb]; norm_num, ?_⟩
  show resPrimalInf exP exSc (fun _ => 1) < _
  unfold resPrimalInf
  rw [hN, hb]
  norm_num


/-- witness `info` over `ℕ` (structural theorems hold for every scalar type) -/
def exInfoNat : InfoS Nat :=
  { cost_primal := 7, cost_dual := 6, res_primal := 1, res_dual := 2, res_primal_inf := 0,
    res_dual_inf := 0, gap_abs := 1, gap_rel := 1, ktratio := 0, prev_cost_primal := 0,
    prev_cost_dual := 0, prev_res_primal := 0, prev_res_dual := 0, prev_gap_abs := 0,
    prev_gap_rel := 0, iterations := 4, status := .primalInfeasible }

/-- `Solution.post_process` succeeds on a concrete input with a presolve map (3 rows, the
middle one dropped): the hypotheses `… = .ok r` of the structural theorems are satisfiable,
the objective is NaN (`none`) for the infeasible status, lengths are `1, 3, 3`. -/
example :
    (Unscale.postProcess (Unscale.Solution.new 1 3)
      { d := #[2], dinv := #[1], e := #[1, 3], einv := #[1, 1], c := 1 }
      (some { keep := #[true, false, true], infbound := 99 })
      { x := #[5], s := #[1, 2], z := #[3, 4], τ := 1, κ := 1 } exInfoNat).toOption.map
        (fun r => (r.1.x, r.1.s, r.1.z, r.1.obj_val, r.1.iterations))
    = some (#[10], #[1, 99, 2], #[3, 0, 12], none, 4) := by
  decide +kernel

end Clarabel.C02
