/-
  C05 — equivalent formulations and configurations give consistent answers; identical
  calls are bit-reproducible.  Property theorems only (helpers: `Lemmas/Duality.lean`,
  `Lemmas/StepRW.lean`, `Lemmas/StepVec.lean`).
-/
import ClarabelModel.Step
import ClarabelProofs.Lemmas.Duality
import ClarabelProofs.Lemmas.StepRW
import ClarabelProofs.Lemmas.StepVec
import Mathlib.Tactic.NormNum
import Mathlib.Tactic.FinCases
import ClarabelProofs.Props.C09
import ClarabelProofs.Props.C16
import Mathlib.Analysis.SpecialFunctions.Exp
import ClarabelProofs.Props.C05Full
import ClarabelProofs.Props.C05Cones
import ClarabelProofs.Props.C05Equiv
import ClarabelProofs.Props.C05Idem
import ClarabelProofs.Props.C05NS

namespace Clarabel.C05
open Clarabel Clarabel.Step Clarabel.Lemmas Matrix

set_option linter.unusedSectionVars false

section duality
variable {α : Type} [Field α] [LinearOrder α] [IsStrictOrderedRing α] {n m : ℕ}

/-- [F] **Weak duality with residual slack** — the soundness theorem of the pair oracle of
`harness/src/bin/c05.rs` (`pair_check`).  For any two points `(x₁,s₁)`, `(x₂,z₂)` of one
problem with symmetric `P ⪰ 0` and `s₁·z₂ ≥ 0` (which holds for `s₁ ∈ K`, `z₂ ∈ K*`, see
`cone_pairing_nonneg`):

  `pobj₁ − dobj₂ = ½(x₁−x₂)ᵀP(x₁−x₂) + s₁·z₂ − rp₁·z₂ + rd₂·x₁`   (identity), hence
  `dobj₂ − pobj₁ ≤ rp₁·z₂ − rd₂·x₁`

with `rp₁ = Ax₁ + s₁ − b`, `rd₂ = Px₂ + Aᵀz₂ + q`. -/
theorem weak_duality_slack (P : Matrix (Fin n) (Fin n) α) (hsym : Pᵀ = P)
    (hpsd : ∀ d : Fin n → α, 0 ≤ d ⬝ᵥ P *ᵥ d) (A : Matrix (Fin m) (Fin n) α) (q : Fin n → α)
    (b : Fin m → α) (x₁ : Fin n → α) (s₁ : Fin m → α) (x₂ : Fin n → α) (z₂ : Fin m → α)
    (hK : 0 ≤ s₁ ⬝ᵥ z₂) :
    pobj P q x₁ - dobj P b x₂ z₂ =
        2⁻¹ * ((x₁ - x₂) ⬝ᵥ P *ᵥ (x₁ - x₂)) + s₁ ⬝ᵥ z₂ - rp A b x₁ s₁ ⬝ᵥ z₂ + rd P A q x₂ z₂ ⬝ᵥ x₁
    ∧ dobj P b x₂ z₂ - pobj P q x₁ ≤ rp A b x₁ s₁ ⬝ᵥ z₂ - rd P A q x₂ z₂ ⬝ᵥ x₁ := by
  have hid := gap_identity P hsym A q b x₁ s₁ x₂ z₂
  refine ⟨hid, ?_⟩
  have h1 := hpsd (x₁ - x₂)
  have h2 : (0 : α) ≤ 2⁻¹ * ((x₁ - x₂) ⬝ᵥ P *ᵥ (x₁ - x₂)) := mul_nonneg (by norm_num) h1
  linarith

/-- [F] the form used with the residual bounds that a `Solved` verdict promises
(`‖rp₁‖∞ ≤ Tp`, `‖rd₂‖∞ ≤ Td`): `dobj₂ − pobj₁ ≤ Tp‖z₂‖₁ + Td‖x₁‖₁`. -/
theorem weak_duality_slack_tol (P : Matrix (Fin n) (Fin n) α) (hsym : Pᵀ = P)
    (hpsd : ∀ d : Fin n → α, 0 ≤ d ⬝ᵥ P *ᵥ d) (A : Matrix (Fin m) (Fin n) α) (q : Fin n → α)
    (b : Fin m → α) (x₁ : Fin n → α) (s₁ : Fin m → α) (x₂ : Fin n → α) (z₂ : Fin m → α)
    (hK : 0 ≤ s₁ ⬝ᵥ z₂) (Tp Td : α) (hp : ∀ i, |rp A b x₁ s₁ i| ≤ Tp)
    (hd : ∀ j, |rd P A q x₂ z₂ j| ≤ Td) :
    dobj P b x₂ z₂ - pobj P q x₁ ≤ Tp * ∑ i, |z₂ i| + Td * ∑ j, |x₁ j| := by
  have h := (weak_duality_slack P hsym hpsd A q b x₁ s₁ x₂ z₂ hK).2
  have h1 := dot_le_bound_mul_l1 (rp A b x₁ s₁) z₂ Tp hp
  have h2 := dot_le_bound_mul_l1 (rd P A q x₂ z₂) x₁ Td hd
  have h3 := le_abs_self (rp A b x₁ s₁ ⬝ᵥ z₂)
  have h4 := neg_abs_le (rd P A q x₂ z₂ ⬝ᵥ x₁)
  linarith

/-- the kinds of cone blocks covered by `cone_pairing_nonneg` -/
inductive BlockKind (m : ℕ) where
  | zero
  | nn
  | soc (head : Fin m)

/-- `s ∈ K` for a product `K` of zero / nonnegative / second-order cones; block `c` consists
of the rows `i` with `blk i = c` -/
def InK {k : ℕ} (kind : Fin k → BlockKind m) (blk : Fin m → Fin k) (s : Fin m → α) : Prop :=
  ∀ c, match kind c with
    | .zero => ∀ i, blk i = c → s i = 0
    | .nn => ∀ i, blk i = c → 0 ≤ s i
    | .soc h => blk h = c ∧ 0 ≤ s h ∧
        ∑ i ∈ (Finset.univ.filter (fun i => blk i = c)).erase h, s i ^ 2 ≤ s h ^ 2

/-- `z ∈ K*` (the zero cone's dual is the whole space; the others are self-dual) -/
def InKdual {k : ℕ} (kind : Fin k → BlockKind m) (blk : Fin m → Fin k) (z : Fin m → α) : Prop :=
  ∀ c, match kind c with
    | .zero => True
    | .nn => ∀ i, blk i = c → 0 ≤ z i
    | .soc h => blk h = c ∧ 0 ≤ z h ∧
        ∑ i ∈ (Finset.univ.filter (fun i => blk i = c)).erase h, z i ^ 2 ≤ z h ^ 2

/-- [F] `s ∈ K`, `z ∈ K*` ⟹ `s·z ≥ 0` for products of zero, nonnegative and second-order
cones (SOC by Cauchy–Schwarz) — discharges hypothesis `hK` of `weak_duality_slack`. -/
theorem cone_pairing_nonneg {k : ℕ} (kind : Fin k → BlockKind m) (blk : Fin m → Fin k)
    (s z : Fin m → α) (hs : InK kind blk s) (hz : InKdual kind blk z) : 0 ≤ s ⬝ᵥ z := by
  unfold dotProduct
  rw [← Finset.sum_fiberwise Finset.univ blk (fun i => s i * z i)]
  apply Finset.sum_nonneg
  intro c _
  have hsc := hs c
  have hzc := hz c
  cases hk : kind c with
  | zero =>
    rw [hk] at hsc
    apply le_of_eq
    symm
    apply Finset.sum_eq_zero
    intro i hi
    rw [hsc i (Finset.mem_filter.mp hi).2, zero_mul]
  | nn =>
    rw [hk] at hsc hzc
    exact nn_pair_nonneg _ s z (fun i hi => hsc i (Finset.mem_filter.mp hi).2)
      (fun i hi => hzc i (Finset.mem_filter.mp hi).2)
  | soc h =>
    rw [hk] at hsc hzc
    obtain ⟨hb, hs0, hsq⟩ := hsc
    obtain ⟨_, hz0, hzq⟩ := hzc
    have hmem : h ∈ Finset.univ.filter (fun i => blk i = c) :=
      Finset.mem_filter.mpr ⟨Finset.mem_univ _, hb⟩
    rw [← Finset.add_sum_erase _ _ hmem]
    exact soc_pair_nonneg _ s z (s h) (z h) hs0 hz0 hsq hzq

/-- non-vacuity of `weak_duality_slack` / `weak_duality_slack_tol`: a 1×1 problem
(`P = 2`, `A = 1`, `q = −1`, `b = 1`) with two slightly infeasible points -/
example :
    let P : Matrix (Fin 1) (Fin 1) ℚ := fun _ _ => 2
    let A : Matrix (Fin 1) (Fin 1) ℚ := fun _ _ => 1
    let q : Fin 1 → ℚ := fun _ => -1
    let b : Fin 1 → ℚ := fun _ => 1
    let x₁ : Fin 1 → ℚ := fun _ => 1/3
    let s₁ : Fin 1 → ℚ := fun _ => 2/3 + 1/100
    let x₂ : Fin 1 → ℚ := fun _ => 1/2
    let z₂ : Fin 1 → ℚ := fun _ => 1/10
    dobj P b x₂ z₂ - pobj P q x₁ ≤ rp A b x₁ s₁ ⬝ᵥ z₂ - rd P A q x₂ z₂ ⬝ᵥ x₁ := by
  intro P A q b x₁ s₁ x₂ z₂
  refine (weak_duality_slack P ?_ ?_ A q b x₁ s₁ x₂ z₂ ?_).2
  · ext i j; rfl
  · intro d
    simp only [dotProduct, Matrix.mulVec, Finset.univ_unique, Finset.sum_singleton, P]
    nlinarith [sq_nonneg (d default)]
  · simp only [dotProduct, Finset.univ_unique, Finset.sum_singleton, s₁, z₂]; norm_num

/-- non-vacuity of `cone_pairing_nonneg`: one SOC block `(2; 1, 1)`·`(3; −2, 1)` -/
example : (0 : ℚ) ≤ (![2, 1, 1] : Fin 3 → ℚ) ⬝ᵥ ![3, -2, 1] := by
  have hset : ∀ c : Fin 1, (Finset.univ.filter (fun _ : Fin 3 => (0 : Fin 1) = c)).erase 0 = {1, 2} := by
    intro c; fin_cases c; decide
  refine cone_pairing_nonneg (k := 1) (fun _ => BlockKind.soc 0) (fun _ => 0) _ _ ?_ ?_
  · intro c
    refine ⟨Subsingleton.elim _ _, by norm_num, ?_⟩
    rw [hset c, Finset.sum_pair (by decide)]; simp <;> norm_num
  · intro c
    refine ⟨Subsingleton.elim _ _, by norm_num, ?_⟩
    rw [hset c, Finset.sum_pair (by decide)]; simp <;> norm_num

end duality

section perm
variable {α : Type} [Field α] [LinearOrder α] [IsStrictOrderedRing α] [FloatLike α]
  [LawfulFloatLike α]

/-- [F] **Rows permuted within a nonnegative cone, complementarity.**  If the rows
`(sᵢ,zᵢ)` are permuted, `s·z` — and therefore `μ = calc_mu` — is unchanged. -/
theorem row_perm_within_nn_mu (s z s' z' : Array α)
    (hp : (s.toList.zip z.toList).Perm (s'.toList.zip z'.toList)) (τ κ : α) (deg : Nat) :
    calcMu (Vec.dot s z) τ κ deg = calcMu (Vec.dot s' z') τ κ deg := by
  rw [dot_eq_dotRows, dot_eq_dotRows, dotRows_perm hp]

/-- [F] **Rows permuted within a nonnegative cone, step length.**  The step length
`NonnegativeCone::step_length` (as threaded through `CompositeCone::step_length`) of a
nonnegative cone does not depend on the order of its rows `(Δzᵢ, Δsᵢ, zᵢ, sᵢ)`. -/
theorem row_perm_within_nn_step (d : Nat) (dz ds z s dz' ds' z' s' : List α)
    (hl : dz.length = d ∧ ds.length = d ∧ z.length = d ∧ s.length = d)
    (hl' : dz'.length = d ∧ ds'.length = d ∧ z'.length = d ∧ s'.length = d)
    (hp : (dz.zip (ds.zip (z.zip s))).Perm (dz'.zip (ds'.zip (z'.zip s')))) (αmax : α) :
    stepLengthCones [ConeK.nn d] dz ds z s αmax = stepLengthCones [ConeK.nn d] dz' ds' z' s' αmax := by
  obtain ⟨h1, h2, h3, h4⟩ := hl
  obtain ⟨h1', h2', h3', h4'⟩ := hl'
  have key : ∀ (rows : List (α × α × α × α)) (a : α),
      rows.foldl (fun acc (x : α × α × α × α) =>
        match x with | (dzi, _, zi, _) => if dzi < 0 then fmin acc (-zi / dzi) else acc) a
        = ratioRows (rows.map fun r => (r.1, r.2.2.1)) a
      ∧ rows.foldl (fun acc (x : α × α × α × α) =>
        match x with | (_, dsi, _, si) => if dsi < 0 then fmin acc (-si / dsi) else acc) a
        = ratioRows (rows.map fun r => (r.2.1, r.2.2.2)) a := by
    intro rows
    induction rows with
    | nil => intro a; exact ⟨rfl, rfl⟩
    | cons r rs ih =>
      intro a
      obtain ⟨r1, r2, r3, r4⟩ := r
      simp only [List.foldl_cons, List.map_cons, ratioRows, LawfulFloatLike.fmin_eq]
      constructor
      · have := (ih (if r1 < 0 then min a (-r3 / r1) else a)).1
        simpa only [ratioRows, LawfulFloatLike.fmin_eq] using this
      · have := (ih (if r2 < 0 then min a (-r4 / r2) else a)).2
        simpa only [ratioRows, LawfulFloatLike.fmin_eq] using this
  simp only [stepLengthCones, ConeK.dim, List.take_of_length_le (le_of_eq h1),
    List.take_of_length_le (le_of_eq h2), List.take_of_length_le (le_of_eq h3),
    List.take_of_length_le (le_of_eq h4), List.take_of_length_le (le_of_eq h1'),
    List.take_of_length_le (le_of_eq h2'), List.take_of_length_le (le_of_eq h3'),
    List.take_of_length_le (le_of_eq h4')]
  rw [(key _ αmax).1, (key _ αmax).2, (key _ αmax).1, (key _ αmax).2]
  rw [ratioRows_perm (hp.map fun r => (r.1, r.2.2.1)) αmax,
    ratioRows_perm (hp.map fun r => (r.2.1, r.2.2.2)) αmax]

/-- non-vacuity: two rows swapped -/
example : stepLengthCones [ConeK.nn 2] [(-1 : ℝ), 1] [1, -4] [2, 1] [1, 2] 1
    = stepLengthCones [ConeK.nn 2] [1, (-1 : ℝ)] [-4, 1] [1, 2] [2, 1] 1 :=
  row_perm_within_nn_step 2 [-1, 1] [1, -4] [2, 1] [1, 2] [1, -1] [-4, 1] [1, 2] [2, 1]
    ⟨rfl, rfl, rfl, rfl⟩ ⟨rfl, rfl, rfl, rfl⟩ (List.Perm.swap _ _ _) 1

end perm

section rw

/-- at most one pass ends in a strategy switch (`PrimalDual → Dual` is the only one) -/
def AtMostOneSwitch (moves : List Move) : Prop := (moves.filter Move.isCont).length ≤ 1

instance : DecidablePred AtMostOneSwitch := fun moves =>
  inferInstanceAs (Decidable ((moves.filter Move.isCont).length ≤ 1))

/-- [S] **`solve()` is a function of construction-time data.**  On the read/write skeleton of
`solve()` (`Step.prologueSym/prologueNonsym`, `Step.solvePass`, `Step.solveEpilogue`): for
either kind of start, every sequence of loop passes with at most one strategy switch, and
every way of leaving the loop, no step reads a state component that is neither
construction-time data nor written earlier in the same `solve()` (`prev_*` and `prev_vars`
are read only under `iter > 1`, after `save_prev_iterate` has run; scaling state, KKT values,
LDL workspace, `(x2,z2)`, residuals, step vectors and `info` scalars are overwritten before
use).  Hence a second `solve()` on the same object recomputes the same values. -/
theorem solve_is_function_of_data (sym : Bool) (moves : List Move) (ex : Exit)
    (h : AtMostOneSwitch moves) : (runSolve sym moves ex).isSome = true := by
  -- invariant: the state at the top of the loop lies in the finite closed set `reach`
  have hmoves : ∀ (mvs : List Move) (s : St), s ∈ reach →
      ((mvs.filter Move.isCont).length + (if s.contUsed then 1 else 0) ≤ 1) →
      ∃ s' ∈ reach, runMoves mvs s = some s' := by
    intro mvs
    induction mvs with
    | nil => intro s hs _; exact ⟨s, hs, rfl⟩
    | cons mv rest ih =>
      intro s hs hcnt
      have hadm : (mv.isCont && s.contUsed) = false := by
        cases hc : mv.isCont <;> cases hu : s.contUsed <;> simp_all [List.filter]
      obtain ⟨s1, hs1, hrun⟩ := reach_closed s hs mv (move_mem_all mv) hadm
      have hcnt' : (rest.filter Move.isCont).length + (if s1.contUsed then 1 else 0) ≤ 1 := by
        cases hc : mv.isCont
        · -- a full pass keeps `contUsed`
          have hkeep : s1.contUsed = true → s.contUsed = true := by
            intro h1
            unfold runMove at hrun
            simp only [hc, Bool.false_and, Bool.false_eq_true, if_false, Option.map_eq_some_iff] at hrun
            obtain ⟨a, ha, rfl⟩ := hrun
            have := runRW_contUsed
            rw [← this _ _ _ ha]; exact h1
          simp only [List.filter, hc] at hcnt
          cases h1 : s1.contUsed
          · have h' := hcnt
            split_ifs at h' <;> simp only [Bool.false_eq_true, if_false] <;> omega
          · rw [hkeep h1] at hcnt; simpa using hcnt
        · have := contUsed_of_cont s hs mv (move_mem_all mv) hc s1 hrun
          simp only [List.filter, hc, List.length_cons] at hcnt
          rw [this]
          simp only [if_true]
          omega
      obtain ⟨s2, hs2, hrest⟩ := ih s1 hs1 hcnt'
      exact ⟨s2, hs2, by simp only [runMoves, hrun, Option.bind_some, hrest]⟩
  obtain ⟨s0, hs0, hstart⟩ : ∃ s ∈ reach,
      runRW (if sym then prologueSym else prologueNonsym) St.init = some s := by
    cases sym
    · exact start_nonsym_mem
    · exact start_sym_mem
  have hc0 : s0.contUsed = false := by
    have := runRW_contUsed
    rw [this _ _ _ hstart]; rfl
  obtain ⟨s1, hs1, hrun⟩ := hmoves moves s0 hs0 (by rw [hc0]; simpa [AtMostOneSwitch] using h)
  have hex := reach_exit s1 hs1 ex (exit_mem_all ex)
  unfold runSolve
  simp only [hstart, Option.bind_some, hrun]
  exact hex

/-- non-vacuity / sensitivity of the skeleton: a loop body whose `check_termination` read the
`prev_*` scalars without the `iter > 1` guard would be rejected in the very first pass. -/
example :
    (runRW prologueSym St.init).bind (runRW (passSteps [0, 1, 2, 3] ++
      [{ name := "check_termination without guard",
         reads := [Comp.infoScalars, Comp.residuals, Comp.settings, Comp.iterCount, Comp.infoPrev],
         writes := [Comp.infoStatus] }])) = none := by decide +kernel

/-- non-vacuity: a concrete run (two full passes, a strategy switch, one more pass, exit) -/
example : (runSolve false [.full, .full, .contSmallStep, .full] .atTermination).isSome = true :=
  solve_is_function_of_data _ _ _ (by decide)

end rw

section formulation

/-- [S] **Nonnegative cones split or merged** (corollary of `C09.collapse_nn_split_merge`,
`C09.collapse_idempotent`): `new_collapsed`, which `DefaultProblemData::new` applies to the
user's cone list first, maps `… NN(a), NN(b) …` and `… NN(a+b) …` to the same internal cone
list, and is idempotent — so the split and the merged formulation are the *same* internal
problem (rows are untouched by the collapse). -/
theorem collapse_split_merge {α : Type} (pre post : List (ConeT α)) (a b : Nat) :
    Cones.newCollapsed (pre ++ ConeT.nonneg a :: ConeT.nonneg b :: post)
        = Cones.newCollapsed (pre ++ ConeT.nonneg (a + b) :: post)
    ∧ Cones.newCollapsed (Cones.newCollapsed (pre ++ ConeT.nonneg (a + b) :: post))
        = Cones.newCollapsed (pre ++ ConeT.nonneg (a + b) :: post) :=
  ⟨C09.collapse_nn_split_merge pre post a b, C09.collapse_idempotent _⟩

/-- [S] **`P` given full or upper-triangular** (corollary of `C16.toTriu_spec`): two canonical
square encodings that agree on and above the diagonal (e.g. a full symmetric `P` and its upper
triangle) are mapped by `to_triu` to matrices with the same dense meaning — the same
internal `P`, entry for entry, for every scalar type. -/
theorem triu_of_full {α : Type} [Add α] [OfNat α 0] (M M' : Csc α) (hM : C16.Canonical M)
    (hM' : C16.Canonical M') (hsq : M.m = M.n) (hsq' : M'.m = M'.n) (hn : M.n = M'.n)
    (hup : ∀ i j, i ≤ j → M.toDense i j = M'.toDense i j) :
    ∃ R R', M.toTriu = .ok R ∧ M'.toTriu = .ok R' ∧ R.isTriu = true ∧ R'.isTriu = true ∧
      ∀ i j, j < M.n → R.toDense i j = R'.toDense i j := by
  obtain ⟨R, h1, _, _, _, h4, h5⟩ := C16.toTriu_spec M hM hsq
  obtain ⟨R', h1', _, _, _, h4', h5'⟩ := C16.toTriu_spec M' hM' hsq'
  refine ⟨R, R', h1, h1', h4, h4', ?_⟩
  intro i j hj
  rw [h5 i j hj, h5' i j (hn ▸ hj)]
  by_cases hij : i ≤ j
  · simp only [hij, if_true]; exact hup i j hij
  · simp only [hij, if_false]

end formulation

section expcone

/-- [R] **Exponential cone pairing.**  For `s = (x,y,z)` in the exponential cone
(`y > 0`, `y·exp(x/y) ≤ z`) and `(u,v,w)` in its dual (`u < 0`, `−u·exp(v/u) ≤ e·w`):
`s·(u,v,w) ≥ 0` — hypothesis `hK` of `weak_duality_slack` for exponential-cone rows (the
parts of the two cones with `y > 0`, `u < 0`, where the solver's iterates live). -/
theorem exp_cone_pairing_nonneg (x y z u v w : ℝ) (hy : 0 < y) (hs : y * Real.exp (x / y) ≤ z)
    (hu : u < 0) (hz : -u * Real.exp (v / u) ≤ Real.exp 1 * w) : 0 ≤ x * u + y * v + z * w := by
  have hnu : 0 < -u := by linarith
  have he : 0 < Real.exp 1 := Real.exp_pos 1
  -- w ≥ −u·exp(v/u − 1)
  have hw : -u * Real.exp (v / u - 1) ≤ w := by
    rw [Real.exp_sub, mul_div_assoc']
    rw [div_le_iff₀ he]
    linarith
  have hz0 : 0 ≤ z := le_trans (mul_nonneg hy.le (Real.exp_pos _).le) hs
  have hw0 : 0 ≤ w := le_trans (mul_nonneg hnu.le (Real.exp_pos _).le) hw
  -- z·w ≥ (−u)·y·exp(x/y + v/u − 1)
  have hzw : y * Real.exp (x / y) * (-u * Real.exp (v / u - 1)) ≤ z * w :=
    mul_le_mul hs hw (mul_nonneg hnu.le (Real.exp_pos _).le) hz0
  have hcomb : y * Real.exp (x / y) * (-u * Real.exp (v / u - 1))
      = (-u * y) * Real.exp (x / y + v / u - 1) := by
    rw [show x / y + v / u - 1 = x / y + (v / u - 1) by ring, Real.exp_add]; ring
  -- exp(t − 1) ≥ t
  have ht := Real.add_one_le_exp (x / y + v / u - 1)
  have h1 : y * (x / y) = x := by field_simp
  have h2 : u * (v / u) = v := mul_div_cancel₀ v hu.ne
  have hlin : x * u + y * v = -(-u * y) * (x / y + v / u) := by
    calc x * u + y * v = (y * (x / y)) * u + y * (u * (v / u)) := by rw [h1, h2]
      _ = -(-u * y) * (x / y + v / u) := by ring
  have hpos : 0 ≤ -u * y := (mul_pos hnu hy).le
  nlinarith [mul_le_mul_of_nonneg_left ht hpos]

/-- non-vacuity: `(0,1,1)` lies in the cone, `(−1,0,1)` in the dual -/
example : (0 : ℝ) ≤ 0 * (-1) + 1 * 0 + 1 * 1 :=
  exp_cone_pairing_nonneg 0 1 1 (-1) 0 1 (by norm_num) (by simp) (by norm_num)
    (by simp)

end expcone

end Clarabel.C05
