/-
  C05 — equivalence transformations as theorems: for each reformulation the property lists,
  what is provable exactly.  Property theorems only (helpers: `Lemmas/EquivData.lean`,
  `Lemmas/EquivKkt.lean`, `Lemmas/EquivPair.lean`; example data: `Lemmas/EquivExample.lean`).

  (a) [S] nonnegative cones split / merged / empty cones inserted: the SAME solver object
      (`DefaultSolver::new`), hence the same `solve()`, for every scalar type (`Float`: bit for bit);
  (b) [S] `P` full or upper triangular: the same solver object, provided `to_triu` of the full
      `P` passes `is_triu` (always so when the columns of `P` are sorted);
  (c) [F] objective scaled by `γ > 0`: optimal points, certificates, objectives, residuals of the
      scaled problem ↔ those of the original (`z ↦ γz`);
  (d) [F] rows / cones / variables permuted: the same, along the permutations;
  (e) [F] what two truthful verdicts on one problem imply about each other — the inequalities
      the pair oracle of `harness/src/bin/c05.rs` tests after mapping the runs back by (c), (d).

  (c)–(e) are statements about the PROBLEM (dense operators over an ordered field), not about
  the trajectory of the algorithm: the iterates of the variants differ, the verdicts they are
  entitled to do not.
-/
import ClarabelProofs.Lemmas.EquivData
import ClarabelProofs.Lemmas.EquivKkt
import ClarabelProofs.Lemmas.EquivPair
import ClarabelProofs.Lemmas.EquivExample
import ClarabelProofs.Props.C16
import Mathlib.Tactic.NormNum
import Mathlib.Algebra.Order.Field.Rat

namespace Clarabel.C05
open Clarabel Clarabel.Solver Clarabel.Lemmas Matrix

set_option linter.unusedSectionVars false

/-! ## (a) nonnegative cones split or merged, empty cones inserted — [S] -/

section cones
variable {α : Type} [Add α] [Sub α] [Mul α] [Div α] [Neg α] [OfNat α 0] [OfNat α 1] [OfNat α 2]
  [OfNat α 100] [OfNat α 1000] [LT α] [DecidableLT α] [LE α] [DecidableLE α] [BEq α] [FloatLike α]

/-- [S] **Cone lists with the same collapsed form are the same problem to the solver, end to
end.**  `DefaultProblemData::new` reads the user's cone list only through `new_collapsed`;
`_check_dimensions` reads it only through `Σ nvars`, which `new_collapsed` preserves.  Hence, if
`new_collapsed c1 = new_collapsed c2`: the same `DefaultProblemData` (internal cone list, `P`,
`A`, capped `b`, presolver, norms — or the same error), the same `DefaultSolver` object
(equilibration, KKT structure and factorisation workspace, work vectors — or the same
error / panic), and `solve()` returns the identical `SolveResult` (final state, solution, whole
trajectory — or the same error).  For every scalar type: at `Float` this is bit-for-bit. -/
theorem same_collapsed_same_solver (P : Csc α) (q : Array α) (A : Csc α) (b : Array α)
    (c1 c2 : List (ConeT α)) (h : Cones.newCollapsed c1 = Cones.newCollapsed c2) :
    (∀ (pe ce : Bool) (inf : α),
      ProblemData.new P q A b c1 pe ce inf = ProblemData.new P q A b c2 pe ce inf)
    ∧ ∀ (st : Settings α) (perm : Array Nat),
      Solver.new P q A b c1 st perm = Solver.new P q A b c2 st perm
      ∧ (do let S ← Solver.new P q A b c1 st perm; S.solve st)
          = (do let S ← Solver.new P q A b c2 st perm; S.solve st) :=
  ⟨fun pe ce inf => ProblemData.new_congr_collapsed P q A b h pe ce inf,
   fun st perm => ⟨solver_new_congr_collapsed P q A b h st perm,
                   newAndSolve_congr_collapsed P q A b h st perm⟩⟩

/-- [S] **Nonnegative cones split or merged, end to end**: `… NN(a), NN(b) …` and
`… NN(a+b) …` give the same `DefaultProblemData`, the same `DefaultSolver` and the identical
`SolveResult` (instance of `same_collapsed_same_solver`). -/
theorem nn_split_merge_same_solver (P : Csc α) (q : Array α) (A : Csc α) (b : Array α)
    (pre post : List (ConeT α)) (a₁ a₂ : Nat) :
    let c1 := pre ++ ConeT.nonneg a₁ :: ConeT.nonneg a₂ :: post
    let c2 := pre ++ ConeT.nonneg (a₁ + a₂) :: post
    (∀ (pe ce : Bool) (inf : α),
      ProblemData.new P q A b c1 pe ce inf = ProblemData.new P q A b c2 pe ce inf)
    ∧ ∀ (st : Settings α) (perm : Array Nat),
      Solver.new P q A b c1 st perm = Solver.new P q A b c2 st perm
      ∧ (do let S ← Solver.new P q A b c1 st perm; S.solve st)
          = (do let S ← Solver.new P q A b c2 st perm; S.solve st) :=
  same_collapsed_same_solver P q A b _ _ (Cones.newCollapsed_split_merge pre post a₁ a₂)

/-- [S] **Empty cones inserted anywhere** (any kind with `nvars = 0`: `ZeroConeT(0)`,
`NonnegativeConeT(0)`, `SecondOrderConeT(0)`, `PSDTriangleConeT(0)`, `GenPowerConeT([],0)`)
change nothing: same `DefaultProblemData`, same `DefaultSolver`, identical `SolveResult`. -/
theorem empty_cone_same_solver (P : Csc α) (q : Array α) (A : Csc α) (b : Array α)
    (pre post : List (ConeT α)) (c : ConeT α) (hc : c.nvars = 0) :
    (∀ (pe ce : Bool) (inf : α),
      ProblemData.new P q A b (pre ++ c :: post) pe ce inf
        = ProblemData.new P q A b (pre ++ post) pe ce inf)
    ∧ ∀ (st : Settings α) (perm : Array Nat),
      Solver.new P q A b (pre ++ c :: post) st perm = Solver.new P q A b (pre ++ post) st perm
      ∧ (do let S ← Solver.new P q A b (pre ++ c :: post) st perm; S.solve st)
          = (do let S ← Solver.new P q A b (pre ++ post) st perm; S.solve st) :=
  same_collapsed_same_solver P q A b _ _ (Cones.newCollapsed_insert_empty pre post c hc)

/-- non-vacuity of `same_collapsed_same_solver` / `empty_cone_same_solver`: two different cone
lists with the same collapsed form; an empty cone -/
example : Cones.newCollapsed ([.zero 1, .nonneg 2, .nonneg 3, .soc 3] : List (ConeT α))
    = Cones.newCollapsed [.zero 1, .nonneg 5, .soc 3] :=
  Cones.newCollapsed_split_merge [.zero 1] [.soc 3] 2 3
example : (ConeT.soc 0 : ConeT α).nvars = 0 := rfl

end cones

/-! ## (b) `P` full or upper triangular — [S] -/

section triu
variable {α : Type} [Add α] [Sub α] [Mul α] [Div α] [Neg α] [OfNat α 0] [OfNat α 1] [OfNat α 2]
  [OfNat α 100] [OfNat α 1000] [LT α] [DecidableLT α] [LE α] [DecidableLE α] [BEq α] [FloatLike α]

/-- [S] `to_triu` keeps the shape, and is idempotent on every result that passes `is_triu`. -/
theorem to_triu_shape_idempotent (P R : Csc α) (h : P.toTriu = .ok R) :
    R.m = P.m ∧ R.n = P.n ∧ (R.isTriu = true → R.toTriu = .ok R) :=
  ⟨(Csc.toTriu_shape h).1, (Csc.toTriu_shape h).2, Csc.toTriu_idem_of_isTriu h⟩

/-- [S] **`P` given full or upper triangular, end to end.**  `DefaultProblemData::new` reads `P`
only through `if !P.is_triu() { P.to_triu() }` (`triuStep`), `_check_dimensions` only through
`P.m`, `P.n`, which `to_triu` keeps.  If the internal `P` built from the user's `P` is `R` and
`R` passes `is_triu`, then supplying `R` directly gives the same `DefaultProblemData`, the same
`DefaultSolver` object and the identical `SolveResult` (or the same error) — for every scalar
type.  The hypothesis `R.isTriu = true` cannot be dropped: `to_triu` keeps the *leading*
`count(row ≤ col)` entries of each column, which is the upper triangle only when the column is
sorted (see the example after `full_P_canonical_same_solver`). -/
theorem triu_input_same_solver (P R : Csc α) (h : ProblemData.triuStep P = .ok R)
    (ht : R.isTriu = true) (q : Array α) (A : Csc α) (b : Array α) (cones : List (ConeT α)) :
    (∀ (pe ce : Bool) (inf : α),
      ProblemData.new P q A b cones pe ce inf = ProblemData.new R q A b cones pe ce inf)
    ∧ ∀ (st : Settings α) (perm : Array Nat),
      Solver.new P q A b cones st perm = Solver.new R q A b cones st perm
      ∧ (do let S ← Solver.new P q A b cones st perm; S.solve st)
          = (do let S ← Solver.new R q A b cones st perm; S.solve st) :=
  ⟨fun pe ce inf => ProblemData.new_congr_triu h ht q A b cones pe ce inf,
   fun st perm => ⟨solver_new_congr_triu h ht q A b cones st perm,
                   newAndSolve_congr_triu h ht q A b cones st perm⟩⟩

/-- [S] **A full canonical `P` and its upper triangle are the same problem to the solver.**
For a square `P` in canonical encoding (`check_format`) that is not upper triangular:
`to_triu` succeeds with a canonical upper-triangular `R` of the same shape whose entries on and
above the diagonal are those of `P` (`C16.toTriu_spec`), `to_triu R = R`, and `P`, `R` give the
same `DefaultProblemData`, the same `DefaultSolver` and the identical `SolveResult`. -/
theorem full_P_canonical_same_solver (P : Csc α) (hP : C16.Canonical P) (hsq : P.m = P.n)
    (hnt : P.isTriu = false) :
    ∃ R, P.toTriu = .ok R ∧ C16.Canonical R ∧ R.m = P.m ∧ R.n = P.n ∧ R.isTriu = true
      ∧ (∀ i j, j < P.n → R.toDense i j = if i ≤ j then P.toDense i j else 0)
      ∧ R.toTriu = .ok R
      ∧ ∀ (q : Array α) (A : Csc α) (b : Array α) (cones : List (ConeT α)),
        (∀ (pe ce : Bool) (inf : α),
          ProblemData.new P q A b cones pe ce inf = ProblemData.new R q A b cones pe ce inf)
        ∧ ∀ (st : Settings α) (perm : Array Nat),
          Solver.new P q A b cones st perm = Solver.new R q A b cones st perm
          ∧ (do let S ← Solver.new P q A b cones st perm; S.solve st)
              = (do let S ← Solver.new R q A b cones st perm; S.solve st) := by
  obtain ⟨R, h1, h2, h3, h4, h5, h6⟩ := C16.toTriu_spec P hP hsq
  have hstep : ProblemData.triuStep P = .ok R := by
    unfold ProblemData.triuStep; rw [hnt]; exact h1
  exact ⟨R, h1, h2, h3, h4, h5, h6, Csc.toTriu_idem_of_isTriu h1 h5,
    fun q A b cones => triu_input_same_solver P R hstep h5 q A b cones⟩

end triu

/-- non-vacuity of `to_triu_shape_idempotent`, `triu_input_same_solver`,
`full_P_canonical_same_solver`: the full canonical 3×3 matrix `C16.exM` -/
example : C16.Canonical C16.exM ∧ C16.exM.m = C16.exM.n ∧ C16.exM.isTriu = false
    ∧ ∃ R, ProblemData.triuStep C16.exM = .ok R ∧ C16.exM.toTriu = .ok R ∧ R.isTriu = true :=
  ⟨C16.exM_canonical, rfl, by rfl,
    let ⟨R, h1, _, _, _, h5, _⟩ := C16.toTriu_spec C16.exM C16.exM_canonical rfl
    ⟨R, by unfold ProblemData.triuStep; exact h1, h1, h5⟩⟩

/-- the hypothesis `R.isTriu = true` of `triu_input_same_solver` is needed: for the 2×2 matrix
with the *unsorted* first column `rows [1, 0]`, `to_triu` keeps the leading entry `(1,0)` — the
result is not upper triangular, and a second `to_triu` removes that entry. -/
example :
    let P0 : Csc Int := ⟨2, 2, #[0, 2, 2], #[1, 0], #[5, 7]⟩
    ∃ R R', P0.toTriu = .ok R ∧ R.isTriu = false ∧ R.toTriu = .ok R' ∧ R'.rowval = #[]
      ∧ R.rowval = #[1] :=
  ⟨_, _, rfl, by rfl, rfl, by rfl, by rfl⟩

/-! ## (c) objective scaled by `γ > 0` — [F] -/

section kkt
variable {α : Type} [Field α] [LinearOrder α] [IsStrictOrderedRing α] {n m : ℕ}

/-- [F] **Objective scaling maps optimal points one-to-one.**  With `K`, `Kd` arbitrary sets,
`Kd` closed under multiplication by positive scalars (every cone is): `(x,s,z)` satisfies the
optimality conditions of `(P,q,A,b)` iff `(x,s,γz)` satisfies those of `(γP,γq,A,b)`. -/
theorem objective_scaling_optimal_iff (P : Matrix (Fin n) (Fin n) α) (q : Fin n → α)
    (A : Matrix (Fin m) (Fin n) α) (b : Fin m → α) (K Kd : Set (Fin m → α))
    (hKd : PosScaleClosed Kd) (γ : α) (hγ : 0 < γ) (x : Fin n → α) (s z : Fin m → α) :
    IsOptimal P q A b K Kd x s z ↔ IsOptimal (γ • P) (γ • q) A b K Kd x s (γ • z) :=
  isOptimal_scale P q A b K Kd hKd γ hγ x s z

/-- [F] objective scaling: both objectives and the dual residual scale by `γ` (at `(x, γz)`); the
primal residual `rp A b x s` does not involve `(P,q,z)` at all. -/
theorem objective_scaling_quantities (P : Matrix (Fin n) (Fin n) α) (q : Fin n → α)
    (A : Matrix (Fin m) (Fin n) α) (b : Fin m → α) (γ : α) (x : Fin n → α) (z : Fin m → α) :
    pobj (γ • P) (γ • q) x = γ * pobj P q x
    ∧ dobj (γ • P) b x (γ • z) = γ * dobj P b x z
    ∧ rd (γ • P) A (γ • q) x (γ • z) = γ • rd P A q x z :=
  ⟨pobj_scale P q x γ, dobj_scale P b x z γ, rd_scale P A q x z γ⟩

/-- [F] objective scaling and the infeasibility certificates: a primal-infeasibility
certificate (`Aᵀz = 0`, `z ∈ K*`, `b·z < 0`) does not involve `(P,q)` and stays one under
`z ↦ γz`; a dual-infeasibility certificate (`Px = 0`, `Ax+s = 0`, `s ∈ K`, `q·x < 0`) of `(P,q)`
is one of `(γP,γq)`, unchanged. -/
theorem objective_scaling_certificates_iff (P : Matrix (Fin n) (Fin n) α) (q : Fin n → α)
    (A : Matrix (Fin m) (Fin n) α) (b : Fin m → α) (K Kd : Set (Fin m → α))
    (hKd : PosScaleClosed Kd) (γ : α) (hγ : 0 < γ) (x : Fin n → α) (s z : Fin m → α) :
    (IsPrimalInfCert A b Kd z ↔ IsPrimalInfCert A b Kd (γ • z))
    ∧ (IsDualInfCert P q A K x s ↔ IsDualInfCert (γ • P) (γ • q) A K x s) :=
  ⟨isPrimalInfCert_scale A b Kd hKd γ hγ z, isDualInfCert_scale P q A K γ hγ x s⟩

/-! ## (d) rows (within a cone, or whole cones) and variables permuted — [F] -/

/-- [F] **Permutations map optimal points one-to-one.**  Rows permuted by `σ` (this covers
"rows permuted within a cone" and "cones reordered"; the cone is transported:
`permSet σ K = {s∘σ | s ∈ K}`), variables by `π`:
`(x,s,z)` optimal for `(P,q,A,b,K)` ⇔ `(x∘π, s∘σ, z∘σ)` optimal for
`(P.submatrix π π, q∘π, A.submatrix σ π, b∘σ, permSet σ K)`. -/
theorem perm_optimal_iff (P : Matrix (Fin n) (Fin n) α) (q : Fin n → α)
    (A : Matrix (Fin m) (Fin n) α) (b : Fin m → α) (K Kd : Set (Fin m → α))
    (σ : Equiv.Perm (Fin m)) (π : Equiv.Perm (Fin n)) (x : Fin n → α) (s z : Fin m → α) :
    IsOptimal P q A b K Kd x s z ↔
      IsOptimal (P.submatrix π π) (q ∘ π) (A.submatrix σ π) (b ∘ σ) (permSet σ K) (permSet σ Kd)
        (x ∘ π) (s ∘ σ) (z ∘ σ) :=
  isOptimal_perm P q A b K Kd σ π x s z

/-- [F] permutations: the transported cone is the image `{s∘σ | s ∈ K}`; the nonnegative
orthant is its own image under every `σ`; it stays closed under positive scaling. -/
theorem perm_cone_transport (σ : Equiv.Perm (Fin m)) (K : Set (Fin m → α)) :
    permSet σ K = {t | ∃ s ∈ K, t = s ∘ σ}
    ∧ permSet σ (nnOrthant : Set (Fin m → α)) = nnOrthant
    ∧ (PosScaleClosed K → PosScaleClosed (permSet σ K)) :=
  ⟨permSet_eq_image σ K, permSet_nnOrthant σ, posScaleClosed_permSet σ⟩

/-- [F] **Rows permuted within a nonnegative cone: the cone is unchanged.**  `K` is a product
cone whose rows `N` form nonnegative cone(s) and whose remaining condition `R` reads only rows
outside `N`; `σ` moves only rows of `N`.  Then `permSet σ K = K`: the permuted problem is
`(A.submatrix σ id, b∘σ)` over the SAME cone. -/
theorem perm_within_nn_cone_invariant (σ : Equiv.Perm (Fin m)) (N : Fin m → Prop)
    (R : (Fin m → α) → Prop) (hσ : ∀ i, ¬ N i → σ i = i)
    (hR : ∀ s t : Fin m → α, (∀ i, ¬ N i → s i = t i) → (R s ↔ R t)) :
    permSet σ (nnBlockCone N R) = nnBlockCone N R :=
  permSet_nnBlockCone σ N R hσ hR

/-- non-vacuity of `perm_within_nn_cone_invariant`: rows `0,1` nonnegative, row `2` a zero cone,
`σ` swaps rows `0` and `1` -/
example : permSet (Equiv.swap (0 : Fin 3) 1) (nnBlockCone (fun i => i ≠ 2) (fun s : Fin 3 → ℚ => s 2 = 0))
    = nnBlockCone (fun i => i ≠ 2) (fun s : Fin 3 → ℚ => s 2 = 0) := by
  apply perm_within_nn_cone_invariant
  · intro i hi
    have : i = 2 := by simpa using hi
    subst this; decide
  · intro s t h
    rw [h 2 (by simp)]

/-- [F] permutations: objectives are equal, residual vectors are the permuted residuals. -/
theorem perm_quantities (P : Matrix (Fin n) (Fin n) α) (q : Fin n → α)
    (A : Matrix (Fin m) (Fin n) α) (b : Fin m → α) (σ : Equiv.Perm (Fin m))
    (π : Equiv.Perm (Fin n)) (x : Fin n → α) (s z : Fin m → α) :
    pobj (P.submatrix π π) (q ∘ π) (x ∘ π) = pobj P q x
    ∧ dobj (P.submatrix π π) (b ∘ σ) (x ∘ π) (z ∘ σ) = dobj P b x z
    ∧ rp (A.submatrix σ π) (b ∘ σ) (x ∘ π) (s ∘ σ) = rp A b x s ∘ σ
    ∧ rd (P.submatrix π π) (A.submatrix σ π) (q ∘ π) (x ∘ π) (z ∘ σ) = rd P A q x z ∘ π :=
  ⟨pobj_perm P q π x, dobj_perm P b σ π x z, rp_perm A b σ π x s, rd_perm P A q σ π x z⟩

/-- [F] a permuted vector has the same 1-norm, the same 2-norm (sum of squares), the same
∞-norm — as "`≤ T` for the same `T`s" for every length, and as `sup'` over `Finset.univ` for a
non-empty index set.  With `perm_quantities`: the residual norms of the permuted problem at
the permuted point are those of the original. -/
theorem perm_norms {k : ℕ} (r : Fin k → α) (σ : Equiv.Perm (Fin k)) :
    ∑ i, |(r ∘ σ) i| = ∑ i, |r i|
    ∧ ∑ i, (r ∘ σ) i ^ 2 = ∑ i, r i ^ 2
    ∧ (∀ T, (∀ i, |(r ∘ σ) i| ≤ T) ↔ ∀ i, |r i| ≤ T)
    ∧ ∀ h : (Finset.univ : Finset (Fin k)).Nonempty,
        Finset.univ.sup' h (fun i => |(r ∘ σ) i|) = Finset.univ.sup' h (fun i => |r i|) :=
  ⟨sum_abs_comp_perm r σ, sum_sq_comp_perm r σ, bound_abs_comp_perm r σ, sup_abs_comp_perm r σ⟩

/-- [F] permutations map both infeasibility certificates one-to-one. -/
theorem perm_certificates_iff (P : Matrix (Fin n) (Fin n) α) (q : Fin n → α)
    (A : Matrix (Fin m) (Fin n) α) (b : Fin m → α) (K Kd : Set (Fin m → α))
    (σ : Equiv.Perm (Fin m)) (π : Equiv.Perm (Fin n)) (x : Fin n → α) (s z : Fin m → α) :
    (IsPrimalInfCert A b Kd z ↔
      IsPrimalInfCert (A.submatrix σ π) (b ∘ σ) (permSet σ Kd) (z ∘ σ))
    ∧ (IsDualInfCert P q A K x s ↔
      IsDualInfCert (P.submatrix π π) (q ∘ π) (A.submatrix σ π) (permSet σ K) (x ∘ π) (s ∘ σ)) :=
  ⟨isPrimalInfCert_perm A b Kd σ π z, isDualInfCert_perm P q A K σ π x s⟩

/-- [F] **`map_back` of the harness is sound.**  A variant is
`(γ·P.submatrix π π, γ·q∘π, A.submatrix σ π, b∘σ)` (rows/cones permuted by `σ`, variables by
`π`, objective scaled by `γ > 0`); a point `(x',s',z')` of the variant is mapped back to
`(x'∘π⁻¹, s'∘σ⁻¹, γ⁻¹·z'∘σ⁻¹)` (`o.x[col[j]]`, `o.s[row[i]]`, `o.z[row[i]] / c`).  If the variant's
verdict promises `‖rp'‖∞ ≤ Tp`, `‖rd'‖∞ ≤ Td`, `pobj' − dobj' ≤ tg` in the variant's units, then
the mapped-back point satisfies, on the BASE problem, `‖rp‖∞ ≤ Tp`, `‖rd‖∞ ≤ Td/γ`,
`pobj − dobj ≤ tg/γ`, with `pobj = pobj'/γ`, `dobj = dobj'/γ` — exactly the `tp`, `td / c`,
`tg / c`, `pobj / c`, `dobj / c` of `map_back`.  These are the hypotheses of
`objectives_agree_within_slack` and of `C05.weak_duality_slack_tol`. -/
theorem map_back_sound (P : Matrix (Fin n) (Fin n) α) (q : Fin n → α)
    (A : Matrix (Fin m) (Fin n) α) (b : Fin m → α) (σ : Equiv.Perm (Fin m))
    (π : Equiv.Perm (Fin n)) (γ : α) (hγ : 0 < γ) (x' : Fin n → α) (s' z' : Fin m → α)
    (Tp Td tg : α) (hp : ∀ k, |rp (A.submatrix σ π) (b ∘ σ) x' s' k| ≤ Tp)
    (hd : ∀ l, |rd (γ • P.submatrix π π) (A.submatrix σ π) (γ • (q ∘ π)) x' z' l| ≤ Td)
    (hg : pobj (γ • P.submatrix π π) (γ • (q ∘ π)) x' - dobj (γ • P.submatrix π π) (b ∘ σ) x' z' ≤ tg) :
    (∀ k, |rp A b (x' ∘ π.symm) (s' ∘ σ.symm) k| ≤ Tp)
    ∧ (∀ l, |rd P A q (x' ∘ π.symm) (γ⁻¹ • (z' ∘ σ.symm)) l| ≤ Td / γ)
    ∧ pobj P q (x' ∘ π.symm) - dobj P b (x' ∘ π.symm) (γ⁻¹ • (z' ∘ σ.symm)) ≤ tg / γ
    ∧ pobj P q (x' ∘ π.symm) = γ⁻¹ * pobj (γ • P.submatrix π π) (γ • (q ∘ π)) x'
    ∧ dobj P b (x' ∘ π.symm) (γ⁻¹ • (z' ∘ σ.symm))
        = γ⁻¹ * dobj (γ • P.submatrix π π) (b ∘ σ) x' z' :=
  let ⟨h1, h2, h3⟩ := map_back_bounds P q A b σ π γ hγ x' s' z' Tp Td tg hp hd hg
  let ⟨_, _, h4, h5⟩ := map_back_quantities P q A b σ π γ hγ x' s' z'
  ⟨h1, h2, h3, h4, h5⟩

/-! ## (e) consequences of two truthful verdicts on one problem — [F] -/

/-- [F] **Same verdict ⇒ objectives agree within the gap tolerance plus the residual slack.**
Runs `i`, `j` (mapped back to one base problem by `map_back_sound`), `P` symmetric PSD, cone
pairing `sᵢ·zⱼ ≥ 0` (`C05.cone_pairing_nonneg` and its companions), the bounds that the two
`Solved` verdicts promise — `‖rpᵢ‖∞ ≤ Tpᵢ`, `‖rdⱼ‖∞ ≤ Tdⱼ`, `pobjⱼ − dobjⱼ ≤ tgⱼ`:

  `pobjⱼ − pobjᵢ ≤ tgⱼ + Tpᵢ‖zⱼ‖₁ + Tdⱼ‖xᵢ‖₁`.

Justifies the harness test `j.pobj - i.pobj <= j.tg + sl` (`sl = i.tp*l1(j.z) + j.td*l1(i.x)`,
"FAIL objectives-disagree") of `run_meta_variants`. -/
theorem objectives_agree_within_slack (P : Matrix (Fin n) (Fin n) α) (hsym : Pᵀ = P)
    (hpsd : ∀ d : Fin n → α, 0 ≤ d ⬝ᵥ P *ᵥ d) (A : Matrix (Fin m) (Fin n) α) (q : Fin n → α)
    (b : Fin m → α) (xi : Fin n → α) (si : Fin m → α) (xj : Fin n → α) (zj : Fin m → α)
    (hK : 0 ≤ si ⬝ᵥ zj) (Tpi Tdj tgj : α) (hp : ∀ k, |rp A b xi si k| ≤ Tpi)
    (hd : ∀ l, |rd P A q xj zj l| ≤ Tdj) (hg : pobj P q xj - dobj P b xj zj ≤ tgj) :
    pobj P q xj - pobj P q xi ≤ tgj + Tpi * ∑ k, |zj k| + Tdj * ∑ l, |xi l| :=
  objectives_within_slack P hsym hpsd A q b xi si xj zj hK Tpi Tdj tgj hp hd hg

/-- [F] **Farkas with slack, `optimal` vs `primal infeasible`.**  Run `i` claims `Solved`
(`‖A xᵢ + sᵢ − b‖∞ ≤ Tpᵢ`, `sᵢ ∈ K`), run `j` claims `PrimalInfeasible` with certificate
`zⱼ ∈ K*` (so `sᵢ·zⱼ ≥ 0`), `‖Aᵀzⱼ‖∞ ≤ Ta`.  Then

  `−b·zⱼ ≤ Tpᵢ‖zⱼ‖₁ + Ta‖xᵢ‖₁`.

Justifies the harness expression `lhs = -dot(b, j.z)`,
`rhs = i.tp * l1(j.z) + norminf(A'z_j) * l1(i.x)` ("FAIL contradictory-verdicts … -b.z … exceeds
Tp*|z|_1+|A'z|_inf*|x|_1"): a pair (Solved, PrimalInfeasible) with `lhs > rhs` cannot both be
truthful. -/
theorem contradictory_verdicts_pinf_slack (A : Matrix (Fin m) (Fin n) α) (b : Fin m → α)
    (xi : Fin n → α) (si zj : Fin m → α) (hK : 0 ≤ si ⬝ᵥ zj) (Tpi Ta : α)
    (hp : ∀ k, |rp A b xi si k| ≤ Tpi) (ha : ∀ l, |(Aᵀ *ᵥ zj) l| ≤ Ta) :
    -(b ⬝ᵥ zj) ≤ Tpi * ∑ k, |zj k| + Ta * ∑ l, |xi l| :=
  farkas_slack_pinf A b xi si zj hK Tpi Ta hp ha

/-- [F] **Farkas with slack, `optimal` vs `dual infeasible`.**  Run `i` claims `Solved`
(`‖P xᵢ + Aᵀzᵢ + q‖∞ ≤ Tdᵢ`, `zᵢ ∈ K*`), run `j` claims `DualInfeasible` with certificate
`(xⱼ,sⱼ)`, `sⱼ ∈ K` (so `sⱼ·zᵢ ≥ 0`), `‖P xⱼ‖∞ ≤ Tpx`, `‖A xⱼ + sⱼ‖∞ ≤ Tas`; `P` symmetric.  Then

  `−q·xⱼ ≤ Tdᵢ‖xⱼ‖₁ + Tpx‖xᵢ‖₁ + Tas‖zᵢ‖₁`.

Justifies the harness expression `lhs = -dot(q, j.x)`,
`rhs = i.td * l1(j.x) + norminf(P x_j) * l1(i.x) + norminf(A x_j + s_j) * l1(i.z)`
("FAIL contradictory-verdicts … -q.x … exceeds slack"): a pair (Solved, DualInfeasible) with
`lhs > rhs` cannot both be truthful. -/
theorem contradictory_verdicts_dinf_slack (P : Matrix (Fin n) (Fin n) α) (hsym : Pᵀ = P)
    (A : Matrix (Fin m) (Fin n) α) (q : Fin n → α) (xi : Fin n → α) (zi : Fin m → α)
    (xj : Fin n → α) (sj : Fin m → α) (hK : 0 ≤ sj ⬝ᵥ zi) (Tdi Tpx Tas : α)
    (hd : ∀ l, |rd P A q xi zi l| ≤ Tdi) (hpx : ∀ l, |(P *ᵥ xj) l| ≤ Tpx)
    (has : ∀ k, |(A *ᵥ xj + sj) k| ≤ Tas) :
    -(q ⬝ᵥ xj) ≤ Tdi * ∑ l, |xj l| + Tpx * ∑ l, |xi l| + Tas * ∑ k, |zi k| :=
  farkas_slack_dinf P hsym A q xi zi xj sj hK Tdi Tpx Tas hd hpx has

/-- [F] **Same verdict class, exact form.**  On one problem, an exactly primal-feasible point
excludes a primal-infeasibility certificate, and an exactly dual-feasible point excludes a
dual-infeasibility certificate (the cone pairings `s·z ≥ 0` as hypotheses): an optimal point
and an infeasibility certificate cannot coexist — with (c), (d): not across equivalent
formulations either. -/
theorem optimal_excludes_certificates (P : Matrix (Fin n) (Fin n) α) (hsym : Pᵀ = P)
    (q : Fin n → α) (A : Matrix (Fin m) (Fin n) α) (b : Fin m → α) (K Kd : Set (Fin m → α))
    (x : Fin n → α) (s z : Fin m → α) (hopt : IsOptimal P q A b K Kd x s z) :
    (∀ zc, 0 ≤ s ⬝ᵥ zc → ¬ IsPrimalInfCert A b Kd zc)
    ∧ (∀ xc sc, 0 ≤ sc ⬝ᵥ z → ¬ IsDualInfCert P q A K xc sc) :=
  ⟨fun zc hK hc => feasible_excludes_pinf_cert A b Kd x s zc hopt.1 hK hc,
   fun xc sc hK hc => dual_feasible_excludes_dinf_cert P hsym A q K x z xc sc hopt.2.1 hK hc⟩

end kkt

/-! ### non-vacuity of (c)–(e): a 1×1 problem over `ℚ` -/

section examples
open Clarabel.Lemmas.EquivExample

/-- non-vacuity of `objective_scaling_optimal_iff` (and of `PosScaleClosed`): the optimal point
of the example, objective scaled by `3` -/
example : IsOptimal ((3 : ℚ) • P) ((3 : ℚ) • q) A b nnOrthant nnOrthant
    (fun _ => 1/2) (fun _ => 1/2) ((3 : ℚ) • fun _ => 0) :=
  (objective_scaling_optimal_iff P q A b nnOrthant nnOrthant posScaleClosed_nnOrthant 3
    (by norm_num) _ _ _).mp optimal

/-- non-vacuity of `objective_scaling_certificates_iff`: `Kd` closed under positive scaling -/
example : PosScaleClosed (nnOrthant : Set (Fin 1 → ℚ)) := posScaleClosed_nnOrthant

/-- non-vacuity of `optimal_excludes_certificates` -/
example : ∀ zc, 0 ≤ (fun _ : Fin 1 => (1/2 : ℚ)) ⬝ᵥ zc → ¬ IsPrimalInfCert A b nnOrthant zc :=
  (optimal_excludes_certificates P P_sym q A b nnOrthant nnOrthant _ _ _ optimal).1

/-- two slightly infeasible points of the example (run `i`: `x = 1/3`, `s = 2/3 + 1/100`;
run `j`: `x = 1/2`, `z = 1/10`) satisfy the hypotheses of `objectives_agree_within_slack` with
`Tpᵢ = 1/50`, `Tdⱼ = 1/5`, `tgⱼ = 1/5` — non-vacuity -/
example :
    pobj P q (fun _ => 1/2) - pobj P q (fun _ => 1/3)
      ≤ 1/5 + 1/50 * ∑ k, |(fun _ : Fin 1 => (1/10 : ℚ)) k|
        + 1/5 * ∑ l, |(fun _ : Fin 1 => (1/3 : ℚ)) l| := by
  refine objectives_agree_within_slack P P_sym P_psd A q b (fun _ => 1/3) (fun _ => 2/3 + 1/100)
    (fun _ => 1/2) (fun _ => 1/10) ?_ (1/50) (1/5) (1/5) ?_ ?_ ?_
  · simp only [dotProduct, Finset.univ_unique, Finset.sum_singleton]; norm_num
  · intro k
    simp only [rp, Pi.add_apply, Pi.sub_apply, Matrix.mulVec, dotProduct, Finset.univ_unique,
      Finset.sum_singleton, A, b]
    rw [abs_le]; constructor <;> norm_num
  · intro l
    simp only [rd, Pi.add_apply, Matrix.mulVec, dotProduct, Finset.univ_unique,
      Finset.sum_singleton, Matrix.transpose_apply, A, P, q]
    rw [abs_le]; constructor <;> norm_num
  · simp only [pobj, dobj, Matrix.mulVec, dotProduct, Finset.univ_unique, Finset.sum_singleton,
      P, q, b]
    norm_num

/-- non-vacuity of `contradictory_verdicts_pinf_slack`: the same run `i`, and `zⱼ = 1/10` with
`|Aᵀzⱼ| ≤ 1/10` (of course not a certificate: the problem is feasible, and the inequality
`−b·zⱼ = −1/10 ≤ …` holds) -/
example :
    -(b ⬝ᵥ (fun _ : Fin 1 => (1/10 : ℚ)))
      ≤ 1/50 * ∑ k, |(fun _ : Fin 1 => (1/10 : ℚ)) k| + 1/10 * ∑ l, |(fun _ : Fin 1 => (1/3 : ℚ)) l| := by
  refine contradictory_verdicts_pinf_slack A b (fun _ => 1/3) (fun _ => 2/3 + 1/100)
    (fun _ => 1/10) ?_ (1/50) (1/10) ?_ ?_
  · simp only [dotProduct, Finset.univ_unique, Finset.sum_singleton]; norm_num
  · intro k
    simp only [rp, Pi.add_apply, Pi.sub_apply, Matrix.mulVec, dotProduct, Finset.univ_unique,
      Finset.sum_singleton, A, b]
    rw [abs_le]; constructor <;> norm_num
  · intro l
    simp only [Matrix.mulVec, dotProduct, Finset.univ_unique, Finset.sum_singleton,
      Matrix.transpose_apply, A]
    rw [abs_le]; constructor <;> norm_num

/-- non-vacuity of `contradictory_verdicts_dinf_slack`: run `i` = `(x,z) = (1/2, 1/10)`
(`|rdᵢ| ≤ 1/5`), and `(xⱼ,sⱼ) = (1/10, 0)` with `|Pxⱼ| ≤ 1/5`, `|Axⱼ+sⱼ| ≤ 1/10` -/
example :
    -(q ⬝ᵥ (fun _ : Fin 1 => (1/10 : ℚ)))
      ≤ 1/5 * ∑ l, |(fun _ : Fin 1 => (1/10 : ℚ)) l| + 1/5 * ∑ l, |(fun _ : Fin 1 => (1/2 : ℚ)) l|
        + 1/10 * ∑ k, |(fun _ : Fin 1 => (1/10 : ℚ)) k| := by
  refine contradictory_verdicts_dinf_slack P P_sym A q (fun _ => 1/2) (fun _ => 1/10)
    (fun _ => 1/10) (fun _ => 0) ?_ (1/5) (1/5) (1/10) ?_ ?_ ?_
  · simp only [dotProduct, Finset.univ_unique, Finset.sum_singleton]; norm_num
  · intro l
    simp only [rd, Pi.add_apply, Matrix.mulVec, dotProduct, Finset.univ_unique,
      Finset.sum_singleton, Matrix.transpose_apply, A, P, q]
    rw [abs_le]; constructor <;> norm_num
  · intro l
    simp only [Matrix.mulVec, dotProduct, Finset.univ_unique, Finset.sum_singleton, P]
    rw [abs_le]; constructor <;> norm_num
  · intro k
    simp only [Pi.add_apply, Matrix.mulVec, dotProduct, Finset.univ_unique, Finset.sum_singleton, A]
    rw [abs_le]; constructor <;> norm_num

/-- non-vacuity of `map_back_sound`: the variant "objective scaled by 2" (identity
permutations) at `(x',s',z') = (1/2, 1/2, 1/5)` with `Tp = 0`, `Td = 2/5`, `tg = 1` -/
example : ∀ l, |rd P A q ((fun _ : Fin 1 => (1/2 : ℚ)) ∘ (Equiv.refl (Fin 1)).symm)
      ((2 : ℚ)⁻¹ • ((fun _ : Fin 1 => (1/5 : ℚ)) ∘ (Equiv.refl (Fin 1)).symm)) l| ≤ (2/5) / 2 := by
  refine (map_back_sound P q A b (Equiv.refl _) (Equiv.refl _) 2 (by norm_num) (fun _ => 1/2)
    (fun _ => 1/2) (fun _ => 1/5) 0 (2/5) 1 ?_ ?_ ?_).2.1
  · intro k
    simp only [rp, Pi.add_apply, Pi.sub_apply, Matrix.mulVec, dotProduct, Finset.univ_unique,
      Finset.sum_singleton, Matrix.submatrix_apply, Function.comp_apply, A, b]
    norm_num
  · intro l
    simp only [rd, Pi.add_apply, Pi.smul_apply, Matrix.smul_apply, Matrix.mulVec, dotProduct,
      Finset.univ_unique, Finset.sum_singleton, Matrix.submatrix_apply, Matrix.transpose_apply,
      Function.comp_apply, smul_eq_mul, A, P, q]
    rw [abs_le]; constructor <;> norm_num
  · simp only [pobj, dobj, Pi.smul_apply, Matrix.smul_apply, Matrix.mulVec, dotProduct,
      Finset.univ_unique, Finset.sum_singleton, Matrix.submatrix_apply, Function.comp_apply,
      smul_eq_mul, P, q, b]
    norm_num

end examples

end Clarabel.C05
