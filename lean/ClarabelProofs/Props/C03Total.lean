/-
  C03 ∘ C04 — the TOTAL form of `C03.full_report_on_user_data` (and of its presolve-drops-rows
  variant): the run hypotheses `Solver.new … = .ok S`, `S.solve st = .ok r` are DISCHARGED by C04's
  panic-freedom, so every hypothesis left is about the user's input and settings.

  What C04 needs, exactly: `InputOK`, every cone zero / nonnegative / second-order
  (`ConeT.modelled`), `0 < n`, `PermFor`, `PivotOK`, `FmaxOK`; over `ℝ` `FmaxOK` is a theorem
  (`Solver.fmaxOK_real`) and `PivotOK` follows from `dynamic_regularization_eps > 0`,
  `dynamic_regularization_delta ≠ 0` (`Solver.pivotOK_real`).  See `Props/C01Total.lean`.
-/
import ClarabelProofs.Props.C03Full2
import ClarabelProofs.Lemmas.SolverTotal

namespace Clarabel.C03
open Clarabel Clarabel.Solver Clarabel.InfoUser Clarabel.Dense

/-- **[R] `C03.full_report_total`** — `DefaultSolver::new` + `solve()` RETURN, and the report is
truthful on the USER's data: no run hypothesis left.

For well-formed input (`InputOK`) with zero / nonnegative / second-order cones, `n ≥ 1`, `PermFor`,
`PivotOK`, presolve off or dropping no row, positive equilibration bounds,
`0 < max_step_fraction < 1`, `T::max_value() > 0`: `new` returns `S`, `S.solve st` returns `r`, and IF
the status is not an infeasibility status THEN `obj_val`, `obj_val_dual`, `r_prim`, `r_dual`,
`gap_abs`, `gap_rel` are the documented functions of the RETURNED `x, s, z` and the user's data, and
`|x| = n`, `|s| = |z| = m` — the conclusion of `full_report_on_user_data` verbatim. -/
theorem full_report_total {P : Csc ℝ} {q : Array ℝ} {A : Csc ℝ} {b : Array ℝ}
    {cones : List (ConeT ℝ)} {st : Solver.Settings ℝ} {perm : Array Nat}
    (hin : InputOK P q A b cones) (hm : ∀ c ∈ cones, ConeT.modelled c) (hn : 0 < P.n)
    (hperm : PermFor P q A b cones st perm) (hpiv : PivotOK st.lin)
    (hpre : st.presolveEnable = false ∨ ∃ keep,
      Presolve.keepFlags (Presolve.threshold st.infbound) (Cones.newCollapsed cones) b.toList = .ok keep
        ∧ keep.count true = b.size)
    (hlo : 0 < st.equil.minScaling) (hhi : 0 < st.equil.maxScaling)
    (hf0 : 0 < st.maxStepFraction) (hf1 : st.maxStepFraction < 1) (hmv : 0 < st.maxValue) :
    ∃ S r, Solver.new P q A b cones st perm = .ok S ∧ S.solve st = .ok r ∧
      (r.S.solution.status.isInfeasible = false →
      ∃ Pn, ProblemData.triuStep P = .ok Pn ∧
        let bc := ProblemData.capB b st.infbound
        let p := problemOf Pn q A bc A.n A.m
        let x := vecFn r.S.solution.x A.n
        let sv := vecFn r.S.solution.s A.m
        let z := vecFn r.S.solution.z A.m
        let pobj := dot x (mulV p.P x) / 2 + dot p.q x
        let dobj := -dot p.b z - dot x (mulV p.P x) / 2
        r.S.solution.obj_val = some pobj
        ∧ r.S.solution.obj_val_dual = some dobj
        ∧ r.S.solution.r_prim
            = some (nrm (fun k => mulV p.A x k + sv k - p.b k) / max 1 (Vec.normInf bc + nrm x + nrm sv))
        ∧ r.S.solution.r_dual
            = some (nrm (fun j => mulV p.P x j + mulVT p.A z j + p.q j) / max 1 (Vec.normInf q + nrm x + nrm z))
        ∧ r.S.st.info.gap_abs = |pobj - dobj|
        ∧ r.S.st.info.gap_rel = |pobj - dobj| / max 1 (min |pobj| |dobj|)
        ∧ r.S.solution.x.size = A.n ∧ r.S.solution.s.size = A.m ∧ r.S.solution.z.size = A.m) := by
  obtain ⟨S, r, hnew, hr⟩ := run_total_real hin hm hn hperm hpiv
  exact ⟨S, r, hnew, hr, fun hst => full_report_on_user_data hin hpre hlo hhi hf0 hf1 hmv hnew hr hst⟩

/-- **[R] `C03.full_report_total_presolved`** — `full_report_total` when presolve is enabled and
DROPS ROWS: `new` and `solve()` return, and for a non-infeasibility status the report is the one of
`full_report_on_user_data_presolved` on the user's FULL data. -/
theorem full_report_total_presolved {P : Csc ℝ} {q : Array ℝ} {A : Csc ℝ} {b : Array ℝ}
    {cones : List (ConeT ℝ)} {st : Solver.Settings ℝ} {perm : Array Nat} {keep : List Bool}
    (hin : InputOK P q A b cones) (hm : ∀ c ∈ cones, ConeT.modelled c) (hn : 0 < P.n)
    (hperm : PermFor P q A b cones st perm) (hpiv : PivotOK st.lin)
    (hpe : st.presolveEnable = true)
    (hk : Presolve.keepFlags (Presolve.threshold st.infbound) (Cones.newCollapsed cones) b.toList = .ok keep)
    (hc : keep.count true < b.size)
    (hlo : 0 < st.equil.minScaling) (hhi : 0 < st.equil.maxScaling)
    (hf0 : 0 < st.maxStepFraction) (hf1 : st.maxStepFraction < 1) (hmv : 0 < st.maxValue) :
    ∃ S r, Solver.new P q A b cones st perm = .ok S ∧ S.solve st = .ok r ∧
      (r.S.solution.status.isInfeasible = false →
      ∃ Pn, ProblemData.triuStep P = .ok Pn ∧
        let n := A.n
        let m := A.m
        let bc := ProblemData.capB b st.infbound
        let Pd := symFn Pn n
        let qd := vecFn q n
        let x := vecFn r.S.solution.x n
        let s := vecFn r.S.solution.s m
        let z := vecFn r.S.solution.z m
        let kp := InfoPresolve.keepFn keep m
        let normb := Vec.normInf (ProblemData.capB (Vec.select b keep.toArray) st.infbound)
        let pobj := dot x (mulV Pd x) / 2 + dot qd x
        let dobj := -dot (vecFn bc m) z - dot x (mulV Pd x) / 2
        r.S.solution.obj_val = some pobj
        ∧ r.S.solution.obj_val_dual = some dobj
        ∧ r.S.solution.r_prim = some (InfoPresolve.nrmKept kp (fun i => mulV (matFn A m n) x i + s i - vecFn bc m i)
              / max 1 (normb + nrm x + InfoPresolve.nrmKept kp s))
        ∧ r.S.solution.r_dual = some (nrm (fun j => mulV Pd x j + mulVT (matFn A m n) z j + qd j)
              / max 1 (Vec.normInf q + nrm x + nrm z))
        ∧ (∀ i, kp i = false → s i = st.infbound ∧ z i = 0)) := by
  obtain ⟨S, r, hnew, hr⟩ := run_total_real hin hm hn hperm hpiv
  exact ⟨S, r, hnew, hr, fun hst =>
    full_report_on_user_data_presolved hin hpe hk hc hlo hhi hf0 hf1 hmv hnew hr hst⟩

/-! ### non-vacuity: over `ℝ` every hypothesis of `full_report_total` holds on
`min x s.t. x + s = 1, s ≥ 0` with the defaults of `DefaultSettings` (`Lemmas/SolverTotal.lean`) -/

example : InputOK FullExample.P #[1] FullExample.A #[1] ([.nonneg 1] : List (ConeT ℝ)) :=
  FullExample.inputOK
example : ∀ c ∈ ([.nonneg 1] : List (ConeT ℝ)), ConeT.modelled c := FullExample.modelled
example : PermFor FullExample.P #[1] FullExample.A #[1] ([.nonneg 1] : List (ConeT ℝ))
    FullExample.stR #[0, 1] := FullExample.permFor _ rfl
example : PivotOK FullExample.stR.lin := FullExample.stR_pivotOK
example : FmaxOK ℝ := fmaxOK_real
/-- the theorem applies: `new` returns a solver object on this instance and `solve()` returns -/
example : ∃ S r, Solver.new FullExample.P #[1] FullExample.A #[1] ([.nonneg 1] : List (ConeT ℝ))
      FullExample.stR #[0, 1] = .ok S ∧ S.solve FullExample.stR = .ok r := by
  obtain ⟨h0, h1, h2, h3, h4, h5, _⟩ := FullExample.stR_ok
  obtain ⟨S, r, a, b, _⟩ := full_report_total FullExample.inputOK FullExample.modelled (by decide)
    (FullExample.permFor _ rfl) FullExample.stR_pivotOK (Or.inl h0) h1 h2 h3 h4 h5
  exact ⟨S, r, a, b⟩

end Clarabel.C03
