/-
  C05 — "the same solver solved twice", on the FULL model WITH NONSYMMETRIC CONES
  (`ClarabelModel/SolverNS/*.lean`: `DefaultSolver::new` + `solve()` for zero / nonnegative /
  second-order / exponential / power / generalised power cones, tied bit for bit to the code by the
  channels `solvens.setup / solvens.init / solvens.full / solvens.twice / solvens.state` of
  `harness/src/bin/solverns.rs`).  The analogue of `Props/C05Idem.lean` (`full_solve_reads_only`,
  `full_solve_stale`, `full_update_forgets`, `full_solve_idempotent`).
  Helper lemmas: `Lemmas/SolverNSStale*.lean`, `Lemmas/SolverNSQw*.lean`, `Lemmas/SolverNSIdemInfo.lean`.

  ### The characterisation (relation `SolverNS.Stale`, `Lemmas/SolverNSStaleDefs.lean`)

  Of the state a previous `solve()` (or anything else) left in the solver object, `solve()` reads
    (0) the problem data, the LENGTHS of all work vectors, the SHAPE of the cone objects
        (`SolverNS.ConeShape`): for a symmetric cone as in the symmetric model; for an EXPONENTIAL cone
        nothing at all; for a POWER cone its exponent; for a GENERALISED POWER cone `α`, `dim2` and
        `ψ = 1/Σα²`.  The mutable state of the nonsymmetric cones — `H_dual`, `Hs`, `grad`, the copy of
        `z` (read by `combined_ds_shift`'s third-order correction), and the generalised power cone's
        `grad, p, q, r, d1, d2, μ, z` — is DEAD: the first `update_scaling` of a solve overwrites all of
        it before `get_Hs` / `mul_Hs` / `combined_ds_shift` read it (a cone that refuses the update ends
        the solve with `NumericalError` before anything is read);
    (i) not the `info` block (`ns_solve_info_block_dead`), not the loop-carried scaling strategy (a local
        of `solve()`, re-initialised from `allows_primal_dual_scaling`), not the barrier work vectors
        (locals of `compute_barrier`);
   (ii) nothing through a multiplication by zero (as in the symmetric model since /repo 1706c1f);
  (iii) NOT the stale ITERATE any more (since /repo 7c1c881 `solve_initial_point` zero-fills
        `variables.x/s/z` first: `ns_solve_ignores_iterate`, the `…_any_start` theorems at the end of
        this file).  Before, it was read on the SYMMETRIC branch of `default_start` when
        `solve_initial_point` failed (hypothesis `InitPointOk` of the older theorems).  With a nonsymmetric cone in the composite `default_start` is `unit_initialization`: it
        overwrites `x, s, z, τ, κ` from the cones' static parameters and makes no KKT call — condition
        (iii) of the symmetric theorem DISAPPEARS (`InitPointOk.of_nonsymmetric`,
        `ns_solve_idempotent_nonsymmetric`);
   (iv) the linear solver object through `update` / `setrhs`+`solve` only; the first `update` of a solve
        (in the first pass when there is a nonsymmetric cone) rewrites every numeric entry the previous
        solve changed, including the `p, q, r, D` columns of the generalised power cones' sparse
        expansion (`ns_update_forgets`).
-/
import ClarabelProofs.Lemmas.SolverNSStaleIdem
import ClarabelProofs.Lemmas.SolverNSStaleAnyStart
import ClarabelProofs.Lemmas.SolverNSStaleExample
import ClarabelProofs.Lemmas.SolverNSNormCachesC

namespace Clarabel.C05
open Clarabel Clarabel.SolverNS
open Clarabel.Info (InfoS)
open Clarabel.Solver (RelM KktSolver LinSettings QB Upd KInv LdlInv SolShape VarsXSZ FmaxOK PivotOK)

set_option linter.unusedSectionVars false

section nsstale
variable {α : Type} [Add α] [Sub α] [Mul α] [Div α] [Neg α] [LT α] [LE α] [DecidableLT α]
  [DecidableLE α] [BEq α] [OfNat α 0] [OfNat α 1] [OfNat α 2] [OfNat α 3] [OfNat α 4] [OfNat α 100]
  [OfNat α 1000] [OfScientific α] [FloatLike α]

/-- [S] `C05.ns_solve_reads_only`: **what `solve()` may read of the mutable state** (model with
nonsymmetric cones).  Two solver objects related by `SolverNS.Stale` (same data, same vector lengths,
cone objects of the same SHAPE — the whole state of the exponential / power / generalised power cones
may differ —, linear-solver objects related by a simulation `Bw`) whose `solution` objects have the
same lengths, and such that on the symmetric branch `solve_initial_point` succeeds (or the incoming
iterates agree): `solve()` fails with the same error on both, or succeeds on both with the same
`solution`, the same trajectory (every pass record incl. the strategy of the pass, the checkpoint
verdicts, the number of barrier back-tracks — up to the private `prev_*` copies), the same final
iterate and `info` block. -/
theorem ns_solve_reads_only (hbeq : ((0 : α) == 0) = true) {k : Nat} {Bw : KktSolver α → KktSolver α → Prop}
    (st : SolverNS.Settings α) (hsim : KktSimN k st.lin Bw) {S S' : SolverNS.Solver α}
    (h : SolverNS.Stale Bw S.st S'.st) (hk : k ≤ nSpN S.st.cones)
    (hsol : SolShape ((Solver.presolveMap S.st.data).map (fun m => m.keep.size)) S.solution S'.solution)
    (hinit : SolverNS.InitPointOk (SolverNS.resetInfo S.st) st ∨ VarsXSZ S.st.variables S'.st.variables) :
    RelM SolverNS.SolveObs (S.solve st) (S'.solve st) :=
  SolverNS.solve_rel hbeq st hsim h hk hsol hinit

/-- [S] `C05.ns_solve_stale`: the same for the concrete linear solver of the model (QDLDL), from the
STRUCTURAL invariant of C04 (`SolverNS.Shapes`: lengths, consistently sized cone objects) on both
objects: same data, cone objects of the same shape, linear-solver objects that differ in what an
`update` rewrites (`BwN`: e.g. `Upd` + C12's history invariant) — then `solve()` cannot tell the two
objects apart, whatever is in ANY of their mutable buffers (NaN, ±∞ included), in particular in the
cone states `H_dual, Hs, grad, z` / `grad, p, q, r, d1, d2, μ, z`. -/
theorem ns_solve_stale (hbeq : ((0 : α) == 0) = true) (st : SolverNS.Settings α) {KI KI' : KktSolver α → Prop}
    {S S' : SolverNS.Solver α} (hS : SolverNS.Shapes KI S.st) (hS' : SolverNS.Shapes KI' S'.st)
    (hd : S.st.data = S'.st.data) (hc : SolverNS.ConesShape S.st.cones S'.st.cones) {k : Nat}
    (hB : BwN k st.lin S.st.kktsystem.kktsolver S'.st.kktsystem.kktsolver) (hk : k ≤ nSpN S.st.cones)
    (hsol : SolShape ((Solver.presolveMap S.st.data).map (fun m => m.keep.size)) S.solution S'.solution)
    (hinit : SolverNS.InitPointOk (SolverNS.resetInfo S.st) st ∨ VarsXSZ S.st.variables S'.st.variables) :
    RelM SolverNS.SolveObs (S.solve st) (S'.solve st) :=
  SolverNS.solve_rel hbeq st (kktSimN k st.lin) (SolverNS.Stale.of_shapes hS hS' hd hc hB) hk hsol hinit

/-- [S] `C05.ns_solve_info_block_dead`: replace the WHOLE `info` block of a solver object — the nine
figures, `μ`, `σ`, `step_length`, `iterations`, `status` and (given equal `prev_*`) everything else — by
anything: `solve()` is the same function. -/
theorem ns_solve_info_block_dead (S : SolverNS.Solver α) (st : SolverNS.Settings α) (i : InfoS α) (a b c : α)
    (hp : Solver.PrevEq i S.st.info) :
    ({ S with st := SolverNS.withInfo S.st i a b c } : SolverNS.Solver α).solve st = S.solve st :=
  SolverNS.solve_withInfo S st i a b c hp

/-- [S] `C05.ns_update_forgets` — hypothesis `QW` of the symmetric development as a theorem for
`KKTSolver::update` of this model (`get_Hs` of every cone incl. the dense 3×3 blocks, `csc_update_sparsecone`
of the sparse second-order AND the generalised power cones): `K'` is `K` up to what an `update` under
`st` rewrites (`Upd`), `K`'s QDLDL object satisfies C12's history invariant, the cone list has at least as
many map-consuming cones as `K` has expansion maps.  Then `update(cones, st)` answers alike on both: the
same error, or the same flag and objects that differ in the content of the four work vectors only. -/
theorem ns_update_forgets {st : LinSettings α} {K K' : KktSolver α} (h : Upd st K K') (hI : LdlInv K.ldl)
    (cones : List (SolverNS.ConeSt α)) (hfit : K.map.sparse_maps.size ≤ nSpN cones) :
    RelM (fun r r' => r.1 = r'.1 ∧ QB r.2 r'.2) (kktSolverUpdate K cones st) (kktSolverUpdate K' cones st) :=
  update_forgetsN h hI cones hfit

/-- [S] `C05.ns_solve_leaves_updatable_object`: a whole `solve()` changes the linear-solver object only
in what the next `update` rewrites (`Upd`), keeps `KktOk` (C12's history invariant, common length of the
work vectors, one expansion map per sparse second-order / generalised power cone), and keeps the shape
and the consistent sizing of the cone objects. -/
theorem ns_solve_leaves_updatable_object {S : SolverNS.Solver α} {st : SolverNS.Settings α}
    {r : SolverNS.SolveResult α} (h : S.solve st = .ok r) (hc : SolverNS.ConesFull S.st.cones)
    (hk : SolverNS.KktOk S.st) :
    Upd st.lin S.st.kktsystem.kktsolver r.S.st.kktsystem.kktsolver ∧ SolverNS.KktOk r.S.st
      ∧ SolverNS.ConesShape S.st.cones r.S.st.cones ∧ SolverNS.ConesFull r.S.st.cones :=
  ⟨(solve_kstepN h hk.inv).1, (solve_kktOkN h hc hk).1, (solve_conesShape h hc).1, (solve_conesShape h hc).2⟩

/-- [S] `C05.ns_new_solver_kkt_well_formed`: `KktOk` holds for every solver object built by
`DefaultSolver::new` on well-formed input (`InputOKN`, `n ≥ 1`, `PermForN`; no scalar law). -/
theorem ns_new_solver_kkt_well_formed {P : Csc α} {q : Array α} {A : Csc α} {b : Array α}
    {cones : List (ConeT α)} {st : SolverNS.Settings α} {perm : Array Nat} (hin : InputOKN P q A b cones)
    (hn : 0 < P.n) (hperm : PermForN P q A b cones st perm) {S : SolverNS.Solver α}
    (h : SolverNS.Solver.new P q A b cones st perm = .ok S) : SolverNS.KktOk S.st :=
  solverNew_kktOkN hin hn hperm h

/-- [S] `C05.ns_solve_idempotent`: **the same solver solved twice** (model with nonsymmetric cones).
If the first `solve()` on a solver object returned `r1` (with whatever figures: `NumericalError` with a
NaN iterate, a strategy switch, barrier back-tracking … included), the second `solve()` on the object it
left returns the same observable result — the same `solution`, the same trajectory pass by pass, the
same final iterate and `info` figures — provided
  (iii) on the symmetric branch of `default_start` `solve_initial_point` succeeds; VOID when the
        composite has a nonsymmetric cone (see `ns_solve_idempotent_nonsymmetric`).
`SolverInvN` (C04's structural invariant) and `KktOk` are structural facts: every object built by
`DefaultSolver::new` has them (`C04.ns_new_establishes_invariant`, `ns_new_solver_kkt_well_formed`) and
`solve()` preserves them (`solve_inv_of_ok`: no scalar law), so the theorem chains to a third, fourth …
call.  Valid for every scalar type (bit-identical at `Float`); the only scalar hypothesis is `0 == 0`. -/
theorem ns_solve_idempotent (hbeq : ((0 : α) == 0) = true) (st : SolverNS.Settings α)
    {S : SolverNS.Solver α} {r1 : SolverNS.SolveResult α} (h1 : S.solve st = .ok r1)
    (hI : SolverInvN S) (hk : SolverNS.KktOk S.st)
    (hinit : SolverNS.InitPointOk (SolverNS.resetInfo S.st) st) :
    (∃ r2, r1.S.solve st = .ok r2 ∧ SolverNS.SolveObs r1 r2) ∧ SolverInvN r1.S ∧ SolverNS.KktOk r1.S.st := by
  obtain ⟨⟨_, hI1⟩, hI1'⟩ := solve_inv_of_ok hI h1
  exact ⟨solve_twice_obsN hbeq st h1 hI hI1 hk hinit, hI1', (solve_kktOkN h1 hI.st.shapes.cones hk).1⟩

/-- [S] `C05.ns_solve_idempotent_nonsymmetric`: **condition (iii) disappears for problems with a
nonsymmetric cone.**  If the composite cone contains an exponential, power or generalised power cone,
the second of two `solve()` calls gives the observable result of the first with NO hypothesis on the
initial point: `default_start` is `unit_initialization` (no `solve_initial_point`), which overwrites
the iterate the first solve left — whatever it was. -/
theorem ns_solve_idempotent_nonsymmetric (hbeq : ((0 : α) == 0) = true)
    (st : SolverNS.Settings α) {S : SolverNS.Solver α} {r1 : SolverNS.SolveResult α}
    (h1 : S.solve st = .ok r1) (hI : SolverInvN S) (hk : SolverNS.KktOk S.st)
    (hns : SolverNS.isSymmetric S.st.cones = false) :
    ∃ r2, r1.S.solve st = .ok r2 ∧ SolverNS.SolveObs r1 r2 :=
  (ns_solve_idempotent hbeq st h1 hI hk (SolverNS.InitPointOk.of_nonsymmetric st hns)).1

/-- [S] `C05.ns_solve_idempotent_new`: the same for a solver object fresh from `DefaultSolver::new` on
well-formed input: all structural hypotheses are discharged; what is left are the input hypotheses of
`new` (those of `C04.ns_new_establishes_invariant`) and (iii) — again void with a nonsymmetric cone. -/
theorem ns_solve_idempotent_new (hbeq : ((0 : α) == 0) = true) {P : Csc α} {q : Array α} {A : Csc α}
    {b : Array α} {cones : List (ConeT α)} {st : SolverNS.Settings α} {perm : Array Nat}
    (hin : InputOKN P q A b cones) (hn : 0 < P.n) (hperm : PermForN P q A b cones st perm)
    (hpiv : PivotOK st.lin) {S : SolverNS.Solver α}
    (hS : SolverNS.Solver.new P q A b cones st perm = .ok S) {r1 : SolverNS.SolveResult α}
    (h1 : S.solve st = .ok r1) (hinit : SolverNS.InitPointOk (SolverNS.resetInfo S.st) st) :
    ∃ r2, r1.S.solve st = .ok r2 ∧ SolverNS.SolveObs r1 r2 :=
  (ns_solve_idempotent hbeq st h1 (solverNew_invQ hin hn hperm hpiv hS)
    (solverNew_kktOkN hin hn hperm hS) hinit).1

end nsstale

/-! non-vacuity (scalar type `Int`, the kernel-evaluable example of `Lemmas/SolverNSExample.lean`: one
variable, a nonnegative cone and an EXPONENTIAL cone) -/
section nsstaleExamples
open Clarabel.SolverNS.Example
attribute [local instance] intFloatLike intSci

/-- `ns_solve_reads_only` / `ns_solve_stale` apply: the poisoned copy of the example solver object —
garbage in every dead component, the exponential cone's `H_dual, Hs, grad, z` included — solves exactly
like the fresh one -/
example {S : SolverNS.Solver Int} (h : newSolver 3 = .ok S) :
    RelM SolverNS.SolveObs (S.solve (st 3)) ((poison S).solve (st 3)) :=
  have hI : SolverInvN S := solverNew_invQ exInputOKN (by decide) exPermForN (exPivotOK 3) h
  ns_solve_reads_only (by decide) (st 3) (kktSimN 0 (st 3).lin) (stale_poison hI.st.shapes 0 (st 3).lin)
    (Nat.zero_le _) (solShape_poison _ S) (Or.inl (SolverNS.InitPointOk.of_nonsymmetric (st 3) (exNonsymmetric h)))

/-- the hypotheses of `ns_solve_idempotent_new` / `ns_solve_idempotent_nonsymmetric` hold on the example:
`new` and `solve()` succeed, the object has the two structural invariants and a nonsymmetric cone -/
example : ∃ S r1, newSolver 3 = .ok S ∧ S.solve (st 3) = .ok r1 ∧ SolverInvN S ∧ SolverNS.KktOk S.st
    ∧ SolverNS.isSymmetric S.st.cones = false ∧ ∃ r2, r1.S.solve (st 3) = .ok r2 ∧ SolverNS.SolveObs r1 r2 := by
  obtain ⟨S, r1, hS, hI, h1, _⟩ := exSolve_inv
  have hk := ns_new_solver_kkt_well_formed exInputOKN (by decide) exPermForN hS
  exact ⟨S, r1, hS, h1, hI, hk, exNonsymmetric hS,
    ns_solve_idempotent_nonsymmetric (by decide) (st 3) h1 hI hk (exNonsymmetric hS)⟩

/-- `ns_update_forgets` applies to the object `new` builds (`Upd` is reflexive; by
`ns_solve_leaves_updatable_object` it relates the object before and after any `solve()`) -/
example {S : SolverNS.Solver Int} (h : newSolver 3 = .ok S) :
    RelM (fun r r' => r.1 = r'.1 ∧ QB r.2 r'.2)
      (kktSolverUpdate S.st.kktsystem.kktsolver S.st.cones (st 3).lin)
      (kktSolverUpdate S.st.kktsystem.kktsolver S.st.cones (st 3).lin) :=
  have hk := ns_new_solver_kkt_well_formed exInputOKN (by decide) exPermForN h
  ns_update_forgets (Solver.Upd.rfl' _ _) hk.inv.ldl _ hk.fit

/-- the hypotheses of `ns_solve_leaves_updatable_object` hold on the example run, and so does its
conclusion: after the solve the exponential cone's object still is an exponential cone, the
linear-solver object differs only in what the next `update` rewrites -/
example : ∃ S r, newSolver 3 = .ok S ∧ S.solve (st 3) = .ok r ∧ SolverNS.ConesFull S.st.cones ∧ SolverNS.KktOk S.st
    ∧ Upd (st 3).lin S.st.kktsystem.kktsolver r.S.st.kktsystem.kktsolver
    ∧ SolverNS.ConesShape S.st.cones r.S.st.cones := by
  obtain ⟨S, r1, hS, hI, h1, _⟩ := exSolve_inv
  have hk := ns_new_solver_kkt_well_formed exInputOKN (by decide) exPermForN hS
  obtain ⟨hU, _, hsh, _⟩ := ns_solve_leaves_updatable_object h1 hI.st.shapes.cones hk
  exact ⟨S, r1, hS, h1, hI.st.shapes.cones, hk, hU, hsh⟩

end nsstaleExamples

/-! ### condition (iii) removed (code since /repo 7c1c881, see `Props/C05Idem.lean`, section `anyStart`) -/
section nsAnyStart
variable {α : Type} [Add α] [Sub α] [Mul α] [Div α] [Neg α] [LT α] [LE α] [DecidableLT α]
  [DecidableLE α] [BEq α] [OfNat α 0] [OfNat α 1] [OfNat α 2] [OfNat α 3] [OfNat α 4] [OfNat α 100]
  [OfNat α 1000] [OfScientific α] [FloatLike α]

/-- [S] `C05.ns_solve_ignores_iterate`: on the symmetric branch of `default_start` (every cone symmetric)
`solve()` does not read `variables.x/s/z`: zero-filling the three vectors of the solver object before
the call changes nothing (an equation: same error or same `SolveResult`).  (With a nonsymmetric cone
`unit_initialization` overwrites the entries inside the cones; see `ns_solve_reads_only_any_start`.) -/
theorem ns_solve_ignores_iterate (S : SolverNS.Solver α) (st : SolverNS.Settings α)
    (hs : SolverNS.isSymmetric S.st.cones = true) : S.zeroVars.solve st = S.solve st :=
  SolverNS.solve_zeroVars S st hs

/-- [S] `C05.ns_solve_reads_only_any_start`: `ns_solve_reads_only` without its hypothesis on the initial
point — for every composite cone, symmetric or not. -/
theorem ns_solve_reads_only_any_start (hbeq : ((0 : α) == 0) = true) {k : Nat}
    {Bw : KktSolver α → KktSolver α → Prop} (st : SolverNS.Settings α) (hsim : KktSimN k st.lin Bw)
    {S S' : SolverNS.Solver α} (h : SolverNS.Stale Bw S.st S'.st) (hk : k ≤ nSpN S.st.cones)
    (hsol : SolShape ((Solver.presolveMap S.st.data).map (fun m => m.keep.size)) S.solution S'.solution) :
    RelM SolverNS.SolveObs (S.solve st) (S'.solve st) :=
  SolverNS.solve_rel_any hbeq st hsim h hk hsol

/-- [S] `C05.ns_solve_stale_any_start`: `ns_solve_stale` without its hypothesis on the initial point. -/
theorem ns_solve_stale_any_start (hbeq : ((0 : α) == 0) = true) (st : SolverNS.Settings α)
    {KI KI' : KktSolver α → Prop} {S S' : SolverNS.Solver α} (hS : SolverNS.Shapes KI S.st)
    (hS' : SolverNS.Shapes KI' S'.st) (hd : S.st.data = S'.st.data)
    (hc : SolverNS.ConesShape S.st.cones S'.st.cones) {k : Nat}
    (hB : BwN k st.lin S.st.kktsystem.kktsolver S'.st.kktsystem.kktsolver) (hk : k ≤ nSpN S.st.cones)
    (hsol : SolShape ((Solver.presolveMap S.st.data).map (fun m => m.keep.size)) S.solution S'.solution) :
    RelM SolverNS.SolveObs (S.solve st) (S'.solve st) :=
  SolverNS.solve_rel_any hbeq st (kktSimN k st.lin) (SolverNS.Stale.of_shapes hS hS' hd hc hB) hk hsol

/-- [S] `C05.ns_solve_idempotent_any_start`: **the same solver solved twice — no condition left** (model
with nonsymmetric cones; composite cone symmetric or not).  If the first `solve()` on a solver object
returned `r1`, the second `solve()` on the object it left returns the same observable result; the
hypotheses are the two structural invariants every object built by `DefaultSolver::new` has and
`solve()` preserves.  `ns_solve_idempotent` without (iii). -/
theorem ns_solve_idempotent_any_start (hbeq : ((0 : α) == 0) = true) (st : SolverNS.Settings α)
    {S : SolverNS.Solver α} {r1 : SolverNS.SolveResult α} (h1 : S.solve st = .ok r1)
    (hI : SolverInvN S) (hk : SolverNS.KktOk S.st) :
    (∃ r2, r1.S.solve st = .ok r2 ∧ SolverNS.SolveObs r1 r2) ∧ SolverInvN r1.S ∧ SolverNS.KktOk r1.S.st := by
  obtain ⟨⟨_, hI1⟩, hI1'⟩ := solve_inv_of_ok hI h1
  exact ⟨solve_twice_obsN_any hbeq st h1 hI hI1 hk, hI1', (solve_kktOkN h1 hI.st.shapes.cones hk).1⟩

/-- [S] `C05.ns_solve_idempotent_new_any_start`: the same for a solver object fresh from
`DefaultSolver::new` on well-formed input: what is left are the input hypotheses of `new`. -/
theorem ns_solve_idempotent_new_any_start (hbeq : ((0 : α) == 0) = true) {P : Csc α} {q : Array α}
    {A : Csc α} {b : Array α} {cones : List (ConeT α)} {st : SolverNS.Settings α} {perm : Array Nat}
    (hin : InputOKN P q A b cones) (hn : 0 < P.n) (hperm : PermForN P q A b cones st perm)
    (hpiv : PivotOK st.lin) {S : SolverNS.Solver α}
    (hS : SolverNS.Solver.new P q A b cones st perm = .ok S) {r1 : SolverNS.SolveResult α}
    (h1 : S.solve st = .ok r1) :
    ∃ r2, r1.S.solve st = .ok r2 ∧ SolverNS.SolveObs r1 r2 :=
  (ns_solve_idempotent_any_start hbeq st h1 (solverNew_invQ hin hn hperm hpiv hS)
    (solverNew_kktOkN hin hn hperm hS)).1

/-- [S] `C05.ns_solve_fills_norm_caches`: the model with nonsymmetric cones, as the symmetric one
(`full_solve_keeps_data`, `full_solve_fills_norm_caches`): of the internal problem data `solve()` writes
the two norm caches only — the data of the returned object is `get_normq(); get_normb()`
(`Solver.fillNorms`) applied to the data at entry: both caches `Some` of what the two calls answer
there, every other field unchanged. -/
theorem ns_solve_fills_norm_caches {S : SolverNS.Solver α} {st : SolverNS.Settings α}
    {r : SolverNS.SolveResult α} (h : S.solve st = .ok r) :
    Solver.fillNorms S.st.data = .ok r.S.st.data
    ∧ ∃ vq vb, Info.getNormq S.st.data.normq S.st.data.q S.st.data.equilibration.dinv
          S.st.data.equilibration.c = .ok vq
        ∧ Info.getNormb S.st.data.normb S.st.data.b S.st.data.equilibration.einv = .ok vb
        ∧ r.S.st.data = { S.st.data with normq := some vq, normb := some vb } :=
  ⟨SolverNS.solve_data h, SolverNS.solve_data_eq h⟩

/-- [S] `C05.ns_solve_stores_caches_as_the_code`: in the model with nonsymmetric cones too, `solve()` with
the norm caches stored IN THE PASS, at `Info.update`, where the Rust code stores them
(`SolverNS.Solver.solveC`, `ClarabelModel/SolverNS/SolveC.lean`), is `SolverNS.Solver.solve`, which stores
them once in the object it returns: same error, or same trajectory, solution and returned object. -/
theorem ns_solve_stores_caches_as_the_code (S : SolverNS.Solver α) (st : SolverNS.Settings α) :
    S.solveC st = S.solve st :=
  SolverNS.solveC_eq_solve S st

/-- [S] `C05.ns_next_solve_on_entry_data`: the `solve()` after a `solve()` is the `solve()` on the
returned object with the data at entry put back (the filled caches answer as the caches at entry did). -/
theorem ns_next_solve_on_entry_data {S : SolverNS.Solver α} {st : SolverNS.Settings α}
    {r : SolverNS.SolveResult α} (h : S.solve st = .ok r) (st' : SolverNS.Settings α) :
    r.S.solve st' = (r.S.withData S.st.data).solve st' :=
  SolverNS.solve_putBack h st'

end nsAnyStart

/-! non-vacuity of the `…_any_start` theorems (scalar type `Int`) -/
section nsAnyStartExamples
open Clarabel.SolverNS.Example
attribute [local instance] intFloatLike intSci

/-- `ns_solve_reads_only_any_start` applies to the example solver and its poisoned copy with no side
condition on the initial point -/
example {S : SolverNS.Solver Int} (h : newSolver 3 = .ok S) :
    RelM SolverNS.SolveObs (S.solve (st 3)) ((poison S).solve (st 3)) :=
  have hI : SolverInvN S := solverNew_invQ exInputOKN (by decide) exPermForN (exPivotOK 3) h
  ns_solve_reads_only_any_start (by decide) (st 3) (kktSimN 0 (st 3).lin)
    (stale_poison hI.st.shapes 0 (st 3).lin) (Nat.zero_le _) (solShape_poison _ S)

/-- the hypotheses of `ns_solve_idempotent_any_start` hold on the example run, and so does its conclusion -/
example : ∃ S r1, newSolver 3 = .ok S ∧ S.solve (st 3) = .ok r1 ∧ SolverInvN S ∧ SolverNS.KktOk S.st
    ∧ ∃ r2, r1.S.solve (st 3) = .ok r2 ∧ SolverNS.SolveObs r1 r2 := by
  obtain ⟨S, r1, hS, hI, h1, _⟩ := exSolve_inv
  have hk := ns_new_solver_kkt_well_formed exInputOKN (by decide) exPermForN hS
  exact ⟨S, r1, hS, h1, hI, hk, (ns_solve_idempotent_any_start (by decide) (st 3) h1 hI hk).1⟩

end nsAnyStartExamples

end Clarabel.C05
