/-
  C07 — budget independence: first theorems about the FULL model WITH NONSYMMETRIC CONES
  (`ClarabelModel/SolverNS/Solve.lean`, tied bit for bit to `DefaultSolver::new` + `solve()` by
  the channels `solvens.*` of `harness/src/bin/solverns.rs`; the oracle `oracle_prefix` of that
  binary states the same property on the implementation's own runs).

  All theorems are class [S].  Helper lemmas: `ClarabelProofs/Lemmas/SolverNSPrefix.lean`.

  (A file of its own; NOT yet imported by `Props/C07.lean`.)
-/
import ClarabelProofs.Lemmas.SolverNSPrefix
import ClarabelProofs.Lemmas.SolverNSExample

namespace Clarabel.C07
open Clarabel Clarabel.SolverNS
open Clarabel.Info (SolverStatus InfoS)

set_option linter.unusedSectionVars false

section ns
variable {α : Type} [Add α] [Sub α] [Mul α] [Div α] [Neg α] [LT α] [LE α] [DecidableLT α]
  [DecidableLE α] [BEq α] [OfNat α 0] [OfNat α 1] [OfNat α 2] [OfNat α 3] [OfNat α 4] [OfNat α 100]
  [OfNat α 1000] [OfScientific α] [FloatLike α]

/-- [S] `C07.ns_pass_budget_independent`: `max_iter` enters one pass of the model with
nonsymmetric cones through the test `max_iter == iterations` of `check_termination` only — not
through the scaling strategy, the strategy checkpoints, the barrier backtracking or the cones'
line searches.  A pass from a loop state `L` is the same computation — same result or same
error, bit for bit — under the budgets `k` and `k'`, unless the numbers of this pass give no
verdict (`verdictOf … = Unsolved`) and the iteration counter sits exactly at one of the two
budgets. -/
theorem ns_pass_budget_independent (st : SolverNS.Settings α) (k k' : Nat) (L : SolverNS.LoopSt α)
    (h : ∀ r mu i1, SolverNS.topNumerics L.S L.iter = .ok (r, mu, i1) →
      Solver.verdictOf i1 r.dot_bz r.dot_qx st.info L.iter ≠ .unsolved ∨ (k ≠ L.iter ∧ k' ≠ L.iter)) :
    SolverNS.pass (SolverNS.withMaxIter st k) L = SolverNS.pass (SolverNS.withMaxIter st k') L :=
  SolverNS.pass_budget_indep st k k' L h

/-- [S] `C07.ns_prefix`: budget independence of the model with nonsymmetric cones.  Let `k ≤ k'`
and let the run with `max_iter = k` succeed with final loop state `Lk`.  Then both runs start
their loop from the same state `initLoopSt S0` (`default_start` — `unit_initialization` here —
does not read the budget) and

* the run with `max_iter = k'` reaches, through passes that all go on (falling through after
  `add_step`, or `continue`-ing after a switch of the scaling strategy), a top-of-pass state `Lm`
  that the short run reaches too — the *same* loop state: every iterate, residual, cone scaling,
  KKT factor, the strategy and every trajectory record up to there identical, bit for bit;
* the short run leaves its loop in the pass from `Lm`; either the long run does exactly the same
  in that pass (`FullPrefix.same`; then the long run returns the very same loop state), or
  (`FullPrefix.budget`) `Lm.iter = k`, the numbers give no verdict, the short run stops there with
  `MaxIterations` and hands `Lm`'s iterate unchanged to post-processing. -/
theorem ns_prefix (S : SolverNS.SolverSt α) (st : SolverNS.Settings α) (k k' : Nat) (hk : k ≤ k')
    {Lk : SolverNS.LoopSt α} (h : S.runSolve (SolverNS.withMaxIter st k) = .ok Lk) :
    ∃ S0, (SolverNS.resetInfo S).defaultStart st = .ok S0
      ∧ SolverNS.FullPrefix st k k' (SolverNS.initLoopSt S0) Lk
      ∧ (S.runSolve (SolverNS.withMaxIter st k') = .ok Lk
          ∨ Lk.S.info.status = .maxIterations ∧ Lk.iter = k) :=
  SolverNS.runSolve_prefix S st k k' hk h

/-- [S] the start of a solve does not depend on the budget -/
theorem ns_start_budget_independent (S : SolverNS.SolverSt α) (st : SolverNS.Settings α) (k : Nat) :
    S.defaultStart (SolverNS.withMaxIter st k) = S.defaultStart st := rfl

end ns

/-! non-vacuity: the example of `Lemmas/SolverNSExample.lean`, evaluated by the kernel at `Int`:
the run with `max_iter = 1` (two passes, the first one switching the strategy, `MaxIterations`)
is a prefix of the run with `max_iter = 3` (two passes, `InsufficientProgress` after two
iterations) -/
section nsExamples
open Clarabel.SolverNS.Example
attribute [local instance] intFloatLike intSci

example : SolverNS.withMaxIter (st 3) 1 = st 1 := rfl
example : (run 1).toOption.map summary = some (2, .maxIterations, 1, [false, true]) := run1
example : (run 3).toOption.map summary = some (2, .insufficientProgress, 2, [false, true]) := run3
/-- the iterates of the two pass records are the same in both runs -/
example : (run 1).toOption.map (fun r => r.traj.map (fun p => (p.vars.x.toList, p.vars.s.toList, p.vars.z.toList)))
    = (run 3).toOption.map (fun r => r.traj.map (fun p => (p.vars.x.toList, p.vars.s.toList, p.vars.z.toList))) := by
  decide +kernel

end nsExamples

end Clarabel.C07
