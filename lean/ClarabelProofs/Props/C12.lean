/-
  C12 — the sparse LDLᵀ engine factors, solves and refactors correctly or reports errors.
  Property theorems only; helper lemmas live in `ClarabelProofs/Lemmas/Qdldl*.lean`.
-/
import ClarabelModel.Qdldl
import ClarabelProofs.Lemmas.QdldlPerm
import ClarabelProofs.Lemmas.QdldlPermSym
import ClarabelProofs.Lemmas.ScalarInst
import Mathlib.Algebra.Order.Field.Basic

namespace Clarabel.C12
open Clarabel Qdldl

variable {α : Type}

/-- [S] `check_structure` rejects exactly: non-square (`IncompatibleDimension`), else a
stored entry below the diagonal (`NotUpperTriangular`), else a column without entries
(`EmptyColumn`, i.e. two adjacent `colptr` values that do not increase). -/
theorem check_structure (A : Csc α) :
    checkStructure A =
      if A.m ≠ A.n then .error errIncompatibleDimension
      else if ¬ (∀ j, j < A.n → ∀ r ∈ A.colRows j, r ≤ j) then .error errNotUpperTriangular
      else if Csc.anyAdjacent (fun a b => decide (a ≥ b)) A.colptr.toList = true then .error errEmptyColumn
      else .ok () := by
  unfold checkStructure
  have hthrow : ∀ e : ModelErr, (throw e : MErr Unit) = .error e := fun _ => rfl
  have hpure : (pure () : MErr Unit) = .ok () := rfl
  have htri : (A.isTriu = true) ↔ ∀ j, j < A.n → ∀ r ∈ A.colRows j, r ≤ j := by
    simp [Csc.isTriu]
  by_cases h1 : A.m = A.n
  · have a1 : ¬ ((A.m != A.n) = true) := by simp [h1]
    have a3 : ¬ (A.m ≠ A.n) := by simp [h1]
    by_cases h2 : A.isTriu = true
    · have h2' := htri.mp h2
      have a2 : ¬ ((!A.isTriu) = true) := by simp [h2]
      have a4 : ¬ ¬ (∀ j, j < A.n → ∀ r ∈ A.colRows j, r ≤ j) := fun h => h h2'
      rw [if_neg a1, if_neg a2, if_neg a3, if_neg a4, hthrow, hpure]
    · have h2' := mt htri.mpr h2
      have a2 : ((!A.isTriu) = true) := by simp [h2]
      rw [if_neg a1, if_pos a2, if_neg a3, if_pos h2', hthrow]
  · have a1 : ((A.m != A.n) = true) := by simp [h1]
    rw [if_pos a1, if_pos h1, hthrow]

/-- non-vacuity: a 2×2 upper-triangular matrix with full diagonal is accepted, a lower entry,
a missing column and a non-square shape are rejected with the three errors -/
example : checkStructure (⟨2, 2, #[0, 1, 3], #[0, 0, 1], #[1, 2, 3]⟩ : Csc Nat) = .ok () := by rfl
example : checkStructure (⟨2, 2, #[0, 2, 3], #[0, 1, 1], #[1, 2, 3]⟩ : Csc Nat) = .error errNotUpperTriangular := by rfl
example : checkStructure (⟨2, 2, #[0, 0, 1], #[1], #[3]⟩ : Csc Nat) = .error errEmptyColumn := by rfl
example : checkStructure (⟨2, 3, #[0, 1, 2, 3], #[0, 1, 1], #[1, 2, 3]⟩ : Csc Nat) = .error errIncompatibleDimension := by rfl

/-! ### `_invperm` -/

/-- `p` is a permutation of `0 … p.size-1`: no repeated entry, every entry in range -/
def IsPerm (p : Array Nat) : Prop := p.toList.Nodup ∧ ∀ j ∈ p.toList, j < p.size

/-- [S] `_invperm` succeeds exactly on the permutations of `0 … n-1` … -/
theorem invperm_ok_iff (p : Array Nat) : (∃ b, Perm.invperm p = .ok b) ↔ IsPerm p := by
  unfold Perm.invperm IsPerm
  constructor
  · rintro ⟨b, hb⟩
    have h := (Perm.invpermLoop_ok_iff p.size p.toList 0 _ _ (by simp) b).mp hb
    exact ⟨h.2.1, fun j hj => (h.1 j hj).1⟩
  · rintro ⟨hnd, hlt⟩
    refine ⟨_, (Perm.invpermLoop_ok_iff p.size p.toList 0 _ _ (by simp) _).mpr ⟨?_, hnd, rfl⟩⟩
    intro j hj
    refine ⟨hlt j hj, ?_⟩
    have : j < p.size := hlt j hj
    simp [Array.getD, this]

/-- [S] … every other vector (a repeated entry — also when its first occurrence is at
position 0, the repaired defect — or an entry `≥ n`) is answered with `InvalidPermutation` … -/
theorem invperm_rejects (p : Array Nat) (h : ¬ IsPerm p) :
    Perm.invperm p = .error Perm.invalidPermutation := by
  rcases Perm.invpermLoop_error p.size p.toList 0 (Array.replicate p.size 0)
      (Array.replicate p.size false) with ⟨b, hb⟩ | he
  · exact absurd ((invperm_ok_iff p).mp ⟨b, hb⟩) h
  · exact he

/-- [S] … and the vector returned is the inverse permutation: `b[p[i]] = i` and `p[b[j]] = j`. -/
theorem invperm_inverse (p b : Array Nat) (h : Perm.invperm p = .ok b) :
    b.size = p.size ∧ (∀ i (hi : i < p.size), b[p[i]]? = some i) ∧
      (∀ j, j < p.size → ∃ i, b[j]? = some i ∧ p[i]? = some j) := by
  have hp : IsPerm p := (invperm_ok_iff p).mp ⟨b, h⟩
  unfold Perm.invperm at h
  have hb := ((Perm.invpermLoop_ok_iff p.size p.toList 0 _ _ (by simp) b).mp h).2.2
  have hsize : b.size = p.size := by rw [hb, Perm.writeAll_size]; simp
  have hget : ∀ i (hi : i < p.size), b[p[i]]? = some i := by
    intro i hi
    have := Perm.writeAll_get p.toList 0 (Array.replicate p.size 0) hp.1
      (by intro j hj; simpa using hp.2 j hj) i (by simpa using hi)
    rw [hb]
    simpa using this
  refine ⟨hsize, hget, ?_⟩
  intro j hj
  have hmem : j ∈ p.toList := Perm.mem_of_nodup_of_lt p.toList p.size hp.1 hp.2 (by simp) j hj
  obtain ⟨i, hi, hij⟩ := List.getElem_of_mem hmem
  have hi' : i < p.size := by simpa using hi
  refine ⟨i, ?_, ?_⟩
  · have := hget i hi'
    have e : p[i] = j := by simpa using hij
    rw [e] at this; exact this
  · have e : p[i] = j := by simpa using hij
    simp [hi', e]

/-- [S] the defect repaired in `98e4e8e`: `[0,0]`, `[1,1]`, `[2,2,0]`, `[0,0,2,3]` are rejected -/
example : Perm.invperm #[0, 0] = .error Perm.invalidPermutation := by rfl
example : Perm.invperm #[1, 1] = .error Perm.invalidPermutation := by rfl
example : Perm.invperm #[2, 2, 0] = .error Perm.invalidPermutation := by rfl
example : Perm.invperm #[0, 0, 2, 3] = .error Perm.invalidPermutation := by rfl
/-- non-vacuity: a genuine permutation is inverted -/
example : Perm.invperm #[3, 0, 2, 1] = .ok #[1, 3, 2, 0] := by rfl

/-! ### `permute_symmetric` and the entry map `AtoPAPt` -/

section permsym
variable [OfNat α 0]

/-- [S] (holds at `Float`) `permute_symmetric`: the entry map `AtoPAPt` is injective, has one
slot per stored entry of `A`, every slot is inside `triuA`, and `triuA.nzval[AtoPAPt[k]]`
is `A.nzval[k]` (the value is copied, not recomputed). -/
theorem permute_symmetric (A : Csc α) (iperm : Array Nat) (P : Csc α) (map : Array Nat)
    (h : permuteSymmetric A iperm = .ok (P, map)) :
    map.size = A.nzval.size ∧ P.nzval.size = A.nzval.size ∧ map.toList.Nodup ∧
      ∀ k (hk : k < A.nzval.size), ∃ p, map[k]? = some p ∧ p < P.nzval.size ∧
        P.nzval[p]? = some A.nzval[k] := by
  obtain ⟨hsz, Pc, Pr, pos, hpat, hP, hmap⟩ := permuteSymmetric_ok A iperm P map h
  obtain ⟨hnd, hlen, hlt, _, _⟩ := permutePattern_ok _ _ _ _ _ _ _ hpat
  rw [hsz] at hlen hlt
  subst hP hmap
  refine ⟨by simpa using hlen, by simp [scatter_size], by simpa using hnd, ?_⟩
  intro k hk
  have hk' : k < pos.length := by omega
  refine ⟨pos[k], by simp [hk'], ?_, ?_⟩
  · simp only [scatter_size, Array.size_replicate]; exact hlt _ (List.getElem_mem _)
  · have := scatter_get (Array.replicate A.nzval.size (0 : α)) pos A.nzval.toList hnd
      (by simpa using hlen) (by simpa using hlt) k hk'
    simpa using this

/-- [S] (holds at `Float`) **updating commutes with permuting**: writing `v` into entry `k` of `A`
and then permuting gives the same `triuA` (bit for bit) and the same map as permuting
first and then writing `v` through the map, `triuA.nzval[AtoPAPt[k]] := v` — which is
what `update_values / scale_values / offset_values` do.  The pattern part
(`colptr, rowval, AtoPAPt`, hence `etree` and `Lnz`) does not depend on the values at all. -/
theorem update_commutes (A : Csc α) (iperm : Array Nat) (P : Csc α) (map : Array Nat)
    (h : permuteSymmetric A iperm = .ok (P, map)) (k : Nat) (hk : k < A.nzval.size) (v : α) :
    permuteSymmetric { A with nzval := A.nzval.set k v } iperm =
      .ok ({ P with nzval := P.nzval.setIfInBounds (map.getD k 0) v }, map) := by
  obtain ⟨hsz, Pc, Pr, pos, hpat, hP, hmap⟩ := permuteSymmetric_ok A iperm P map h
  obtain ⟨hnd, hlen, hlt, _, _⟩ := permutePattern_ok _ _ _ _ _ _ _ hpat
  rw [hsz] at hlen hlt
  have hk' : k < pos.length := by omega
  -- the guards of the updated matrix are those of `A`
  have hguard : ∀ B : Csc α, B.m = A.m → B.n = A.n → B.colptr = A.colptr → B.rowval = A.rowval →
      B.nzval.size = A.nzval.size →
      permuteSymmetric B iperm = .ok
        ({ m := A.n, n := A.n, colptr := Pc, rowval := Pr,
           nzval := scatter (Array.replicate A.nzval.size 0) pos B.nzval.toList }, pos.toArray) := by
    intro B h1 h2 h3 h4 h5
    have hwA : (!wellFormed A || A.m != A.n) = false ∧ (!A.isTriu) = false := by
      unfold permuteSymmetric at h
      simp only [bind, Except.bind, pure, Except.pure, throw, throwThe, MonadExceptOf.throw] at h
      split at h
      · cases h
      · rename_i hw
        split at h
        · cases h
        · rename_i ht
          exact ⟨by simpa using hw, by simpa using ht⟩
    have hwB : (!wellFormed B || B.m != B.n) = false := by
      have : wellFormed B = wellFormed A := by simp [wellFormed, h2, h3, h4, h5]
      rw [this, h1, h2]; exact hwA.1
    have htB : (!B.isTriu) = false := by
      have : B.isTriu = A.isTriu := by simp [Csc.isTriu, Csc.colRows, h2, h3, h4]
      rw [this]; exact hwA.2
    unfold permuteSymmetric
    simp only [bind, Except.bind, pure, Except.pure, throw, throwThe, MonadExceptOf.throw]
    rw [if_neg (by rw [hwB]; simp), if_neg (by rw [htB]; simp)]
    simp only [h2, h3, h4, hpat, h5]
  rw [hguard { A with nzval := A.nzval.set k v } rfl rfl rfl rfl (by simp)]
  subst hP hmap
  congr 2
  have := scatter_set (Array.replicate A.nzval.size (0 : α)) pos A.nzval.toList hnd
    (by simpa using hlen) (by simpa using hlt) k hk' v
  simp only [Array.toList_set]
  rw [this]
  simp [hk']

/-- [S] (holds at `Float`) `permute_symmetric` stores entry `k = (r, c)` of `A` in column
`max(iperm r, iperm c)` of `triuA` (its slot lies in that column's `colptr` range) with row
index `min(iperm r, iperm c)`: `triuA` is upper triangular and its symmetric meaning is
`Π A Π'`. -/
theorem permute_symmetric_position (A : Csc α) (iperm : Array Nat) (P : Csc α) (map : Array Nat)
    (h : permuteSymmetric A iperm = .ok (P, map)) (k : Nat) (hk : k < A.nzval.size) :
    ∃ r c p, A.rowval[k]? = some r ∧ (colOf A.colptr A.n)[k]? = some c ∧ map[k]? = some p ∧
      P.rowval[p]? = some (min (iperm.getD r 0) (iperm.getD c 0)) ∧
      P.colptr.getD (max (iperm.getD r 0) (iperm.getD c 0)) 0 ≤ p ∧
      p < P.colptr.getD (max (iperm.getD r 0) (iperm.getD c 0) + 1) 0 ∧
      min (iperm.getD r 0) (iperm.getD c 0) ≤ max (iperm.getD r 0) (iperm.getD c 0) := by
  obtain ⟨hsz, Pc, Pr, pos, hpat, hP, hmap⟩ := permuteSymmetric_ok A iperm P map h
  obtain ⟨hnd, hlen, hlt, hPc, hblk⟩ := permutePattern_ok _ _ _ _ _ _ _ hpat
  -- unfold the pattern computation once more to get at `Pr` and the column list
  have hPr : Pr = scatter (Array.replicate A.rowval.size 0) pos
      (List.zipWith (fun r c => min (iperm.getD r 0) (iperm.getD c 0)) A.rowval.toList (colOf A.colptr A.n)) ∧
      (colOf A.colptr A.n).length = A.rowval.size := by
    unfold permutePattern at hpat
    simp only [bind, Except.bind, pure, Except.pure, throw, throwThe, MonadExceptOf.throw] at hpat
    split at hpat
    · cases hpat
    · split at hpat
      · cases hpat
      · rename_i h2
        split at hpat
        · cases hpat
        · simp only [Except.ok.injEq, Prod.mk.injEq] at hpat
          rw [← hpat.2.2]
          exact ⟨hpat.2.1.symm, by simpa using h2⟩
  have hkr : k < A.rowval.size := by omega
  have hkc : k < (colOf A.colptr A.n).length := by omega
  have hkp : k < pos.length := by omega
  have hdl : k < (destsOf A.n A.colptr A.rowval iperm).length := by simp [destsOf]; omega
  have hd : (destsOf A.n A.colptr A.rowval iperm)[k] =
      max (iperm.getD A.rowval[k] 0) (iperm.getD (colOf A.colptr A.n)[k] 0) := by
    simp [destsOf]
  have hb := hblk k hdl pos[k] (by simp [hkp])
  rw [hd] at hb
  subst hP hmap
  refine ⟨A.rowval[k], (colOf A.colptr A.n)[k], pos[k], by simp [hkr], by simp [hkc], by simp [hkp], ?_,
    hb.1, hb.2, Nat.le_trans (Nat.min_le_left _ _) (Nat.le_max_left _ _)⟩
  rw [hPr.1]
  have := scatter_get (Array.replicate A.rowval.size 0) pos
    (List.zipWith (fun r c => min (iperm.getD r 0) (iperm.getD c 0)) A.rowval.toList (colOf A.colptr A.n))
    hnd (by simp [hlen, hPr.2]) (by simpa using hlt) k hkp
  simpa using this

/-- non-vacuity of the `permute_symmetric` theorems: a 3×3 arrow matrix, reversed ordering -/
example : permuteSymmetric (⟨3, 3, #[0, 1, 2, 5], #[0, 1, 0, 1, 2], #[4, 5, 1, 2, 6]⟩ : Csc Nat) #[2, 1, 0] =
    .ok (⟨3, 3, #[0, 1, 3, 5], #[0, 1, 0, 2, 0], #[6, 5, 2, 4, 1]⟩, #[3, 1, 4, 2, 0]) := by rfl

/-- [S] FINDING (counterexample to the intended "column 0 of `triuA` starts with its diagonal
entry", which `_factor_inner` relies on when it executes `D[0] = Ax[0]`): the input
`[[1,2],[2,·]]` passes `check_structure` (upper triangular, no empty column), the ordering
`[1,0]` is valid, and the permuted matrix has an *empty* first column — its first stored
value `1` belongs to entry (1,1).  The factorisation then uses that value as first pivot
(`Ok`, `D[0] = 1`, solution of `[[1,2],[2,1]]x = b`) instead of reporting the exact zero
pivot of `ΠAΠ' = [[0,2],[2,1]]`.  Replays on the implementation
(`replays/C12/finding-first-pivot-missing-diagonal.json`). -/
theorem finding_first_column_can_be_empty :
    checkStructure (⟨2, 2, #[0, 1, 2], #[0, 0], #[1, 2]⟩ : Csc Nat) = .ok () ∧
    permuteSymmetric (⟨2, 2, #[0, 1, 2], #[0, 0], #[1, 2]⟩ : Csc Nat) #[1, 0] =
      .ok (⟨2, 2, #[0, 0, 2], #[1, 0], #[1, 2]⟩, #[0, 1]) := ⟨by rfl, by rfl⟩

end permsym

/-! ### the pivot rule -/

section pivot
variable [Add α] [Sub α] [Mul α] [Div α] [Neg α] [OfNat α 0] [OfNat α 1] [LT α] [DecidableLT α]
  [BEq α] [FloatLike α]

/-- [S] (holds at `Float`) the pivot is replaced by `δ·sign` iff regularisation is enabled and
`D[k]·sign < ε`; otherwise it is kept. -/
theorem pivot_rule (enable : Bool) (eps delta : α) (sign : Int) (d : α) :
    regularizePivot enable eps delta sign d =
      if enable = true ∧ d * signT sign < eps then (delta * signT sign, true) else (d, false) := by
  unfold regularizePivot
  cases enable <;> simp

/-- [S] (holds at `Float`) `finishPivot` — the tail of every iteration of `_factor_inner` — as an
equation: with `r` the outcome of the rule on the raw pivot `D[k]`, a final pivot `== 0`
is answered with `ZeroPivot`; otherwise `D[k] = r`, `Dinv[k] = 1/r`, the regularisation
counter is incremented exactly when the rule fired and the positive-pivot counter
exactly when `r > 0`; nothing else changes. -/
theorem pivot_step (rp : RegParams α) (k : Nat) (s : FState α) (dk : α) (sg : Int)
    (hD : s.D[k]? = some dk) (hS : rp.enable = true → rp.Dsigns[k]? = some sg)
    (hI : k < s.Dinv.size) :
    finishPivot rp k s =
      (let r := regularizePivot rp.enable rp.eps rp.delta sg dk
       if (r.1 == (0 : α)) = true then .error errZeroPivot
       else .ok { s with
         D := s.D.setIfInBounds k r.1, Dinv := s.Dinv.setIfInBounds k ((1 : α) / r.1),
         regularizeCount := s.regularizeCount + (if r.2 then 1 else 0),
         positive := s.positive + (if (0 : α) < r.1 then 1 else 0) }) := by
  have hk : k < s.D.size := by
    rcases Nat.lt_or_ge k s.D.size with h | h
    · exact h
    · rw [Array.getElem?_eq_none h] at hD; cases hD
  unfold finishPivot
  cases hen : rp.enable
  · simp only [getE, hD, setE, hk, hI, regularizePivot, bind, Except.bind, pure, Except.pure,
      Bool.false_eq_true, ↓reduceIte, ↓reduceDIte, Array.setIfInBounds, throw, throwThe,
      MonadExceptOf.throw]
    by_cases hz : (dk == (0 : α)) = true
    · simp [hz]
    · simp only [hz, Bool.false_eq_true, ↓reduceIte, Nat.add_zero]
      by_cases hp : (0 : α) < dk <;> simp [hp]
  · have hS' := hS hen
    simp only [getE, hD, hS', setE, hk, hI, bind, Except.bind, pure, Except.pure,
      ↓reduceIte, ↓reduceDIte, Array.setIfInBounds, throw, throwThe, MonadExceptOf.throw]
    generalize regularizePivot true rp.eps rp.delta sg dk = r
    obtain ⟨r1, r2⟩ := r
    by_cases hz : (r1 == (0 : α)) = true
    · simp [hz]
    · simp only [hz, Bool.false_eq_true, ↓reduceIte]
      cases r2 <;> by_cases hp : (0 : α) < r1 <;> simp [hp]

end pivot

/-- [F] with the regulariser on, a positive threshold `ε`, a positive shift `δ` and signs `±1`,
the accepted pivot satisfies `D[k]·sign ≥ min ε δ > 0`: it has the prescribed sign and is
never zero (a regularised factorisation cannot end in `ZeroPivot`). -/
theorem pivot_regularized_sign {α : Type} [Field α] [LinearOrder α] [IsStrictOrderedRing α]
    [FloatLike α] [LawfulFloatLike α] (eps delta d : α) (sign : Int)
    (hs : sign = 1 ∨ sign = -1) (he : 0 < eps) (hd : 0 < delta) :
    min eps delta ≤ (regularizePivot true eps delta sign d).1 * signT sign ∧
      (regularizePivot true eps delta sign d).1 ≠ 0 := by
  have hsq : (signT sign : α) * signT sign = 1 := by
    rcases hs with rfl | rfl
    · simp [signT, LawfulFloatLike.ofNat_eq]
    · simp [signT, LawfulFloatLike.ofNat_eq]
  have hmin : 0 < min eps delta := lt_min he hd
  have key : min eps delta ≤ (regularizePivot true eps delta sign d).1 * signT sign := by
    unfold regularizePivot
    by_cases hlt : d * signT sign < eps
    · simp only [↓reduceIte, hlt]
      rw [mul_assoc, hsq, mul_one]; exact min_le_right _ _
    · simp only [↓reduceIte, hlt]
      exact le_trans (min_le_left _ _) (not_lt.mp hlt)
  refine ⟨key, ?_⟩
  intro h0
  rw [h0, zero_mul] at key
  exact absurd key (not_le.mpr hmin)

/-- non-vacuity of `pivot_regularized_sign` and an instance of the rule over `ℚ`-like fields:
a raw pivot `0` with sign `-1` becomes `-δ`. -/
example : (regularizePivot true (1/2 : ℝ) (1/4) (-1) 0).1 = -(1/4) := by
  simp [regularizePivot, signT, LawfulFloatLike.ofNat_eq]

/-- non-vacuity of `pivot_step`: its hypotheses hold for a one-pivot state over `ℝ`-like
scalars (here `ℝ`), and the conclusion is the regularised pivot `δ·sign = -1/4`. -/
example :
    ∃ (s : FState ℝ) (rp : RegParams ℝ), s.D[0]? = some 0 ∧
      (rp.enable = true → rp.Dsigns[0]? = some (-1)) ∧ 0 < s.Dinv.size :=
  ⟨⟨#[0, 0], #[], #[], #[0], #[0], #[false], #[0], #[0], 0, 0⟩, ⟨#[-1], true, 1/2, 1/4⟩, by simp⟩

/-- documented, not part of C12's claim: the asserting twin `algebra::utils::invperm` still
uses `b[j] == 0` as "unset" and so accepts a repeated index whose first occurrence is at
position 0 (it is only handed internally generated permutations). -/
theorem utils_invperm_accepts_repeated_index : Perm.utilsInvperm #[0, 0] = .ok #[1, 0] := by rfl


end Clarabel.C12
