/-
  C12 — the sparse LDLᵀ engine factors, solves and refactors correctly or reports errors.
  Property theorems only; helper lemmas live in `ClarabelProofs/Lemmas/Qdldl*.lean`.
-/
import ClarabelModel.Qdldl
import ClarabelProofs.Lemmas.QdldlPerm
import ClarabelProofs.Lemmas.QdldlPermSym
import ClarabelProofs.Lemmas.QdldlSolve
import ClarabelProofs.Lemmas.QdldlSolveCsc
import ClarabelProofs.Lemmas.QdldlEtree
import ClarabelProofs.Lemmas.QdldlFactor
import ClarabelProofs.Lemmas.QdldlFactorVal
import ClarabelProofs.Lemmas.QdldlRefactor
import ClarabelProofs.Lemmas.QdldlExamples
import ClarabelProofs.Lemmas.QdldlFactorSolve
import ClarabelProofs.Lemmas.QdldlPermTriu
import ClarabelProofs.Lemmas.QdldlRepresents
import ClarabelProofs.Lemmas.QdldlNew
import ClarabelProofs.Lemmas.QdldlZeroPivot
import ClarabelProofs.Lemmas.QdldlNewZeroPivot
import ClarabelProofs.Lemmas.QdldlLogical
import ClarabelProofs.Lemmas.QdldlHistory
import ClarabelProofs.Lemmas.QdldlHistoryMain
import ClarabelProofs.Lemmas.QdldlEmpty
import ClarabelProofs.Lemmas.ScalarInst
import Mathlib.Algebra.Order.Field.Basic

namespace Clarabel.C12
open Clarabel Qdldl

variable {α : Type}

/-- [S] `check_structure` rejects exactly: non-square (`IncompatibleDimension`), else a
stored entry below the diagonal (`NotUpperTriangular`), else a column without entries
(`EmptyColumn`, i.e. two adjacent `colptr` values that do not increase). -/
theorem check_structure (A : Csc α) :
    checkStructure A =
      if A.m ≠ A.n then .error errIncompatibleDimension
      else if ¬ (∀ j, j < A.n → ∀ r ∈ A.colRows j, r ≤ j) then .error errNotUpperTriangular
      else if Csc.anyAdjacent (fun a b => decide (a ≥ b)) A.colptr.toList = true then .error errEmptyColumn
      else .ok () := by
  unfold checkStructure
  have hthrow : ∀ e : ModelErr, (throw e : MErr Unit) = .error e := fun _ => rfl
  have hpure : (pure () : MErr Unit) = .ok () := rfl
  have htri : (A.isTriu = true) ↔ ∀ j, j < A.n → ∀ r ∈ A.colRows j, r ≤ j := by
    simp [Csc.isTriu]
  by_cases h1 : A.m = A.n
  · have a1 : ¬ ((A.m != A.n) = true) := by simp [h1]
    have a3 : ¬ (A.m ≠ A.n) := by simp [h1]
    by_cases h2 : A.isTriu = true
    · have h2' := htri.mp h2
      have a2 : ¬ ((!A.isTriu) = true) := by simp [h2]
      have a4 : ¬ ¬ (∀ j, j < A.n → ∀ r ∈ A.colRows j, r ≤ j) := fun h => h h2'
      rw [if_neg a1, if_neg a2, if_neg a3, if_neg a4, hthrow, hpure]
    · have h2' := mt htri.mpr h2
      have a2 : ((!A.isTriu) = true) := by simp [h2]
      rw [if_neg a1, if_pos a2, if_neg a3, if_pos h2', hthrow]
  · have a1 : ((A.m != A.n) = true) := by simp [h1]
    rw [if_pos a1, if_pos h1, hthrow]

/-- non-vacuity: a 2×2 upper-triangular matrix with full diagonal is accepted, a lower entry,
a missing column and a non-square shape are rejected with the three errors -/
example : checkStructure (⟨2, 2, #[0, 1, 3], #[0, 0, 1], #[1, 2, 3]⟩ : Csc Nat) = .ok () := by rfl
example : checkStructure (⟨2, 2, #[0, 2, 3], #[0, 1, 1], #[1, 2, 3]⟩ : Csc Nat) = .error errNotUpperTriangular := by rfl
example : checkStructure (⟨2, 2, #[0, 0, 1], #[1], #[3]⟩ : Csc Nat) = .error errEmptyColumn := by rfl
example : checkStructure (⟨2, 3, #[0, 1, 2, 3], #[0, 1, 1], #[1, 2, 3]⟩ : Csc Nat) = .error errIncompatibleDimension := by rfl

/-! ### `_invperm` -/

/-- `p` is a permutation of `0 … p.size-1`: no repeated entry, every entry in range -/
def IsPerm (p : Array Nat) : Prop := p.toList.Nodup ∧ ∀ j ∈ p.toList, j < p.size

/-- [S] `_invperm` succeeds exactly on the permutations of `0 … n-1` … -/
theorem invperm_ok_iff (p : Array Nat) : (∃ b, Perm.invperm p = .ok b) ↔ IsPerm p := by
  unfold Perm.invperm IsPerm
  constructor
  · rintro ⟨b, hb⟩
    have h := (Perm.invpermLoop_ok_iff p.size p.toList 0 _ _ (by simp) b).mp hb
    exact ⟨h.2.1, fun j hj => (h.1 j hj).1⟩
  · rintro ⟨hnd, hlt⟩
    refine ⟨_, (Perm.invpermLoop_ok_iff p.size p.toList 0 _ _ (by simp) _).mpr ⟨?_, hnd, rfl⟩⟩
    intro j hj
    refine ⟨hlt j hj, ?_⟩
    have : j < p.size := hlt j hj
    simp [Array.getD, this]

/-- [S] … every other vector (a repeated entry — also when its first occurrence is at
position 0, the repaired defect — or an entry `≥ n`) is answered with `InvalidPermutation` … -/
theorem invperm_rejects (p : Array Nat) (h : ¬ IsPerm p) :
    Perm.invperm p = .error Perm.invalidPermutation := by
  rcases Perm.invpermLoop_error p.size p.toList 0 (Array.replicate p.size 0)
      (Array.replicate p.size false) with ⟨b, hb⟩ | he
  · exact absurd ((invperm_ok_iff p).mp ⟨b, hb⟩) h
  · exact he

/-- [S] … and the vector returned is the inverse permutation: `b[p[i]] = i` and `p[b[j]] = j`. -/
theorem invperm_inverse (p b : Array Nat) (h : Perm.invperm p = .ok b) :
    b.size = p.size ∧ (∀ i (hi : i < p.size), b[p[i]]? = some i) ∧
      (∀ j, j < p.size → ∃ i, b[j]? = some i ∧ p[i]? = some j) := by
  have hp : IsPerm p := (invperm_ok_iff p).mp ⟨b, h⟩
  unfold Perm.invperm at h
  have hb := ((Perm.invpermLoop_ok_iff p.size p.toList 0 _ _ (by simp) b).mp h).2.2
  have hsize : b.size = p.size := by rw [hb, Perm.writeAll_size]; simp
  have hget : ∀ i (hi : i < p.size), b[p[i]]? = some i := by
    intro i hi
    have := Perm.writeAll_get p.toList 0 (Array.replicate p.size 0) hp.1
      (by intro j hj; simpa using hp.2 j hj) i (by simpa using hi)
    rw [hb]
    simpa using this
  refine ⟨hsize, hget, ?_⟩
  intro j hj
  have hmem : j ∈ p.toList := Perm.mem_of_nodup_of_lt p.toList p.size hp.1 hp.2 (by simp) j hj
  obtain ⟨i, hi, hij⟩ := List.getElem_of_mem hmem
  have hi' : i < p.size := by simpa using hi
  refine ⟨i, ?_, ?_⟩
  · have := hget i hi'
    have e : p[i] = j := by simpa using hij
    rw [e] at this; exact this
  · have e : p[i] = j := by simpa using hij
    simp [hi', e]

/-- [S] the defect repaired in `98e4e8e`: `[0,0]`, `[1,1]`, `[2,2,0]`, `[0,0,2,3]` are rejected -/
example : Perm.invperm #[0, 0] = .error Perm.invalidPermutation := by rfl
example : Perm.invperm #[1, 1] = .error Perm.invalidPermutation := by rfl
example : Perm.invperm #[2, 2, 0] = .error Perm.invalidPermutation := by rfl
example : Perm.invperm #[0, 0, 2, 3] = .error Perm.invalidPermutation := by rfl
/-- non-vacuity: a genuine permutation is inverted -/
example : Perm.invperm #[3, 0, 2, 1] = .ok #[1, 3, 2, 0] := by rfl

/-! ### `permute_symmetric` and the entry map `AtoPAPt` -/

section permsym
variable [OfNat α 0]

/-- [S] (holds at `Float`) `permute_symmetric`: the entry map `AtoPAPt` is injective, has one
slot per stored entry of `A`, every slot is inside `triuA`, and `triuA.nzval[AtoPAPt[k]]`
is `A.nzval[k]` (the value is copied, not recomputed). -/
theorem permute_symmetric (A : Csc α) (iperm : Array Nat) (P : Csc α) (map : Array Nat)
    (h : permuteSymmetric A iperm = .ok (P, map)) :
    map.size = A.nzval.size ∧ P.nzval.size = A.nzval.size ∧ map.toList.Nodup ∧
      ∀ k (hk : k < A.nzval.size), ∃ p, map[k]? = some p ∧ p < P.nzval.size ∧
        P.nzval[p]? = some A.nzval[k] := by
  obtain ⟨hsz, Pc, Pr, pos, hpat, hP, hmap⟩ := permuteSymmetric_ok A iperm P map h
  obtain ⟨hnd, hlen, hlt, _, _⟩ := permutePattern_ok _ _ _ _ _ _ _ hpat
  rw [hsz] at hlen hlt
  subst hP hmap
  refine ⟨by simpa using hlen, by simp [scatter_size], by simpa using hnd, ?_⟩
  intro k hk
  have hk' : k < pos.length := by omega
  refine ⟨pos[k], by simp [hk'], ?_, ?_⟩
  · simp only [scatter_size, Array.size_replicate]; exact hlt _ (List.getElem_mem _)
  · have := scatter_get (Array.replicate A.nzval.size (0 : α)) pos A.nzval.toList hnd
      (by simpa using hlen) (by simpa using hlt) k hk'
    simpa using this

/-- [S] (holds at `Float`) **updating commutes with permuting**: writing `v` into entry `k` of `A`
and then permuting gives the same `triuA` (bit for bit) and the same map as permuting
first and then writing `v` through the map, `triuA.nzval[AtoPAPt[k]] := v` — which is
what `update_values / scale_values / offset_values` do.  The pattern part
(`colptr, rowval, AtoPAPt`, hence `etree` and `Lnz`) does not depend on the values at all. -/
theorem update_commutes (A : Csc α) (iperm : Array Nat) (P : Csc α) (map : Array Nat)
    (h : permuteSymmetric A iperm = .ok (P, map)) (k : Nat) (hk : k < A.nzval.size) (v : α) :
    permuteSymmetric { A with nzval := A.nzval.set k v } iperm =
      .ok ({ P with nzval := P.nzval.setIfInBounds (map.getD k 0) v }, map) := by
  obtain ⟨hsz, Pc, Pr, pos, hpat, hP, hmap⟩ := permuteSymmetric_ok A iperm P map h
  obtain ⟨hnd, hlen, hlt, _, _⟩ := permutePattern_ok _ _ _ _ _ _ _ hpat
  rw [hsz] at hlen hlt
  have hk' : k < pos.length := by omega
  -- the guards of the updated matrix are those of `A`
  have hguard : ∀ B : Csc α, B.m = A.m → B.n = A.n → B.colptr = A.colptr → B.rowval = A.rowval →
      B.nzval.size = A.nzval.size →
      permuteSymmetric B iperm = .ok
        ({ m := A.n, n := A.n, colptr := Pc, rowval := Pr,
           nzval := scatter (Array.replicate A.nzval.size 0) pos B.nzval.toList }, pos.toArray) := by
    intro B h1 h2 h3 h4 h5
    have hwA : (!wellFormed A || A.m != A.n) = false ∧ (!A.isTriu) = false := by
      unfold permuteSymmetric at h
      simp only [bind, Except.bind, pure, Except.pure, throw, throwThe, MonadExceptOf.throw] at h
      split at h
      · cases h
      · rename_i hw
        split at h
        · cases h
        · rename_i ht
          exact ⟨by simpa using hw, by simpa using ht⟩
    have hwB : (!wellFormed B || B.m != B.n) = false := by
      have : wellFormed B = wellFormed A := by simp [wellFormed, h2, h3, h4, h5]
      rw [this, h1, h2]; exact hwA.1
    have htB : (!B.isTriu) = false := by
      have : B.isTriu = A.isTriu := by simp [Csc.isTriu, Csc.colRows, h2, h3, h4]
      rw [this]; exact hwA.2
    unfold permuteSymmetric
    simp only [bind, Except.bind, pure, Except.pure, throw, throwThe, MonadExceptOf.throw]
    rw [if_neg (by rw [hwB]; simp), if_neg (by rw [htB]; simp)]
    simp only [h2, h3, h4, hpat, h5]
  rw [hguard { A with nzval := A.nzval.set k v } rfl rfl rfl rfl (by simp)]
  subst hP hmap
  congr 2
  have := scatter_set (Array.replicate A.nzval.size (0 : α)) pos A.nzval.toList hnd
    (by simpa using hlen) (by simpa using hlt) k hk' v
  simp only [Array.toList_set]
  rw [this]
  simp [hk']

/-- [S] (holds at `Float`) `permute_symmetric` stores entry `k = (r, c)` of `A` in column
`max(iperm r, iperm c)` of `triuA` (its slot lies in that column's `colptr` range) with row
index `min(iperm r, iperm c)`: `triuA` is upper triangular and its symmetric meaning is
`Π A Π'`. -/
theorem permute_symmetric_position (A : Csc α) (iperm : Array Nat) (P : Csc α) (map : Array Nat)
    (h : permuteSymmetric A iperm = .ok (P, map)) (k : Nat) (hk : k < A.nzval.size) :
    ∃ r c p, A.rowval[k]? = some r ∧ (colOf A.colptr A.n)[k]? = some c ∧ map[k]? = some p ∧
      P.rowval[p]? = some (min (iperm.getD r 0) (iperm.getD c 0)) ∧
      P.colptr.getD (max (iperm.getD r 0) (iperm.getD c 0)) 0 ≤ p ∧
      p < P.colptr.getD (max (iperm.getD r 0) (iperm.getD c 0) + 1) 0 ∧
      min (iperm.getD r 0) (iperm.getD c 0) ≤ max (iperm.getD r 0) (iperm.getD c 0) := by
  obtain ⟨hsz, Pc, Pr, pos, hpat, hP, hmap⟩ := permuteSymmetric_ok A iperm P map h
  obtain ⟨hnd, hlen, hlt, hPc, hblk⟩ := permutePattern_ok _ _ _ _ _ _ _ hpat
  -- unfold the pattern computation once more to get at `Pr` and the column list
  have hPr : Pr = scatter (Array.replicate A.rowval.size 0) pos
      (List.zipWith (fun r c => min (iperm.getD r 0) (iperm.getD c 0)) A.rowval.toList (colOf A.colptr A.n)) ∧
      (colOf A.colptr A.n).length = A.rowval.size := by
    unfold permutePattern at hpat
    simp only [bind, Except.bind, pure, Except.pure, throw, throwThe, MonadExceptOf.throw] at hpat
    split at hpat
    · cases hpat
    · split at hpat
      · cases hpat
      · rename_i h2
        split at hpat
        · cases hpat
        · simp only [Except.ok.injEq, Prod.mk.injEq] at hpat
          rw [← hpat.2.2]
          exact ⟨hpat.2.1.symm, by simpa using h2⟩
  have hkr : k < A.rowval.size := by omega
  have hkc : k < (colOf A.colptr A.n).length := by omega
  have hkp : k < pos.length := by omega
  have hdl : k < (destsOf A.n A.colptr A.rowval iperm).length := by simp [destsOf]; omega
  have hd : (destsOf A.n A.colptr A.rowval iperm)[k] =
      max (iperm.getD A.rowval[k] 0) (iperm.getD (colOf A.colptr A.n)[k] 0) := by
    simp [destsOf]
  have hb := hblk k hdl pos[k] (by simp [hkp])
  rw [hd] at hb
  subst hP hmap
  refine ⟨A.rowval[k], (colOf A.colptr A.n)[k], pos[k], by simp [hkr], by simp [hkc], by simp [hkp], ?_,
    hb.1, hb.2, Nat.le_trans (Nat.min_le_left _ _) (Nat.le_max_left _ _)⟩
  rw [hPr.1]
  have := scatter_get (Array.replicate A.rowval.size 0) pos
    (List.zipWith (fun r c => min (iperm.getD r 0) (iperm.getD c 0)) A.rowval.toList (colOf A.colptr A.n))
    hnd (by simp [hlen, hPr.2]) (by simpa using hlt) k hkp
  simpa using this

/-- non-vacuity of the `permute_symmetric` theorems: a 3×3 arrow matrix, reversed ordering -/
example : permuteSymmetric (⟨3, 3, #[0, 1, 2, 5], #[0, 1, 0, 1, 2], #[4, 5, 1, 2, 6]⟩ : Csc Nat) #[2, 1, 0] =
    .ok (⟨3, 3, #[0, 1, 3, 5], #[0, 1, 0, 2, 0], #[6, 5, 2, 4, 1]⟩, #[3, 1, 4, 2, 0]) := by rfl

/-- [S] Documents the **repaired** defect `C12-first-pivot-missing-diagonal` (fixed in /repo
commit c474176; recorded as `fixed` in known_findings.json).  `_factor_inner` used to start
with `D[0] = Ax[0]`, relying on "column 0 of `triuA` starts with its diagonal entry".  That
is not established by `check_structure` + permutation: the input `[[1,2],[2,·]]` passes
`check_structure` (upper triangular, no empty column), the ordering `[1,0]` is valid, and the
permuted matrix has an *empty* first column — its first stored value `1` belongs to entry
(1,1).  The old code used that value as first pivot (`Ok`, `D[0] = 1`, solution of
`[[1,2],[2,1]]x = b`) instead of reporting the exact zero pivot of `ΠAΠ' = [[0,2],[2,1]]`.
The repaired code (and `factorInner`) reads the pivot only if `Ap[0] < Ap[1]`; the harness
submits this instance with `expect=zeropivot` on every run, so the old behaviour alarms
(replay of the old failure: `replays/C12/finding-first-pivot-missing-diagonal.json`). -/
theorem finding_first_column_can_be_empty :
    checkStructure (⟨2, 2, #[0, 1, 2], #[0, 0], #[1, 2]⟩ : Csc Nat) = .ok () ∧
    permuteSymmetric (⟨2, 2, #[0, 1, 2], #[0, 0], #[1, 2]⟩ : Csc Nat) #[1, 0] =
      .ok (⟨2, 2, #[0, 0, 2], #[1, 0], #[1, 2]⟩, #[0, 1]) := ⟨by rfl, by rfl⟩

end permsym

/-! ### the pivot rule -/

section pivot
variable [Add α] [Sub α] [Mul α] [Div α] [Neg α] [OfNat α 0] [OfNat α 1] [LT α] [DecidableLT α]
  [BEq α] [FloatLike α]

/-- [S] (holds at `Float`) the pivot is replaced by `δ·sign` iff regularisation is enabled and
`D[k]·sign < ε`; otherwise it is kept. -/
theorem pivot_rule (enable : Bool) (eps delta : α) (sign : Int) (d : α) :
    regularizePivot enable eps delta sign d =
      if enable = true ∧ d * signT sign < eps then (delta * signT sign, true) else (d, false) := by
  unfold regularizePivot
  cases enable <;> simp

/-- [S] (holds at `Float`) `finishPivot` — the tail of every iteration of `_factor_inner` — as an
equation: with `r` the outcome of the rule on the raw pivot `D[k]`, a final pivot `== 0`
is answered with `ZeroPivot`; otherwise `D[k] = r`, `Dinv[k] = 1/r`, the regularisation
counter is incremented exactly when the rule fired and the positive-pivot counter
exactly when `r > 0`; nothing else changes. -/
theorem pivot_step (rp : RegParams α) (k : Nat) (s : FState α) (dk : α) (sg : Int)
    (hD : s.D[k]? = some dk) (hS : rp.enable = true → rp.Dsigns[k]? = some sg)
    (hI : k < s.Dinv.size) :
    finishPivot rp k s =
      (let r := regularizePivot rp.enable rp.eps rp.delta sg dk
       if (r.1 == (0 : α)) = true then .error errZeroPivot
       else .ok { s with
         D := s.D.setIfInBounds k r.1, Dinv := s.Dinv.setIfInBounds k ((1 : α) / r.1),
         regularizeCount := s.regularizeCount + (if r.2 then 1 else 0),
         positive := s.positive + (if (0 : α) < r.1 then 1 else 0) }) := by
  have hk : k < s.D.size := by
    rcases Nat.lt_or_ge k s.D.size with h | h
    · exact h
    · rw [Array.getElem?_eq_none h] at hD; cases hD
  unfold finishPivot
  cases hen : rp.enable
  · simp only [getE, hD, setE, hk, hI, regularizePivot, bind, Except.bind, pure, Except.pure,
      Bool.false_eq_true, ↓reduceIte, ↓reduceDIte, Array.setIfInBounds, throw, throwThe,
      MonadExceptOf.throw]
    by_cases hz : (dk == (0 : α)) = true
    · simp [hz]
    · simp only [hz, Bool.false_eq_true, ↓reduceIte, Nat.add_zero]
      by_cases hp : (0 : α) < dk <;> simp [hp]
  · have hS' := hS hen
    simp only [getE, hD, hS', setE, hk, hI, bind, Except.bind, pure, Except.pure,
      ↓reduceIte, ↓reduceDIte, Array.setIfInBounds, throw, throwThe, MonadExceptOf.throw]
    generalize regularizePivot true rp.eps rp.delta sg dk = r
    obtain ⟨r1, r2⟩ := r
    by_cases hz : (r1 == (0 : α)) = true
    · simp [hz]
    · simp only [hz, Bool.false_eq_true, ↓reduceIte]
      cases r2 <;> by_cases hp : (0 : α) < r1 <;> simp [hp]

/-- [S] (holds at `Float`) **a (re)factorisation never reads the previous contents of `D`**: the
result of `_factor_inner` depends on the incoming `D` buffer only through its length (the
Rust code starts with `D.fill(0)`; the Schur-complement accumulation `D[k] -= y·l` of a column
without structural diagonal entry therefore starts from `0`, not from the pivot of the last
factorisation or the `1.0` left by a logical pass).  This is the part of "refactor ≡ fresh
factorisation" that concerns `D`; together with `update_commutes` it is what the seeded
change C12-a (`D.fill` removed) violates. -/
theorem factor_ignores_stale_D (n : Nat) (Ap Ai : Array Nat) (Ax : Array α) (Li : Array Nat)
    (Lx D D' Dinv : Array α) (Lnz : Array Nat) (etree : Array (Option Nat)) (logical : Bool)
    (rp : RegParams α) (h : D.size = D'.size) :
    factorInner n Ap Ai Ax Li Lx D Dinv Lnz etree logical rp =
      factorInner n Ap Ai Ax Li Lx D' Dinv Lnz etree logical rp := by
  unfold factorInner
  rw [h]

end pivot

/-- [F] with the regulariser on, a positive threshold `ε`, a positive shift `δ` and signs `±1`,
the accepted pivot satisfies `D[k]·sign ≥ min ε δ > 0`: it has the prescribed sign and is
never zero (a regularised factorisation cannot end in `ZeroPivot`). -/
theorem pivot_regularized_sign {α : Type} [Field α] [LinearOrder α] [IsStrictOrderedRing α]
    [FloatLike α] [LawfulFloatLike α] (eps delta d : α) (sign : Int)
    (hs : sign = 1 ∨ sign = -1) (he : 0 < eps) (hd : 0 < delta) :
    min eps delta ≤ (regularizePivot true eps delta sign d).1 * signT sign ∧
      (regularizePivot true eps delta sign d).1 ≠ 0 := by
  have hsq : (signT sign : α) * signT sign = 1 := by
    rcases hs with rfl | rfl
    · simp [signT, LawfulFloatLike.ofNat_eq]
    · simp [signT, LawfulFloatLike.ofNat_eq]
  have hmin : 0 < min eps delta := lt_min he hd
  have key : min eps delta ≤ (regularizePivot true eps delta sign d).1 * signT sign := by
    unfold regularizePivot
    by_cases hlt : d * signT sign < eps
    · simp only [↓reduceIte, hlt]
      rw [mul_assoc, hsq, mul_one]; exact min_le_right _ _
    · simp only [↓reduceIte, hlt]
      exact le_trans (min_le_left _ _) (not_lt.mp hlt)
  refine ⟨key, ?_⟩
  intro h0
  rw [h0, zero_mul] at key
  exact absurd key (not_le.mpr hmin)

/-- non-vacuity of `pivot_regularized_sign` and an instance of the rule over `ℚ`-like fields:
a raw pivot `0` with sign `-1` becomes `-δ`. -/
example : (regularizePivot true (1/2 : ℝ) (1/4) (-1) 0).1 = -(1/4) := by
  simp [regularizePivot, signT, LawfulFloatLike.ofNat_eq]

/-! ### `solve` (dense level) -/

section solve
open Matrix Clarabel.Qdldl.Dense

/-- [F] **`solve` is correct, dense level.**  Let `L` be strictly lower triangular, `d` nowhere
zero, and `(1+L)·diag d·(1+L)ᵀ = ΠAΠ'` (entry `(i,j)` of the product is `A (σ i) (σ j)`,
`σ i = perm[i]`).  Then the composition performed by `QDLDLFactorisation::solve` —
`permute` (`tmp i = b (σ i)`), forward substitution with `1+L` (`_lsolve`), multiplication
by `Dinv = 1/d` and backward substitution with `(1+L)ᵀ` (`_dltsolve`), `ipermute`
(`x (σ i) = t i`) — returns `x` with `A x = b`.
(Dense statement: `fwdSubst/bwdSubst` are the row-recursive triangular solves; the same
conclusion for the CSC loops of the model is `solve_correct_csc` below.) -/
theorem solve_correct {n : ℕ} {α : Type} [Field α] (A L : Matrix (Fin n) (Fin n) α)
    (d : Fin n → α) (σ : Equiv.Perm (Fin n)) (b : Fin n → α)
    (hL : ∀ i j, i ≤ j → L i j = 0) (hd : ∀ i, d i ≠ 0)
    (hPAP : ∀ i j, ((1 + L) * Matrix.diagonal d * (1 + L)ᵀ : Matrix (Fin n) (Fin n) α) i j = A (σ i) (σ j)) :
    let tmp : Fin n → α := fun i => b (σ i)
    let y := fwdSubst L tmp
    let z : Fin n → α := fun i => y i * (1 / d i)
    let t := bwdSubst L z
    let x : Fin n → α := fun i => t (σ.symm i)
    A *ᵥ x = b := by
  intro tmp y z t x
  exact solve_of_systems A L d σ b y t hd hPAP (fwdSubst_spec L hL tmp) (bwdSubst_spec L hL z)

/-- [F] **`_solve` on the CSC arrays is correct** (bridge from the loops of the model to the
dense statement).  Let `(Lp, Li, Lx)` describe an `n × n` strictly lower triangular matrix
(`LowerCsc`: `Lp` monotone with `n+1` entries inside `Li/Lx`, every stored row index of column
`c` in `c+1 … n-1`), `Lm` its dense meaning, `Dinv[i] = 1/d i` with `d i ≠ 0`, and
`(1+Lm)·diag d·(1+Lm)ᵀ = ΠAΠ'`.  Then the model's `solveRaw` (`_lsolve` then `_dltsolve`,
the column- and row-oriented in-place loops with their indexed reads and writes) run on the
permuted right-hand side `tmp[i] = b (σ i)` does not fail, and un-permuting its result,
`x (σ i) = t[i]`, gives `A x = b`. -/
theorem solve_correct_csc {n : ℕ} {α : Type} [Field α] (Lp Li : Array Nat) (Lx Dinv : Array α)
    (hcsc : LowerCsc n Lp Li Lx) (hDs : Dinv.size = n)
    (d : Fin n → α) (hd : ∀ i, d i ≠ 0) (hDinv : ∀ i : Fin n, Dinv.getD i 0 = 1 / d i)
    (A : Matrix (Fin n) (Fin n) α) (σ : Equiv.Perm (Fin n))
    (hPAP : ∀ i j, ((1 + Matrix.of fun (i j : Fin n) => denseL Lp Li Lx i j) * Matrix.diagonal d *
      (1 + Matrix.of fun (i j : Fin n) => denseL Lp Li Lx i j)ᵀ : Matrix (Fin n) (Fin n) α) i j = A (σ i) (σ j))
    (b : Fin n → α) (tmp : Array α) (hts : tmp.size = n) (htmp : ∀ i : Fin n, tmp.getD i 0 = b (σ i)) :
    ∃ t : Array α, solveRaw Lp Li Lx Dinv tmp = .ok t ∧ t.size = n ∧
      A *ᵥ (fun r => t.getD (σ.symm r) 0) = b := by
  obtain ⟨y, t, hrun, hys, hts', hy, ht⟩ := solveRaw_spec n Lp Li Lx Dinv hcsc hDs tmp hts
  refine ⟨t, hrun, hts', ?_⟩
  apply solve_of_systems A (Matrix.of fun (i j : Fin n) => denseL Lp Li Lx i j) d σ b
    (fun i => y.getD i 0) (fun i => t.getD i 0) hd hPAP
  · funext i
    have := hy i i.isLt
    rw [Finset.sum_range] at this
    rw [Matrix.add_mulVec, Matrix.one_mulVec]
    simp only [Pi.add_apply, Matrix.mulVec, dotProduct, Matrix.of_apply]
    rw [this, htmp i]
  · funext i
    have := ht i i.isLt
    rw [Finset.sum_range] at this
    rw [Matrix.transpose_add, Matrix.transpose_one, Matrix.add_mulVec, Matrix.one_mulVec]
    simp only [Pi.add_apply, Matrix.mulVec, dotProduct, Matrix.transpose_apply, Matrix.of_apply]
    rw [this, hDinv i]

/-- non-vacuity of `solve_correct_csc`: the arrays of `L = [[0,0],[3,0]]` satisfy `LowerCsc` -/
example : LowerCsc 2 #[0, 1, 1] #[1] (#[3] : Array ℝ) := by
  refine ⟨rfl, ?_, ?_, rfl, ?_⟩
  · intro c hc
    have : c = 0 ∨ c = 1 := by omega
    rcases this with rfl | rfl <;> simp
  · intro c hc
    have : c = 0 ∨ c = 1 ∨ c = 2 := by omega
    rcases this with rfl | rfl | rfl <;> simp
  · intro c hc j hj
    have : c = 0 ∨ c = 1 := by omega
    rcases this with rfl | rfl
    · simp [colIdx] at hj; subst hj; simp
    · simp [colIdx] at hj

/-- non-vacuity of `solve_correct`: a 2×2 instance, `L = [[0,0],[3,0]]`, `d = (1,1)`, identity
ordering, `A` the product itself -/
example : ∃ (A L : Matrix (Fin 2) (Fin 2) ℝ) (d : Fin 2 → ℝ),
    (∀ i j, i ≤ j → L i j = 0) ∧ (∀ i, d i ≠ 0) ∧
    (∀ i j, ((1 + L) * Matrix.diagonal d * (1 + L)ᵀ : Matrix (Fin 2) (Fin 2) ℝ) i j =
      A ((Equiv.refl _) i) ((Equiv.refl _) j)) :=
  ⟨(1 + Matrix.of fun i j => if j < i then 3 else 0) * Matrix.diagonal (fun _ => 1) *
      (1 + Matrix.of fun i j => if j < i then 3 else 0)ᵀ,
    Matrix.of fun i j => if j < i then 3 else 0, fun _ => 1,
    by intro i j h; simp [not_lt.mpr h], by simp, fun _ _ => rfl⟩

end solve

/-! ### `_factor_inner` on the smallest patterns -/

section factor
variable {α : Type} [Field α] [DecidableEq α] [LT α] [DecidableLT α] [FloatLike α]

/-- [F] `factor_correct_partial` (n = 2, dense pattern; regulariser off, nonzero pivots): the
up-looking numeric factorisation `_factor_inner` returns `L, D` with `(I+L) D (I+L)ᵀ = A`
(entrywise: `d₀ = a₀₀`, `l·d₀ = a₀₁`, `l·d₀·l + d₁ = a₁₁`) and `Dinv = 1/D` — whatever the
previous contents of the `L / D / Dinv` buffers were (`k0, x0, g*, e*` are arbitrary). -/
theorem factor_correct_partial_2x2 (a00 a01 a11 : α) (k0 : Nat) (x0 g0 g1 e0 e1 eps delta : α)
    (h0 : a00 ≠ 0) (h1 : a11 - a01 * (a01 * a00⁻¹) ≠ 0) :
    ∃ s l d0 d1, factorInner 2 #[0, 1, 3] #[0, 0, 1] #[a00, a01, a11] #[k0] #[x0] #[g0, g1] #[e0, e1]
        #[1, 0] #[some 1, none] false { Dsigns := #[1, 1], enable := false, eps := eps, delta := delta } = .ok s ∧
      s.Lp = #[0, 1, 1] ∧ s.Li = #[1] ∧ s.Lx = #[l] ∧ s.D = #[d0, d1] ∧ s.Dinv = #[d0⁻¹, d1⁻¹] ∧
      d0 = a00 ∧ l * d0 = a01 ∧ l * d0 * l + d1 = a11 := by
  have hrep : Array.replicate 2 (0 : α) = #[0, 0] := rfl
  simp [factorInner, factorRow, rowPattern, rowEliminate, elimPath, finishPivot, getE, setE, cumsum,
    bind, Except.bind, pure, Except.pure, List.range', h0, h1, hrep]

/-- [F] `factor_correct_partial` (n = 3, the smallest pattern with fill-in:
`A = [[a,b,c],[b,d,·],[c,·,e]]`, elimination tree `0 → 1 → 2`, `L₂₁` is fill): `_factor_inner`
returns `L, D` with `(I+L) D (I+L)ᵀ = A` entrywise — in particular the fill entry satisfies
`l₂₀·d₀·l₁₀ + l₂₁·d₁ = 0` — and `Dinv = 1/D`, whatever the previous buffer contents. -/
theorem factor_correct_partial_3x3_fill (a b c d e : α) (k0 k1 k2 : Nat)
    (x0 x1 x2 g0 g1 g2 e0 e1 e2 eps delta : α)
    (h0 : a ≠ 0) (h1 : d - b * (b * a⁻¹) ≠ 0)
    (h2 : e - c * (c * a⁻¹) - b * a⁻¹ * c * (b * a⁻¹ * c * (d - b * (b * a⁻¹))⁻¹) ≠ 0) :
    ∃ s l10 l20 l21 d0 d1 d2,
      factorInner 3 #[0, 1, 3, 5] #[0, 0, 1, 0, 2] #[a, b, d, c, e] #[k0, k1, k2] #[x0, x1, x2]
        #[g0, g1, g2] #[e0, e1, e2] #[2, 1, 0] #[some 1, some 2, none] false
        { Dsigns := #[1, 1, 1], enable := false, eps := eps, delta := delta } = .ok s ∧
      s.Lp = #[0, 2, 3, 3] ∧ s.Li = #[1, 2, 2] ∧ s.Lx = #[l10, l20, l21] ∧ s.D = #[d0, d1, d2] ∧
      s.Dinv = #[d0⁻¹, d1⁻¹, d2⁻¹] ∧
      d0 = a ∧ l10 * d0 = b ∧ l20 * d0 = c ∧ l10 * d0 * l10 + d1 = d ∧
      l20 * d0 * l10 + l21 * d1 = 0 ∧ l20 * d0 * l20 + l21 * d1 * l21 + d2 = e := by
  have hrep : Array.replicate 3 (0 : α) = #[0, 0, 0] := rfl
  simp [factorInner, factorRow, rowPattern, rowEliminate, elimPath, finishPivot, getE, setE, cumsum,
    bind, Except.bind, pure, Except.pure, List.range', h0, h1, h2, hrep]
  ring

/-- non-vacuity: the pivot hypotheses of both partial theorems hold for the identity matrix -/
example : (1 : ℝ) ≠ 0 ∧ (1 : ℝ) - 0 * (0 * (1 : ℝ)⁻¹) ≠ 0 ∧
    (1 : ℝ) - 0 * (0 * (1 : ℝ)⁻¹) - 0 * (1 : ℝ)⁻¹ * 0 * (0 * (1 : ℝ)⁻¹ * 0 * ((1 : ℝ) - 0 * (0 * (1 : ℝ)⁻¹))⁻¹) ≠ 0 := by
  norm_num

end factor

/-- non-vacuity of `pivot_step`: its hypotheses hold for a one-pivot state over `ℝ`-like
scalars (here `ℝ`), and the conclusion is the regularised pivot `δ·sign = -1/4`. -/
example :
    ∃ (s : FState ℝ) (rp : RegParams ℝ), s.D[0]? = some 0 ∧
      (rp.enable = true → rp.Dsigns[0]? = some (-1)) ∧ 0 < s.Dinv.size :=
  ⟨⟨#[0, 0], #[], #[], #[0], #[0], #[false], #[0], #[0], 0, 0⟩, ⟨#[-1], true, 1/2, 1/4⟩, by simp⟩


/-! ### Round 3: the elimination tree and `_factor_inner` on arbitrary patterns

`Lpat A k i` (`Lemmas/QdldlEtree.lean`) is the structural nonzero pattern of the strict lower
triangle of the factor: `L[k,i]` is structurally nonzero iff `A[i,k]` is stored (`i < k`) or there
is `j < i` with `L[i,j]` and `L[k,j]` structurally nonzero (symbolic elimination).  `Apat Ap Ai i k`
says that `(i, k)` is stored in the CSC pattern; `TriuCsc n Ap Ai` is what `check_structure` and
the CSC format give (`triuCsc_of_checks`); `Lrows A n c` lists the rows of column `c` of `L`. -/

/-- [S] `check_structure = Ok` on a well-formed CSC matrix yields the structural hypothesis
`TriuCsc` of the theorems below (`colptr` has `n+1` monotone entries inside `rowval`, every stored
row index of column `k` is `≤ k`); the error cases are exactly those of `check_structure`. -/
theorem triuCsc_of_checks (A : Csc α) (hw : wellFormed A = true) (hc : checkStructure A = .ok ()) :
    TriuCsc A.n A.colptr A.rowval := TriuCsc.of_checks A hw hc

/-- [S] the matrix `triuA` produced by `permute_symmetric` (for any ordering vector that passes its
range checks) is again structurally valid: square of the same size, `colptr` monotone with `n+1`
entries inside `rowval`, every stored row index of column `k` is `≤ k`.  Hence `etree_correct`,
`factor_structure`, `factor_correct`, … apply to the `triuA` that `_qdldl_new` factors.
(Non-vacuity: the `permuteSymmetric … = .ok …` example above.) -/
theorem permute_symmetric_triu [OfNat α 0] (A : Csc α) (iperm : Array Nat) (P : Csc α)
    (map : Array Nat) (h : permuteSymmetric A iperm = .ok (P, map)) :
    P.n = A.n ∧ TriuCsc P.n P.colptr P.rowval := permuteSymmetric_triuCsc A iperm P map h

/-- [S] (holds at `Float`; no scalar involved) **`_etree` computes the elimination tree and the
column counts.**  For every structurally valid upper-triangular pattern the model of `_etree`
returns without error, and for every column `c < n`:
`etree[c] = p` iff `p` is the least row of column `c` of the symbolic factor (the
elimination-tree parent), `etree[c]` is unknown iff the column is empty, a parent is larger than
its child and `< n`, and `Lnz[c]` is the number of strict-lower entries of column `c` of `L`. -/
theorem etree_correct (n : Nat) (Ap Ai : Array Nat) (hA : TriuCsc n Ap Ai) :
    ∃ es, etree n Ap Ai = .ok es ∧ es.etree.size = n ∧ es.Lnz.size = n ∧
      (∀ c, c < n → ∀ p, es.etree.getD c none = some p ↔
        (Lpat (Apat Ap Ai) p c ∧ ∀ r, Lpat (Apat Ap Ai) r c → p ≤ r)) ∧
      (∀ c, c < n → (es.etree.getD c none = none ↔ ∀ r, ¬ Lpat (Apat Ap Ai) r c)) ∧
      (∀ c, c < n → ∀ p, es.etree.getD c none = some p → c < p ∧ p < n) ∧
      (∀ c, c < n → es.Lnz.getD c 0 = (Lrows (Apat Ap Ai) n c).length) := by
  obtain ⟨es, hes, hI⟩ := etree_spec n Ap Ai hA
  obtain ⟨_, hls, hsz, _, hsome, hnone, hcnt⟩ := hI
  refine ⟨es, hes, hsz, hls, ?_, ?_, ?_, hcnt⟩
  · intro c hc p
    constructor
    · intro h
      exact ⟨(hsome c hc p h).2.2.1, (hsome c hc p h).2.2.2⟩
    · rintro ⟨hL, hmin⟩
      cases hq : es.etree.getD c none with
      | none => exact absurd hL (hnone c hc hq p (Lpat_lt_n hA hL))
      | some q =>
        obtain ⟨_, _, hLq, hminq⟩ := hsome c hc q hq
        have h1 := hmin q hLq
        have h2 := hminq p hL
        have : q = p := by omega
        rw [this]
  · intro c hc
    constructor
    · intro h r hL; exact hnone c hc h r (Lpat_lt_n hA hL) hL
    · intro h
      cases hq : es.etree.getD c none with
      | none => rfl
      | some q => exact absurd (hsome c hc q hq).2.2.1 (h q)
  · intro c hc p h
    exact ⟨(hsome c hc p h).1, (hsome c hc p h).2.1⟩

/-- non-vacuity of `etree_correct` (and of `TriuCsc`): the 3×3 arrow pattern with fill -/
example : TriuCsc 3 #[0, 1, 3, 5] #[0, 0, 1, 0, 2] := triuCsc_arrow3
example : etree 3 #[0, 1, 3, 5] #[0, 0, 1, 0, 2] =
    .ok ⟨#[2, 2, 2, 0, 0, 0, 0, 0, 0], #[2, 1, 0], #[some 1, some 2, none]⟩ := etree_arrow3

section factor_general
variable {α : Type} [Add α] [Sub α] [Mul α] [Div α] [Neg α] [OfNat α 0] [OfNat α 1] [LT α]
  [DecidableLT α] [BEq α] [FloatLike α]

/-- [S] (holds at `Float`) **`_factor_inner` on an arbitrary pattern: no panic, exact symbolic
structure.**  Let the pattern be structurally valid, `etree/Lnz` the output of `_etree`, the
buffers large enough (`Lp[n] ≤ |Li| = |Lx|`, `|D| = |Dinv| = n`) and `Dsigns` long enough when the
regulariser is on.  Then the numeric factorisation either returns `ZeroPivot` or succeeds — it
never indexes out of range (every `get_unchecked` site of the Rust code is in range) — and on
success `Lp = cumsum Lnz`, column `c` of `L` occupies exactly its slot `Lp[c] .. Lp[c+1]` and
lists the rows of column `c` of the symbolic factor in increasing order, and the work arrays
`y_markers / y_vals` are left cleared (`UNUSED` / literal `0`).  (`Represents`: the stored values
are those of a dense `a`, i.e. no column stores two different values for one position.) -/
theorem factor_structure (n : Nat) (hn : 0 < n) (Ap Ai : Array Nat) (hA : TriuCsc n Ap Ai)
    (Ax : Array α) (a : Nat → Nat → α) (hR : Represents n Ap Ai Ax a)
    (es : EtreeState) (hes : etree n Ap Ai = .ok es)
    (Li : Array Nat) (Lx D Dinv : Array α) (hLi : (cumsum es.Lnz).getD n 0 ≤ Li.size)
    (hLx : Lx.size = Li.size) (hDs : D.size = n) (hDi : Dinv.size = n)
    (rp : RegParams α) (hsg : rp.enable = true → n ≤ rp.Dsigns.size) :
    (factorInner n Ap Ai Ax Li Lx D Dinv es.Lnz es.etree false rp = .error errZeroPivot ∨
      ∃ s, factorInner n Ap Ai Ax Li Lx D Dinv es.Lnz es.etree false rp = .ok s) ∧
    ∀ s, factorInner n Ap Ai Ax Li Lx D Dinv es.Lnz es.etree false rp = .ok s →
      s.Lp = cumsum es.Lnz ∧ s.Li.size = Li.size ∧ s.Lx.size = Li.size ∧
      (∀ c, c < n → (cumsum es.Lnz).getD (c + 1) 0 =
        (cumsum es.Lnz).getD c 0 + (Lrows (Apat Ap Ai) n c).length) ∧
      (∀ c, c < n → ∀ t r, (Lrows (Apat Ap Ai) n c)[t]? = some r →
        s.Li.getD ((cumsum es.Lnz).getD c 0 + t) 0 = r) ∧
      (∀ c, c < n → s.yMarkers.getD c false = false ∧ s.yVals.getD c 0 = 0) := by
  obtain ⟨es', hes', hI⟩ := etree_spec n Ap Ai hA
  have : es' = es := by rw [hes'] at hes; exact Except.ok.inj hes
  subst this
  have C := FCtx.of_etree hn hA hI
  have h := factorInner_struct C Ax a hR Li Lx D Dinv hLi hLx hDs hDi rp hsg
  refine ⟨h.1, fun s hs => ?_⟩
  have hR' := h.2 s hs
  refine ⟨hR'.lp, hR'.lisz, hR'.lxsz, ?_, hR'.li, fun c hc => ⟨hR'.mrk0 c hc, hR'.yv0 c hc⟩⟩
  intro c hc
  have := LpOf_succ es'.Lnz c (by rw [C.lsz]; exact hc)
  rw [C.cnt c hc] at this
  exact this

/-- [S] (holds at `Float`: bit-identical) **`_factor_inner` is a function of the matrix, its
elimination tree and the settings only.**  On every structurally valid pattern, two runs that
differ only in the incoming contents of the `Li / Lx / D / Dinv` buffers (of the sizes allocated by
`QDLDLFactorisation::new`: `|Li| = |Lx| = Lp[n]`, `|D| = |Dinv| = n`) return the same result — the
same error or the same state in every field.  Generalises `factor_ignores_stale_D` to all
buffers: `L`, `Dinv` and the work arrays carry no information from a previous factorisation into
the next. -/
theorem factor_independent_of_buffers (n : Nat) (hn : 0 < n) (Ap Ai : Array Nat) (hA : TriuCsc n Ap Ai)
    (Ax : Array α) (a : Nat → Nat → α) (hR : Represents n Ap Ai Ax a)
    (es : EtreeState) (hes : etree n Ap Ai = .ok es)
    (Li Li' : Array Nat) (Lx Lx' D D' Dinv Dinv' : Array α)
    (hLi : Li.size = (cumsum es.Lnz).getD n 0) (hLi' : Li'.size = Li.size)
    (hLx : Lx.size = Li.size) (hLx' : Lx'.size = Li.size)
    (hDs : D.size = n) (hDs' : D'.size = n) (hDi : Dinv.size = n) (hDi' : Dinv'.size = n)
    (rp : RegParams α) (hsg : rp.enable = true → n ≤ rp.Dsigns.size) :
    factorInner n Ap Ai Ax Li' Lx' D' Dinv' es.Lnz es.etree false rp =
      factorInner n Ap Ai Ax Li Lx D Dinv es.Lnz es.etree false rp := by
  obtain ⟨es', hes', hI⟩ := etree_spec n Ap Ai hA
  have : es' = es := by rw [hes'] at hes; exact Except.ok.inj hes
  subst this
  exact factorInner_buffers_irrelevant (FCtx.of_etree hn hA hI) Ax a hR Li Li' Lx Lx' D D' Dinv Dinv'
    hLi hLi' hLx hLx' hDs hDs' hDi hDi' rp hsg

/-- [S] (holds at `Float`: bit-identical) **`refactor` = fresh factorisation, on every pattern.**
Let `F` be a factorisation object whose `etree / Lnz` are the `_etree` output for its `triuA`
and whose buffers have the sizes allocated by `_qdldl_new`.  Then `refactor F` — which reuses
`L.colptr / L.rowval / L.nzval / D / Dinv` and the counters with whatever the previous
factorisation (or a logical pass) left in them — returns exactly what `_factor` returns on the
freshly allocated, zero-filled workspace that `_qdldl_new` builds for the same `triuA`
(the right-hand side is literally the object `newWithOrdering` hands to `factor`).  Together
with `update_commutes` (the `triuA` after `update/scale/offset_values` is the permuted updated
matrix; pattern, `etree`, `Lnz` unchanged) this is "refactor after updates ≡ fresh
factorisation of the updated matrix". -/
theorem refactor_eq_fresh (F : Factorisation α) (a : Nat → Nat → α) (hn : 0 < F.triuA.n)
    (hA : TriuCsc F.triuA.n F.triuA.colptr F.triuA.rowval)
    (hR : Represents F.triuA.n F.triuA.colptr F.triuA.rowval F.triuA.nzval a)
    (es : EtreeState) (hes : etree F.triuA.n F.triuA.colptr F.triuA.rowval = .ok es)
    (hE : F.etree = es.etree) (hL : F.Lnz = es.Lnz)
    (hLi : F.L.rowval.size = F.Lnz.toList.foldl (· + ·) 0) (hLx : F.L.nzval.size = F.L.rowval.size)
    (hDs : F.D.size = F.triuA.n) (hDi : F.Dinv.size = F.triuA.n)
    (hsg : F.rp.enable = true → F.triuA.n ≤ F.rp.Dsigns.size) :
    refactor F =
      factor { F with
        L := { F.L with
          colptr := (Array.replicate (F.triuA.n + 1) 0).setIfInBounds F.triuA.n (F.Lnz.toList.foldl (· + ·) 0)
          rowval := Array.replicate (F.Lnz.toList.foldl (· + ·) 0) 0
          nzval := Array.replicate (F.Lnz.toList.foldl (· + ·) 0) (0 : α) }
        D := Array.replicate F.triuA.n (0 : α), Dinv := Array.replicate F.triuA.n (0 : α)
        positiveInertia := 0, regularizeCount := 0, isSymbolic := false } false := by
  obtain ⟨es', hes', hI⟩ := etree_spec F.triuA.n F.triuA.colptr F.triuA.rowval hA
  have : es' = es := by rw [hes'] at hes; exact Except.ok.inj hes
  subst this
  have C := FCtx.of_etree hn hA hI
  rw [← hE, ← hL] at C
  have hsum : LpOf F.Lnz F.triuA.n = F.Lnz.toList.foldl (· + ·) 0 := by
    have := cumsum_last F.Lnz
    rw [C.lsz] at this
    exact this
  unfold refactor
  symm
  exact factor_buffers_irrelevant { F with isSymbolic := false } a C hR
    ((Array.replicate (F.triuA.n + 1) 0).setIfInBounds F.triuA.n (F.Lnz.toList.foldl (· + ·) 0))
    (Array.replicate (F.Lnz.toList.foldl (· + ·) 0) 0)
    (Array.replicate (F.Lnz.toList.foldl (· + ·) 0) (0 : α))
    (Array.replicate F.triuA.n (0 : α)) (Array.replicate F.triuA.n (0 : α)) 0 0
    (by rw [hsum]; exact hLi) hLx hDs hDi (by simp [hLi]) (by simp [hLi]) (by simp) (by simp) hsg

end factor_general

section factor_field
variable {α : Type} [Field α] [DecidableEq α] [LT α] [DecidableLT α] [FloatLike α]
open BigOperators

/-- [F] **`_factor_inner` computes the LDLᵀ factorisation on every sparsity pattern.**
Let `(Ap, Ai, Ax)` be a structurally valid upper-triangular CSC matrix representing the dense
symmetric `a` (entry `(i,k)`, `i ≤ k`, is `a i k`), `etree/Lnz` the output of `_etree`, and the
buffers `Li, Lx, D, Dinv` of the right sizes *with arbitrary previous contents*.  If the numeric
factorisation succeeds then, with `L r c = denseL Lp Li Lx r c` the dense meaning of the CSC
output (unit diagonal implied) and `d = D`:
* `(Lp, Li, Lx)` is strictly lower triangular (`LowerCsc`) and structurally inside `Lpat`;
* for all `c < r < n`:  `L[r,c]·d[c] + Σ_{j<c} L[c,j]·(L[r,j]·d[j]) = a[c,r]`, i.e.
  `((I+L) D (I+L)ᵀ)[r,c] = A[r,c]` — row `r` of `L` solves the triangular system of the
  up-looking recurrence;
* for all `r < n`: `d[r] = rule_r (a[r,r] − Σ_{j<r} (L[r,j]·d[j])·L[r,j])` where `rule_r` is the
  pivot rule `regularizePivot` (the identity when the regulariser is off: then
  `((I+L) D (I+L)ᵀ)[r,r] = A[r,r]`, `factor_correct_unregularized`);
* `d[r] ≠ 0` and `Dinv[r] = 1/d[r]`;
* `positive_inertia` is the number of positive entries of `D`, `regularize_count` the number
  of rows on which the rule fired. -/
theorem factor_correct (n : Nat) (hn : 0 < n) (Ap Ai : Array Nat) (hA : TriuCsc n Ap Ai)
    (Ax : Array α) (a : Nat → Nat → α) (hR : Represents n Ap Ai Ax a)
    (es : EtreeState) (hes : etree n Ap Ai = .ok es)
    (Li : Array Nat) (Lx D Dinv : Array α) (hLi : (cumsum es.Lnz).getD n 0 ≤ Li.size)
    (hLx : Lx.size = Li.size) (hDs : D.size = n) (hDi : Dinv.size = n)
    (rp : RegParams α) (hsg : rp.enable = true → n ≤ rp.Dsigns.size) (s : FState α)
    (hs : factorInner n Ap Ai Ax Li Lx D Dinv es.Lnz es.etree false rp = .ok s) :
    LowerCsc n s.Lp s.Li s.Lx ∧ s.D.size = n ∧ s.Dinv.size = n ∧
    (∀ r c, c < n → denseL s.Lp s.Li s.Lx r c ≠ 0 → Lpat (Apat Ap Ai) r c) ∧
    (∀ r, r < n → ∀ c, c < r →
      denseL s.Lp s.Li s.Lx r c * s.D.getD c 0 +
        ∑ j ∈ Finset.range c, denseL s.Lp s.Li s.Lx c j * (denseL s.Lp s.Li s.Lx r j * s.D.getD j 0) = a c r) ∧
    (∀ r, r < n → s.D.getD r 0 =
      (regularizePivot rp.enable rp.eps rp.delta (rp.Dsigns.getD r 0)
        (a r r - ∑ j ∈ Finset.range r,
          (denseL s.Lp s.Li s.Lx r j * s.D.getD j 0) * denseL s.Lp s.Li s.Lx r j)).1) ∧
    (∀ c, c < n → s.D.getD c 0 ≠ 0 ∧ s.Dinv.getD c 0 = 1 / s.D.getD c 0) := by
  obtain ⟨es', hes', hI⟩ := etree_spec n Ap Ai hA
  have : es' = es := by rw [hes'] at hes; exact Except.ok.inj hes
  subst this
  have C := FCtx.of_etree hn hA hI
  obtain ⟨h1, h2, h3, h4, h5, h6, h7, _, _⟩ :=
    factorInner_dense C Ax a hR Li Lx D Dinv hLi hLx hDs hDi rp hsg s hs
  exact ⟨h1, h2, h3, h4, h5, h6, h7⟩

/-- [F] regulariser off: the diagonal equations `Σ_{j<r} L[r,j]·d[j]·L[r,j] + d[r] = a[r,r]`
complete `(I+L) D (I+L)ᵀ = A`. -/
theorem factor_correct_unregularized (n : Nat) (hn : 0 < n) (Ap Ai : Array Nat) (hA : TriuCsc n Ap Ai)
    (Ax : Array α) (a : Nat → Nat → α) (hR : Represents n Ap Ai Ax a)
    (es : EtreeState) (hes : etree n Ap Ai = .ok es)
    (Li : Array Nat) (Lx D Dinv : Array α) (hLi : (cumsum es.Lnz).getD n 0 ≤ Li.size)
    (hLx : Lx.size = Li.size) (hDs : D.size = n) (hDi : Dinv.size = n)
    (rp : RegParams α) (hoff : rp.enable = false) (s : FState α)
    (hs : factorInner n Ap Ai Ax Li Lx D Dinv es.Lnz es.etree false rp = .ok s) :
    ∀ r, r < n → (∑ j ∈ Finset.range r,
        (denseL s.Lp s.Li s.Lx r j * s.D.getD j 0) * denseL s.Lp s.Li s.Lx r j) + s.D.getD r 0 = a r r := by
  intro r hr
  have h := (factor_correct n hn Ap Ai hA Ax a hR es hes Li Lx D Dinv hLi hLx hDs hDi rp
    (by rw [hoff]; intro h; cases h) s hs).2.2.2.2.2.1 r hr
  rw [hoff] at h
  simp only [regularizePivot, Bool.false_eq_true, ↓reduceIte] at h
  rw [h]; ring

/-- [F] **positive inertia = number of positive pivots; regularisation count = number of rows on
which the rule fired** — on every pattern, whatever the previous buffer contents. -/
theorem positive_inertia_count (n : Nat) (hn : 0 < n) (Ap Ai : Array Nat) (hA : TriuCsc n Ap Ai)
    (Ax : Array α) (a : Nat → Nat → α) (hR : Represents n Ap Ai Ax a)
    (es : EtreeState) (hes : etree n Ap Ai = .ok es)
    (Li : Array Nat) (Lx D Dinv : Array α) (hLi : (cumsum es.Lnz).getD n 0 ≤ Li.size)
    (hLx : Lx.size = Li.size) (hDs : D.size = n) (hDi : Dinv.size = n)
    (rp : RegParams α) (hsg : rp.enable = true → n ≤ rp.Dsigns.size) (s : FState α)
    (hs : factorInner n Ap Ai Ax Li Lx D Dinv es.Lnz es.etree false rp = .ok s) :
    s.positive = ((List.range n).filter (fun c => decide (0 < s.D.getD c 0))).length ∧
    s.regularizeCount = ((List.range n).filter (fun r =>
      (regularizePivot rp.enable rp.eps rp.delta (rp.Dsigns.getD r 0)
        (a r r - ∑ j ∈ Finset.range r,
          (denseL s.Lp s.Li s.Lx r j * s.D.getD j 0) * denseL s.Lp s.Li s.Lx r j)).2)).length := by
  obtain ⟨es', hes', hI⟩ := etree_spec n Ap Ai hA
  have : es' = es := by rw [hes'] at hes; exact Except.ok.inj hes
  subst this
  have C := FCtx.of_etree hn hA hI
  obtain ⟨_, _, _, _, _, _, _, h8, h9⟩ :=
    factorInner_dense C Ax a hR Li Lx D Dinv hLi hLx hDs hDi rp hsg s hs
  exact ⟨h8, h9⟩

/-- [F] **factor, then solve: `A x = b` on every pattern** (regulariser off).  Composition of
`factor_correct` with `solve_correct_csc`: if `_factor_inner` succeeds on the CSC matrix
representing the symmetric `A` (`A i j = a (min i j) (max i j)`), then `_solve` run with the
arrays it produced (`Lp, Li, Lx, Dinv`) on a right-hand side `b` does not fail and returns `x`
with `A x = b`.  (For the permuted matrix `triuA = ΠAΠ'`; the permutation wrapper of `solve`
is `solve_correct_csc` with `σ = perm`.) -/
theorem factor_solve_correct (n : Nat) (hn : 0 < n) (Ap Ai : Array Nat) (hA : TriuCsc n Ap Ai)
    (Ax : Array α) (a : Nat → Nat → α) (hR : Represents n Ap Ai Ax a)
    (es : EtreeState) (hes : etree n Ap Ai = .ok es)
    (Li : Array Nat) (Lx D Dinv : Array α) (hLi : (cumsum es.Lnz).getD n 0 ≤ Li.size)
    (hLx : Lx.size = Li.size) (hDs : D.size = n) (hDi : Dinv.size = n)
    (rp : RegParams α) (hoff : rp.enable = false) (s : FState α)
    (hs : factorInner n Ap Ai Ax Li Lx D Dinv es.Lnz es.etree false rp = .ok s)
    (b : Fin n → α) (tmp : Array α) (hts : tmp.size = n) (htmp : ∀ i : Fin n, tmp.getD i 0 = b i) :
    ∃ t : Array α, solveRaw s.Lp s.Li s.Lx s.Dinv tmp = .ok t ∧ t.size = n ∧
      Matrix.mulVec (Matrix.of fun i j : Fin n => a (min i.val j.val) (max i.val j.val))
        (fun r => t.getD r 0) = b := by
  obtain ⟨hcsc, _, hDisz, _, hoffd, _, hnz⟩ := factor_correct n hn Ap Ai hA Ax a hR es hes Li Lx D Dinv
    hLi hLx hDs hDi rp (by rw [hoff]; intro h; cases h) s hs
  have hdiag := factor_correct_unregularized n hn Ap Ai hA Ax a hR es hes Li Lx D Dinv hLi hLx hDs hDi rp
    hoff s hs
  exact solve_correct_csc s.Lp s.Li s.Lx s.Dinv hcsc hDisz (fun i => s.D.getD i 0)
    (fun i => (hnz i i.isLt).1) (fun i => (hnz i i.isLt).2)
    (Matrix.of fun i j : Fin n => a (min i.val j.val) (max i.val j.val)) (Equiv.refl _)
    (fun i j => ldl_matrix_form n (denseL s.Lp s.Li s.Lx) (fun j => s.D.getD j 0) a
      (fun r c hc hrc => denseL_upper hcsc r c hc hrc) hoffd hdiag i j)
    b tmp hts htmp

/-- non-vacuity of `factor_correct / positive_inertia_count`: the hypotheses hold for the 3×3
arrow matrix `[[4,1,1],[1,3,·],[1,·,2]]` over `ℝ` (pattern with fill), and the factorisation
succeeds (`factor_correct_partial_3x3_fill` exhibits the result). -/
example : Represents 3 #[0, 1, 3, 5] #[0, 0, 1, 0, 2] (#[4, 1, 3, 1, 2] : Array ℝ)
    (denseOf #[0, 1, 3, 5] #[0, 0, 1, 0, 2] (#[4, 1, 3, 1, 2] : Array ℝ)) := represents_arrow3

/-- non-vacuity of `factor_independent_of_buffers / refactor_eq_fresh`: a factorisation object for
the 3×3 arrow matrix with stale (nonsense) buffer contents satisfies every hypothesis -/
example : ∃ (F : Factorisation ℝ) (a : Nat → Nat → ℝ) (es : EtreeState), 0 < F.triuA.n ∧
    TriuCsc F.triuA.n F.triuA.colptr F.triuA.rowval ∧
    Represents F.triuA.n F.triuA.colptr F.triuA.rowval F.triuA.nzval a ∧
    etree F.triuA.n F.triuA.colptr F.triuA.rowval = .ok es ∧ F.etree = es.etree ∧ F.Lnz = es.Lnz ∧
    F.L.rowval.size = F.Lnz.toList.foldl (· + ·) 0 ∧ F.L.nzval.size = F.L.rowval.size ∧
    F.D.size = F.triuA.n ∧ F.Dinv.size = F.triuA.n ∧
    (F.rp.enable = true → F.triuA.n ≤ F.rp.Dsigns.size) :=
  ⟨{ perm := #[0, 1, 2], iperm := #[0, 1, 2], L := ⟨3, 3, #[7, 7, 7, 7], #[9, 9, 9], #[8, 8, 8]⟩,
     D := #[5, 5, 5], Dinv := #[6, 6, 6], etree := #[some 1, some 2, none], Lnz := #[2, 1, 0],
     triuA := ⟨3, 3, #[0, 1, 3, 5], #[0, 0, 1, 0, 2], #[4, 1, 3, 1, 2]⟩, AtoPAPt := #[0, 1, 2, 3, 4],
     rp := ⟨#[1, 1, 1], true, 0, 0⟩, positiveInertia := 17, regularizeCount := 4, isSymbolic := true },
   denseOf #[0, 1, 3, 5] #[0, 0, 1, 0, 2] (#[4, 1, 3, 1, 2] : Array ℝ), _,
   by decide, triuCsc_arrow3, represents_arrow3, etree_arrow3, rfl, rfl, rfl, rfl, rfl, rfl,
   fun _ => by decide⟩

end factor_field

/-! ### Follow-up to round 3: `QDLDLFactorisation::new` / `solve` end to end

The theorems above are about `_factor_inner` on a `triuA` that `Represents` a dense matrix.  Here the
hypothesis is discharged from the user's input: `A` in valid CSC format (`wellFormed`), accepted by
`check_structure`, canonical (`NoDupCols`: no column stores a row index twice — what
`CscMatrix::check_format` demands), `perm` a permutation of `0 … n-1` (`n = 0` included since the repair 6c94e42, see `empty_matrix_ok`;
only `history_refactor_eq_fresh` keeps `0 < n`).
`symOf A i j = A[min i j, max i j]` is the symmetric matrix whose upper triangle `A` stores and
`signAt dsigns perm r = Dsigns[perm r]` (default `+1`). -/

section new_end_to_end
open Matrix BigOperators

/-- [S] (holds at `Float`) **the `Represents` bridge**: for a canonical upper-triangular `A` and a
valid ordering, `permute_symmetric(A, iperm)` succeeds, the `triuA` it returns stores no position
twice (so it `Represents` its dense meaning — the hypothesis of `factor_structure`,
`factor_correct`, `refactor_eq_fresh`, …), and that dense meaning is the symmetric permutation
`Π Sym(A) Πᵀ`: `triuA[i,k] = A[min (perm i) (perm k), max (perm i) (perm k)]` for `i ≤ k < n`. -/
theorem permute_symmetric_represents {α : Type} [Add α] [Sub α] [Mul α] [Div α] [Neg α] [OfNat α 0]
    [OfNat α 1] [LT α] [DecidableLT α] [BEq α] [FloatLike α]
    (A : Csc α) (hw : wellFormed A = true) (hc : checkStructure A = .ok ())
    (hnd : NoDupCols A.colptr A.rowval) (perm : Array Nat) (hp : IsPerm perm) (hps : perm.size = A.n) :
    ∃ iperm P map, Perm.invperm perm = .ok iperm ∧ permuteSymmetric A iperm = .ok (P, map) ∧
      P.n = A.n ∧ TriuCsc P.n P.colptr P.rowval ∧ NoDupCols P.colptr P.rowval ∧
      Represents P.n P.colptr P.rowval P.nzval (denseOf P.colptr P.rowval P.nzval) ∧
      ∀ i k, k < A.n → i ≤ k → denseOf P.colptr P.rowval P.nzval i k =
        denseOf A.colptr A.rowval A.nzval (min (perm.getD i 0) (perm.getD k 0))
          (max (perm.getD i 0) (perm.getD k 0)) := by
  obtain ⟨iperm, hip⟩ := (invperm_ok_iff perm).mpr hp
  have hA := InputOK.of_checks A hw hc
  obtain ⟨hisz, hinv⟩ := invperm_invPair perm iperm hip
  rw [hps] at hinv hisz
  obtain ⟨P, map, hP⟩ := permuteSymmetric_total A hA iperm (by omega) hinv.ip_lt
  obtain ⟨h1, h2, h3⟩ := permuteSymmetric_represents A hA hnd iperm (fun i => perm.getD i 0) hinv P map hP
  obtain ⟨hPn, hT⟩ := permuteSymmetric_triuCsc A iperm P map hP
  exact ⟨iperm, P, map, hip, hP, hPn, hT, h1, h2, h3⟩

variable {α : Type} [Field α] [DecidableEq α] [LT α] [DecidableLT α] [FloatLike α]

/-- [F] **`QDLDLFactorisation::new(A, perm)`: `Π·Sym(A)·Πᵀ = L·D·Lᵀ`, hypotheses on the user's
input only.**  The call returns `ZeroPivot` or a factorisation object — never a panic, never
another error.  For the object `F` (with `L = denseL F.L`, unit diagonal implied, `d = F.D`):
`F.L` is strictly lower triangular; for `c < r < n`
`L[r,c]·d[c] + Σ_{j<c} L[c,j]·L[r,j]·d[j] = Sym(A)[perm c, perm r]`; for `r < n`
`d[r] = rule_r (Sym(A)[perm r, perm r] − Σ_{j<r} L[r,j]·d[j]·L[r,j])` with `rule_r` the pivot rule
`regularizePivot` with sign `Dsigns[perm r]` (`pivot_rule`; the identity when regularisation is
off); `d[r] ≠ 0`, `Dinv = 1/d`, `positive_inertia` = number of positive `d`, `regularize_count` =
number of rows on which the rule fired. -/
theorem new_factor_correct (A : Csc α) (hw : wellFormed A = true) (hc : checkStructure A = .ok ())
    (hnd : NoDupCols A.colptr A.rowval) (perm : Array Nat) (hp : IsPerm perm)
    (hps : perm.size = A.n) (dsigns : Option (Array Int))
    (hds : ∀ ds, dsigns = some ds → A.n ≤ ds.size) (enable : Bool) (eps delta : α) :
    (new A perm dsigns enable eps delta false = .error errZeroPivot ∨
      ∃ F, new A perm dsigns enable eps delta false = .ok F) ∧
    ∀ F, new A perm dsigns enable eps delta false = .ok F → NewSpec A perm dsigns enable eps delta F := by
  obtain ⟨iperm, hip⟩ := (invperm_ok_iff perm).mpr hp
  exact new_correct' A hw hc hnd perm iperm hip hps dsigns hds enable eps delta

/-- [F] regularisation off: the equations of `new_factor_correct` are the matrix identity
`(I+L)·D·(I+L)ᵀ = Π·Sym(A)·Πᵀ` (entry `(i,j)` of the right-hand side is `Sym(A)[perm i, perm j]`). -/
theorem new_factor_correct_unregularized (A : Csc α) (hw : wellFormed A = true)
    (hc : checkStructure A = .ok ()) (hnd : NoDupCols A.colptr A.rowval)
    (perm : Array Nat) (hp : IsPerm perm) (hps : perm.size = A.n) (dsigns : Option (Array Int))
    (hds : ∀ ds, dsigns = some ds → A.n ≤ ds.size) (eps delta : α) (F : Factorisation α)
    (hF : new A perm dsigns false eps delta false = .ok F) :
    ((1 + Matrix.of fun (i j : Fin A.n) => denseL F.L.colptr F.L.rowval F.L.nzval i j) *
        Matrix.diagonal (fun i : Fin A.n => F.D.getD i 0) *
        (1 + Matrix.of fun (i j : Fin A.n) => denseL F.L.colptr F.L.rowval F.L.nzval i j)ᵀ :
          Matrix (Fin A.n) (Fin A.n) α) =
      Matrix.of fun i j : Fin A.n => symOf A (perm.getD i.val 0) (perm.getD j.val 0) := by
  have hS := (new_factor_correct A hw hc hnd perm hp hps dsigns hds false eps delta).2 F hF
  ext i j
  have := ldl_matrix_form A.n (denseL F.L.colptr F.L.rowval F.L.nzval) (fun j => F.D.getD j 0)
    (fun c r => symOf A (perm.getD c 0) (perm.getD r 0))
    (fun r c hc hrc => denseL_upper hS.lower r c hc hrc) hS.offdiag (by
      intro r hr
      have := hS.diag r hr
      simp only [regularizePivot, Bool.false_eq_true, ↓reduceIte] at this
      rw [this]; ring) i j
  rw [this]
  show symOf A _ _ = symOf A (perm.getD i.val 0) (perm.getD j.val 0)
  rcases Nat.le_total i.val j.val with hle | hle
  · rw [Nat.min_eq_left hle, Nat.max_eq_right hle]
  · rw [Nat.min_eq_right hle, Nat.max_eq_left hle, symOf_comm]

/-- [F] **`new` then `solve(b)`: `Sym(A)·x = b`** — the first sentence of the property end to end,
hypotheses on the user's `A`, `perm` and `b` only (regularisation off).  If `new` returned a
factorisation object `F`, then `solve F b` (permute, `_lsolve`, `_dltsolve`, `ipermute` on the CSC
arrays, with all their indexed reads and writes) does not fail and returns `x` with
`Sym(A)·x = b`. -/
theorem new_solve_correct (A : Csc α) (hw : wellFormed A = true) (hc : checkStructure A = .ok ())
    (hnd : NoDupCols A.colptr A.rowval) (perm : Array Nat) (hp : IsPerm perm)
    (hps : perm.size = A.n) (dsigns : Option (Array Int))
    (hds : ∀ ds, dsigns = some ds → A.n ≤ ds.size) (eps delta : α) (F : Factorisation α)
    (hF : new A perm dsigns false eps delta false = .ok F) (b : Array α) (hb : b.size = A.n) :
    ∃ x, solve F b = .ok x ∧ x.size = A.n ∧
      Matrix.mulVec (Matrix.of fun i j : Fin A.n => symOf A i.val j.val) (fun j => x.getD j.val 0) =
        fun i => b.getD i.val 0 := by
  obtain ⟨iperm, hip⟩ := (invperm_ok_iff perm).mpr hp
  exact new_solve' A hw hc hnd perm iperm hip hps dsigns hds eps delta F hF b hb

/-- non-vacuity of the hypotheses on the user's input (`permute_symmetric_represents`,
`new_factor_correct`, `new_solve_correct`, …): the matrix `[[4,1],[1,3]]` with the reversed
ordering is well formed, accepted by `check_structure`, canonical, and `[1,0]` is a permutation -/
example : wellFormed (⟨2, 2, #[0, 1, 3], #[0, 0, 1], #[4, 1, 3]⟩ : Csc ℝ) = true := by rfl
example : checkStructure (⟨2, 2, #[0, 1, 3], #[0, 0, 1], #[4, 1, 3]⟩ : Csc ℝ) = .ok () := by rfl
example : NoDupCols #[0, 1, 3] #[0, 0, 1] := by
  intro k t t' h1 h2 h1' h2' h
  rcases k with _ | _ | k
  · simp at h1 h2 h1' h2'; omega
  · simp at h1 h2 h1' h2'
    have ht : t = 1 ∨ t = 2 := by omega
    have ht' : t' = 1 ∨ t' = 2 := by omega
    rcases ht with rfl | rfl <;> rcases ht' with rfl | rfl <;> simp at h ⊢
  · simp at h2
example : IsPerm #[1, 0] := by
  constructor
  · simp
  · intro j hj; simp at hj; rcases hj with rfl | rfl <;> simp
/-- non-vacuity of `hF : new … = .ok F`: the `1 × 1` matrix `[2]` over `ℝ` is factored -/
example : ∃ F, new (⟨1, 1, #[0, 1], #[0], #[2]⟩ : Csc ℝ) #[0] none false 0 0 false = .ok F := by
  cases h : new (⟨1, 1, #[0, 1], #[0], #[2]⟩ : Csc ℝ) #[0] none false 0 0 false with
  | ok F => exact ⟨F, rfl⟩
  | error e =>
    exfalso
    simp [new, checkStructure, Csc.isTriu, Csc.colRows, Csc.anyAdjacent, Perm.invperm, Perm.invpermLoop,
      newWithOrdering, permuteSymmetric, wellFormed, permutePattern, colOf, countInto, cumsum, assignPositions,
      scatter, etree, etreeCol, etreeWalk, factor, factorInner, finishPivot, getE, setE, bind, Except.bind, pure,
      Except.pure] at h

/-! ### `ZeroPivot` ⇔ an exact pivot is zero

`refPivot a k` (`Lemmas/QdldlZeroPivot.lean`) is the `k`-th pivot of the reference dense LDLᵀ
elimination of the symmetric matrix with upper triangle `a`, defined by plain recursion on the
rows (forward substitution for row `k` against the rows `< k`, then the Schur complement
`a[k,k] − Σ_{j<k} L[k,j]²·d[j]`), independently of the model's loops. -/

/-- the reference pivots of a `2 × 2` matrix: `d₀ = a₀₀`, `d₁ = a₁₁ − (a₀₁/a₀₀)²·a₀₀` -/
example (a : Nat → Nat → ℝ) : refPivot a 0 = a 0 0 ∧
    refPivot a 1 = a 1 1 - (a 0 1 / a 0 0) * a 0 0 * (a 0 1 / a 0 0) := by
  constructor <;> simp [refPivot, refLDL, refRow, Finset.sum_range_succ]

/-- [F] **`ZeroPivot` iff a pivot of the exact elimination is exactly zero** (regularisation off),
on every pattern and whatever the incoming buffers hold: `_factor_inner` returns `ZeroPivot` iff
`refPivot a k = 0` for some `k < n`; if no reference pivot is zero it returns `Ok`, and whenever it
returns `Ok` the `D` it produced is exactly the vector of reference pivots (all nonzero). -/
theorem zero_pivot_iff (n : Nat) (hn : 0 < n) (Ap Ai : Array Nat) (hA : TriuCsc n Ap Ai)
    (Ax : Array α) (a : Nat → Nat → α) (hR : Represents n Ap Ai Ax a)
    (es : EtreeState) (hes : etree n Ap Ai = .ok es)
    (Li : Array Nat) (Lx D Dinv : Array α) (hLi : (cumsum es.Lnz).getD n 0 ≤ Li.size)
    (hLx : Lx.size = Li.size) (hDs : D.size = n) (hDi : Dinv.size = n)
    (rp : RegParams α) (hoff : rp.enable = false) :
    (factorInner n Ap Ai Ax Li Lx D Dinv es.Lnz es.etree false rp = .error errZeroPivot ↔
      ∃ k, k < n ∧ refPivot a k = 0) ∧
    ((∀ k, k < n → refPivot a k ≠ 0) →
      ∃ s, factorInner n Ap Ai Ax Li Lx D Dinv es.Lnz es.etree false rp = .ok s ∧
        ∀ k, k < n → s.D.getD k 0 = refPivot a k) ∧
    (∀ s, factorInner n Ap Ai Ax Li Lx D Dinv es.Lnz es.etree false rp = .ok s →
      ∀ k, k < n → s.D.getD k 0 = refPivot a k ∧ refPivot a k ≠ 0) := by
  obtain ⟨es', hes', hI⟩ := etree_spec n Ap Ai hA
  have : es' = es := by rw [hes'] at hes; exact Except.ok.inj hes
  subst this
  exact factorInner_zeroPivot_iff (FCtx.of_etree hn hA hI) Ax a hR Li Lx D Dinv hLi hLx hDs hDi rp hoff

/-- [F] the same for the public constructor, hypotheses on the user's input only:
`QDLDLFactorisation::new(A, perm)` (regularisation off) returns `ZeroPivot` iff some pivot of the
exact elimination of `Π·Sym(A)·Πᵀ` (`permSym A perm i k = Sym(A)[perm i, perm k]`) is zero;
otherwise it returns `Ok`, and the `D` of the returned object is the vector of exact pivots. -/
theorem new_zero_pivot_iff (A : Csc α) (hw : wellFormed A = true) (hc : checkStructure A = .ok ())
    (hnd : NoDupCols A.colptr A.rowval) (perm : Array Nat) (hp : IsPerm perm)
    (hps : perm.size = A.n) (dsigns : Option (Array Int))
    (hds : ∀ ds, dsigns = some ds → A.n ≤ ds.size) (eps delta : α) :
    (new A perm dsigns false eps delta false = .error errZeroPivot ↔
      ∃ k, k < A.n ∧ refPivot (permSym A perm) k = 0) ∧
    ((∀ k, k < A.n → refPivot (permSym A perm) k ≠ 0) →
      ∃ F, new A perm dsigns false eps delta false = .ok F) ∧
    (∀ F, new A perm dsigns false eps delta false = .ok F →
      ∀ k, k < A.n → F.D.getD k 0 = refPivot (permSym A perm) k ∧ refPivot (permSym A perm) k ≠ 0) := by
  obtain ⟨iperm, hip⟩ := (invperm_ok_iff perm).mpr hp
  exact new_zeroPivot_iff' A hw hc hnd perm iperm hip hps dsigns hds eps delta

end new_end_to_end

/-! ### the logical (symbolic) pass, histories of value updates, the empty matrix -/

section logical_and_histories
variable {α : Type} [Add α] [Sub α] [Mul α] [Div α] [Neg α] [OfNat α 0] [OfNat α 1] [LT α]
  [DecidableLT α] [BEq α] [FloatLike α]

/-- [S] (holds at `Float`) **the `logical = true` pass of `_factor_inner`** never fails — not even
with `ZeroPivot` — and computes: `Lp = cumsum Lnz`; column `c` of `Li` lists the rows of column `c`
of the symbolic factor in increasing order inside its slot (the same `Li` as the numeric pass,
`factor_structure`); `Lx` and `Dinv` are returned untouched (`_factor` passes all-ones arrays in);
both counters are `0`; the work arrays are left cleared; and `D[0] = 0`, `D[k] = triuA[k,k]` for
`1 ≤ k < n` (`D` is zero-filled by `_factor_inner` itself, so the `D.fill(1)` of `_factor` does not
survive: there is no "D = 1" convention after a logical factorisation). -/
theorem logical_factor (n : Nat) (hn : 0 < n) (Ap Ai : Array Nat) (hA : TriuCsc n Ap Ai)
    (Ax : Array α) (a : Nat → Nat → α) (hR : Represents n Ap Ai Ax a)
    (es : EtreeState) (hes : etree n Ap Ai = .ok es)
    (Li : Array Nat) (Lx D Dinv : Array α) (hLi : (cumsum es.Lnz).getD n 0 ≤ Li.size)
    (hLx : Lx.size = Li.size) (hDs : D.size = n) (hDi : Dinv.size = n) (rp : RegParams α) :
    ∃ s, factorInner n Ap Ai Ax Li Lx D Dinv es.Lnz es.etree true rp = .ok s ∧
      s.Lp = cumsum es.Lnz ∧ s.Li.size = Li.size ∧
      (∀ c, c < n → ∀ t r, (Lrows (Apat Ap Ai) n c)[t]? = some r →
        s.Li.getD ((cumsum es.Lnz).getD c 0 + t) 0 = r) ∧
      s.Lx = Lx ∧ s.Dinv = Dinv ∧ s.regularizeCount = 0 ∧ s.positive = 0 ∧ s.D.size = n ∧
      (∀ c, c < n → s.D.getD c 0 = if c = 0 then 0 else a c c) ∧
      (∀ c, c < n → s.yMarkers.getD c false = false ∧ s.yVals.getD c 0 = 0) := by
  obtain ⟨es', hes', hI⟩ := etree_spec n Ap Ai hA
  have : es' = es := by rw [hes'] at hes; exact Except.ok.inj hes
  subst this
  obtain ⟨s, hs, hR', e1, e2, e3, e4, e5⟩ :=
    factorInner_logical (FCtx.of_etree hn hA hI) Ax a hR Li Lx D Dinv hLi hLx hDs hDi rp
  exact ⟨s, hs, hR'.lp, hR'.lisz, hR'.li, e1, e2, e3, e4, hR'.dsz, e5,
    fun c hc => ⟨hR'.mrk0 c hc, hR'.yv0 c hc⟩⟩

/-- [S] (holds at `Float`) **`QDLDLFactorisation::new` with `logical = true`**, hypotheses on the
user's input only: the call succeeds (no error, no panic) and returns an object with
`is_symbolic = true`, the `triuA / AtoPAPt / etree / Lnz` of the numeric constructor,
`L.colptr = cumsum Lnz`, `L.rowval` = the symbolic pattern, `L.nzval` and `Dinv` all `1`,
`D[0] = 0`, `D[k] = triuA[k,k]` (`k ≥ 1`), inertia and regularisation count `0`. -/
theorem new_logical_correct (A : Csc α) (hw : wellFormed A = true) (hc : checkStructure A = .ok ())
    (hnd : NoDupCols A.colptr A.rowval) (perm : Array Nat) (hp : IsPerm perm)
    (hps : perm.size = A.n) (dsigns : Option (Array Int))
    (hds : ∀ ds, dsigns = some ds → A.n ≤ ds.size) (enable : Bool) (eps delta : α) :
    ∃ F iperm P map es, new A perm dsigns enable eps delta true = .ok F ∧
      Perm.invperm perm = .ok iperm ∧ permuteSymmetric A iperm = .ok (P, map) ∧
      etree P.m P.colptr P.rowval = .ok es ∧
      F.isSymbolic = true ∧ F.triuA = P ∧ F.AtoPAPt = map ∧ F.etree = es.etree ∧ F.Lnz = es.Lnz ∧
      F.L.colptr = cumsum es.Lnz ∧ F.L.rowval.size = es.Lnz.toList.foldl (· + ·) 0 ∧
      (∀ c, c < A.n → ∀ t r, (Lrows (Apat P.colptr P.rowval) A.n c)[t]? = some r →
        F.L.rowval.getD ((cumsum es.Lnz).getD c 0 + t) 0 = r) ∧
      F.L.nzval = Array.replicate (es.Lnz.toList.foldl (· + ·) 0) 1 ∧
      F.Dinv = Array.replicate A.n 1 ∧ F.D.size = A.n ∧
      (∀ c, c < A.n → F.D.getD c 0 = if c = 0 then 0 else denseOf P.colptr P.rowval P.nzval c c) ∧
      F.positiveInertia = 0 ∧ F.regularizeCount = 0 := by
  by_cases hn : 0 < A.n
  · obtain ⟨iperm, hip⟩ := (invperm_ok_iff perm).mpr hp
    obtain ⟨P, map, Ds, es, S⟩ := stages_of A hw hc hnd hn perm iperm hip hps dsigns hds
    obtain ⟨F, h0, h1, h2, h3, h4, h5, h6, h7, h8, h9, h10, h11, h12, h13, h14, _⟩ :=
      new_logical S enable eps delta
    exact ⟨F, iperm, P, map, es, h0, hip, S.ps, S.et, h1, h2, h3, h4, h5, h6, h7, h8, h9, h10, h11, h12, h13, h14⟩
  · have h0 : A.n = 0 := by omega
    have hA := eq_empty_of_n0 A hw hc h0
    have hpe : perm = #[] := array_eq_empty perm (by rw [hps, h0])
    subst hA hpe
    exact ⟨emptyF enable eps delta true, #[], emptyCsc α, #[], ⟨#[], #[], #[]⟩,
      new_empty dsigns enable eps delta true, rfl, rfl, rfl, rfl, rfl, rfl, rfl, rfl, rfl, rfl,
      fun c hc => absurd hc (Nat.not_lt_zero c), rfl, rfl, rfl,
      fun c hc => absurd hc (Nat.not_lt_zero c), rfl, rfl⟩

/-- [S] (holds at `Float`: bit-identical) **`refactor` after an arbitrary history = factoring the
updated matrix from scratch.**  Let `F0` be the object returned by `new(A, perm)` (numeric or
logical), `ops` any sequence of `update_values / scale_values / offset_values / refactor` calls
(`HistOp`; `runF` runs them on the object with the model functions) that the object survives, and
`F` the object after the history.  Then the same updates applied in the same order to the user's
own value array (`runA`: `A.nzval[idx] = v`, `*= s`, `±= off`) succeed with some `v`, and
`refactor F` returns exactly what `QDLDLFactorisation::new` (numeric) returns on the matrix `A`
with values `v`: the same error (`ZeroPivot`) or the same object in every field — `L`, `D`, `Dinv`,
inertia, regularisation count, `triuA`, `AtoPAPt`, … .  (`0 < n` is kept here: for the empty matrix
every history is trivial, see `empty_matrix_ok`.  Composition of `update_commutes` and
`refactor_eq_fresh` over the history; intermediate `refactor`s leave no trace.) -/
theorem history_refactor_eq_fresh (A : Csc α) (hw : wellFormed A = true) (hc : checkStructure A = .ok ())
    (hnd : NoDupCols A.colptr A.rowval) (hn : 0 < A.n) (perm : Array Nat) (hp : IsPerm perm)
    (hps : perm.size = A.n) (dsigns : Option (Array Int))
    (hds : ∀ ds, dsigns = some ds → A.n ≤ ds.size) (enable : Bool) (eps delta : α) (logical : Bool)
    (F0 : Factorisation α) (h0 : new A perm dsigns enable eps delta logical = .ok F0)
    (ops : List (HistOp α)) (F : Factorisation α) (hrun : runF F0 ops = .ok F) :
    ∃ v, runA A.nzval ops = .ok v ∧ v.size = A.nzval.size ∧
      refactor F = new { A with nzval := v } perm dsigns enable eps delta false := by
  obtain ⟨iperm, hip⟩ := (invperm_ok_iff perm).mpr hp
  exact history_refactor A hw hc hnd hn perm iperm hip hps dsigns hds enable eps delta logical F0 h0 ops F hrun

/-- [S] (holds at `Float`: bit-identical) **a logical factorisation followed by `refactor` is a
fresh numeric factorisation**: if `new(A, perm)` with `logical = true` returned `FL`, then
`refactor FL` returns exactly what `new(A, perm)` with `logical = false` returns.  This is the site
of the seeded change C12-c (no `D.fill(0)`, `D[k] = Ax[i]` skipped in logical mode): there the
refactorisation starts from the `D = 1` left by `_factor` and the equation fails on every pattern
with a column without stored diagonal entry. -/
theorem logical_then_refactor_eq_fresh (A : Csc α) (hw : wellFormed A = true)
    (hc : checkStructure A = .ok ()) (hnd : NoDupCols A.colptr A.rowval)
    (perm : Array Nat) (hp : IsPerm perm) (hps : perm.size = A.n) (dsigns : Option (Array Int))
    (hds : ∀ ds, dsigns = some ds → A.n ≤ ds.size) (enable : Bool) (eps delta : α)
    (FL : Factorisation α) (hL : new A perm dsigns enable eps delta true = .ok FL) :
    refactor FL = new A perm dsigns enable eps delta false := by
  obtain ⟨iperm, hip⟩ := (invperm_ok_iff perm).mpr hp
  exact logical_then_refactor' A hw hc hnd perm iperm hip hps dsigns hds enable eps delta FL hL

/-- [S] the canonical form demanded by `CscMatrix::check_format` (row indices strictly increasing
inside every column) implies the hypothesis `NoDupCols` of the end-to-end theorems -/
theorem canonical_no_dup (Ap Ai : Array Nat)
    (h : ∀ k t, Ap.getD k 0 ≤ t → t + 1 < Ap.getD (k + 1) 0 → Ai.getD t 0 < Ai.getD (t + 1) 0) :
    NoDupCols Ap Ai := noDupCols_of_sorted Ap Ai h

/-- [S] (holds at `Float`) **errors, never panics, end to end.**  For every input:
a matrix rejected by `check_structure` makes `new` return that error (`IncompatibleDimension`,
`NotUpperTriangular`, `EmptyColumn`: `check_structure`); a structurally valid matrix with an
invalid ordering makes it return `InvalidPermutation` (`invperm_rejects`).  For a valid input
(well formed, canonical, `perm` a permutation of `0 … n-1`, `Dsigns` long enough; `n = 0` included) numeric
`new` returns `ZeroPivot` or `Ok` and logical `new` returns `Ok` — no out-of-range access anywhere
in `_invperm`, `permute_symmetric`, `permute`, `_etree`, `_factor_inner`. -/
theorem new_errors_never_panics (A : Csc α) (perm : Array Nat) (dsigns : Option (Array Int))
    (enable : Bool) (eps delta : α) :
    (∀ e logical, checkStructure A = .error e →
      new A perm dsigns enable eps delta logical = .error e) ∧
    (∀ logical, checkStructure A = .ok () → ¬ IsPerm perm →
      new A perm dsigns enable eps delta logical = .error Perm.invalidPermutation) ∧
    (wellFormed A = true → checkStructure A = .ok () → NoDupCols A.colptr A.rowval →
      IsPerm perm → perm.size = A.n → (∀ ds, dsigns = some ds → A.n ≤ ds.size) →
      (new A perm dsigns enable eps delta false = .error errZeroPivot ∨
        ∃ F, new A perm dsigns enable eps delta false = .ok F) ∧
      ∃ F, new A perm dsigns enable eps delta true = .ok F) := by
  refine ⟨fun e lg he => (new_rejects A perm dsigns enable eps delta lg).1 e he,
    fun lg hc hp => (new_rejects A perm dsigns enable eps delta lg).2 hc _ (invperm_rejects perm hp), ?_⟩
  intro hw hc hnd hp hps hds
  obtain ⟨iperm, hip⟩ := (invperm_ok_iff perm).mpr hp
  exact new_total' A hw hc hnd perm iperm hip hps dsigns hds enable eps delta

/-- [S] (holds at `Float`) **`n = 0`: the empty matrix is factored, not a panic.**  The only
well-formed `0 × 0` CSC matrix passes `check_structure` (square, upper triangular, no column at all
hence no empty column) and the empty ordering is a valid permutation; `new` returns `Ok`, numeric
and logical, with empty `L` (`colptr = [0]`), empty `D / Dinv`, `positive_inertia = 0`,
`regularize_count = 0`; `solve` on the empty right-hand side returns the empty vector and
`refactor` returns `Ok`.  Documents the **repaired** defect `C12-empty-matrix-panic` (fixed in
/repo 6c94e42, recorded as `fixed` in known_findings.json): `_factor_inner` used to go on to
`if Ap[1] > Ap[0]` with the one-entry `colptr` of the empty matrix — index out of bounds (the
`getE` of the `example` below), reachable through `QDLDLFactorisation::new` and through `solve()` of
the completely empty problem with `direct_solve_method = "qdldl"`; the repaired code (and
`factorInner`) returns right after the workspace set-up when `n == 0`.  The harness submits the
empty matrix on every run with the oracle clause "0 × 0 ⇒ Ok, empty factors"
(regression: `regressions/C12-empty-matrix-panic`). -/
theorem empty_matrix_ok (dsigns : Option (Array Int)) (enable : Bool) (eps delta : α) (logical : Bool) :
    checkStructure (⟨0, 0, #[0], #[], #[]⟩ : Csc α) = .ok () ∧ Perm.invperm #[] = .ok #[] ∧
    ∃ F, new (⟨0, 0, #[0], #[], #[]⟩ : Csc α) #[] dsigns enable eps delta logical = .ok F ∧
      F.L.colptr = #[0] ∧ F.L.rowval = #[] ∧ F.L.nzval = #[] ∧ F.D = #[] ∧ F.Dinv = #[] ∧
      F.positiveInertia = 0 ∧ F.regularizeCount = 0 ∧ F.isSymbolic = logical ∧
      (logical = false → solve F #[] = .ok #[]) ∧ ∃ F', refactor F = .ok F' :=
  ⟨rfl, rfl, emptyF enable eps delta logical, new_empty dsigns enable eps delta logical, rfl, rfl, rfl, rfl,
    rfl, rfl, rfl, rfl, fun h => by subst h; exact solve_empty enable eps delta,
    _, refactor_empty enable eps delta logical⟩

/-- pre-fix behaviour (C12-empty-matrix-panic): the read `Ap[1]` that followed the workspace set-up
is out of range for the `colptr = [0]` of the empty matrix -/
example : getE (#[0] : Array Nat) 1 "_factor_inner: Ap[1]" = .error (.panic "_factor_inner: Ap[1]") := rfl

end logical_and_histories

/-- non-vacuity of `history_refactor_eq_fresh`: the `1 × 1` matrix `[2]` over `ℝ` is factored and
survives the history `scale_values([0], 3); refactor` -/
example : ∃ F0 F, new (⟨1, 1, #[0, 1], #[0], #[2]⟩ : Csc ℝ) #[0] none false 0 0 false = .ok F0 ∧
    runF F0 [HistOp.scale #[0] 3, HistOp.refactor] = .ok F := by
  cases h0 : new (⟨1, 1, #[0, 1], #[0], #[2]⟩ : Csc ℝ) #[0] none false 0 0 false with
  | error e =>
    exfalso
    simp [new, checkStructure, Csc.isTriu, Csc.colRows, Csc.anyAdjacent, Perm.invperm, Perm.invpermLoop,
      newWithOrdering, permuteSymmetric, wellFormed, permutePattern, colOf, countInto, cumsum, assignPositions,
      scatter, etree, etreeCol, etreeWalk, factor, factorInner, finishPivot, getE, setE, bind, Except.bind, pure,
      Except.pure] at h0
  | ok F0 =>
    cases h1 : runF F0 [HistOp.scale #[0] (3 : ℝ), HistOp.refactor] with
    | error e =>
      exfalso
      simp [new, checkStructure, Csc.isTriu, Csc.colRows, Csc.anyAdjacent, Perm.invperm, Perm.invpermLoop,
        newWithOrdering, permuteSymmetric, wellFormed, permutePattern, colOf, countInto, cumsum, assignPositions,
        scatter, etree, etreeCol, etreeWalk, factor, factorInner, finishPivot, getE, setE, bind, Except.bind, pure,
        Except.pure] at h0
      subst h0
      simp [runF, stepF, scaleValues, modifyEntry, refactor, factor, factorInner, finishPivot, cumsum, getE, setE,
        bind, Except.bind, pure, Except.pure] at h1
    | ok F => exact ⟨F0, F, rfl, h1⟩

/-- non-vacuity of `logical_factor` / `zero_pivot_iff`: their hypotheses are those of
`factor_structure` / `factor_correct` (3 × 3 arrow matrix above); `rp.enable = false` is satisfiable -/
example : ∃ rp : RegParams ℝ, rp.enable = false := ⟨⟨#[1, 1, 1], false, 0, 0⟩, rfl⟩


/-- documented, not part of C12's claim: the asserting twin `algebra::utils::invperm` still
uses `b[j] == 0` as "unset" and so accepts a repeated index whose first occurrence is at
position 0 (it is only handed internally generated permutations). -/
theorem utils_invperm_accepts_repeated_index : Perm.utilsInvperm #[0, 0] = .ok #[1, 0] := by rfl


end Clarabel.C12
