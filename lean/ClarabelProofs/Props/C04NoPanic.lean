/-
  C04 — every solve returns without panicking: PANIC-FREEDOM of the whole-solver model
  (`ClarabelModel/Solver/*.lean`: `DefaultSolver::new` + `solve()` for zero / nonnegative /
  second-order cones with the QDLDL backend — the model the correspondence channels
  `solve.setup / solve.init / solve.full / solve.twice` compare bit for bit with the code).

  In the model every Rust panic — index out of range, slice range, `assert!`, `unwrap()`,
  `unreachable!()`, `panic!` — is the error `ModelErr.panic site` (`.err` = "outside the model",
  e.g. an unsupported cone kind).  The theorems below say that `.panic` is never returned, for
  ALL well-formed inputs, at class [S] (no law of the scalar type beyond the two listed
  hypotheses, so they hold at `Float`, i.e. for the f64 computation as it runs).

  Helper lemmas: `ClarabelProofs/Lemmas/SolverModelNoPanic*.lean` (the invariant `Shapes` /
  `SolverInvQ`: sizes of every vector, consistently sized cones covering the `m` rows, canonical
  CSC data, index ranges of the KKT maps, the QDLDL workspace; one stage theorem per modelled
  function).  A file of its own (imported by `Props/C04.lean`) because of the size of its import
  chain.
-/
import ClarabelProofs.Lemmas.SolverModelNoPanicC04
import ClarabelProofs.Lemmas.SolverModelNoPanicExample

namespace Clarabel.C04
open Clarabel Clarabel.Solver

set_option linter.unusedSectionVars false

section nopanic
variable {α : Type} [Add α] [Sub α] [Mul α] [Div α] [Neg α] [OfNat α 0] [OfNat α 1] [OfNat α 2]
  [OfNat α 100] [OfNat α 1000] [LT α] [DecidableLT α] [LE α] [DecidableLE α] [BEq α] [FloatLike α]

/-- [S] `C04.full_new_no_panic`: `DefaultSolver::new` never panics on well-formed input
(`InputOK`: `P`, `A` canonical CSC, `P` square `n×n`, `A` `m×n`, `q.size = n`, `b.size = m`,
`Σ nvars = m` — any cone kinds, any dimensions including 0 and `SecondOrderConeT(1)`, `m = 0`
allowed), `n ≥ 1`, `perm` a permutation of the KKT dimension of the internal problem (`PermFor`; AMD
in the code), and regularisation parameters that never leave an exactly zero pivot (`PivotOK`: the
code does `refactor().unwrap()`; true at `Float` for `dynamic_regularization_eps > 0`, `delta ≠ 0`).
It may return `.err` (a cone kind outside the model), never `.panic`. -/
theorem full_new_no_panic {P : Csc α} {q : Array α} {A : Csc α} {b : Array α}
    {cones : List (ConeT α)} {st : Settings α} {perm : Array Nat} (hin : InputOK P q A b cones)
    (hn : 0 < P.n) (hperm : PermFor P q A b cones st perm) (hpiv : PivotOK st.lin) :
    NoPanic (Solver.new P q A b cones st perm) :=
  solverNew_noPanic_qdldl hin hn hperm hpiv

/-- [S] `C04.full_new_establishes_invariant`: every solver object `new` returns satisfies the
invariant `SolverInvQ` of `solve()` (vector lengths, cone sizes, canonical data, KKT map ranges,
QDLDL workspace). -/
theorem full_new_establishes_invariant {P : Csc α} {q : Array α} {A : Csc α} {b : Array α}
    {cones : List (ConeT α)} {st : Settings α} {perm : Array Nat} (hin : InputOK P q A b cones)
    (hn : 0 < P.n) (hperm : PermFor P q A b cones st perm) (hpiv : PivotOK st.lin)
    {S : Solver α} (h : Solver.new P q A b cones st perm = .ok S) : SolverInvQ S :=
  solverNew_invQ hin hn hperm hpiv h

/-- [S] `C04.full_solve_keeps_invariant`: on every solver object satisfying the invariant — the
ones `new` builds, and the ones an earlier `solve()` left behind — `solve()` returns `.ok` (no index
out of range, no assert / unwrap / unreachable arm reached, pass budget not exhausted) and the
invariant holds again: the second, third, … `solve()` on the same object are covered as well.
`FmaxOK`: the scalar law `¬ max(0, r) < 0` behind `panic!("starting point of line search not in
SOC")`. -/
theorem full_solve_keeps_invariant (hf : FmaxOK α) {S : Solver α} (st : Settings α) (h : SolverInvQ S) :
    ∃ r, S.solve st = .ok r ∧ SolverInvQ r.S :=
  solve_ok_qdldl hf st h

/-- [S] `C04.full_no_panic` ("returns without panicking", the full statement on the model that is
tied bit for bit to the code): for all well-formed inputs `new` does not panic, and for every solver
object it returns, `solve()` returns `.ok`. -/
theorem full_no_panic {P : Csc α} {q : Array α} {A : Csc α} {b : Array α}
    {cones : List (ConeT α)} {st : Settings α} {perm : Array Nat} (hin : InputOK P q A b cones)
    (hn : 0 < P.n) (hperm : PermFor P q A b cones st perm) (hpiv : PivotOK st.lin) (hf : FmaxOK α) :
    NoPanic (Solver.new P q A b cones st perm) ∧
      ∀ S, Solver.new P q A b cones st perm = .ok S → ∃ r, S.solve st = .ok r ∧ SolverInvQ r.S :=
  solver_noPanic hin hn hperm hpiv hf

/-- [S] `full_no_panic` in the literal form: `solve()` is never `.error (.panic site)`. -/
theorem full_solve_never_panics {P : Csc α} {q : Array α} {A : Csc α} {b : Array α}
    {cones : List (ConeT α)} {st : Settings α} {perm : Array Nat} (hin : InputOK P q A b cones)
    (hn : 0 < P.n) (hperm : PermFor P q A b cones st perm) (hpiv : PivotOK st.lin) (hf : FmaxOK α)
    {S : Solver α} (h : Solver.new P q A b cones st perm = .ok S) (site : String) :
    S.solve st ≠ .error (.panic site) :=
  solve_noPanic hin hn hperm hpiv hf h site

end nopanic

/-! ### non-vacuity: every hypothesis holds on the kernel-evaluated example run (`Int`) -/
namespace NoPanicExamples
open Clarabel.Solver.Example
attribute [local instance] intFloatLike

example : InputOK P #[1] A #[1] ([.nonneg 1] : List (ConeT Int)) := exInputOK
example : PermFor P #[1] A #[1] ([.nonneg 1] : List (ConeT Int)) (st 3) #[0, 1] := exPermFor
example : PivotOK (st 3).lin := exPivotOK 3
example : FmaxOK Int := exFmaxOK
/-- … `new` returns a solver object, and its `solve()` returns -/
example : ∃ S r, newSolver 3 = .ok S ∧ S.solve (st 3) = .ok r ∧ SolverInvQ r.S := by
  obtain ⟨S, hS⟩ := exNew_ok
  obtain ⟨r, hr, hI⟩ := (full_no_panic exInputOK (by decide) exPermFor (exPivotOK 3) exFmaxOK).2 S hS
  exact ⟨S, r, hS, hr, hI⟩

end NoPanicExamples

end Clarabel.C04
