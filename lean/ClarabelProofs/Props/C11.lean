/-
  C11 — the assembled KKT system is the intended matrix, for every cone layout.
  Property theorems only; helper lemmas live in `ClarabelProofs/Lemmas/Kkt*.lean`.

  Classes: [S] structural (holds for every scalar type, `Float` included),
           [F] exact identity in a field, [R] over `ℝ` (with `Real.sqrt`).
-/
import ClarabelModel.Kkt
import ClarabelProofs.Lemmas.KktPlace
import ClarabelProofs.Lemmas.KktExpansion
import ClarabelProofs.Lemmas.KktRestore
import ClarabelProofs.Lemmas.KktUpdate
import ClarabelProofs.Lemmas.KktUpdateSparse
import ClarabelProofs.Lemmas.KktFillBlock

namespace Clarabel.C11
open Clarabel Clarabel.Csc Clarabel.Kkt
open Clarabel.Lemmas.KktPlace
open Clarabel.Lemmas.KktExpansion
open Clarabel.Lemmas.KktFillBlock

-- ====================================================================================
-- signs
-- ====================================================================================

/-- [S] `C11.signs`: `_fill_signs` never panics and `dsigns = (+1)ⁿ (−1)ᵐ` followed by
`[-1,+1]` per second-order-cone expansion and `[-1,-1,+1]` per generalised-power-cone
expansion, in cone order. -/
theorem signs (m n : Nat) (maps : Array SparseMap) :
    fillSigns m n maps = .ok ((List.replicate n (1 : Int) ++ List.replicate m (-1)
      ++ (maps.toList.map SparseMap.dsigns).flatten).toArray) :=
  fillSigns_eq m n maps

/-- the sign block of one expansion has as many entries as the expansion has auxiliary
variables -/
theorem signs_block_length (mp : SparseMap) : mp.dsigns.length = mp.pdim := by
  cases mp <;> rfl

-- ====================================================================================
-- assembly (partial)
-- ====================================================================================

section assembly
variable {α : Type}

/-
  Intended full statement (`C11.assembly`): for canonical upper-triangular `P`, canonical
  `A`, any cone list and either triangle, `assembleKktMatrix P A cones shape = .ok (K, map)`
  with `K` canonical of order `n+m+p`, dense meaning `[P A'; A −0]` + full diagonal + Hs
  blocks + expansion rows/columns, all maps injective, pairwise disjoint, pointing at the
  right coordinates, `diag_full[j]` the position of `(j,j)`, `nnz = nnzKKT`.

  Proved here (`assembly_partial`, `assembly_fill_diag_partial`): the *engine* of the
  assembly.  Every `fill_*` utility is, by definition of the model (checked against the
  Rust code function by function on every run), `placeAll` over its schedule of
  `(col,row,value,map slot)`; for ANY schedule run on counters produced by
  `colcount_to_colptr` from column counts that cover the schedule, every entry lands at the
  closed-form slot `colptr₀[col] + #{earlier entries of that column}`, the slots are pairwise
  distinct, each is recorded in its map slot, the counters advance by the column counts and
  nothing else is written.  NOT carried by a theorem: that the counting pass of
  `_kkt_assemble_colcounts` produces exactly the column counts of the concatenated fill
  schedules, the per-column ordering (canonical form), `diag_full`, and the closed form of
  `nnz` — these are covered by the exhaustive small-scope correspondence + the dense oracle.
-/

/-- [S] `C11.assembly_partial`. -/
theorem assembly_partial (K0 : Csc α) (map map' : Array Nat) (K' : Csc α) (sched : List (Entry α))
    (hreg : Regular sched)
    (hcap : ∀ c x, K0.colptr.toList[c]? = some x → cnt c sched ≤ x)
    (h : placeAll (colcountToColptr K0) map sched = .ok (K', map')) :
    -- counters advance by the column counts; sizes are unchanged
    (∀ c, K'.colptr[c]? = ((colcountToColptr K0).colptr[c]?).map (· + cnt c sched)) ∧
    K'.rowval.size = K0.rowval.size ∧ K'.nzval.size = K0.nzval.size ∧ map'.size = map.size ∧
    -- every scheduled entry is stored, at the closed-form destination
    (∀ i e, sched[i]? = some e → ∃ d, destOf (colcountToColptr K0).colptr sched i = some d ∧
        K'.rowval[d]? = some e.row ∧ K'.nzval[d]? = some e.val) ∧
    -- destinations are pairwise distinct
    (∀ i j d, i < j → destOf (colcountToColptr K0).colptr sched i = some d →
        destOf (colcountToColptr K0).colptr sched j ≠ some d) ∧
    -- each destination is recorded in the index map (last writer of a slot wins)
    (∀ i e k, sched[i]? = some e → e.k = some k →
        (∀ j e', i < j → sched[j]? = some e' → e'.k ≠ some k) →
        map'[k]? = destOf (colcountToColptr K0).colptr sched i) ∧
    -- nothing else is touched
    (∀ pos, (∀ i, destOf (colcountToColptr K0).colptr sched i ≠ some pos) →
        K'.rowval[pos]? = K0.rowval[pos]? ∧ K'.nzval[pos]? = K0.nzval[pos]?) ∧
    (∀ k, (∀ e ∈ sched, e.k ≠ some k) → map'[k]? = map[k]?) := by
  have hdis : RangesDisjoint (colcountToColptr K0).colptr sched :=
    rangesDisjoint_cumsum K0.colptr.toList sched hcap
  have S := placeAll_spec sched (colcountToColptr K0, map) (K', map') hreg hdis h
  exact ⟨S.colptr_get, S.rowval_size, S.nzval_size, S.map_size, S.written,
    fun i j d hij hi => destOf_lt_ne _ sched hdis i j d hij hi, S.map_written, S.untouched,
    S.map_untouched⟩

/-- non-vacuity of `assembly_partial`: a two-column count state, three writes. -/
example :
    let K0 : Csc Nat := ⟨2, 2, #[2, 1, 0], #[9, 9, 9], #[9, 9, 9]⟩
    let sched : List (Entry Nat) := [Entry.mk' 0 0 5 0, Entry.mk' 1 1 6 1, Entry.mk' 0 1 7 2]
    (placeAll (colcountToColptr K0) #[0, 0, 0] sched).toOption.map (fun r => (r.1.rowval, r.1.nzval, r.2))
      = some (#[0, 1, 1], #[5, 7, 6], #[0, 2, 1]) := by
  rfl

variable [OfNat α 0]

/-- [S] `fill_diag` instance of the engine: with disjoint free ranges, block entry `i` goes
to the slot the counter of column `offset+i` pointed at; that slot is recorded in
`diagtoKKT[i]` and holds a structural zero in row `offset+i` (i.e. on the diagonal). -/
theorem assembly_fill_diag_partial (K K' : Csc α) (map map' : Array Nat) (off d : Nat)
    (hdis : RangesDisjoint K.colptr (diagSchedule (α := α) off d))
    (h : fillDiag K map off d = .ok (K', map')) (i : Nat) (hi : i < d) :
    ∃ p, K.colptr[off + i]? = some p ∧ map'[i]? = some p ∧
      K'.rowval[p]? = some (off + i) ∧ K'.nzval[p]? = some 0 :=
  fillDiag_spec K K' map map' off d hdis h i hi

/-- every `fill_*` utility is the fill engine run over its schedule (definitional). -/
theorem fill_utilities_are_schedules (K : Csc α) (v : Array Nat) (r c : Nat) (sh : MatrixTriangle) :
    fillColvec K v r c = placeAll K v (colvecSchedule v.size r c) ∧
    fillRowvec K v r c = placeAll K v (rowvecSchedule v.size r c) ∧
    fillDiag K v r c = placeAll K v (diagSchedule r c) ∧
    fillDenseTriangle K v r c sh = placeAll K v (match sh with
      | .triu => denseTriuSchedule r c
      | .tril => denseTrilSchedule r c) :=
  ⟨rfl, rfl, rfl, rfl⟩

/-- [S] `C11.assembly_map_coord` — the `fill_block` coordinate theorem
(`coord(map.P[k]) = coord_P(k)`, `coord(map.A[k])`): for a block `M` with a well-formed
`colptr` (`BlockWF`), filled with free column ranges that do not overlap, stored entry `j`
of column `i` of `M` is recorded at `MtoKKT[j] = d` where `d` lies in the free range of KKT
column `col` (so after `backshift_colptrs` it belongs to that column), holds row `row` and
the value `M.nzval[j]`, with `(row, col) = (M.rowval[j] + initrow, i + initcol)` for shape
`N` (P in triu, A in tril) and `(i + initrow, M.rowval[j] + initcol)` for shape `T`
(A' in triu, P' in tril). -/
theorem assembly_map_coord {α : Type} {M : Csc α} (hwf : BlockWF M) (K K' : Csc α)
    (map map' : Array Nat) (r0 c0 : Nat) (shape : MatrixShape) (sched : List (Entry α))
    (hs : blockSchedule M r0 c0 shape = .ok sched)
    (hdis : RangesDisjoint K.colptr sched)
    (h : fillBlock K M map r0 c0 shape = .ok (K', map'))
    (i j : Nat) (hi : i < M.n) (hlo : M.colptr.getD i 0 ≤ j) (hhi : j < M.colptr.getD (i + 1) 0) :
    ∃ d p, map'[j]? = some d ∧
      K.colptr[(blockCoord shape r0 c0 i (M.rowval.getD j 0)).2]? = some p ∧ p ≤ d ∧
      d < p + cnt (blockCoord shape r0 c0 i (M.rowval.getD j 0)).2 sched ∧
      K'.rowval[d]? = some (blockCoord shape r0 c0 i (M.rowval.getD j 0)).1 ∧
      K'.nzval[d]? = M.nzval[j]? :=
  fillBlock_coord hwf K K' map map' r0 c0 shape sched hs hdis h i j hi hlo hhi

/-- [S] the index map of a block is injective: different stored entries get different
destinations. -/
theorem assembly_map_injective {α : Type} {M : Csc α} (hwf : BlockWF M) (K K' : Csc α)
    (map map' : Array Nat) (r0 c0 : Nat) (shape : MatrixShape) (sched : List (Entry α))
    (hs : blockSchedule M r0 c0 shape = .ok sched)
    (hdis : RangesDisjoint K.colptr sched)
    (h : fillBlock K M map r0 c0 shape = .ok (K', map'))
    (j j' d : Nat) (hj : j < M.rowval.size) (hj' : j' < M.rowval.size) (hne : j ≠ j')
    (hd : map'[j]? = some d) : map'[j']? ≠ some d :=
  fillBlock_dest_ne hwf K K' map map' r0 c0 shape sched hs hdis h j j' d hj hj' hne hd

/-- non-vacuity of `BlockWF`: a 2×2 block with three stored entries. -/
example : BlockWF (⟨2, 2, #[0, 1, 3], #[0, 0, 1], #[4, 1, 2]⟩ : Csc Nat) :=
  ⟨by rfl, by rfl, by intro i hi; match i, hi with
    | 0, _ => decide
    | 1, _ => decide, by rfl, by rfl⟩

end assembly

-- ====================================================================================
-- sparse expansions
-- ====================================================================================

section expansion
variable {α : Type} [Field α] {n : ℕ}

/-- [F] `C11.soc_expansion` (rank-two form): with `u, v, d` as `update_scaling` defines them
(in square-root-free form, `SocSparse`), `D + uu' − vv' = 2ww' − J` entry by entry, hence
`η²(D + uu' − vv') = η²(2ww' − J)`. -/
theorem soc_expansion_rank2 (h2 : (2 : α) ≠ 0) {w0 : α} {w1 : Fin n → α} {d u0 u1 v1 : α}
    (h : SocSparse w0 w1 d u0 u1 v1) (η : α) (i j : Fin (n + 1)) :
    η * η * ((if i = j then socD d i else 0) + socU u0 u1 w1 i * socU u0 u1 w1 j
        - socV v1 w1 i * socV v1 w1 j)
      = η * η * (2 * socW w0 w1 i * socW w0 w1 j - (if i = j then socJ i else 0)) := by
  rw [soc_rank2_identity h2 h i j]

/-- [F] `C11.soc_expansion` (Schur complement, entrywise): eliminating the two auxiliary
rows/columns of `[−η²D, −η²v, −η²u; ·, −η², 0; ·, 0, η²]` gives `−η²(2ww' − J)`. -/
theorem soc_expansion_schur (h2 : (2 : α) ≠ 0) {w0 : α} {w1 : Fin n → α} {d u0 u1 v1 η : α}
    (h : SocSparse w0 w1 d u0 u1 v1) (hη : η ≠ 0) (i j : Fin (n + 1)) :
    -(η * η) * (if i = j then socD d i else 0)
      - ((-(η * η) * socV v1 w1 i) * (-(η * η))⁻¹ * (-(η * η) * socV v1 w1 j)
        + (-(η * η) * socU u0 u1 w1 i) * (η * η)⁻¹ * (-(η * η) * socU u0 u1 w1 j))
    = -(η * η * (2 * socW w0 w1 i * socW w0 w1 j - (if i = j then socJ i else 0))) :=
  soc_schur_entry h2 h hη i j

/-- [F] `C11.soc_expansion` (as a linear solve): if `(x, a, b)` satisfies the three block
rows of the expanded system, then the cone rows say `r = −H x` with `H x` exactly what
`mul_Hs` computes (`socMulHs`). -/
theorem soc_expansion (h2 : (2 : α) ≠ 0) {w0 : α} {w1 : Fin n → α} {d u0 u1 v1 η : α}
    (h : SocSparse w0 w1 d u0 u1 v1) (hη : η ≠ 0) (x r : Fin (n + 1) → α) (a b : α)
    (hrow : ∀ i, -(η * η) * socD d i * x i + (-(η * η) * socV v1 w1 i) * a
      + (-(η * η) * socU u0 u1 w1 i) * b = r i)
    (hv : (-(η * η)) * dot (socV v1 w1) x + (-(η * η)) * a = 0)
    (hu : (-(η * η)) * dot (socU u0 u1 w1) x + (η * η) * b = 0) :
    ∀ i, r i = -(socMulHs η (socW w0 w1) x i) :=
  soc_schur_solve h2 h hη x r a b hrow hv hu

/-- non-vacuity: for every `x` the expanded system has a solution. -/
example {w1 : Fin n → α} {d u0 u1 v1 η : α} (x : Fin (n + 1) → α) :
    ∃ (a b : α) (r : Fin (n + 1) → α),
      (∀ i, -(η * η) * socD d i * x i + (-(η * η) * socV v1 w1 i) * a
        + (-(η * η) * socU u0 u1 w1 i) * b = r i) ∧
      (-(η * η)) * dot (socV v1 w1) x + (-(η * η)) * a = 0 ∧
      (-(η * η)) * dot (socU u0 u1 w1) x + (η * η) * b = 0 :=
  ⟨-dot (socV v1 w1) x, dot (socU u0 u1 w1) x, _, fun _ => rfl, by ring, by ring⟩

/-- [F] identity-scaling case (`set_identity_scaling`: `w = e₀, η = 1, d = ½, u = (1/√2)e₀,
v = 0`): `D + uu' − vv' = 2ww' − J = I`. -/
theorem soc_expansion_identity_scaling (h2 : (2 : α) ≠ 0) {s : α} (hs : s * s = 1 / 2)
    (i j : Fin (n + 1)) :
    (if i = j then socD (1 / 2 : α) i else 0)
      + (Fin.cons s (fun _ => 0) : Fin (n + 1) → α) i * (Fin.cons s (fun _ => 0) : Fin (n + 1) → α) j
      - (Fin.cons 0 (fun _ => 0) : Fin (n + 1) → α) i * (Fin.cons 0 (fun _ => 0) : Fin (n + 1) → α) j
    = 2 * socW (1 : α) (fun _ => 0) i * socW (1 : α) (fun _ => 0) j - (if i = j then socJ i else 0) :=
  soc_identity_scaling h2 hs i j

/-- [R] the square-root formulas of `update_scaling` (`u0 = √(wsq − d)`, `u1 = 2w0/u0`,
`v1 = √(2(2 + wsq⁻¹)/(2wsq − wsq⁻¹))`, `d = ½ wsq⁻¹`) satisfy `SocSparse` for every
normalised real `w` (`w0² − ‖w1‖² = 1`), so the three theorems above apply to exactly the
numbers the code computes (up to rounding). -/
theorem soc_expansion_real (w0 : ℝ) (w1 : Fin n → ℝ) (unit : w0 * w0 - dot w1 w1 = 1) :
    SocSparse w0 w1
      ((1 / 2) * (w0 * w0 + dot w1 w1)⁻¹)
      (Real.sqrt ((w0 * w0 + dot w1 w1) - (1 / 2) * (w0 * w0 + dot w1 w1)⁻¹))
      (2 * w0 / Real.sqrt ((w0 * w0 + dot w1 w1) - (1 / 2) * (w0 * w0 + dot w1 w1)⁻¹))
      (Real.sqrt (2 * (2 + (w0 * w0 + dot w1 w1)⁻¹)
        / (2 * (w0 * w0 + dot w1 w1) - (w0 * w0 + dot w1 w1)⁻¹))) :=
  soc_sparse_real w0 w1 unit

/-- non-vacuity of `SocSparse`: `w = (5/4, 3/4)`. -/
example : ∃ (d u0 u1 v1 : ℝ), SocSparse (n := 1) (5 / 4 : ℝ) (fun _ => 3 / 4) d u0 u1 v1 :=
  ⟨_, _, _, _, soc_sparse_real _ _ (by simp [dot]; norm_num)⟩

/-- [F] `C11.genpow_expansion` (entrywise): the Schur complement of the three auxiliary
rows/columns of `[−μD, −√μ q, −√μ r, −√μ p; ·, −1, 0, 0; ·, 0, −1, 0; ·, 0, 0, 1]` is
`−μ(D + pp' − qq' − rr')` (the `√μ` is distributed to the off-diagonal columns). -/
theorem genpow_expansion_schur {m : ℕ} {μ sm : α} (hsm : sm * sm = μ) (D p q r : Fin m → α)
    (i j : Fin m) :
    -(μ * (if i = j then D i else 0))
      - ((-sm * q i) * (-1 : α)⁻¹ * (-sm * q j) + (-sm * r i) * (-1 : α)⁻¹ * (-sm * r j)
        + (-sm * p i) * (1 : α)⁻¹ * (-sm * p j))
    = -(μ * ((if i = j then D i else 0) + p i * p j - q i * q j - r i * r j)) :=
  genpow_schur_entry hsm D p q r i j

/-- [F] `C11.genpow_expansion` (as a linear solve): eliminating the three auxiliary variables
leaves `rhs = −H x` with `H x` what `mul_Hs` computes (`genpowMulHs`). -/
theorem genpow_expansion {m : ℕ} {μ sm : α} (hsm : sm * sm = μ) (D p q r x rhs : Fin m → α)
    (a b c : α)
    (hrow : ∀ i, -(μ * D i) * x i + (-sm * q i) * a + (-sm * r i) * b + (-sm * p i) * c = rhs i)
    (hq : (-sm) * dot q x + (-1) * a = 0) (hr : (-sm) * dot r x + (-1) * b = 0)
    (hp : (-sm) * dot p x + 1 * c = 0) :
    ∀ i, rhs i = -(genpowMulHs μ D p q r x i) :=
  genpow_schur_solve hsm D p q r x rhs a b c hrow hq hr hp

/-- non-vacuity of `genpow_expansion` (over ℚ, `μ = 4`, `√μ = 2`). -/
example (D p q r x : Fin 3 → ℚ) :
    ∃ (a b c : ℚ) (rhs : Fin 3 → ℚ), (2 : ℚ) * 2 = 4 ∧
      (∀ i, -(4 * D i) * x i + (-2 * q i) * a + (-2 * r i) * b + (-2 * p i) * c = rhs i) ∧
      (-2) * dot q x + (-1) * a = 0 ∧ (-2) * dot r x + (-1) * b = 0 ∧
      (-2) * dot p x + 1 * c = 0 :=
  ⟨-2 * dot q x, -2 * dot r x, 2 * dot p x, _, by norm_num, fun _ => rfl,
    by ring, by ring, by ring⟩

end expansion

-- ====================================================================================
-- update writes −H
-- ====================================================================================

section update
variable {α : Type} [Add α] [Sub α] [Mul α] [Div α] [Neg α] [OfNat α 0] [OfNat α 1]
  [LT α] [DecidableLT α] [FloatLike α]

set_option linter.unusedSectionVars false

/-- [S] `C11.update_writes_H` restricted to cone lists without sparse expansions (kept: its
hypotheses are weaker than those of the general theorem below). -/
theorem update_writes_H_nonsparse (nz nz' : Array α) (map : LDLDataMap) (cones : List (ConeScaling α))
    (hns : ∀ c ∈ cones, c.isSparse = false)
    (hnd : map.Hsblocks.toList.Nodup)
    (h : updateValues nz map cones = .ok nz') :
    ∃ blocks, cones.mapM getHs = .ok blocks ∧
      nz'.size = nz.size ∧
      (∀ j, j ∉ map.Hsblocks.toList → nz'[j]? = nz[j]?) ∧
      (∀ k (hk : k < map.Hsblocks.size)
         (_ : map.Hsblocks.size ≤ ((blocks.map Array.toList).flatten).length)
         (hk2 : k < ((blocks.map Array.toList).flatten).length),
        nz'[map.Hsblocks[k]]? = some (-((blocks.map Array.toList).flatten)[k])) :=
  updateValues_nonsparse nz nz' map cones hns hnd h

/-- non-vacuity: one dense (exponential-cone like) block `[h]` at position 0; every
hypothesis of the theorem holds and the written value is `−h`. -/
example (x h : α) :
    updateValues #[x] (LDLDataMap.mk #[] #[] #[0] #[] #[] #[]) [ConeScaling.dense #[h]]
      = .ok #[-h] := by
  simp [updateValues, getHs, updateValuesKKT, ConeScaling.isSparse, setE, pure, Except.pure,
    bind, Except.bind]

/-- [S] `C11.update_writes_H`: for EVERY cone list (sparse expansions included), provided
the index vectors are what the assembly produces (Hs positions distinct and not shared with
an expansion), after `update` the positions `map.Hsblocks` hold `−get_Hs` entry for entry and
every position outside `map.Hsblocks` and outside the expansion index vectors is unchanged
(in particular the `P`, `A` entries and the filled-in diagonal). -/
theorem update_writes_H (nz nz' : Array α) (map : LDLDataMap) (cones : List (ConeScaling α))
    (hnd : map.Hsblocks.toList.Nodup)
    (hdisj : ∀ mp ∈ map.sparse_maps.toList, ∀ j ∈ mp.indices, j ∉ map.Hsblocks.toList)
    (h : updateValues nz map cones = .ok nz') :
    ∃ blocks, cones.mapM getHs = .ok blocks ∧
      nz'.size = nz.size ∧
      (∀ j, j ∉ map.Hsblocks.toList → (∀ mp ∈ map.sparse_maps.toList, j ∉ mp.indices) →
        nz'[j]? = nz[j]?) ∧
      (∀ k (hk : k < map.Hsblocks.size)
         (_ : map.Hsblocks.size ≤ ((blocks.map Array.toList).flatten).length)
         (hk2 : k < ((blocks.map Array.toList).flatten).length),
        nz'[map.Hsblocks[k]]? = some (-((blocks.map Array.toList).flatten)[k])) :=
  updateValues_frame_and_Hs nz nz' map cones hnd hdisj h

/-- [S] `csc_update_sparsecone` only touches its own index vectors. -/
theorem update_sparsecone_frame {nz nz' : Array α} {mp : SparseMap} {c : ConeScaling α}
    (h : updateSparsecone nz mp c = .ok nz') :
    nz'.size = nz.size ∧ ∀ j, j ∉ mp.indices → nz'[j]? = nz[j]? :=
  updateSparsecone_frame h

/-- [S] the second-order-cone expansion entries after the whole `update`: the `i`-th sparse
cone's `u`, `v` positions hold `u·(−η²)`, `v·(−η²)` and its two diagonal positions `−η²`, `η²`
(index vectors of different expansions pairwise disjoint, this one without repetition). -/
theorem update_writes_soc_expansion (nz nz' : Array α) (map : LDLDataMap)
    (cones : List (ConeScaling α)) (hdisj : SparseMapsDisjoint map.sparse_maps)
    (h : updateValues nz map cones = .ok nz')
    {i dim : Nat} {η d : α} {u v : Array α} {mu mv mD : Array Nat}
    (hc : (cones.filter (fun c => c.isSparse))[i]? = some (.socSparse dim η u v d))
    (hm : map.sparse_maps[i]? = some (.soc mu mv mD))
    (hndm : (SparseMap.soc mu mv mD).indices.Nodup)
    (hu : mu.size = u.size) (hv : mv.size = v.size) (hD : mD.size = 2) :
    (∀ k (hk : k < mu.size), nz'[mu[k]]? = some (u[k]'(by omega) * -(η * η))) ∧
    (∀ k (hk : k < mv.size), nz'[mv[k]]? = some (v[k]'(by omega) * -(η * η))) ∧
    nz'[mD[0]'(by omega)]? = some (-(η * η)) ∧
    nz'[mD[1]'(by omega)]? = some (η * η) :=
  updateValues_sparse_entries_soc nz nz' map cones hdisj h hc hm hndm hu hv hD

/-- [S] the generalised-power-cone expansion entries after the whole `update`:
`q,r,p·(−√μ)` and the diagonal `−1, −1, +1`. -/
theorem update_writes_genpow_expansion (nz nz' : Array α) (map : LDLDataMap)
    (cones : List (ConeScaling α)) (hdisj : SparseMapsDisjoint map.sparse_maps)
    (h : updateValues nz map cones = .ok nz')
    {i : Nat} {μ d2 : α} {p q r d1 : Array α} {mp mq mr mD : Array Nat}
    (hc : (cones.filter (fun c => c.isSparse))[i]? = some (.genpow μ p q r d1 d2))
    (hm : map.sparse_maps[i]? = some (.genpow mp mq mr mD))
    (hndm : (SparseMap.genpow mp mq mr mD).indices.Nodup)
    (hp : mp.size = p.size) (hq : mq.size = q.size) (hr : mr.size = r.size) (hD : mD.size = 3) :
    (∀ k (hk : k < mq.size), nz'[mq[k]]? = some (q[k]'(by omega) * -(sqrt μ))) ∧
    (∀ k (hk : k < mr.size), nz'[mr[k]]? = some (r[k]'(by omega) * -(sqrt μ))) ∧
    (∀ k (hk : k < mp.size), nz'[mp[k]]? = some (p[k]'(by omega) * -(sqrt μ))) ∧
    nz'[mD[0]'(by omega)]? = some (-1) ∧ nz'[mD[1]'(by omega)]? = some (-1) ∧
    nz'[mD[2]'(by omega)]? = some 1 :=
  updateValues_sparse_entries_genpow nz nz' map cones hdisj h hc hm hndm hp hq hr hD

end update

-- ====================================================================================
-- regularise / restore
-- ====================================================================================

section restore
variable {α : Type} [OfNat α 0] [Add α] [Sub α] [Mul α] [FloatLike α]

/-- [S] `C11.refinement_copy_clean`: after `regularize_and_refactor` the solver's own KKT
values are exactly what they were before (the copy used by `_get_refine_error` carries no
`ε`) — for every index vector, sign vector and regulariser, enabled or not. -/
theorem refinement_copy_clean (nz : Array α) (diagFull : Array Nat) (dsigns : Array Int)
    (enable : Bool) (c p : α) (r : Regularized α) (nzF : Array α)
    (h : regularizeAndRestore nz diagFull dsigns enable c p = .ok (r, nzF)) :
    r.nzval = nz :=
  regularizeAndRestore_restores h

/-- [S] … while the values handed to the LDL engine in between (`nzF`) are the same matrix
with `diag ± ε` on the full diagonal (sign by `dsigns`), `ε = const + prop·‖diag‖∞`
(`computeRegularizer`), given that `diag_full` has no repeated index. -/
theorem refinement_ldl_copy (nz : Array α) (diagFull : Array Nat) (dsigns : Array Int)
    (c p : α) (r : Regularized α) (nzF : Array α)
    (h : regularizeAndRestore nz diagFull dsigns true c p = .ok (r, nzF))
    (hnd : diagFull.toList.Nodup) :
    nzF.size = nz.size ∧
    (∀ j, j ∉ diagFull.toList → nzF[j]? = nz[j]?) ∧
    (∀ k (hk : k < diagFull.size), ∃ d, nz[diagFull[k]]? = some d ∧
        nzF[diagFull[k]]? = some (match dsigns[k]? with
          | some s => if s == 1 then d + r.eps else d - r.eps
          | none => d)) ∧
    r.diagKkt.size = diagFull.size ∧
    (∀ k (hk : k < diagFull.size), r.diagKkt[k]? = nz[diagFull[k]]?) ∧
    r.eps = computeRegularizer r.diagKkt c p :=
  regularizeAndRestore_factor h hnd

end restore

end Clarabel.C11
